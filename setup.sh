#!/bin/sh
# Offline setup: warm the Go build cache by compiling every check's test binary.
set -e
cd "$(dirname "$0")"
export GOFLAGS=-mod=mod GOPROXY=off GOSUMDB=off GOTOOLCHAIN=local
mkdir -p .build evidence
cd harness
for p in $(go1.26.8 list ./... 2>/dev/null | grep -v /internal/ | grep -v '/cmd/'); do
  n=$(echo "$p" | sed 's#verifharness/##; s#/#_#g')
  go1.26.8 test -c -tags verif -vet=off -o ../.build/$n.test "$p" || exit 1
done
echo setup ok
