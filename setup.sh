#!/bin/sh
# Offline setup: warm the Go build cache by compiling the test binary of every
# package a registered check uses (checks rebuild from /repo on every run).
cd "$(dirname "$0")"
export GOFLAGS=-mod=mod GOPROXY=off GOSUMDB=off GOTOOLCHAIN=local
mkdir -p .build evidence
pkgs=$(python3 -c "import json;print(' '.join(sorted({v['pkg'] for v in json.load(open('checks.json')).values()})))")
cd harness
rc=0
for p in $pkgs; do
  n=$(echo "$p" | sed 's#^\./##; s#/#_#g')
  go1.26.8 test -c -tags verif -vet=off -o ../.build/$n.test "$p" || rc=1
done
[ $rc = 0 ] && echo setup ok
exit $rc
