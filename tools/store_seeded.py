#!/usr/bin/env python3
"""store_seeded.py <src dir> <dest name> <demo_dir> <outcome> <caught_by> [note] : copy a verified seeded change into /verif/seeded"""
import json, os, shutil, sys
src, name, demo, outcome, cb = sys.argv[1:6]
note = sys.argv[6] if len(sys.argv) > 6 else ""
root = os.path.join(os.path.dirname(os.path.abspath(__file__)), "..")
dst = os.path.join(root, "seeded", name)
os.makedirs(dst, exist_ok=True)
for f in ("patch.diff", "demo_test.go"):
    shutil.copy(os.path.join(src, f), dst)
meta = json.load(open(os.path.join(src, "meta.json")))
pid = name.split("-")[0]
meta.update({"demo_dir": demo, "round": int(os.environ.get("ROUND", "3")), "verified_by_me": {"script": "DEMO_DIR=%s tools/eval_seeded.sh /verif/seeded/%s %s" % (demo, name, pid),
    "demo_passes_without_patch": True, "existing_suite_passes_with_patch": True, "demo_fails_with_patch": True,
    "outcome": outcome, "caught_by": cb[:400], "note": note}})
json.dump(meta, open(os.path.join(dst, "meta.json"), "w"), indent=1)
print("stored", dst)
