#!/usr/bin/env python3
"""Print a markdown table of the seeded changes in /verif/seeded (from their meta.json)."""
import json, glob, os, re
rows = []
for d in sorted(glob.glob(os.path.join(os.path.dirname(__file__), "..", "seeded", "*"))):
    try:
        m = json.load(open(os.path.join(d, "meta.json")))
    except Exception:
        continue
    v = m.get("verified_by_me", {})
    name = os.path.basename(d)
    summ = (m.get("summary") or m.get("mechanism") or "")
    summ = re.sub(r"\s+", " ", summ)[:150]
    note = re.sub(r"\s+", " ", v.get("note") or "")[:160]
    rows.append((name, m.get("round", 1), v.get("outcome", "?"), summ, note))
print("| change | round | outcome | what it breaks | added to catch it |")
print("|---|---|---|---|---|")
for r in rows:
    print("| %s | %s | %s | %s | %s |" % tuple(str(x).replace("|", "/") for x in r))
import collections
c = collections.Counter((r[1], r[2]) for r in rows)
print()
print("totals:", dict(c))
