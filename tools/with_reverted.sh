#!/bin/sh
# usage: with_reverted.sh <fix-commit> <property-id> [vcheck args...]
# Temporarily reverse-applies a fix: commit in /repo's working tree, runs the
# property's quick check (which must report the violation), and restores /repo.
c=$1; p=$2; shift 2
git -C /repo show "$c" -- . ':!*_test.go' | git -C /repo apply -R || exit 3
/verif/vcheck -p "$p" "$@"; rc=$?
git -C /repo checkout -- .
echo "exit=$rc (expected 1)"
