#!/bin/sh
# usage: scratch_check.sh (revert <commit> | patch <file> | sed '<expr>' <file-in-repo>) -- <property-id>... 
# Builds a scratch copy of /repo's HEAD, applies the change there, runs the
# quick check of each property against the scratch copy (VERIF_REPO), prints
# CAUGHT/MISSED per property and removes the scratch copy.  /repo is untouched.
S=$(mktemp -d /tmp/scr.XXXXXX)
trap 'rm -rf "$S"' EXIT
mkdir -p $S/repo && (cd /repo && git archive HEAD | tar -x -C $S/repo)
kind=$1; shift
case $kind in
 revert) (cd /repo && git show "$1" -- . ':!*_test.go') | (cd $S/repo && patch -p1 -R -s) || { echo "REVERT FAILED"; exit 3; }; shift;;
 patch) (cd $S/repo && patch -p1 -s < "$1") || { echo "PATCH FAILED"; exit 3; }; shift;;
 sed) sed -i "$1" "$S/repo/$2"; cmp -s "/repo/$2" "$S/repo/$2" && { echo "SED DID NOT CHANGE $2"; exit 3; }; shift 2;;
esac
[ "$1" = "--" ] && shift
export GOFLAGS=-mod=mod GOPROXY=off GOSUMDB=off GOTOOLCHAIN=local
(cd $S/repo && go build ./... ) || { echo "DOES NOT BUILD"; exit 3; }
if [ -n "$RUN_BASELINE" ]; then (cd $S/repo && go test -count=1 ./... 2>&1 | grep -v "^ok\|no test files" ; echo "baseline done"); fi
for p in "$@"; do
  VERIF_REPO=$S/repo /verif/vcheck -p $p ${TIER:+-tier $TIER} > $S/out.$p 2>&1; rc=$?
  if [ $rc = 1 ]; then echo "CAUGHT $p: $(grep -m1 -A1 -- '---- violation' $S/out.$p | tail -1 | cut -c1-300)"; elif [ $rc = 0 ]; then echo "MISSED $p"; else echo "INCONCLUSIVE $p (rc=$rc): $(tail -3 $S/out.$p | cut -c1-300)"; fi
done
