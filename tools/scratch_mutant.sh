#!/bin/sh
# usage: scratch_mutant.sh '<sed-expr>' <file-in-repo> <pkg> <test-regexp> [checks]
# Applies a sed edit to a SCRATCH copy of /repo, runs the named harness tests
# against it, prints pass/fail, removes the scratch copy.  /repo is untouched.
set -e
S=$(mktemp -d /tmp/mut.XXXXXX)
trap 'rm -rf "$S"' EXIT
mkdir -p $S/repo && (cd /repo && git archive HEAD | tar -x -C $S/repo)
rsync -a --exclude testdata/rapid /verif/harness/ $S/harness/
sed -i "s#=> /repo#=> $S/repo#" $S/harness/go.mod
sed -i "$1" "$S/repo/$2"
if (cd /repo && git diff --no-index --quiet "$2" "$S/repo/$2"); then echo "MUTATION DID NOT CHANGE $2"; exit 3; fi
export GOFLAGS=-mod=mod GOPROXY=off GOSUMDB=off GOTOOLCHAIN=local
(cd $S/repo && go build ./... ) || { echo "MUTANT DOES NOT BUILD"; exit 3; }
cd $S/harness
if go1.26.8 test -tags verif -count=1 "$3" -run "$4" -rapid.checks=${5:-3000} -rapid.nofailfile -timeout 600s > $S/out.txt 2>&1; then
  echo "SURVIVED: $1"
else
  echo "KILLED: $1"; grep -m3 "VIOLATION\|panic:\|fatal" $S/out.txt | cut -c1-400
fi
