#!/usr/bin/env python3
"""Regenerates /verif/MANIFEST.json from checks.json and the table below."""
import json, os, subprocess

V = "/verif"
props = [json.loads(l) for l in open(V + "/properties.jsonl")]
checks = json.load(open(V + "/checks.json"))

TEXT = {
 "C01": ("rapid property test: generated struct types (reflect.StructOf) x defaults x 0-5 partial layers (one source object may be listed twice) against a pure stacking model located by field name, plus two metamorphic relations; compiled types through Config[T] with interleaved static / watching sources, in-place re-reports and watchers that finish early; inputs whose leaves share storage; pointer-to-func / pointer-to-chan fields between leaves",
         "Every generated case is stacked by the real compose and compared leaf by leaf with an independent reference model; exploration is bounded (depth<=3, <=8 fields/struct, <=5 layers) and sampled, so it shows absence of violations only on the explored cases."),
 "C02": ("rapid property tests: address-range disjointness + scribble-and-recheck + stack-twice on reflect-built types through compose and on a compiled type through a real Dials with fake watchers; first use of a type from several goroutines; slots of an interface type with methods holding reference implementations; rejected configs collected from OnWatchedError stay isolated and are never installed",
         "Aliasing is invisible to value assertions; the check walks addresses of every pointer/map/slice backing array and also overwrites one version and re-checks all others. Sampled, bounded shapes and histories (<=8 re-stacks)."),
 "C03": ("rapid property test: generated object graphs over a fixed recursive node family; one or two sources may set the same interface field; oracle = terminates + DeepEqual + in->out reference map is a function with fresh range",
         "Graphs of up to 8 nodes with arbitrary edges through every container kind, copied by the deep copier directly, by Config and by a re-stack; process-fatal stack overflows are caught through the per-case journal."),
 "C04": ("rapid stateful histories inside a testing/synctest bubble against an exact reference model; the monitor is parked at schedule points (inside Verify, after the store) while readers look",
         "Every step of a generated history (valid/invalid updates x Skip/Delay options) is compared with a model: rejected updates never stored, view/serial unchanged, error routed to the blocking caller and to OnWatchedError, candidate invisible while Verify runs. Sampled histories (<=14 ops), schedule windows forced by hooks rather than enumerated."),
 "C05": ("rapid stateful histories inside a synctest bubble; oracle = pure reference stack of each source's latest value after every step + store log from a schedule point (serial = predecessor + 1); histories that overflow the callback queue (a monitor that stops stacking deadlocks the bubble); reports racing Events readers; the caller overwriting its defaults after Config; deeply equal watcher objects",
         "Exact comparison after synctest quiescence at every step of histories up to 25 ops from up to 3 sources; interleavings are sequentialised by the harness (plus forced windows), not enumerated."),
 "C06": ("rapid stateful histories inside a synctest bubble; a FIFO model of the callback goroutine predicts the exact global call list; registrations are forced into the store/event window by parking the monitor at a schedule point, slow callbacks park the callback goroutine; overflow histories check that delivered versions are never reordered",
         "The whole ordered list of callback invocations (who, old, new by pointer identity) must equal the model's at every quiescent point; both race orders of store / registration / event are generated deliberately. Bounded histories, queue kept below the documented overflow."),
 "C07": ("rapid stateful histories inside a synctest bubble; caller contexts cancelled before submission or while the monitor is parked in Verify / after the store / before the reply; oracle = exact model + monitor-loop counter + synctest deadlock detection; unstackable values and rejected blocking reports while the callback queue is full; callers with endless contexts waiting for a busy monitor; blocking reports racing Events readers inside one bubble (schedule sampled, verdict by deadlock detection)",
         "Checks read-your-write at return, error/view coupling on rejection, context errors, and that the monitor returns to its loop after an abandoned caller (an unbuffered reply channel is caught). Windows are forced by hooks; other interleavings are sampled."),
 "C08": ("rapid histories ending in a shutdown (cancel or all watchers Done) followed by late API calls under virtual-time contexts, plus free-running multi-goroutine op mixes; oracle = no panic, monitor exits, late calls fail by their deadline, synctest deadlock and goroutine-leak detection; Blank.SetSource/Done scripts after failed or abandoned calls; a structural wedge watchdog (goroutine states, not elapsed time) turns a leaked lock inside a bubble into a replayable failure; reports racing Events readers",
         "Deadlock/leak freedom is decided exactly per explored execution by testing/synctest; the set of executions is sampled (controlled shutdown histories + free-running actors), so rare interleavings may be missed."),
 "C09": ("rapid stateful histories over all Delay x Suppress combinations with and without watchers; exact state machine over the Verify log, EnableVerification results and the global-callback list; the same state machine for a config type without a Verify method and for histories with values that cannot be stacked; lagging callback goroutines",
         "Small state space explored densely (thousands of op sequences of length <=12): Verify never before enable, enable verifies exactly the installed pointer, failure keeps the delay, callbacks withheld iff delay in force and suppress option."),
 "C20": ("rapid differential test: a transforming source with 9 mangler lists around static/watching/failing inner sources vs an unwrapped Dials fed natively, model-based scripts of SetSource/Done on a Blank (inner watchers that report at once or later), all inside synctest bubbles; one transforming decoder value reused for several config types against natively filled values; reflect-built types whose tags are not in the announced casing (the translation error must be propagated)",
         "Views behind the wrapper must equal the unwrapped reference and a pure model after the initial stack and every update; errors must surface; Blank's delegation/ownership rules are checked against a small reference model. Mangler lists come from a fixed menu."),
 "C10": ("rapid property tests: generated struct types x mangler chains (the 15 shipped chain variants built from the exported constructors, plus random sub-chains of all nine manglers, optionally two stacked transformers); a descriptor-level model of each mangler locates translated fields by documented key, fills a subset, reverse-translates (maps with non-string keys carry entries whose value is nil); overlapping decodes of fresh types from several goroutines through the decoders' shared mangler",
         "Result type must equal the pointerified original exactly, each written leaf holds the value converted back, every other leaf is nil, parents allocated iff a child is set, the all-empty value reverses to all-nil; TranslateType's key set must equal the model's. Bounded shapes; key words known by construction."),
 "C11": ("rapid property test of the environment source: generated struct types with dials tags in four spellings at any level, dialsenv tags, prefix, noise variables and bad values; expected variable names and value texts built by the harness, never by the library's case decoders or parsers",
         "A leaf must be set iff its by-construction variable is present, to exactly the generated value; everything else nil; unparsable / out-of-range text is an error. Process environment is set and restored per case; cases run sequentially."),
 "C12": ("rapid property tests for both flag packages: generated struct types x template defaults x name configs x argv (subset, repeats, order, all spellings); names, advertised defaults and values by construction; result stacked between a lower and a higher layer; std flag source also on FlagSets where leaf flags already exist",
         "Flag names, default strings, set/unset pattern, accumulation of repeated collection flags and range errors are predicted by harness code that never calls dials; bounded shapes, sampled."),
 "C13": ("rapid differential test: a generated data tree rendered by the harness's own emitters into JSON, YAML, TOML and Cue, decoded by the four decoders (bare, set->slice wrapped, ez-wrapped), compared with the by-construction value and pairwise after stacking; plus type-directed single-token corruptions that must yield an error and no value",
         "Each decoder is compared with an expected value built from the generated tree (absent key => unset) and with the other three; corruptions are drawn per leaf type and format. Types are restricted to what all four formats can spell (assumptions list the third-party limits)."),
 "C14": ("rapid property tests per alias-capable source (env, flag, pflag incl. shorthands, the four decoders wrapped as ez wraps them, and the real ez entry point): alias tags on fields at any depth, per aliased field neither / primary / alias / both",
         "Names under which values are supplied are known by construction; 'both' must produce an error naming the field (innermost error text), otherwise the value lands in the field and nothing else changes. Struct-typed aliases duplicate the subtree; bounded shapes."),
 "C15": ("rapid round-trip and range properties over every scalar type, four collection kinds and integral slices (canonical text from the flag helpers' String()), structural integer literals (bases, '_', blanks), boundary literals judged with math/big; plus coverage-guided fuzzing of the same properties (rapid.MakeFuzz) in the thorough tier",
         "Pure functions: hundreds of thousands of generated values / literals per run; oracle is parse(canonical(v)) == v and big-integer / exact float range arithmetic independent of strconv's range handling."),
 "C16": ("native go fuzz targets (coverage-guided, thorough tier) and their rapid twins (quick tier) for parse.String at 72 types, the splitters, the 8 case decoders, ParsingDuration, the four decoders on raw bytes, env values and flag argv; plus rapid type-side checks feeding valid input through env / flag / pflag / decoders / mangler chains into types whose leaves are user-defined named types, user pointers and embedded structs",
         "In-target oracle: no panic, the call returns (20 s hang guard, 3 GiB heap watchdog), and on success the value has the requested type. Fuzzing cannot be pinned to a seed; saved failing inputs are the reproducible unit. One third-party finding (Cue evaluator memory blow-up) is listed as known and excluded by construction."),
 "C17": ("rapid property tests on a real directory with a real WatchingSource in real time: histories of 1..12 file operations (in-place, rename-over, delete+recreate, Kubernetes ..data/..dir swap, plain symlink retarget; in-place rewrites of equal length also without truncation and with the old modification time put back; new / same / malformed / restored content; pauses 0/1/30 ms), JSON and YAML; optionally a second watched file and a leading Blank that calls Done in the same Dials; convergence decided by polling plus the parked-goroutines rule, never by a bare timeout",
         "After the last operation the view must equal decode(final content) over the defaults, or the last good config with a decoder error delivered; identical-bytes atomic replacement must not create a version (serial barrier argument, no wall-clock bound); after cancel WG.Wait returns, no file/fsnotify goroutine and no inotify descriptor remains. Kernel event timing is sampled, not owned; an unsettled wait is inconclusive (exit 2), never a violation."),
 "C18": ("rapid property tests of the ez entry points: per leaf a subset of {default, file, env, flag} with by-construction distinct values, four formats and all entry points, path from default/env/flag with decoy files, missing/malformed files, content-dependent Verify with a receiver log; watch-off cases inside a synctest bubble, watch-on cases in real time with later atomic file replacements",
         "First view must be flag > env > file > default per leaf; every Verify receiver must be a full stack (never the file-less intermediate); Verify failure is the entry point's error; nothing pending on Events / global callbacks at return; rewrites converge under the same precedence. No bare timeout is a violation (parked-goroutines rule, else inconclusive)."),
 "C19": ("rapid property tests: decode(encode(ws)) == ws for six schemes; Go identifiers assembled from words and initialisms must split into the assembly list; the round trip again while 8 goroutines convert different word lists at once",
         "Cheap pure functions: hundreds of thousands of generated word lists / identifiers per run against a by-construction oracle."),
}

def head(rev):
    return subprocess.run(["git", "-C", "/repo", "rev-parse", "--short", rev], capture_output=True, text=True).stdout.strip()

hook_commits = [l.split()[0] for l in subprocess.run(["git", "-C", "/repo", "log", "--format=%h %s"], capture_output=True, text=True).stdout.splitlines() if l.split(" ", 1)[1].startswith("verif hooks")]

m = {
 "version": 1,
 "setup_cmd": "./setup.sh",
 "hooks": {
  "guard": "verif (Go build tag)",
  "enable": "go1.26.8 test -tags verif; the harness module (/verif/harness) replaces github.com/vimeo/dials with /repo, so every build compiles /repo's current working tree",
  "baseline_off_cmd": "cd /repo && GOFLAGS=-mod=mod GOPROXY=off GOSUMDB=off GOTOOLCHAIN=local go test -json -vet=off -count=1 -timeout 25m ./...",
  "source_commits": hook_commits,
  "add_only": True,
 },
 "engines": [{"name": "vcheck", "path": "/verif/vcheck", "serves_properties": sorted(checks.keys()),
              "kind_free_text": "python driver: builds Go test binaries (pgregory.net/rapid v1.3.0 property checks, testing/synctest bubbles, native go fuzz targets) from /repo's working tree with -tags verif, replays the committed corpus, shards generation over 16 processes in the thorough tier, merges statistics into evidence/<id>.json"}],
 "checks": [],
 "notes": "All checks are property-based tests / fuzzing (see DESIGN.md). Exit 0 = held on everything explored, 1 = VIOLATION line, 2 = inconclusive (never a violation). known_findings.json lists repaired (fixed:) and unrepaired (known) genuine defects.",
 "not_applicable": [],
}
for p in props:
    pid = p["id"]
    if pid in checks and pid in TEXT:
        tech, note = TEXT[pid]
        m["checks"].append({
            "property_id": pid,
            "quick_cmd": "./vcheck -p %s -tier quick" % pid,
            "thorough_cmd": "./vcheck -p %s -tier thorough" % pid,
            "evidence_file": "/verif/evidence/%s.json" % pid,
            "replay_cmd_template": "./vcheck -p %s -replay {path}" % pid,
            "engine": "vcheck",
            "level_claimed": {"category": "exploration", "text": note, "design_ref": "DESIGN.md section 5, " + pid},
            "level_note": "Trusted base: Go toolchain/runtime (incl. testing/synctest), pgregory.net/rapid, the harness's own generators, reference models and comparers (independent of the code under test), and the verif-tagged hooks in /repo (additive only).",
            "technique": tech,
        })
    else:
        m["not_applicable"].append({"property_id": pid, "reason": "check not built yet in this round (planned in DESIGN.md section 5)"})
json.dump(m, open(V + "/MANIFEST.json", "w"), indent=1)
print("claimed:", [c["property_id"] for c in m["checks"]])
