#!/usr/bin/env python3
"""Regenerates /verif/MANIFEST.json from checks.json and the table below."""
import json, os, subprocess

V = "/verif"
props = [json.loads(l) for l in open(V + "/properties.jsonl")]
checks = json.load(open(V + "/checks.json"))

TEXT = {
 "C01": ("rapid property test: generated struct types (reflect.StructOf) x defaults x 0-5 partial layers against a pure stacking model located by field name, plus two metamorphic relations",
         "Every generated case is stacked by the real compose and compared leaf by leaf with an independent reference model; exploration is bounded (depth<=3, <=8 fields/struct, <=5 layers) and sampled, so it shows absence of violations only on the explored cases."),
 "C02": ("rapid property tests: address-range disjointness + scribble-and-recheck + stack-twice on reflect-built types through compose and on a compiled type through a real Dials with fake watchers",
         "Aliasing is invisible to value assertions; the check walks addresses of every pointer/map/slice backing array and also overwrites one version and re-checks all others. Sampled, bounded shapes and histories (<=8 re-stacks)."),
 "C03": ("rapid property test: generated object graphs over a fixed recursive node family; oracle = terminates + DeepEqual + in->out reference map is a function with fresh range",
         "Graphs of up to 8 nodes with arbitrary edges through every container kind, copied by the deep copier directly, by Config and by a re-stack; process-fatal stack overflows are caught through the per-case journal."),
 "C19": ("rapid property tests: decode(encode(ws)) == ws for six schemes; Go identifiers assembled from words and initialisms must split into the assembly list",
         "Cheap pure functions: hundreds of thousands of generated word lists / identifiers per run against a by-construction oracle."),
}

def head(rev):
    return subprocess.run(["git", "-C", "/repo", "rev-parse", "--short", rev], capture_output=True, text=True).stdout.strip()

hook_commits = [l.split()[0] for l in subprocess.run(["git", "-C", "/repo", "log", "--format=%h %s"], capture_output=True, text=True).stdout.splitlines() if l.split(" ", 1)[1].startswith("verif hooks")]

m = {
 "version": 1,
 "setup_cmd": "./setup.sh",
 "hooks": {
  "guard": "verif (Go build tag)",
  "enable": "go1.26.8 test -tags verif; the harness module (/verif/harness) replaces github.com/vimeo/dials with /repo, so every build compiles /repo's current working tree",
  "baseline_off_cmd": "cd /repo && GOFLAGS=-mod=mod GOPROXY=off GOSUMDB=off GOTOOLCHAIN=local go test -json -vet=off -count=1 -timeout 25m ./...",
  "source_commits": hook_commits,
  "add_only": True,
 },
 "engines": [{"name": "vcheck", "path": "/verif/vcheck", "serves_properties": sorted(checks.keys()),
              "kind_free_text": "python driver: builds Go test binaries (pgregory.net/rapid v1.3.0 property checks, testing/synctest bubbles, native go fuzz targets) from /repo's working tree with -tags verif, replays the committed corpus, shards generation over 16 processes in the thorough tier, merges statistics into evidence/<id>.json"}],
 "checks": [],
 "notes": "All checks are property-based tests / fuzzing (see DESIGN.md). Exit 0 = held on everything explored, 1 = VIOLATION line, 2 = inconclusive (never a violation). known_findings.json lists repaired (fixed:) and unrepaired (known) genuine defects.",
 "not_applicable": [],
}
for p in props:
    pid = p["id"]
    if pid in checks and pid in TEXT:
        tech, note = TEXT[pid]
        m["checks"].append({
            "property_id": pid,
            "quick_cmd": "./vcheck -p %s -tier quick" % pid,
            "thorough_cmd": "./vcheck -p %s -tier thorough" % pid,
            "evidence_file": "/verif/evidence/%s.json" % pid,
            "replay_cmd_template": "./vcheck -p %s -replay {path}" % pid,
            "engine": "vcheck",
            "level_claimed": {"category": "exploration", "text": note, "design_ref": "DESIGN.md section 5, " + pid},
            "level_note": "Trusted base: Go toolchain/runtime (incl. testing/synctest), pgregory.net/rapid, the harness's own generators, reference models and comparers (independent of the code under test), and the verif-tagged hooks in /repo (additive only).",
            "technique": tech,
        })
    else:
        m["not_applicable"].append({"property_id": pid, "reason": "check not built yet in this round (planned in DESIGN.md section 5)"})
json.dump(m, open(V + "/MANIFEST.json", "w"), indent=1)
print("claimed:", [c["property_id"] for c in m["checks"]])
