#!/bin/sh
# usage: eval_seeded.sh <dir with patch.diff [demo_test.go] meta.json> <property-id> [more property ids...]
# 1. scratch copy of /repo HEAD; confirm the demo passes without the patch (if a demo dir is named in its header)
# 2. apply patch; confirm it builds and the existing test suite passes
# 3. run the quick check(s) against the scratch copy; print CAUGHT/MISSED
D=$1; shift
S=$(mktemp -d /tmp/seed.XXXXXX)
trap 'rm -rf "$S"' EXIT
export GOFLAGS=-mod=mod GOPROXY=off GOSUMDB=off GOTOOLCHAIN=local
mkdir -p $S/repo && (cd /repo && git archive HEAD | tar -x -C $S/repo)
demo=$(ls $D/demo*_test.go 2>/dev/null | head -1)
demodir=""
if [ -n "$demo" ]; then
  demodir=$(python3 -c "import json,sys;print(json.load(open('$D/meta.json')).get('demo_dir',''))" 2>/dev/null)
  [ -z "$demodir" ] && demodir=$(grep -m1 -o 'copy[^*]*into[^`"'"'"']*[`"'"'"']\?\([A-Za-z0-9_./-]*\)' $demo | grep -o '[A-Za-z0-9_./-]*$' | tail -1)
fi
if [ -n "$DEMO_DIR" ]; then demodir=$DEMO_DIR; fi
rundemo() {
  [ -z "$demo" ] && { echo "  (no demo test)"; return 0; }
  dd=$S/repo/${demodir:-.}
  mkdir -p $dd; cp $demo $dd/zz_seed_demo_test.go
  (cd $dd && go test -count=1 -run "${DEMO_RUN:-.}" . > $S/demo.out 2>&1); rc=$?
  rm -f $dd/zz_seed_demo_test.go
  return $rc
}
if rundemo; then echo "demo passes without patch"; else echo "DEMO FAILS WITHOUT PATCH (dir=${demodir:-.})"; tail -5 $S/demo.out; fi
(cd $S/repo && git init -q . 2>/dev/null; patch -p1 -s < $D/patch.diff) || { echo "PATCH DOES NOT APPLY"; exit 3; }
(cd $S/repo && go build ./... ) || { echo "DOES NOT BUILD"; exit 3; }
if (cd $S/repo && go test -count=1 ./... > $S/base.out 2>&1); then echo "existing suite passes with patch"; else echo "EXISTING SUITE FAILS WITH PATCH"; grep -v "^ok\|no test files" $S/base.out | head -8; fi
if rundemo; then echo "DEMO PASSES WITH PATCH (not a demonstration)"; else echo "demo fails with patch"; fi
for p in "$@"; do
  VERIF_REPO=$S/repo /verif/vcheck -p $p ${TIER:+-tier $TIER} ${SEED:+-seed $SEED} ${ONLY:+-only $ONLY} > $S/out.$p 2>&1; rc=$?
  if [ $rc = 1 ]; then echo "CAUGHT $p: $(grep -m1 -A2 -- '---- violation' $S/out.$p | tail -2 | tr '\n' ' ' | cut -c1-400)"; elif [ $rc = 0 ]; then echo "MISSED $p"; else echo "INCONCLUSIVE $p (rc=$rc): $(tail -4 $S/out.$p | tr '\n' ' ' | cut -c1-400)"; fi
done
