#!/usr/bin/env python3
"""gen_mutant_prompts.py <round> : write /tmp/mutant_prompts<round>/<id>.txt for every property.
The prompt contains only the property record, the worktree path and one-line summaries of
the seeded changes that already exist (so that new ones differ); nothing else from /verif."""
import json, glob, os, sys
rnd = int(sys.argv[1])
root = os.path.join(os.path.dirname(os.path.abspath(__file__)), "..")
out = "/tmp/mutant_prompts%d" % rnd
os.makedirs(out, exist_ok=True)
words = {2: "two", 4: "four", 6: "six", 8: "eight", 10: "ten", 12: "twelve", 14: "fourteen", 16: "sixteen", 18: "eighteen", 20: "twenty"}
for line in open(os.path.join(root, "properties.jsonl")):
    p = json.loads(line)
    pid = p["id"]
    wt = "/tmp/wt%d/%s" % (rnd, pid)
    dl = "/tmp/mutants%d/%s" % (rnd, pid)
    existing = []
    for d in sorted(glob.glob(os.path.join(root, "seeded", pid + "-*"))):
        try:
            existing.append(json.load(open(os.path.join(d, "meta.json"))).get("summary", "").strip())
        except Exception:
            pass
    n = len(existing)
    txt = """You are a careful Go engineer helping to evaluate a test suite. You have your own scratch git worktree of the Go library vimeo/dials at %(wt)s (a configuration library that stacks struct values from files, env and flags via reflection, with file watching and versioned callbacks). Work ONLY inside %(wt)s (and %(dl)s for your deliverables). Do not read or write anything under /verif or /repo. There is no network. Every shell call needs: export GOFLAGS=-mod=mod GOPROXY=off GOSUMDB=off GOTOOLCHAIN=local   (use the default `go`; run tests with `go test -count=1 ./...` inside %(wt)s; after running go commands check `git status` shows no stray go.mod/go.sum edits, revert them if so).

Here is a semantic property the library is supposed to satisfy (JSON record: id, title, statement, quantifier, why existing tests cannot settle it, anchors into the code):

%(prop)s

Your task: produce TWO different, realistic changes ("seeded defects") to the library's non-test source in %(wt)s, each of which
 (a) BREAKS this property (in a way a real regression or careless refactoring could),
 (b) still compiles, and keeps the ENTIRE existing test suite green (`go test -count=1 ./...` in %(wt)s passes with the change applied — you must run it and confirm),
 (c) needs something specific to manifest — a particular interleaving, a fault at a particular point, a multi-step sequence of operations, an unusual input or type shape, or two cooperating sites that each look fine alone — rather than something ordinary use would expose at once. Avoid trivial always-wrong mutations (e.g. inverting the main condition so everything fails); prefer subtle ones (off-by-one in bookkeeping for one field kind, a missed copy on one path, a wrong comparison operator at a boundary, a dropped reply on one error path, a reordered pair of statements, state kept between calls that should be per call).
The two changes must have different root causes / mechanisms and touch different code where possible. Do not add build tags; do not touch *_test.go files of the library; do not change go.mod.

For EACH change deliver, under %(dl)s/<n>/ (n = 1, 2):
 - patch.diff : `git diff` of the change against the worktree's HEAD (apply-able with `git apply` from the repository root);
 - demo_test.go : a small Go test (package inside the repository, e.g. package dials or an _test package; say in a comment at the top which directory it must be copied into) that FAILS with the change applied and PASSES without it, deterministically if possible (if it depends on scheduling, loop until it manifests and say so) — run it both ways and confirm;
 - meta.json : {"property": "%(pid)s", "summary": one sentence, "mechanism": what the change does, "needs": what is required for the violation to manifest, "files": [changed files], "demo_dir": directory (relative to the repository root, "." for the root) the demo must be copied into, "existing_tests_pass": true, "demo_fails_with_patch": true, "demo_passes_without_patch": true, "commands": [the commands you ran to confirm]}.
Never use `git stash` (the stash is shared between worktrees; use `git diff > file`, `git checkout -- .`, `git apply`). Leave %(wt)s clean (git checkout -- . ; remove untracked files) when you are done. In your final message summarise both changes in a few lines each and name the demo directory of each.

IMPORTANT: %(nw)s seeded defects for this property already exist; yours must be DIFFERENT from all of them in mechanism AND in the clause / quantifier dimension they exercise. Work like this: first split the statement into its individual clauses and the quantifier into its dimensions (which kinds of inputs, types, histories, schedules, configurations it ranges over); note which clause x dimension combinations the existing ones touch; then choose two combinations they do NOT touch (for example: another file among the anchors, another option combination, another field kind or nesting shape, another entry point that the statement covers, a different position in a sequence, an error path instead of a success path and its clean-up, state that survives from one call to the next or from one config type to the next when an object is reused, two API calls overlapping in time, a context cancelled at an unusual point, the interaction of two features or options that are each fine alone, unusual but legal type shapes such as named types, pointers to collections, embedded structs, deep nesting, maps with non-string keys, boundary values) and seed your defects there. The existing ones are:
%(ex)s
Also note: the repository in your worktree already contains many recent bug-fix commits (see `git log`); do not simply revert one of them.
""" % {"wt": wt, "dl": dl, "pid": pid, "prop": json.dumps(p, indent=1), "nw": words.get(n, str(n)), "ex": "\n".join(" - " + e for e in existing)}
    open(os.path.join(out, pid + ".txt"), "w").write(txt)
print("wrote", out)
