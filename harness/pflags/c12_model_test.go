package pflags

// Harness-side model for C12: the catalogue of flag-supported leaf types,
// the naming rule, value construction from seeds, rendering of values in the
// documented command-line syntax, parsers for advertised defaults, and the
// accumulation model.  Nothing in this file calls the code under test.

import (
	"encoding"
	"fmt"
	"math"
	"net"
	"reflect"
	"sort"
	"strconv"
	"strings"
	"time"

	"verifharness/internal/shape"
)

// ---- named types of this package (reflect cannot mint named types) ----

// NC64 is a named complex64.
type NC64 complex64

// NC128 is a named complex128.
type NC128 complex128

// Word is a named uintptr.
type Word uintptr

// Tiny is a named int8.
type Tiny int8

// Gain is a named float32.
type Gain float32

// EmbF is an embeddable struct with a collection and a named scalar.
type EmbF struct {
	EfNum   int
	EfList  []string
	EfLevel shape.Level
}

// EmbG is an embeddable struct with a skipped field and a nested struct.
type EmbG struct {
	EgFirst  uint16
	egHidden int
	EgSecond time.Duration
	EgInner  struct {
		Deep float32
		Tag  string
	}
}

func init() {
	shape.RegisterBase("NC64", reflect.TypeOf(NC64(0)))
	shape.RegisterBase("NC128", reflect.TypeOf(NC128(0)))
	shape.RegisterBase("Word", reflect.TypeOf(Word(0)))
	shape.RegisterBase("Tiny", reflect.TypeOf(Tiny(0)))
	shape.RegisterBase("Gain", reflect.TypeOf(Gain(0)))
	shape.RegisterBase("EmbF", reflect.TypeOf(EmbF{}))
	shape.RegisterBase("EmbG", reflect.TypeOf(EmbG{}))
	_ = EmbG{}.egHidden
}

// embedDefs describes the retained fields of the embeddable types with the
// words of their names (decoded by hand with the documented Go-identifier
// rules).
var embedDefs = map[string][]shape.Field{
	"EmbA": {
		{Name: "EaNum", Words: []string{"ea", "num"}, Kind: "leaf", Type: "int"},
		{Name: "EaText", Words: []string{"ea", "text"}, Kind: "leaf", Type: "string"},
	},
	"EmbC": {
		{Name: "EcFirst", Words: []string{"ec", "first"}, Kind: "leaf", Type: "int16"},
		{Name: "EcSecond", Words: []string{"ec", "second"}, Kind: "leaf", Type: "string"},
		{Name: "EcInner", Words: []string{"ec", "inner"}, Kind: "struct", Fields: []shape.Field{
			{Name: "Deep", Words: []string{"deep"}, Kind: "leaf", Type: "uint32"},
			{Name: "Tag", Words: []string{"tag"}, Kind: "leaf", Type: "string"},
		}},
	},
	"EmbF": {
		{Name: "EfNum", Words: []string{"ef", "num"}, Kind: "leaf", Type: "int"},
		{Name: "EfList", Words: []string{"ef", "list"}, Kind: "leaf", Type: "[]string"},
		{Name: "EfLevel", Words: []string{"ef", "level"}, Kind: "leaf", Type: "Level"},
	},
	"EmbG": {
		{Name: "EgFirst", Words: []string{"eg", "first"}, Kind: "leaf", Type: "uint16"},
		{Name: "EgSecond", Words: []string{"eg", "second"}, Kind: "leaf", Type: "time.Duration"},
		{Name: "EgInner", Words: []string{"eg", "inner"}, Kind: "struct", Fields: []shape.Field{
			{Name: "Deep", Words: []string{"deep"}, Kind: "leaf", Type: "float32"},
			{Name: "Tag", Words: []string{"tag"}, Kind: "leaf", Type: "string"},
		}},
	},
}

// ---- leaf catalogue ----

// leafClass says how a leaf type is spelled on the command line.
type leafClass int

const (
	clUnsupported leafClass = iota
	clBool
	clInt
	clUint
	clFloat
	clComplex
	clString
	clDuration
	clTime
	clText // encoding.TextUnmarshaler other than time.Time
	clStrSlice
	clIntSlice
	clUintSlice
	clStrMap      // map[string]string
	clStrSliceMap // map[string][]string
	clStrSet      // map[string]struct{}
)

func (c leafClass) String() string {
	return [...]string{"unsupported", "bool", "int", "uint", "float", "complex", "string", "duration", "time", "text",
		"strslice", "intslice", "uintslice", "strmap", "strslicemap", "strset"}[c]
}

func (c leafClass) collection() bool { return c >= clStrSlice }

var (
	tTime     = reflect.TypeOf(time.Time{})
	tDuration = reflect.TypeOf(time.Duration(0))
	tString   = reflect.TypeOf("")
	tStrSlice = reflect.TypeOf([]string(nil))
	tStrMap   = reflect.TypeOf(map[string]string(nil))
	tStrSlMap = reflect.TypeOf(map[string][]string(nil))
	tStrSet   = reflect.TypeOf(map[string]struct{}(nil))
	tTextU    = reflect.TypeOf((*encoding.TextUnmarshaler)(nil)).Elem()
)

// classify applies the documented support list of the flag sources: time.Time,
// text-unmarshalable types, time.Duration, every scalar kind (named or not),
// []string, the unnamed integer slices, map[string]string,
// map[string][]string and map[string]struct{}.  Everything else (named
// slices/maps, float/bool slices, other maps, arrays) gets no flag.
func classify(t reflect.Type) leafClass {
	switch {
	case t == tTime:
		return clTime
	case t.Implements(tTextU) || reflect.PointerTo(t).Implements(tTextU):
		return clText
	case t == tDuration:
		return clDuration
	}
	switch t.Kind() {
	case reflect.Bool:
		return clBool
	case reflect.Int, reflect.Int8, reflect.Int16, reflect.Int32, reflect.Int64:
		return clInt
	case reflect.Uint, reflect.Uint8, reflect.Uint16, reflect.Uint32, reflect.Uint64, reflect.Uintptr:
		return clUint
	case reflect.Float32, reflect.Float64:
		return clFloat
	case reflect.Complex64, reflect.Complex128:
		return clComplex
	case reflect.String:
		return clString
	case reflect.Slice:
		if t == tStrSlice {
			return clStrSlice
		}
		if t.Name() != "" {
			return clUnsupported
		}
		e := t.Elem()
		if e.Name() != e.Kind().String() { // named element types are not in the list
			return clUnsupported
		}
		switch e.Kind() {
		case reflect.Int, reflect.Int8, reflect.Int16, reflect.Int32, reflect.Int64:
			return clIntSlice
		case reflect.Uint, reflect.Uint8, reflect.Uint16, reflect.Uint32, reflect.Uint64, reflect.Uintptr:
			return clUintSlice
		}
	case reflect.Map:
		switch t {
		case tStrMap:
			return clStrMap
		case tStrSlMap:
			return clStrSliceMap
		case tStrSet:
			return clStrSet
		}
	}
	return clUnsupported
}

// ---- walking a shape: leaves with their name components ----

// leaf is one leaf field of the generated config type.
type leaf struct {
	Path     string // dotted Go field names (embedded structs by type name)
	TypeExpr string
	T        reflect.Type
	Class    leafClass
	Comps    []string // name components along the path (dials tag verbatim, or the words of the field name)
	GoNames  []string // Go field names along the path without embedded structs
	SrcTag   string   // the tag of the source under test
	HasSrc   bool
	Short    string // pflag shorthand tag
	Idx      []int  // index path of generated fields in the shape tree (stops at an embedded field)
	InEmbed  bool   // declared inside an embeddable named type
}

// srcTagName returns the leaf-name tag of a source.
func srcTagName(src string) string {
	if src == "pflag" {
		return "dialspflag"
	}
	return "dialsflag"
}

func collectLeaves(fs []shape.Field, src string) ([]leaf, error) {
	var out []leaf
	err := walkFields(fs, src, nil, nil, nil, nil, false, &out)
	return out, err
}

func walkFields(fs []shape.Field, src string, names, comps, gonames []string, idx []int, inEmbed bool, out *[]leaf) error {
	for i, f := range fs {
		if f.Kind == "skip" {
			continue
		}
		tag := reflect.StructTag(f.Tag)
		fidx := idx
		if !inEmbed {
			fidx = append(append([]int{}, idx...), i)
		}
		fname := f.Name
		fcomps := append([]string{}, comps...)
		fgo := append([]string{}, gonames...)
		anonymous := f.Kind == "embed" || f.Kind == "pembed"
		if dt, ok := tag.Lookup("dials"); ok {
			fcomps = append(fcomps, dt)
		} else if !anonymous {
			fcomps = append(fcomps, f.Words...)
		}
		if !anonymous {
			fgo = append(fgo, f.Name)
		}
		fnames := append(append([]string{}, names...), fname)
		switch f.Kind {
		case "leaf":
			t, err := shape.ParseType(f.Type)
			if err != nil {
				return err
			}
			l := leaf{Path: strings.Join(fnames, "."), TypeExpr: f.Type, T: t, Class: classify(t), Comps: fcomps, GoNames: fgo, Idx: fidx, InEmbed: inEmbed}
			if shape.IsTextStruct(t) || t.Kind() != reflect.Struct {
				// ok
			} else {
				return fmt.Errorf("leaf %s has struct type %s", l.Path, t)
			}
			l.SrcTag, l.HasSrc = tag.Lookup(srcTagName(src))
			if src == "pflag" {
				l.Short = tag.Get("dialspflagshort")
			}
			*out = append(*out, l)
		case "struct", "pstruct":
			if err := walkFields(f.Fields, src, fnames, fcomps, fgo, fidx, inEmbed, out); err != nil {
				return err
			}
		case "embed", "pembed":
			def, ok := embedDefs[f.Type]
			if !ok {
				return fmt.Errorf("no embed definition for %q", f.Type)
			}
			if err := walkFields(def, src, fnames, fcomps, fgo, fidx, true, out); err != nil {
				return err
			}
		default:
			return fmt.Errorf("unknown field kind %q", f.Kind)
		}
	}
	return nil
}

// ---- name configs ----

type nameCfg struct {
	Tag   string // kebab | snake | dot | shout
	Field string // camel | usnake | custom
}

func parseNameCfg(s string) (nameCfg, bool) {
	a, b, ok := strings.Cut(s, "/")
	if !ok {
		return nameCfg{}, false
	}
	switch a {
	case "kebab", "snake", "dot", "shout":
	default:
		return nameCfg{}, false
	}
	switch b {
	case "camel", "usnake", "custom":
	default:
		return nameCfg{}, false
	}
	return nameCfg{Tag: a, Field: b}, true
}

// customDot and customShout are the harness's own tag encoders.
func customDot(ws []string) string { return strings.Join(ws, ".") }
func customShout(ws []string) string {
	up := make([]string, len(ws))
	for i, w := range ws {
		up[i] = strings.ToUpper(w)
	}
	return strings.Join(up, "__")
}

// customField is the harness's own field-name encoder (valid exported Go
// identifiers, injective on Go name lists).
func customField(ws []string) string { return "X_" + strings.Join(ws, "_") }

// encodeName is the oracle's rendering of a component list.
func (c nameCfg) encodeName(comps []string) string {
	switch c.Tag {
	case "snake":
		lo := make([]string, len(comps))
		for i, w := range comps {
			lo[i] = strings.ToLower(w)
		}
		return strings.Join(lo, "_")
	case "dot":
		return customDot(comps)
	case "shout":
		return customShout(comps)
	}
	return strings.Join(comps, "-")
}

// flagName is the expected flag name of a leaf ("" + false: no flag).
func (c nameCfg) flagName(l leaf) (string, bool) {
	if l.HasSrc {
		if l.SrcTag == "-" {
			return "-", false
		}
		if l.Class == clUnsupported {
			return l.SrcTag, false
		}
		return l.SrcTag, true
	}
	return c.encodeName(l.Comps), l.Class != clUnsupported
}

// goFieldKey is the flattened Go field name the library derives for a leaf
// with the standard field-name encoders; two leaves with the same key cannot
// coexist in one flattened struct type.
func (c nameCfg) goFieldKey(l leaf) string {
	switch c.Field {
	case "usnake":
		return strings.ToUpper(strings.Join(l.GoNames, "_"))
	case "custom":
		return customField(l.GoNames)
	}
	return strings.Join(l.GoNames, "")
}

// ---- deterministic value construction ----

type sm64 struct{ s uint64 }

func (r *sm64) next() uint64 {
	r.s += 0x9e3779b97f4a7c15
	z := r.s
	z = (z ^ (z >> 30)) * 0xbf58476d1ce4e5b9
	z = (z ^ (z >> 27)) * 0x94d049bb133111eb
	return z ^ (z >> 31)
}

var argElems = []string{"a", "b", "c", "zed", "x y", "k:v", "a,b", "", "ünï", `q"t`, "tab\t", "-d", "1", "new\nline", `back\slash`, "'s'", "#h", " lead"}
var argKeys = []string{"a", "b", "c", "k d", "x:y", "q,r", "Key"}

// argValue builds the value one command-line occurrence carries.  Scalars
// come from shape.MakeValue; collections are drawn from a small vocabulary so
// that repeated flags overlap in keys and elements.
func argValue(l leaf, seed uint64) reflect.Value {
	r := &sm64{s: seed ^ 0xc12c12}
	switch l.Class {
	case clStrSlice:
		n := int(r.next() % 4)
		s := make([]string, n)
		for i := range s {
			s[i] = argElems[r.next()%uint64(len(argElems))]
		}
		return reflect.ValueOf(s)
	case clStrSet:
		n := int(r.next() % 4)
		m := map[string]struct{}{}
		for i := 0; i < n; i++ {
			m[argElems[r.next()%uint64(len(argElems))]] = struct{}{}
		}
		return reflect.ValueOf(m)
	case clStrMap:
		n := int(r.next() % 4)
		m := map[string]string{}
		for i := 0; i < n; i++ {
			m[argKeys[r.next()%uint64(len(argKeys))]] = argElems[r.next()%uint64(len(argElems))]
		}
		return reflect.ValueOf(m)
	case clStrSliceMap:
		n := int(r.next() % 3)
		m := map[string][]string{}
		for i := 0; i < n; i++ {
			k := argKeys[r.next()%uint64(len(argKeys))]
			for j := int(r.next()%2) + 1; j > 0; j-- {
				m[k] = append(m[k], argElems[r.next()%uint64(len(argElems))])
			}
		}
		return reflect.ValueOf(m)
	case clIntSlice, clUintSlice:
		n := int(r.next()%3) + 1 // empty integer lists come from C12Arg.Empty
		s := reflect.MakeSlice(l.T, n, n)
		for i := 0; i < n; i++ {
			s.Index(i).Set(shape.MakeValue(l.T.Elem(), r.next()|1, shape.ValueOpts{}))
		}
		return s
	case clText:
		// go through the text form so that the expected value is what the
		// type's own UnmarshalText yields (net.IP: 16-byte form)
		v := shape.MakeValue(l.T, seed, shape.ValueOpts{})
		txt := renderText(v)
		p := reflect.New(l.T)
		if err := p.Interface().(encoding.TextUnmarshaler).UnmarshalText([]byte(txt)); err != nil {
			panic(fmt.Sprintf("harness: %s does not read its own text %q: %v", l.T, txt, err))
		}
		return p.Elem()
	}
	return shape.MakeValue(l.T, seed, shape.ValueOpts{})
}

func renderText(v reflect.Value) string {
	if ip, ok := v.Interface().(net.IP); ok {
		if len(ip) == 0 {
			return ""
		}
		return ip.String()
	}
	if m, ok := v.Interface().(encoding.TextMarshaler); ok {
		b, err := m.MarshalText()
		if err != nil {
			panic(err)
		}
		return string(b)
	}
	panic(fmt.Sprintf("harness: no text form for %s", v.Type()))
}

// ---- rendering in the documented command-line syntax ----

var simpleToken = func(s string) bool {
	if s == "" {
		return false
	}
	for i, c := range s {
		if !(c >= 'a' && c <= 'z' || c >= 'A' && c <= 'Z' || i > 0 && c >= '0' && c <= '9') {
			return false
		}
	}
	return true
}

// quoteElem spells one string element of a dials collection flag: bare when it
// is a plain identifier and the style allows, a raw `...` string when
// possible and the style asks, else a Go-quoted string.
func quoteElem(s string, style uint64) string {
	switch {
	case simpleToken(s) && style%3 != 0:
		return s
	case style%3 == 1 && !strings.ContainsAny(s, "`\r"):
		return "`" + s + "`"
	}
	return strconv.Quote(s)
}

func csvField(s string) string {
	if s == "" || strings.ContainsAny(s, ",\"\n\r") || strings.HasPrefix(s, " ") {
		return `"` + strings.ReplaceAll(s, `"`, `""`) + `"`
	}
	return s
}

func renderInt(x int64, style uint64) string {
	neg := x < 0
	var mag uint64
	if neg {
		mag = uint64(-(x + 1)) + 1
	} else {
		mag = uint64(x)
	}
	s := renderUint(mag, style)
	if neg {
		return "-" + s
	}
	return s
}

func renderUint(x uint64, style uint64) string {
	switch style % 8 {
	case 1:
		return "0x" + strconv.FormatUint(x, 16)
	case 2:
		return "0o" + strconv.FormatUint(x, 8)
	case 3:
		return "0b" + strconv.FormatUint(x, 2)
	}
	return strconv.FormatUint(x, 10)
}

var trueSpellings = []string{"true", "1", "t", "T", "TRUE", "True"}
var falseSpellings = []string{"false", "0", "f", "F", "FALSE", "False"}

func renderFloat(f float64, bits int, style uint64, src string) string {
	switch {
	case math.IsNaN(f):
		return "NaN"
	case math.IsInf(f, 1):
		return []string{"Inf", "+Inf", "inf"}[style%3]
	case math.IsInf(f, -1):
		return "-Inf"
	}
	if bits == 32 && style%2 == 0 && src == "pflag" {
		// pflag parses a float32 flag at 32 bits; the standard flag source
		// parses at 64 bits and narrows, so it gets the exact widened value
		return strconv.FormatFloat(f, 'g', -1, 32)
	}
	return strconv.FormatFloat(f, 'g', -1, 64)
}

// renderValue spells v (of leaf l) as one command-line value for source src.
func renderValue(l leaf, v reflect.Value, style uint64, src string) string {
	switch l.Class {
	case clBool:
		if v.Bool() {
			return trueSpellings[style%uint64(len(trueSpellings))]
		}
		return falseSpellings[style%uint64(len(falseSpellings))]
	case clInt:
		return renderInt(v.Int(), style)
	case clUint:
		return renderUint(v.Uint(), style)
	case clFloat:
		return renderFloat(v.Float(), v.Type().Bits(), style, src)
	case clComplex:
		c := v.Complex()
		s := strconv.FormatComplex(c, 'g', -1, 128)
		if style%2 == 0 {
			s = strings.TrimSuffix(strings.TrimPrefix(s, "("), ")")
		}
		return s
	case clString:
		return v.String()
	case clDuration:
		return time.Duration(v.Int()).String()
	case clTime:
		return v.Interface().(time.Time).Format(time.RFC3339Nano)
	case clText:
		return renderText(v)
	case clStrSlice:
		parts := make([]string, v.Len())
		for i := range parts {
			if src == "pflag" {
				parts[i] = csvField(v.Index(i).String())
			} else {
				parts[i] = quoteElem(v.Index(i).String(), style+uint64(i))
			}
		}
		return strings.Join(parts, ",")
	case clStrSet:
		keys := sortedStringKeys(v)
		// rotate so the order on the command line is not always sorted
		if len(keys) > 1 {
			k := int(style) % len(keys)
			keys = append(keys[k:], keys[:k]...)
		}
		for i, k := range keys {
			keys[i] = quoteElem(k, style+uint64(i))
		}
		return strings.Join(keys, ",")
	case clStrMap:
		keys := sortedStringKeys(v)
		if len(keys) > 1 {
			k := int(style) % len(keys)
			keys = append(keys[k:], keys[:k]...)
		}
		parts := make([]string, len(keys))
		for i, k := range keys {
			parts[i] = quoteElem(k, style+uint64(i)) + ":" + quoteElem(v.MapIndex(reflect.ValueOf(k)).String(), style+uint64(i)+1)
		}
		return strings.Join(parts, ",")
	case clStrSliceMap:
		keys := sortedStringKeys(v)
		if len(keys) > 1 {
			k := int(style) % len(keys)
			keys = append(keys[k:], keys[:k]...)
		}
		var parts []string
		for i, k := range keys {
			vals := v.MapIndex(reflect.ValueOf(k))
			for j := 0; j < vals.Len(); j++ {
				parts = append(parts, quoteElem(k, style+uint64(i))+":"+quoteElem(vals.Index(j).String(), style+uint64(j)))
			}
		}
		return strings.Join(parts, ",")
	case clIntSlice, clUintSlice:
		parts := make([]string, v.Len())
		for i := range parts {
			if l.Class == clIntSlice {
				parts[i] = renderInt(v.Index(i).Int(), style+uint64(i))
			} else {
				parts[i] = renderUint(v.Index(i).Uint(), style+uint64(i))
			}
			if style%5 == 0 {
				parts[i] = " " + parts[i] // documented: whitespace around the integers is trimmed
			}
		}
		return strings.Join(parts, ",")
	}
	panic("harness: renderValue on unsupported leaf " + l.Path)
}

func sortedStringKeys(m reflect.Value) []string {
	ks := make([]string, 0, m.Len())
	for _, k := range m.MapKeys() {
		ks = append(ks, k.String())
	}
	sort.Strings(ks)
	return ks
}

// badLiteral returns a literal just outside the range of leaf l's type
// (element type for integer slices), or "" if the type has no range.
func badLiteral(l leaf, style uint64) string {
	t := l.T
	switch l.Class {
	case clIntSlice, clUintSlice:
		t = t.Elem()
		lit := badScalar(t, style)
		if style%2 == 0 {
			return "1," + lit
		}
		return lit
	case clInt, clUint, clFloat, clComplex:
		return badScalar(t, style)
	case clDuration:
		return []string{"9223372037s", "-2562048h", "2562048h"}[style%3]
	case clTime:
		return []string{"2021-02-30T00:00:00Z", "2021-13-01T00:00:00Z", "2021-01-01T25:00:00Z"}[style%3]
	}
	return ""
}

func badScalar(t reflect.Type, style uint64) string {
	switch t.Kind() {
	case reflect.Int, reflect.Int8, reflect.Int16, reflect.Int32, reflect.Int64:
		bits := t.Bits()
		if bits == 64 {
			return []string{"9223372036854775808", "-9223372036854775809"}[style%2]
		}
		max := int64(1)<<(bits-1) - 1
		if style%2 == 0 {
			return strconv.FormatInt(max+1, 10)
		}
		return strconv.FormatInt(-max-2, 10)
	case reflect.Uint, reflect.Uint8, reflect.Uint16, reflect.Uint32, reflect.Uint64, reflect.Uintptr:
		bits := t.Bits()
		if style%3 == 0 {
			return "-1"
		}
		if bits == 64 {
			return "18446744073709551616"
		}
		return strconv.FormatUint(uint64(1)<<bits, 10)
	case reflect.Float32:
		return []string{"1e39", "-3.5e38", "3.4028236e38"}[style%3]
	case reflect.Float64:
		return []string{"1e400", "-1.8e308"}[style%2]
	case reflect.Complex64:
		return []string{"1e39+1i", "(1-3.5e38i)"}[style%2]
	case reflect.Complex128:
		return []string{"1e400+0i", "(1+1e309i)"}[style%2]
	}
	return ""
}

// ---- accumulation model ----

// accumulate folds the values of the occurrences of one flag, in command-line
// order: a scalar keeps the last one; for collections the first occurrence
// replaces the default and every later one is added (slices append, sets and
// string maps merge, string-slice maps append per key).
func accumulate(l leaf, vals []reflect.Value) reflect.Value {
	if !l.Class.collection() {
		return vals[len(vals)-1]
	}
	switch l.Class {
	case clStrSlice, clIntSlice, clUintSlice:
		out := reflect.MakeSlice(l.T, 0, 0)
		for _, v := range vals {
			out = reflect.AppendSlice(out, v)
		}
		return out
	case clStrSet, clStrMap:
		out := reflect.MakeMap(l.T)
		for _, v := range vals {
			it := v.MapRange()
			for it.Next() {
				out.SetMapIndex(it.Key(), it.Value())
			}
		}
		return out
	case clStrSliceMap:
		out := map[string][]string{}
		for _, v := range vals {
			for k, s := range v.Interface().(map[string][]string) {
				out[k] = append(out[k], s...)
			}
		}
		return reflect.ValueOf(out)
	}
	panic("unreachable")
}

// ---- comparing leaf values ----

// leafDiff compares two values of a leaf type: NaN equals NaN, nil and empty
// collections are distinguished only when strict is set.
func leafDiff(a, b reflect.Value, strict bool) string {
	if a.Type() != b.Type() {
		return fmt.Sprintf("type %s vs %s", a.Type(), b.Type())
	}
	switch a.Kind() {
	case reflect.Float32, reflect.Float64:
		if math.IsNaN(a.Float()) && math.IsNaN(b.Float()) {
			return ""
		}
	case reflect.Slice, reflect.Map:
		if !strict && a.Len() == 0 && b.Len() == 0 {
			return ""
		}
	}
	if a.Kind() == reflect.Slice && a.Type().Elem().Kind() == reflect.Uint8 && a.Type() == reflect.TypeOf(net.IP{}) {
		if a.Interface().(net.IP).Equal(b.Interface().(net.IP)) {
			return ""
		}
	}
	return shape.Diff(a, b)
}

// ---- parsing advertised defaults (DefValue) with the harness's own code ----

// parseQuotedList reads `"a","b"` (Go-quoted strings separated by commas).
func parseQuotedList(s string) ([]string, error) {
	var out []string
	for s != "" {
		q, err := strconv.QuotedPrefix(s)
		if err != nil {
			return nil, fmt.Errorf("at %q: %v", s, err)
		}
		u, err := strconv.Unquote(q)
		if err != nil {
			return nil, err
		}
		out = append(out, u)
		s = s[len(q):]
		if s == "" {
			break
		}
		if s[0] != ',' {
			return nil, fmt.Errorf("expected ',' at %q", s)
		}
		s = s[1:]
	}
	return out, nil
}

// parseQuotedPairs reads `"k":"v","k2":"v2"`.
func parseQuotedPairs(s string) ([][2]string, error) {
	var out [][2]string
	for s != "" {
		q, err := strconv.QuotedPrefix(s)
		if err != nil {
			return nil, err
		}
		k, _ := strconv.Unquote(q)
		s = s[len(q):]
		if s == "" || s[0] != ':' {
			return nil, fmt.Errorf("expected ':' at %q", s)
		}
		s = s[1:]
		q, err = strconv.QuotedPrefix(s)
		if err != nil {
			return nil, err
		}
		v, _ := strconv.Unquote(q)
		s = s[len(q):]
		out = append(out, [2]string{k, v})
		if s == "" {
			break
		}
		if s[0] != ',' {
			return nil, fmt.Errorf("expected ',' at %q", s)
		}
		s = s[1:]
	}
	return out, nil
}

// parseCSVRecord reads one CSV record (RFC 4180 quoting).
func parseCSVRecord(s string) ([]string, error) {
	if s == "" {
		return nil, nil
	}
	var out []string
	for {
		var f strings.Builder
		if strings.HasPrefix(s, `"`) {
			s = s[1:]
			for {
				i := strings.IndexByte(s, '"')
				if i < 0 {
					return nil, fmt.Errorf("unterminated quote")
				}
				f.WriteString(s[:i])
				s = s[i+1:]
				if strings.HasPrefix(s, `"`) {
					f.WriteByte('"')
					s = s[1:]
					continue
				}
				break
			}
		} else {
			i := strings.IndexByte(s, ',')
			if i < 0 {
				i = len(s)
			}
			f.WriteString(s[:i])
			s = s[i:]
		}
		out = append(out, f.String())
		if s == "" {
			return out, nil
		}
		if s[0] != ',' {
			return nil, fmt.Errorf("expected ',' at %q", s)
		}
		s = s[1:]
	}
}

// defaultMatches reports "" when the advertised default string def denotes the
// template value want of leaf l.
func defaultMatches(l leaf, def string, want reflect.Value, src string) string {
	mismatch := func(got any) string {
		return fmt.Sprintf("advertised default %q reads as %v, template has %v", def, got, want.Interface())
	}
	switch l.Class {
	case clBool:
		b, err := strconv.ParseBool(def)
		if err != nil || b != want.Bool() {
			return mismatch(b)
		}
	case clInt:
		x, err := strconv.ParseInt(def, 10, 64)
		if err != nil || x != want.Int() {
			return mismatch(x)
		}
	case clUint:
		x, err := strconv.ParseUint(def, 10, 64)
		if err != nil || x != want.Uint() {
			return mismatch(x)
		}
	case clFloat:
		x, err := strconv.ParseFloat(def, want.Type().Bits())
		if err != nil && !math.IsInf(x, 0) {
			return mismatch(err)
		}
		g := reflect.New(l.T).Elem()
		g.SetFloat(x)
		if d := leafDiff(g, want, true); d != "" {
			return mismatch(x)
		}
	case clComplex:
		x, err := strconv.ParseComplex(def, 128)
		if err != nil {
			return mismatch(err)
		}
		g := reflect.New(l.T).Elem()
		g.SetComplex(x)
		if d := leafDiff(g, want, true); d != "" {
			return mismatch(x)
		}
	case clString:
		if def != want.String() {
			return mismatch(def)
		}
	case clDuration:
		d, err := time.ParseDuration(def)
		if err != nil || int64(d) != want.Int() {
			return mismatch(d)
		}
	case clTime:
		tm, err := time.Parse(time.RFC3339Nano, def)
		if err != nil || !tm.Equal(want.Interface().(time.Time)) {
			return mismatch(tm)
		}
	case clText:
		if def != renderText(want) {
			return mismatch(def)
		}
	case clStrSlice:
		var got []string
		var err error
		if src == "pflag" {
			if !strings.HasPrefix(def, "[") || !strings.HasSuffix(def, "]") {
				return mismatch("not bracketed")
			}
			got, err = parseCSVRecord(def[1 : len(def)-1])
			if err == nil && len(got) == 0 && want.Len() == 1 && want.Index(0).String() == "" {
				return "" // CSV cannot distinguish [] from [""]
			}
		} else {
			got, err = parseQuotedList(def)
		}
		if err != nil {
			return mismatch(err)
		}
		if len(got) != want.Len() {
			return mismatch(got)
		}
		for i, g := range got {
			if g != want.Index(i).String() {
				return mismatch(got)
			}
		}
	case clStrSet:
		got, err := parseQuotedList(def)
		if err != nil || len(got) != want.Len() {
			return mismatch(got)
		}
		for _, g := range got {
			if !want.MapIndex(reflect.ValueOf(g)).IsValid() {
				return mismatch(got)
			}
		}
	case clStrMap:
		got, err := parseQuotedPairs(def)
		if err != nil || len(got) != want.Len() {
			return mismatch(got)
		}
		for _, kv := range got {
			v := want.MapIndex(reflect.ValueOf(kv[0]))
			if !v.IsValid() || v.String() != kv[1] {
				return mismatch(got)
			}
		}
	case clStrSliceMap:
		pairs, err := parseQuotedPairs(def)
		if err != nil {
			return mismatch(err)
		}
		got := map[string][]string{}
		for _, kv := range pairs {
			got[kv[0]] = append(got[kv[0]], kv[1])
		}
		wm := want.Interface().(map[string][]string)
		// a key with an empty slice has no spelling; ignore such keys
		n := 0
		for k, ws := range wm {
			if len(ws) == 0 {
				continue
			}
			n++
			if !reflect.DeepEqual(got[k], ws) {
				return mismatch(got)
			}
		}
		if n != len(got) {
			return mismatch(got)
		}
	case clIntSlice, clUintSlice:
		var parts []string
		if def != "" {
			parts = strings.Split(def, ",")
		}
		if len(parts) != want.Len() {
			return mismatch(parts)
		}
		for i, p := range parts {
			if l.Class == clIntSlice {
				x, err := strconv.ParseInt(p, 10, 64)
				if err != nil || x != want.Index(i).Int() {
					return mismatch(parts)
				}
			} else {
				x, err := strconv.ParseUint(p, 10, 64)
				if err != nil || x != want.Index(i).Uint() {
					return mismatch(parts)
				}
			}
		}
	}
	return ""
}
