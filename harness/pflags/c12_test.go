package pflags

import (
	"context"
	"flag"
	"fmt"
	"io"
	"os"
	"reflect"
	"sort"
	"strings"
	"testing"
	"time"

	spflag "github.com/spf13/pflag"
	"github.com/vimeo/dials"
	"github.com/vimeo/dials/ptrify"
	dflag "github.com/vimeo/dials/sources/flag"
	dpflag "github.com/vimeo/dials/sources/pflag"
	"github.com/vimeo/dials/tagformat/caseconversion"
	"pgregory.net/rapid"

	"verifharness/internal/shape"
	"verifharness/internal/vrt"
)

// C12Arg is one occurrence of a flag on the command line.
type C12Arg struct {
	Path   string `json:"path"`             // leaf the flag belongs to
	Seed   uint64 `json:"seed"`             // seed of the value it carries
	Form   string `json:"form"`             // eq | space | bare | short-eq | short-space | short-attached | short-bare
	Dashes int    `json:"dashes,omitempty"` // standard flag package: 1 or 2 dashes
	Style  uint64 `json:"style"`            // spelling variation (number base, bool spelling, quoting)
	Bad    bool   `json:"bad,omitempty"`    // carries a literal just outside the leaf type's range
	Empty  bool   `json:"empty,omitempty"`  // collection flags: the occurrence is explicitly empty (-f= / -f "")
}

// C12Case is a config type, its template defaults, a lower and a higher
// layer, a name config and a command line.
type C12Case struct {
	Source        string      `json:"source"` // flag | pflag
	Shape         shape.Shape `json:"shape"`
	Data          shape.Data  `json:"data"` // Layers[0] = lower layer, Layers[1] = higher layer
	NameCfg       string      `json:"name_cfg"`
	ShareTemplate bool        `json:"share_template"` // the template given to the source is also the defaults value that is stacked on
	Args          []C12Arg    `json:"args"`
	TermAt        int         `json:"term_at"` // index in Args before which "--" is inserted (-1: none)
	// Parser says who parses the command line: "" / "source" = the source does,
	// inside Value() (NewSetWithArgs); "program" = the harness, like a program
	// that parses early, calls Flags.Parse(argv) on the set NewSetWithArgs
	// registered its flags in, before Value(); "flagset" (pflag only) = the
	// harness owns the FlagSet, hands it to NewSetWithFlagSet /
	// NewDefaultSetWithFlagSet and parses it before Value().
	Parser string `json:"parser,omitempty"`
	// FlagSet says which FlagSet the set under test is built on (standard flag
	// source only): "" = a private one (NewSetWithArgs); "cmdline" =
	// NewCmdLineSet on flag.CommandLine, which is swapped for a fresh FlagSet
	// (with os.Args) for the duration of the case and restored; "literal" = a
	// harness-owned FlagSet in a &Set{Flags, ParseFunc, NameCfg} literal, which
	// registers its flags lazily inside Value().  On a non-private FlagSet
	// some flag names already exist when the set under test registers:
	// PreReg lists the leaves whose flag the program registered itself (with
	// the flag package's own Bool/Int/Int64/Uint/Uint64/Float64/String/Duration),
	// EarlierSet says an earlier dials Set over the same config type was
	// built on the same FlagSet first (and is asked for its value first).
	FlagSet    string   `json:"flagset,omitempty"`
	PreReg     []string `json:"prereg,omitempty"`
	EarlierSet bool     `json:"earlier_set,omitempty"`
}

// ------------------------------------------------------------ generation

var c12LeafTypes = func() []string {
	// type, weight; laid out round-robin so that rapid's bias towards small
	// indices does not favour one family
	type tw struct {
		t string
		w int
	}
	ws := []tw{
		{"[]string", 5}, {"int8", 4}, {"map[string]string", 5}, {"bool", 5}, {"time.Time", 4}, {"uint8", 4}, {"Level", 3},
		{"map[string]struct{}", 5}, {"float32", 4}, {"string", 5}, {"[]int8", 3}, {"time.Duration", 4}, {"Color", 3}, {"complex64", 3},
		{"map[string][]string", 4}, {"int", 4}, {"[]uint16", 2}, {"Count", 3}, {"float64", 4}, {"Stamp", 3}, {"uint64", 3},
		{"[]int", 3}, {"Tiny", 3}, {"int16", 3}, {"complex128", 3}, {"Flag", 3}, {"uint", 3}, {"[]uint8", 2}, {"Name", 3},
		{"int32", 3}, {"[]int64", 2}, {"Gain", 3}, {"uint16", 3}, {"int64", 3}, {"[]uint64", 2}, {"uint32", 3}, {"Ratio", 2},
		{"[]int16", 2}, {"Timeout", 2}, {"uintptr", 2}, {"[]int32", 2}, {"Word", 2}, {"[]uint", 2}, {"[]uint32", 2}, {"[]uintptr", 1},
		{"net.IP", 1}, {"NC64", 1}, {"NC128", 1},
		// not in the documented support list: bystanders that get no flag
		{"Names", 1}, {"[]float64", 1}, {"Labels", 1}, {"map[string]int", 1}, {"Nums", 1}, {"[]time.Duration", 1}, {"[2]string", 1},
	}
	var out []string
	for pass := 0; pass < 5; pass++ {
		for _, e := range ws {
			if e.w > pass {
				out = append(out, e.t)
			}
		}
	}
	return out
}()

var c12NameCfgs = []string{"kebab/camel", "kebab/camel", "kebab/camel", "kebab/usnake", "kebab/custom", "snake/camel", "snake/usnake", "dot/camel", "dot/custom", "shout/usnake", "shout/camel"}

var c12TagWords = []string{"sub", "sys", "camel", "tag", "here", "snake", "main", "aux", "opt", "cfg", "srv", "addr", "max", "min", "log", "lvl"}
var c12FreshWords = []string{"zed", "yak", "wax", "vex", "urn", "tux", "sob", "rye", "qat", "pyx", "owl", "nix", "mux", "lux", "kip", "jib", "ivy", "hex", "gnu", "fox"}

func capWord(w string) string { return strings.ToUpper(w[:1]) + w[1:] }

func genTagText(t *rapid.T) string {
	n := rapid.IntRange(1, 3).Draw(t, "tag_words")
	ws := make([]string, n)
	for i := range ws {
		ws[i] = rapid.SampledFrom(c12TagWords).Draw(t, "tag_word")
	}
	switch rapid.IntRange(0, 4).Draw(t, "tag_spelling") {
	case 0:
		return strings.Join(ws, "_")
	case 1:
		return strings.Join(ws, "-")
	case 2:
		out := ws[0]
		for _, w := range ws[1:] {
			out += capWord(w)
		}
		return out
	case 3:
		out := ""
		for _, w := range ws {
			out += capWord(w)
		}
		return out
	}
	// a digit as a whole snake / kebab component
	sep := rapid.SampledFrom([]string{"_", "-"}).Draw(t, "tag_sep")
	return strings.Join(append(ws, rapid.SampledFrom([]string{"2", "10", "0"}).Draw(t, "tag_digit")), sep)
}

func c12Profile(src string) shape.Profile {
	counter := 0
	shorts := []byte("abcdefgijklmnopqrstuvwxyz") // no 'h'
	return shape.Profile{
		LeafTypes:   c12LeafTypes,
		SkipClasses: []string{"unexported", "dash", "chan", "func"},
		Nested:      []string{"struct", "pstruct", "embed", "pembed"},
		EmbedTypes:  []string{"EmbA", "EmbC", "EmbF", "EmbG"},
		MaxDepth:    3, MaxFields: 6, MinFields: 2,
		Tagger: func(t *rapid.T, f *shape.Field, depth int) {
			var parts []string
			if rapid.IntRange(0, 99).Draw(t, "has_dials_tag") < 30 {
				parts = append(parts, fmt.Sprintf(`dials:"%s"`, genTagText(t)))
			}
			if f.Kind == "leaf" {
				own, other := "dialsflag", "dialspflag"
				if src == "pflag" {
					own, other = other, own
				}
				switch k := rapid.IntRange(0, 99).Draw(t, "src_tag"); {
				case k < 15:
					counter++
					base := rapid.SampledFrom([]string{"direct-", "Opt_", "xFlag", "my.flag.", "F"}).Draw(t, "src_tag_base")
					parts = append(parts, fmt.Sprintf(`%s:"%s%d"`, own, base, counter))
				case k < 18:
					parts = append(parts, fmt.Sprintf(`%s:"-"`, own))
				}
				if rapid.IntRange(0, 99).Draw(t, "other_src_tag") < 8 {
					counter++
					parts = append(parts, fmt.Sprintf(`%s:"other%d"`, other, counter))
				}
				if rapid.IntRange(0, 99).Draw(t, "short_tag") < 18 && len(shorts) > 0 {
					i := rapid.IntRange(0, len(shorts)-1).Draw(t, "short_letter")
					parts = append(parts, fmt.Sprintf(`dialspflagshort:"%c"`, shorts[i]))
					shorts = append(shorts[:i:i], shorts[i+1:]...)
				}
				if rapid.IntRange(0, 99).Draw(t, "desc_tag") < 10 {
					parts = append(parts, `dialsdesc:"help text"`)
				}
			}
			if rapid.IntRange(0, 99).Draw(t, "json_tag") < 8 {
				parts = append(parts, `json:"j,omitempty"`)
			}
			if len(parts) > 1 && rapid.Bool().Draw(t, "tag_reverse") {
				for i, j := 0, len(parts)-1; i < j; i, j = i+1, j-1 {
					parts[i], parts[j] = parts[j], parts[i]
				}
			}
			f.Tag = strings.Join(parts, " ")
		},
	}
}

func fieldAt(s *shape.Shape, idx []int) *shape.Field {
	fs := s.Fields
	var f *shape.Field
	for _, i := range idx {
		f = &fs[i]
		fs = f.Fields
	}
	return f
}

// firstNameCollision returns the index of the first leaf whose flag name is
// already taken by an earlier leaf, or -1.
func firstNameCollision(leaves []leaf, cfg nameCfg) int {
	seen := map[string]bool{}
	for i, l := range leaves {
		n, _ := cfg.flagName(l)
		if n == "-" {
			continue
		}
		if seen[n] {
			return i
		}
		seen[n] = true
	}
	return -1
}

// dedupeNames renames generated fields until no two leaves share a flag name
// (a second registration of a name is skipped by design, which is outside the
// property).  It reports false if it could not.
func dedupeNames(s *shape.Shape, src string, cfg nameCfg) bool {
	fresh := 0
	for iter := 0; iter < 40; iter++ {
		leaves, err := collectLeaves(s.Fields, src)
		if err != nil {
			return false
		}
		i := firstNameCollision(leaves, cfg)
		if i < 0 {
			return true
		}
		idx := leaves[i].Idx
		renamed := false
		for k := len(idx); k >= 1 && !renamed; k-- {
			f := fieldAt(s, idx[:k])
			switch f.Kind {
			case "leaf", "struct", "pstruct":
				w := c12FreshWords[fresh%len(c12FreshWords)]
				if fresh >= len(c12FreshWords) {
					w += c12FreshWords[(fresh/len(c12FreshWords))%len(c12FreshWords)]
				}
				fresh++
				f.Name += capWord(w)
				f.Words = append(append([]string{}, f.Words...), w)
				f.Tag = ""
				renamed = true
			}
		}
		if !renamed {
			// only embedded fields on the path: drop the tag of the innermost
			f := fieldAt(s, idx)
			if f.Tag == "" {
				return false
			}
			f.Tag = ""
		}
	}
	return false
}

func genC12(src string) func(t *rapid.T) C12Case {
	return func(t *rapid.T) C12Case {
		c := C12Case{Source: src, TermAt: -1}
		c.NameCfg = rapid.SampledFrom(c12NameCfgs).Draw(t, "name_cfg")
		cfg, _ := parseNameCfg(c.NameCfg)
		s := shape.Gen(t, c12Profile(src))
		if !dedupeNames(&s, src, cfg) {
			t.Skip("could not make flag names unique")
		}
		c.Shape = s
		T, err := s.Build()
		if err != nil {
			t.Fatalf("generated shape does not build: %v", err)
		}
		nodes := shape.Walk(T)
		leaves, err := collectLeaves(s.Fields, src)
		if err != nil {
			t.Fatalf("generated shape does not walk: %v", err)
		}
		c.Data = shape.GenData(t, nodes, 0, 0)
		c.Data.Layers = nil
		for li, pcts := range [][]int{{50, 90, 25, 0}, {0, 25, 0, 60}} {
			l := shape.Layer{Set: map[string]uint64{}, Present: map[string]bool{}, ByPtr: rapid.Bool().Draw(t, "by_ptr")}
			pct := rapid.SampledFrom(pcts).Draw(t, fmt.Sprintf("layer%d_density", li))
			for _, n := range nodes {
				switch n.Class {
				case shape.ClassLeaf:
					if rapid.IntRange(0, 99).Draw(t, "set") < pct {
						l.Set[n.Path] = rapid.Uint64Range(1, 1<<40).Draw(t, "seed")
					}
				case shape.ClassStruct, shape.ClassPStruct:
					if rapid.IntRange(0, 99).Draw(t, "present") < 10 {
						l.Present[n.Path] = true
					}
				}
			}
			c.Data.Layers = append(c.Data.Layers, l)
		}
		c.ShareTemplate = rapid.Bool().Draw(t, "share_template")
		if src == "pflag" {
			c.Parser = rapid.SampledFrom([]string{"source", "program", "source", "flagset", "source", "source"}).Draw(t, "parser")
		} else {
			c.Parser = rapid.SampledFrom([]string{"source", "program", "source"}).Draw(t, "parser")
			c.FlagSet = rapid.SampledFrom([]string{"", "cmdline", "", "literal", "", ""}).Draw(t, "flagset")
			if c.FlagSet != "" {
				c.EarlierSet = rapid.Bool().Draw(t, "earlier_set")
				for _, l := range leaves {
					if _, ok := cfg.flagName(l); ok && programCanRegister(l) && rapid.IntRange(0, 9).Draw(t, "prereg") < 4 {
						c.PreReg = append(c.PreReg, l.Path)
					}
				}
				if len(c.PreReg) == 0 {
					c.EarlierSet = true
				}
			}
			if c.FlagSet == "literal" {
				c.Parser = "source" // nothing is registered before Value()
			}
		}

		// command line
		density := rapid.SampledFrom([]int{50, 30, 70, 90}).Draw(t, "arg_density")
		var args []C12Arg
		var flagged []leaf
		for _, l := range leaves {
			if _, ok := cfg.flagName(l); !ok {
				continue
			}
			flagged = append(flagged, l)
			if rapid.IntRange(0, 99).Draw(t, "given") >= density {
				continue
			}
			n := 1
			switch k := rapid.IntRange(0, 9).Draw(t, "occurrences"); {
			case k >= 9:
				n = 3
			case k >= 7:
				n = 2
			}
			// collection flags: sometimes only explicitly empty occurrences
			// (over a non-empty template default), sometimes empty ones
			// mixed with non-empty ones
			emptyMode := 0
			if l.Class.collection() {
				switch k := rapid.IntRange(0, 9).Draw(t, "empty_mode"); {
				case k < 2:
					emptyMode = 1 // all empty
				case k < 4:
					emptyMode = 2 // mixed
					if n < 2 {
						n = rapid.IntRange(2, 3).Draw(t, "mixed_occurrences")
					}
				}
			}
			for i := 0; i < n; i++ {
				a := genArg(t, l, src, false)
				switch emptyMode {
				case 1:
					a.Empty = true
				case 2:
					a.Empty = i == 0 || (i > 1 && rapid.Bool().Draw(t, "mixed_empty"))
				}
				args = append(args, a)
			}
			if emptyMode == 1 {
				// make the template default of this leaf non-empty (unless it
				// sits below a pointer struct that is nil in the defaults)
				below := false
				for np := range c.Data.DefNil {
					if strings.HasPrefix(l.Path, np+".") {
						below = true
					}
				}
				if !below {
					seed := c.Data.Defaults[l.Path]
					if seed == 0 {
						seed = rapid.Uint64Range(1, 1<<40).Draw(t, "nonempty_def_seed")
					}
					for shape.MakeValue(l.T, seed, shape.ValueOpts{}).Len() == 0 {
						seed++
					}
					c.Data.Defaults[l.Path] = seed
				}
			}
		}
		if len(args) > 1 {
			args = rapid.Permutation(args).Draw(t, "arg_order")
		}
		badAt := -1
		if rapid.IntRange(0, 3).Draw(t, "with_bad") == 0 {
			var elig []leaf
			for _, l := range flagged {
				if badLiteral(l, 0) != "" {
					elig = append(elig, l)
				}
			}
			if len(elig) > 0 {
				l := elig[rapid.IntRange(0, len(elig)-1).Draw(t, "bad_leaf")]
				bad := genArg(t, l, src, true)
				at := rapid.IntRange(0, len(args)).Draw(t, "bad_at")
				args = append(args[:at:at], append([]C12Arg{bad}, args[at:]...)...)
				// it must be the last occurrence of its flag
				last := at
				for i := at + 1; i < len(args); i++ {
					if args[i].Path == l.Path {
						last = i
					}
				}
				args[at], args[last] = args[last], args[at]
				badAt = last
			}
		}
		if rapid.IntRange(0, 7).Draw(t, "with_terminator") == 0 {
			c.TermAt = rapid.IntRange(badAt+1, len(args)).Draw(t, "term_at")
		}
		c.Args = args
		if badAt >= 0 && c.FlagSet == "cmdline" {
			// flag.Parse() on a ContinueOnError stand-in for flag.CommandLine
			// swallows the parse error a real (ExitOnError) process dies of
			c.Parser = "program"
		}
		return c
	}
}

func genArg(t *rapid.T, l leaf, src string, bad bool) C12Arg {
	a := C12Arg{Path: l.Path, Bad: bad}
	a.Seed = rapid.Uint64Range(1, 1<<40).Draw(t, "arg_seed")
	a.Style = uint64(rapid.IntRange(0, 119).Draw(t, "arg_style"))
	forms := []string{"eq", "space"}
	if l.Class == clBool {
		forms = []string{"eq", "bare"}
	}
	if src == "pflag" && l.Short != "" {
		if l.Class == clBool {
			forms = append(forms, "short-eq", "short-bare")
		} else {
			forms = append(forms, "short-eq", "short-space", "short-attached")
		}
	}
	a.Form = rapid.SampledFrom(forms).Draw(t, "arg_form")
	if src == "flag" {
		a.Dashes = rapid.IntRange(1, 2).Draw(t, "arg_dashes")
	}
	return a
}

// ------------------------------------------------------------ execution

// c12Value is the value an occurrence carries.
func c12Value(l leaf, a C12Arg) reflect.Value {
	if l.Class == clBool && (a.Form == "bare" || a.Form == "short-bare") {
		v := reflect.New(l.T).Elem()
		v.SetBool(true)
		return v
	}
	if a.Empty && l.Class.collection() {
		if l.T.Kind() == reflect.Map {
			return reflect.MakeMap(l.T)
		}
		return reflect.MakeSlice(l.T, 0, 0)
	}
	return argValue(l, a.Seed)
}

// renderArg spells one occurrence as command-line words.
func renderArg(l leaf, name string, a C12Arg, src string) []string {
	var val string
	if a.Bad {
		val = badLiteral(l, a.Style)
	} else {
		val = renderValue(l, c12Value(l, a), a.Style, src)
	}
	long := "--" + name
	if src == "flag" && a.Dashes == 1 {
		long = "-" + name
	}
	form := a.Form
	if strings.HasPrefix(form, "short") && (src != "pflag" || l.Short == "") {
		form = "eq"
	}
	if form == "short-attached" && (val == "" || strings.HasPrefix(val, "=")) {
		form = "short-space"
	}
	if form == "short-eq" && val == "" {
		form = "short-space" // pflag reads "-x=" as the attached value "="
	}
	if l.Class == clBool && a.Bad {
		form = "eq"
	}
	switch form {
	case "space":
		if l.Class == clBool {
			return []string{long + "=" + val}
		}
		return []string{long, val}
	case "bare":
		if l.Class == clBool {
			return []string{long}
		}
		return []string{long + "=" + val}
	case "short-eq":
		return []string{"-" + l.Short + "=" + val}
	case "short-space":
		return []string{"-" + l.Short, val}
	case "short-attached":
		return []string{"-" + l.Short + val}
	case "short-bare":
		return []string{"-" + l.Short}
	}
	return []string{long + "=" + val}
}

type regFlag struct {
	Def   string
	Short string
}

// c12Source wraps one of the two flag sources.
type c12Source struct {
	flags map[string]regFlag
	value func(*dials.Type) (reflect.Value, error)
	parse func() error // the program's own Parse of the registered FlagSet
	list  func()       // re-reads flags from the FlagSet (lazy registration)
	// earlierValue asks the earlier dials Set on the same FlagSet for its value
	earlierValue func(*dials.Type) (reflect.Value, error)
}

func protect(f func()) (msg string) {
	defer func() {
		if r := recover(); r != nil {
			msg = fmt.Sprint(r)
			if msg == "" {
				msg = "panic"
			}
		}
	}()
	f()
	return ""
}

// programCanRegister reports whether a program can register leaf l's flag
// with the flag package's own typed functions and a compatible type.
func programCanRegister(l leaf) bool {
	switch l.Class {
	case clBool, clInt, clUint, clFloat, clString, clDuration:
		return true
	}
	return false
}

// programRegister registers name on fs the way a program would, with def as
// its default.
func programRegister(fs *flag.FlagSet, name string, l leaf, def reflect.Value) {
	switch l.Class {
	case clBool:
		fs.Bool(name, def.Bool(), "program flag")
	case clInt:
		if l.T.Kind() == reflect.Int64 {
			fs.Int64(name, def.Int(), "program flag")
		} else {
			fs.Int(name, int(def.Int()), "program flag")
		}
	case clUint:
		if k := l.T.Kind(); k == reflect.Uint64 || k == reflect.Uintptr {
			fs.Uint64(name, def.Uint(), "program flag")
		} else {
			fs.Uint(name, uint(def.Uint()), "program flag")
		}
	case clFloat:
		fs.Float64(name, def.Float(), "program flag")
	case clString:
		fs.String(name, def.String(), "program flag")
	case clDuration:
		fs.Duration(name, time.Duration(def.Int()), "program flag")
	}
}

// c12Shared describes a non-private FlagSet (standard flag source).
type c12Shared struct {
	mode    string // cmdline | literal
	prereg  func(fs *flag.FlagSet)
	earlier bool
	tmplA   any // template of the earlier set
}

func newC12Source(src, parser string, cfg nameCfg, tmpl any, argv []string, sh *c12Shared) (*c12Source, error) {
	var tagEnc, fieldEnc caseconversion.EncodeCasingFunc
	switch cfg.Tag {
	case "kebab":
		tagEnc = caseconversion.EncodeKebabCase
	case "snake":
		tagEnc = caseconversion.EncodeLowerSnakeCase
	case "dot":
		tagEnc = func(w caseconversion.DecodedIdentifier) string { return customDot(w) }
	case "shout":
		tagEnc = func(w caseconversion.DecodedIdentifier) string { return customShout(w) }
	}
	switch cfg.Field {
	case "camel":
		fieldEnc = caseconversion.EncodeUpperCamelCase
	case "usnake":
		fieldEnc = caseconversion.EncodeUpperSnakeCase
	case "custom":
		fieldEnc = func(w caseconversion.DecodedIdentifier) string { return customField(w) }
	}
	out := &c12Source{flags: map[string]regFlag{}}
	ctx := context.Background()
	if src == "pflag" {
		var nc *dpflag.NameConfig
		if cfg.Tag == "kebab" && cfg.Field == "camel" {
			nc = dpflag.DefaultFlagNameConfig()
		} else {
			nc = &dpflag.NameConfig{FieldNameEncodeCasing: fieldEnc, TagEncodeCasing: tagEnc}
		}
		var s *dpflag.Set
		var err error
		if parser == "flagset" {
			// the program owns the FlagSet (the cobra-style constructors; no ParseFunc)
			fs := spflag.NewFlagSet("prog", spflag.ContinueOnError)
			fs.SetOutput(io.Discard)
			if cfg.Tag == "kebab" && cfg.Field == "camel" {
				s, err = dpflag.NewDefaultSetWithFlagSet(tmpl, fs)
			} else {
				s, err = dpflag.NewSetWithFlagSet(nc, tmpl, fs)
			}
		} else {
			s, err = dpflag.NewSetWithArgs(nc, tmpl, argv)
		}
		if err != nil {
			return nil, err
		}
		s.Flags.SetOutput(io.Discard)
		out.parse = func() error { return s.Flags.Parse(argv) }
		s.Flags.VisitAll(func(f *spflag.Flag) { out.flags[f.Name] = regFlag{Def: f.DefValue, Short: f.Shorthand} })
		out.value = func(t *dials.Type) (reflect.Value, error) { return s.Value(ctx, t) }
		return out, nil
	}
	var nc *dflag.NameConfig
	if cfg.Tag == "kebab" && cfg.Field == "camel" {
		nc = dflag.DefaultFlagNameConfig()
	} else {
		nc = &dflag.NameConfig{FieldNameEncodeCasing: fieldEnc, TagEncodeCasing: tagEnc}
	}
	var s, earlier *dflag.Set
	var err error
	switch {
	case sh == nil:
		s, err = dflag.NewSetWithArgs(nc, tmpl, argv)
	case sh.mode == "cmdline":
		// flag.CommandLine / os.Args have been swapped by the caller
		flag.CommandLine.SetOutput(io.Discard)
		sh.prereg(flag.CommandLine)
		if sh.earlier {
			if earlier, err = dflag.NewCmdLineSet(nc, sh.tmplA); err != nil {
				return nil, err
			}
		}
		s, err = dflag.NewCmdLineSet(nc, tmpl)
	default: // literal
		fs := flag.NewFlagSet("prog", flag.ContinueOnError)
		fs.SetOutput(io.Discard)
		sh.prereg(fs)
		pf := func() error { return fs.Parse(argv) }
		if sh.earlier {
			earlier = &dflag.Set{Flags: fs, ParseFunc: pf, NameCfg: nc}
		}
		s = &dflag.Set{Flags: fs, ParseFunc: pf, NameCfg: nc}
	}
	if err != nil {
		return nil, err
	}
	s.Flags.SetOutput(io.Discard)
	out.parse = func() error { return s.Flags.Parse(argv) }
	out.list = func() {
		out.flags = map[string]regFlag{}
		s.Flags.VisitAll(func(f *flag.Flag) { out.flags[f.Name] = regFlag{Def: f.DefValue} })
	}
	out.list()
	out.value = func(t *dials.Type) (reflect.Value, error) { return s.Value(ctx, t) }
	if earlier != nil {
		out.earlierValue = func(t *dials.Type) (reflect.Value, error) { return earlier.Value(ctx, t) }
	}
	return out, nil
}

func builtinComplex(t reflect.Type) bool {
	return t == reflect.TypeOf(complex64(0)) || t == reflect.TypeOf(complex128(0))
}

func runC12(c C12Case) vrt.Verdict {
	if c.Source != "flag" && c.Source != "pflag" {
		return vrt.Discardf("unknown source")
	}
	cfg, ok := parseNameCfg(c.NameCfg)
	if !ok {
		return vrt.Discardf("unknown name config")
	}
	parser := c.Parser
	if parser == "" {
		parser = "source"
	}
	if parser != "source" && parser != "program" && !(parser == "flagset" && c.Source == "pflag") {
		return vrt.Discardf("unknown parser")
	}
	switch c.FlagSet {
	case "":
		if len(c.PreReg) > 0 || c.EarlierSet {
			return vrt.Discardf("nothing can be registered first on a private FlagSet")
		}
	case "cmdline", "literal":
		if c.Source != "flag" {
			return vrt.Discardf("shared FlagSets are generated for the standard flag source only")
		}
		if c.FlagSet == "literal" && parser != "source" {
			return vrt.Discardf("a literal Set registers inside Value(); the program cannot parse first")
		}
	default:
		return vrt.Discardf("unknown flagset mode")
	}
	T, err := c.Shape.Build()
	if err != nil {
		return vrt.Discardf("shape does not build")
	}
	leaves, err := collectLeaves(c.Shape.Fields, c.Source)
	if err != nil {
		return vrt.Discardf("shape does not walk")
	}
	if len(c.Data.Layers) != 2 {
		return vrt.Discardf("case needs exactly a lower and a higher layer")
	}
	nodes := shape.Walk(T)
	byPath := map[string]leaf{}
	for _, l := range leaves {
		byPath[l.Path] = l
	}
	nLeafNodes := 0
	for _, n := range nodes {
		if n.Class == shape.ClassLeaf {
			nLeafNodes++
			if l, ok := byPath[n.Path]; !ok || l.T != n.Type {
				return vrt.Discardf("harness leaf walk disagrees with the built type")
			}
		}
	}
	if nLeafNodes != len(leaves) {
		return vrt.Discardf("harness leaf walk disagrees with the built type")
	}
	if firstNameCollision(leaves, cfg) >= 0 {
		return vrt.Discardf("two leaves share a flag name")
	}
	goKeys := map[string]string{}
	goCollision := ""
	wantFlags := map[string]leaf{}
	shortsSeen := map[string]bool{}
	for _, l := range leaves {
		k := cfg.goFieldKey(l)
		if p, dup := goKeys[k]; dup {
			goCollision = p + " / " + l.Path
		}
		goKeys[k] = l.Path
		if n, ok := cfg.flagName(l); ok {
			wantFlags[n] = l
			if l.Short != "" {
				if len(l.Short) != 1 || shortsSeen[l.Short] {
					return vrt.Discardf("bad or duplicate shorthand")
				}
				shortsSeen[l.Short] = true
			}
		}
	}

	// the command line, the values it carries per leaf, the expected flag value per leaf
	var argv []string
	occ := map[string][]reflect.Value{}
	hasBad, badParsed := false, false
	var badPath string
	labelSet := map[string]bool{"src=" + c.Source: true, "namecfg=" + c.NameCfg: true}
	for i, a := range c.Args {
		if i == c.TermAt {
			argv = append(argv, "--")
			labelSet["terminator"] = true
		}
		l, ok := byPath[a.Path]
		if !ok {
			return vrt.Discardf("argument for an unknown leaf")
		}
		name, ok := cfg.flagName(l)
		if !ok {
			return vrt.Discardf("argument for a leaf without a flag")
		}
		if a.Bad && badLiteral(l, a.Style) == "" {
			return vrt.Discardf("no out-of-range literal for this leaf type")
		}
		argv = append(argv, renderArg(l, name, a, c.Source)...)
		parsed := c.TermAt < 0 || i < c.TermAt
		if a.Bad {
			if hasBad {
				return vrt.Discardf("more than one out-of-range literal")
			}
			hasBad, badParsed, badPath = true, parsed, a.Path
			continue
		}
		if parsed {
			occ[a.Path] = append(occ[a.Path], c12Value(l, a))
			labelSet["form="+a.Form] = true
		}
	}
	if c.TermAt == len(c.Args) {
		argv = append(argv, "--")
		labelSet["terminator"] = true
	}
	if hasBad {
		// the literal must be the last parsed occurrence of its flag
		seenBad := false
		for i, a := range c.Args {
			if c.TermAt >= 0 && i >= c.TermAt {
				break
			}
			if a.Bad {
				seenBad = true
			} else if seenBad && a.Path == badPath {
				return vrt.Discardf("out-of-range literal is not the last occurrence of its flag")
			}
		}
	}
	flagVal := map[string]reflect.Value{}
	for p, vs := range occ {
		l := byPath[p]
		flagVal[p] = accumulate(l, vs)
		if len(vs) > 1 {
			if l.Class.collection() {
				labelSet["repeat-collection"] = true
			} else {
				labelSet["repeat-scalar"] = true
			}
		}
		labelSet["given:"+l.Class.String()] = true
		if l.Class.collection() {
			allEmpty, anyEmpty := true, false
			for _, v := range vs {
				if v.Len() == 0 {
					anyEmpty = true
				} else {
					allEmpty = false
				}
			}
			switch {
			case allEmpty:
				labelSet["only-empty-occurrences:"+l.Class.String()] = true
				if dv := shape.FieldByPath(shape.NewBuilder(T, shape.ValueOpts{}).Defaults(c.Data).Elem(), p); dv.IsValid() && dv.Len() > 0 {
					labelSet["only-empty-over-nonempty-default:"+l.Class.String()] = true
				}
			case anyEmpty:
				labelSet["empty-mixed-with-nonempty"] = true
			}
		}
		if l.T.Name() != "" && l.T.PkgPath() != "" && l.T.PkgPath() != "time" && l.T.PkgPath() != "net" {
			labelSet["given:named"] = true
		}
	}

	b := shape.NewBuilder(T, shape.ValueOpts{})
	d := c.Data
	template := b.Defaults(d)
	defaults := template
	if !c.ShareTemplate {
		defaults = b.Defaults(d)
	} else {
		labelSet["shared-template"] = true
	}
	pt := ptrify.Pointerify(T, template.Elem())

	where := func() string {
		fsDesc := ""
		if c.FlagSet != "" {
			fsDesc = fmt.Sprintf(", %s FlagSet with flags already registered by the program for %q, earlier dials Set on it: %v", c.FlagSet, c.PreReg, c.EarlierSet)
		}
		return fmt.Sprintf("[%s source, parsed by the %s%s, name config %s, argv %q]", c.Source, parser, fsDesc, c.NameCfg, argv)
	}

	// a non-private FlagSet: some flag names exist before the set under test registers
	var shared *c12Shared
	if c.FlagSet != "" {
		if hasBad && badParsed && c.FlagSet == "cmdline" && parser != "program" {
			return vrt.Discardf("flag.Parse() on the stand-in for flag.CommandLine swallows parse errors")
		}
		type pre struct {
			name string
			l    leaf
		}
		var pres []pre
		for _, p := range c.PreReg {
			l, ok := byPath[p]
			if !ok || !programCanRegister(l) {
				return vrt.Discardf("the program cannot register this leaf's flag")
			}
			n, ok := cfg.flagName(l)
			if !ok {
				return vrt.Discardf("pre-registered leaf has no flag")
			}
			pres = append(pres, pre{n, l})
		}
		shared = &c12Shared{mode: c.FlagSet, earlier: c.EarlierSet, tmplA: b.Defaults(d).Interface()}
		shared.prereg = func(fs *flag.FlagSet) {
			for _, p := range pres {
				def := shape.FieldByPath(template.Elem(), p.l.Path)
				if !def.IsValid() {
					def = reflect.Zero(p.l.T)
				}
				programRegister(fs, p.name, p.l, def)
			}
		}
		labelSet["flagset="+c.FlagSet] = true
		if c.EarlierSet {
			labelSet["earlier-set-on-flagset"] = true
		}
		for _, p := range c.PreReg {
			if _, given := flagVal[p]; given {
				labelSet["program-registered-flag-given"] = true
			}
		}
		if c.EarlierSet && len(flagVal) > 0 {
			labelSet["flag-shared-with-earlier-set-given"] = true
		}
		if c.FlagSet == "cmdline" {
			oldCL, oldArgs := flag.CommandLine, os.Args
			defer func() { flag.CommandLine, os.Args = oldCL, oldArgs }()
			flag.CommandLine = flag.NewFlagSet("prog", flag.ContinueOnError)
			os.Args = append([]string{"prog"}, argv...)
		}
	}

	// construct the source
	var srcObj *c12Source
	var ctorErr error
	if msg := protect(func() { srcObj, ctorErr = newC12Source(c.Source, parser, cfg, template.Interface(), argv, shared) }); msg != "" {
		if goCollision != "" && strings.Contains(msg, "duplicate field") {
			// Outside the quantifier: the config type does not have distinct
			// flattened leaf names (AlphaBravo vs Alpha.Bravo flatten to the
			// same Go field name).  Counted as a discard, see Assumptions.
			return vrt.Discardf("flattened field names collide")
		}
		return vrt.KeyedViolationf("ctor-panic", "constructor panicked: %s %s", msg, where())
	}
	if ctorErr != nil {
		return vrt.Violationf("constructor failed: %v %s", ctorErr, where())
	}

	checkRegistered := func() *vrt.Verdict {
		// (a) registered names are the expected names
		for n, l := range wantFlags {
			rf, ok := srcObj.flags[n]
			if !ok {
				var have []string
				for k := range srcObj.flags {
					have = append(have, k)
				}
				sort.Strings(have)
				v := vrt.KeyedViolationf("flag-name", "leaf %s (%s): expected flag %q is not registered; registered: %q %s", l.Path, l.TypeExpr, n, have, where())
				return &v
			}
			if c.Source == "pflag" && rf.Short != l.Short {
				v := vrt.KeyedViolationf("shorthand", "leaf %s: flag %q has shorthand %q, tag says %q %s", l.Path, n, rf.Short, l.Short, where())
				return &v
			}
		}
		for n := range srcObj.flags {
			if _, ok := wantFlags[n]; !ok {
				v := vrt.KeyedViolationf("flag-name", "unexpected flag %q registered (no leaf has that name) %s", n, where())
				return &v
			}
		}
		if c.FlagSet == "literal" {
			// a literal Set has no template: its flags advertise zero values
			return nil
		}
		// (b) advertised defaults are the template's values
		for n, l := range wantFlags {
			want := shape.FieldByPath(template.Elem(), l.Path)
			if !want.IsValid() {
				want = reflect.Zero(l.T) // below a nil pointer struct
			}
			if d := defaultMatches(l, srcObj.flags[n].Def, want, c.Source); d != "" {
				v := vrt.KeyedViolationf("default", "leaf %s (%s) flag %q: %s %s", l.Path, l.TypeExpr, n, d, where())
				return &v
			}
		}
		return nil
	}
	if c.FlagSet != "literal" {
		if v := checkRegistered(); v != nil {
			return *v
		}
	}
	for _, l := range leaves {
		if l.InEmbed {
			labelSet["embedded-leaf"] = true
		}
		if l.HasSrc && l.SrcTag != "-" {
			labelSet["source-tag"] = true
		}
		if l.HasSrc && l.SrcTag == "-" {
			labelSet["source-tag-dash"] = true
		}
		if l.Short != "" {
			labelSet["shorthand"] = true
		}
		if l.Class == clUnsupported {
			labelSet["unsupported-bystander"] = true
		}
		if strings.Count(l.Path, ".") >= 1 {
			labelSet["nested"] = true
		}
	}

	// who parses: a program that owns or pre-parses the FlagSet does so now,
	// after the constructor registered the flags and before dials asks for
	// the value; Value() must then use the parsed state as it is
	labelSet["parser="+parser] = true
	if parser != "source" {
		var parseErr error
		if msg := protect(func() { parseErr = srcObj.parse() }); msg != "" {
			return vrt.KeyedViolationf("program-parse-panic", "the program's Flags.Parse(argv) panicked: %s %s", msg, where())
		}
		if parseErr != nil {
			if hasBad && badParsed {
				// (d): the literal is already an error for the program
				l := byPath[badPath]
				return vrt.OK(len(flagVal) > 0, append(keys(labelSet), "out-of-range", "out-of-range:"+l.Class.String(), "out-of-range-at-program-parse")...)
			}
			return vrt.Violationf("the program's Flags.Parse(argv) failed on a valid command line: %v %s", parseErr, where())
		}
	}

	// the earlier dials Set on the same FlagSet is asked first
	if srcObj.earlierValue != nil {
		var eErr error
		if msg := protect(func() { _, eErr = srcObj.earlierValue(dials.NewType(pt)) }); msg != "" {
			return vrt.KeyedViolationf("value-panic", "Value() of the earlier Set panicked: %s %s", msg, where())
		}
		if eErr != nil {
			if hasBad && badParsed {
				l := byPath[badPath]
				return vrt.OK(len(flagVal) > 0, append(keys(labelSet), "out-of-range", "out-of-range:"+l.Class.String(), "out-of-range-at-earlier-set")...)
			}
			return vrt.Violationf("Value() of the earlier Set failed on a valid command line: %v %s", eErr, where())
		}
	}

	// Value(), as dials.Config calls it
	var got reflect.Value
	var valErr error
	if msg := protect(func() { got, valErr = srcObj.value(dials.NewType(pt)) }); msg != "" {
		if c.Source == "flag" {
			for p := range flagVal {
				l := byPath[p]
				if l.Class == clComplex && !builtinComplex(l.T) {
					return vrt.KeyedViolationf("std-named-complex", "Value() panicked: %s (flag for the named complex leaf %s %s was given) %s", msg, l.Path, l.TypeExpr, where())
				}
			}
			for p := range flagVal {
				l := byPath[p]
				if l.Class == clText && (l.T.Kind() == reflect.Slice || l.T.Kind() == reflect.Map) {
					return vrt.KeyedViolationf("std-text-nilable", "Value() panicked: %s (flag for the text-unmarshalable %s leaf %s %s was given) %s", msg, l.T.Kind(), l.Path, l.TypeExpr, where())
				}
			}
		}
		return vrt.KeyedViolationf("value-panic", "Value() panicked: %s %s", msg, where())
	}

	if c.FlagSet == "literal" && valErr == nil {
		srcObj.list()
		if v := checkRegistered(); v != nil {
			return *v
		}
	}

	// (d) an out-of-range literal is an error
	if hasBad && badParsed {
		l := byPath[badPath]
		labels := keys(labelSet)
		labels = append(labels, "out-of-range", "out-of-range:"+l.Class.String())
		if valErr == nil {
			return vrt.KeyedViolationf("out-of-range-accepted", "leaf %s (%s): the out-of-range literal was accepted without an error %s", l.Path, l.TypeExpr, where())
		}
		return vrt.OK(len(flagVal) > 0, labels...)
	}
	if valErr != nil {
		return vrt.Violationf("Value() failed on a valid command line: %v %s", valErr, where())
	}
	if got.Kind() == reflect.Pointer {
		got = got.Elem()
	}
	if got.Type() != pt {
		return vrt.Violationf("Value() returned %s, want %s", got.Type(), pt)
	}

	// (c) exactly the given flags are set, to the accumulated value
	for _, l := range leaves {
		f := shape.FieldByPath(got, l.Path)
		set := f.IsValid() && !f.IsNil()
		want, given := flagVal[l.Path]
		switch {
		case given && !set:
			return vrt.KeyedViolationf("given-unset", "leaf %s (%s): its flag was given but the leaf is unset in the source's value %s", l.Path, l.TypeExpr, where())
		case !given && set:
			return vrt.KeyedViolationf("unset-set", "leaf %s (%s): its flag was not given but the source's value sets it (to %v) %s", l.Path, l.TypeExpr, reflect.Indirect(f).Interface(), where())
		case given:
			if f.Kind() == reflect.Pointer {
				f = f.Elem()
			}
			if df := leafDiff(want, f, true); df != "" {
				return vrt.KeyedViolationf("flag-value", "leaf %s (%s): expected vs parsed flag value differ at %s %s", l.Path, l.TypeExpr, df, where())
			}
		}
	}

	// stack between the lower and the higher layer
	lower, err := b.Layer(pt, d.Layers[0])
	if err != nil {
		return vrt.Violationf("pointerified type cannot hold the lower layer: %v", err)
	}
	higher, err := b.Layer(pt, d.Layers[1])
	if err != nil {
		return vrt.Violationf("pointerified type cannot hold the higher layer: %v", err)
	}
	if d.Layers[0].ByPtr {
		lower = lower.Addr()
	}
	if d.Layers[1].ByPtr {
		higher = higher.Addr()
	}
	stacked, err := dials.VerifCompose(defaults.Interface(), []reflect.Value{lower, got, higher})
	if err != nil {
		return vrt.Violationf("stacking failed: %v %s", err, where())
	}
	// reference: per leaf the higher layer, else the flag, else the lower layer, else the default
	flagLayer := shape.Layer{Set: map[string]uint64{}}
	for p := range flagVal {
		flagLayer.Set[p] = 1
	}
	d3 := shape.Data{Defaults: d.Defaults, DefNil: d.DefNil, Layers: []shape.Layer{d.Layers[0], flagLayer, d.Layers[1]}}
	want := b.Expected(d3)
	for p, v := range flagVal {
		if s, ok := d.Layers[1].Set[p]; ok && s != 0 {
			continue
		}
		f := shape.FieldByPath(want.Elem(), p)
		if !f.IsValid() || !f.CanSet() {
			return vrt.Discardf("reference model cannot place the flag value")
		}
		f.Set(v)
	}
	if df := shape.Diff(want.Elem(), reflect.ValueOf(stacked).Elem()); df != "" {
		return vrt.KeyedViolationf("stacked", "stacked config differs from the reference at %s (want vs got) %s", df, where())
	}

	// non-triviality: >=1 flag given and >=1 not given on leaves the lower layer sets
	givenLower, notGivenLower := 0, 0
	for p, s := range d.Layers[0].Set {
		if s == 0 {
			continue
		}
		l, ok := byPath[p]
		if !ok {
			continue
		}
		if _, hasFlag := cfg.flagName(l); !hasFlag {
			continue
		}
		if _, given := flagVal[p]; given {
			givenLower++
		} else {
			notGivenLower++
		}
	}
	for p := range flagVal {
		if d.DefNil != nil {
			for np := range d.DefNil {
				if strings.HasPrefix(p, np+".") {
					labelSet["flag-below-nil-default-pstruct"] = true
				}
			}
		}
		if s := d.Layers[1].Set[p]; s != 0 {
			labelSet["higher-overrides-flag"] = true
		}
	}
	if goCollision != "" {
		labelSet["go-fieldname-collision"] = true
	}
	labelSet[fmt.Sprintf("flags-given=%s", bucket(len(flagVal)))] = true
	return vrt.OK(givenLower >= 1 && notGivenLower >= 1, keys(labelSet)...)
}

func bucket(n int) string {
	switch {
	case n == 0:
		return "0"
	case n <= 2:
		return "1-2"
	case n <= 5:
		return "3-5"
	}
	return "6+"
}

func keys(m map[string]bool) []string {
	out := make([]string, 0, len(m))
	for k := range m {
		out = append(out, k)
	}
	sort.Strings(out)
	return out
}

const c12Rule = "config struct types from the shape grammar restricted to flag-supported leaves (bool, all integer widths, floats, complex, string, time.Duration, time.Time, text-unmarshalable types, []string, integer slices, map[string]string, map[string][]string, map[string]struct{}, named scalars) plus a few unsupported bystander leaves and skipped fields, nested through structs, pointer structs and embedded structs (depth<=3, <=6 fields per struct); `dials` tags at any level, the source's own name tag (or \"-\") and, for pflag, shorthand tags on some leaves; template defaults and a lower and a higher static layer from per-leaf seeds; one of eleven name configs (default, library encoders, harness-defined encoders); " +
	"who parses is drawn too: in two thirds of the cases the source parses inside Value() (NewSetWithArgs); otherwise the harness acts as a program that parses first — it calls Flags.Parse(argv) on the FlagSet NewSetWithArgs registered its flags in (both packages) or, for pflag, owns the FlagSet, hands it to NewSetWithFlagSet / NewDefaultSetWithFlagSet and parses it — after the constructor and before Value(); the expected values are the same (every occurrence accumulates exactly once); " +
	"for the standard flag source the FlagSet is drawn as well: private (NewSetWithArgs) in two thirds of the cases, otherwise one on which some of the leaves' flag names ALREADY exist when the set under test registers its flags — NewCmdLineSet on flag.CommandLine (swapped with os.Args for a fresh FlagSet during the case and restored) or a &Set{Flags,ParseFunc,NameCfg} literal that registers lazily inside Value(); the existing flags come from the program (a drawn subset of the bool/integer/float/string/duration leaves registered with the flag package's own typed functions) and/or from an earlier dials Set over the same config type built on the same FlagSet and asked for its value first; the expected values of the set under test are exactly those of a private FlagSet (a flag that already existed still sets its leaf); " +
	"a command line rendered by the harness: any subset of flags, 1..3 occurrences each in any order (collection flags: in a fifth of the cases only explicitly empty occurrences `-f=` / `-f \"\"` over a template default made non-empty, in another fifth empty occurrences mixed with non-empty ones), -f=v / -f v / bare and =value bool forms, one or two dashes (flag) or long/shorthand forms (pflag), number bases, quoting styles, optionally a `--` terminator and, in a quarter of the cases, one literal just outside a leaf type's range. " +
	"Oracle: registered flag names equal the names known by construction (source tag verbatim, else dials tags / field-name words along the path joined by the tag encoder; untagged embedded structs contribute nothing); every advertised default reads back (harness parsers) as the template's value; Value() sets exactly the leaves whose flag appeared before `--`, scalars to the last value, collections to first-occurrence-replaces-then-accumulate (an empty occurrence is an occurrence: it replaces the default like any first occurrence and adds nothing later, so only-empty occurrences yield the empty non-nil collection for every helper: []string of both packages, signed and unsigned integer slices, sets, map[string]string, map[string][]string); stacked with VerifCompose between the two layers every leaf is higher, else flag, else lower, else default; the out-of-range literal makes Value() fail (or already the program's own Parse, when the program parses). " +
	"non-trivial = at least one flag given and at least one not given on flag-bearing leaves that the lower layer sets; distinct = distinct case JSON"

var c12Assumptions = []string{
	"config types whose distinct field paths flatten to the same Go field name (AlphaBravo next to Alpha.Bravo) are outside the domain (no distinct flattened leaf names); the rare generated ones are counted as discards",
	"explicit FlagSets through NewSetWithArgs (and pflag's NewSetWithFlagSet / NewDefaultSetWithFlagSet); flag.CommandLine / os.Args are never touched, so the NewCmdLineSet + flag.Parse() flow is represented by pre-parsing the explicit FlagSet",
	"a program pre-parses only FlagSets whose flags the constructor has already registered (all constructors used here register eagerly; a literal &Set{} registers lazily inside Value() and cannot be pre-parsed)",
	"two leaves never share a flag name (a second registration of a name is skipped by design)",
	"flags that exist before the set registers are generated for the standard flag source only: the unmodified pflag source does not bind a leaf to a flag it did not register itself (its Value() looks values up in a table filled only for its own registrations), reported separately",
	"a literal &Set{} has no template, so its flags advertise zero values; advertised defaults are not compared there",
	"on the ContinueOnError stand-in for flag.CommandLine, flag.Parse() swallows parse errors a real process exits on; cases with an out-of-range literal on it let the program parse",
	"the out-of-range literal is the last occurrence of its flag (the standard flag source checks the narrowed range on the final value only)",
	"string elements of collection flags are spelled bare (plain identifiers), raw-quoted or Go-quoted; the collection syntax itself belongs to C15",
	"field names are assembled from a vocabulary whose decoding is unambiguous (C19 owns the decoder)",
	"the value passed to Value() is dials.NewType(ptrify.Pointerify(T, template)) as dials.Config does; stacking goes through the verif-tagged VerifCompose",
	"pflag's CSV default string cannot distinguish [] from [\"\"]; both are accepted for that template value",
}

func TestC12Flag(t *testing.T) {
	vrt.Check(t, vrt.Prop[C12Case]{
		ID: "C12", Name: "flag", Rule: "standard-library flag source. " + c12Rule, Assumptions: c12Assumptions,
		Gen: genC12("flag"), Run: runC12,
	})
}

func TestC12Pflag(t *testing.T) {
	vrt.Check(t, vrt.Prop[C12Case]{
		ID: "C12", Name: "pflag", Rule: "pflag source. " + c12Rule, Assumptions: c12Assumptions,
		Gen: genC12("pflag"), Run: runC12,
	})
}
