package pez

import (
	"errors"
	"fmt"
	"path/filepath"
	"reflect"
	"sync"
	"time"
)

// ----------------------------------------------------------------------------
// Static ez config types.  Every type implements ez.ConfigWithConfigPath and
// dials.VerifiedConfig.  Verify records (a deep copy of) every receiver it is
// called with into the per-case recorder and fails for content chosen by the
// generator.

// errVerify is the sentinel every Verify failure wraps; the entry point's
// error must errors.Is it.
var errVerify = errors.New("c18 verifier rejected the config")

// verifyRec is the per-case recorder; reset at the start of each Run.
type verifyRec struct {
	mu    sync.Mutex
	calls []any // deep copies of the receivers (pointers to the config type)
	ptrs  []any // the receivers themselves (to see whether they are modified later)
}

var (
	recMu sync.Mutex
	rec   *verifyRec // nil: recording off (used when the oracle itself evaluates the rule)
)

func setRecorder(r *verifyRec) {
	recMu.Lock()
	rec = r
	recMu.Unlock()
}

func recordVerify(cfg any) {
	recMu.Lock()
	r := rec
	recMu.Unlock()
	if r == nil {
		return
	}
	cp := deepCopy(cfg)
	r.mu.Lock()
	r.calls = append(r.calls, cp)
	r.ptrs = append(r.ptrs, cfg)
	r.mu.Unlock()
}

// receivers returns the Verify receivers and the snapshots taken at call time.
func (r *verifyRec) receivers() (ptrs, snaps []any) {
	r.mu.Lock()
	defer r.mu.Unlock()
	return append([]any(nil), r.ptrs...), append([]any(nil), r.calls...)
}

func (r *verifyRec) snapshot() []any {
	r.mu.Lock()
	defer r.mu.Unlock()
	return append([]any(nil), r.calls...)
}

// deepCopy copies pointers, structs, maps and slices (all the config types use).
func deepCopy(v any) any {
	return deepCopyValue(reflect.ValueOf(v)).Interface()
}

func deepCopyValue(v reflect.Value) reflect.Value {
	switch v.Kind() {
	case reflect.Ptr:
		if v.IsNil() {
			return v
		}
		n := reflect.New(v.Type().Elem())
		n.Elem().Set(deepCopyValue(v.Elem()))
		return n
	case reflect.Struct:
		n := reflect.New(v.Type()).Elem()
		for i := 0; i < v.NumField(); i++ {
			n.Field(i).Set(deepCopyValue(v.Field(i)))
		}
		return n
	case reflect.Map:
		if v.IsNil() {
			return v
		}
		n := reflect.MakeMapWithSize(v.Type(), v.Len())
		it := v.MapRange()
		for it.Next() {
			n.SetMapIndex(it.Key(), deepCopyValue(it.Value()))
		}
		return n
	case reflect.Slice:
		if v.IsNil() {
			return v
		}
		n := reflect.MakeSlice(v.Type(), v.Len(), v.Len())
		for i := 0; i < v.Len(); i++ {
			n.Index(i).Set(deepCopyValue(v.Index(i)))
		}
		return n
	default:
		return v
	}
}

// ---- FlatCfg: flat, every field tagged, the path is one leaf.

type FlatCfg struct {
	CfgPath string              `dials:"cfgpath"`
	Name    string              `dials:"name"`
	Count   int                 `dials:"count"`
	Wait    time.Duration       `dials:"wait"`
	Tags    map[string]struct{} `dials:"tags"`
	Guard   string              `dials:"guard"`
	Verbose bool                `dials:"verbose"`
}

func (c *FlatCfg) ConfigPath() (string, bool) { return c.CfgPath, c.CfgPath != "" }

func (c *FlatCfg) Verify() error {
	recordVerify(c)
	return c.rule()
}

func (c *FlatCfg) rule() error {
	if c.Count < 0 {
		return fmt.Errorf("count %d is negative: %w", c.Count, errVerify)
	}
	if c.Guard == "" {
		return fmt.Errorf("guard is unset: %w", errVerify)
	}
	return nil
}

// ---- NestCfg: nesting (two levels), aliases on the path leaf and on a nested leaf.

type NestLimits struct {
	MaxConn int           `dials:"max_conn"`
	Idle    time.Duration `dials:"idle"`
}

// Limits is a user-declared pointer to a struct whose default is non-nil:
// every stacked version must get its own copy of the pointee.
type NestServer struct {
	Host   string      `dials:"host"`
	Port   int         `dials:"port" dialsalias:"listen_port"`
	Limits *NestLimits `dials:"limits"`
}

type NestCfg struct {
	ConfFile string              `dials:"conf_file" dialsalias:"old_conf"`
	Server   NestServer          `dials:"server"`
	Labels   map[string]struct{} `dials:"labels"`
	Level    int                 `dials:"level"`
}

func (c *NestCfg) ConfigPath() (string, bool) { return c.ConfFile, c.ConfFile != "" }

func (c *NestCfg) Verify() error {
	recordVerify(c)
	return c.rule()
}

func (c *NestCfg) rule() error {
	if c.Level <= 0 {
		return fmt.Errorf("level %d is not positive: %w", c.Level, errVerify)
	}
	if c.Server.Limits == nil {
		return fmt.Errorf("limits is nil (the default is non-nil): %w", errVerify)
	}
	if c.Server.Limits.MaxConn < 0 {
		return fmt.Errorf("max_conn %d is negative: %w", c.Server.Limits.MaxConn, errVerify)
	}
	return nil
}

// ---- PlainCfg: no struct tags at all (names derived from the Go field names;
// the file keys are produced with Params.FileFieldNameEncoder), a slice, a
// float and a nested struct.

// (Retries and MaxIdle were "renamed": the old names stay usable through
// dialsalias, written in Go camel case as ez's default DialsTagNameDecoder,
// caseconversion.DecodeGoCamelCase, expects.)
type PlainDB struct {
	Login   string
	Retries int `dialsalias:"RetryBudget"`
}

type PlainCfg struct {
	ConfigFile string
	MaxIdle    int `dialsalias:"IdleLimit"`
	Grace      time.Duration
	Peers      []string
	DB         *PlainDB // non-nil in the defaults
	Weight     float64
}

func (c *PlainCfg) ConfigPath() (string, bool) { return c.ConfigFile, c.ConfigFile != "" }

func (c *PlainCfg) Verify() error {
	recordVerify(c)
	return c.rule()
}

func (c *PlainCfg) rule() error {
	if c.DB == nil {
		return fmt.Errorf("db is nil (the default is non-nil): %w", errVerify)
	}
	if c.DB.Retries < 0 {
		return fmt.Errorf("retries %d is negative: %w", c.DB.Retries, errVerify)
	}
	if c.MaxIdle <= 0 {
		return fmt.Errorf("max idle %d is not positive: %w", c.MaxIdle, errVerify)
	}
	return nil
}

// ---- EmbedCfg: an embedded (anonymous, untagged) struct whose leaves are
// settable from file, env and flag.  Where the embedded leaves live in a
// config file depends on the format, on Params.FlattenAnonymousFields and on
// Params.FileFieldNameEncoder (see leafDef.fileKey).

type EmbedCommon struct {
	Region   string              `dials:"region"`
	Replicas int                 `dials:"replicas"`
	Zones    map[string]struct{} `dials:"zones"`
	Linger   time.Duration       `dials:"linger"`
}

type EmbedCfg struct {
	CfgFile string `dials:"cfgfile"`
	EmbedCommon
	Title string `dials:"title"`
	Rank  int    `dials:"rank"`
}

func (c *EmbedCfg) ConfigPath() (string, bool) { return c.CfgFile, c.CfgFile != "" }

func (c *EmbedCfg) Verify() error {
	recordVerify(c)
	return c.rule()
}

func (c *EmbedCfg) rule() error {
	if c.Replicas < 0 {
		return fmt.Errorf("replicas %d is negative: %w", c.Replicas, errVerify)
	}
	if c.Rank <= 0 {
		return fmt.Errorf("rank %d is not positive: %w", c.Rank, errVerify)
	}
	return nil
}

// ---- SplitCfg: the path is computed from two leaves (directory and base
// name) that different layers may supply; other integer widths.

type SplitInner struct {
	Key   string `dials:"key"`
	Depth uint16 `dials:"depth"`
}

type SplitCfg struct {
	Dir   string              `dials:"dir"`
	Base  string              `dials:"base"`
	Quota int64               `dials:"quota"`
	Modes map[string]struct{} `dials:"modes"`
	TTL   time.Duration       `dials:"ttl"`
	Inner SplitInner          `dials:"inner"`
}

func (c *SplitCfg) ConfigPath() (string, bool) {
	if c.Base == "" {
		return "", false
	}
	return filepath.Join(c.Dir, c.Base), true
}

func (c *SplitCfg) Verify() error {
	recordVerify(c)
	return c.rule()
}

func (c *SplitCfg) rule() error {
	if c.Quota <= 0 {
		return fmt.Errorf("quota %d is not positive: %w", c.Quota, errVerify)
	}
	return nil
}
