package pez

import (
	"fmt"
	"path/filepath"
	"strconv"
	"strings"
	"time"
)

// ----------------------------------------------------------------------------
// Leaf tables: the static description of every leaf of every config type —
// what it is called in each layer (file key path, environment variable, flag;
// these names are written down here and NOT obtained from the library), how a
// value is put into the Go struct, and which Verify rule reads it.

type kind int

const (
	kString kind = iota
	kInt
	kInt64
	kUint16
	kDur
	kFloat
	kSet
	kSlice
	kBool
)

type ruleKind int

const (
	rNone     ruleKind = iota
	rNonNeg            // Verify fails when the value is negative
	rPositive          // Verify fails when the value is <= 0 (so "unset" is invalid)
	rNonEmpty          // Verify fails when the string is empty (only absence can violate it)
)

type pathRole int

const (
	pNone pathRole = iota
	pFull          // the leaf is the whole config path
	pDir           // the leaf is the directory part
	pBase          // the leaf is the base-name part
)

// value is one leaf value in a kind-independent form.
type value struct {
	s     string
	i     int64
	d     time.Duration
	f     float64
	elems []string
	b     bool
}

type leafDef struct {
	name string
	kind kind
	rule ruleKind
	path pathRole
	// file key path when the struct carries dials tags (nil for PlainCfg)
	tagPath  []string
	aliasTag string // alias for the last element of tagPath ("" = no alias)
	// untagged leaves: the dialsalias text (Go camel case) and its words
	aliasGo    string
	aliasWords []string
	// untagged: Go field names and their decoded words
	goPath  []string
	goWords [][]string
	// the leaf lives in an embedded struct: its Go type name and words
	embedName  string
	embedWords []string
	env        string
	envAl      string
	flag       string
	flagAl     string
	set        func(cfg any, v value)
}

func (l *leafDef) hasAlias() bool { return l.aliasTag != "" || l.aliasGo != "" }
func (l *leafDef) isInt() bool    { return l.kind == kInt || l.kind == kInt64 || l.kind == kUint16 }

type typeDef struct {
	name   string
	leaves []leafDef
	tagged bool
}

func set(m map[string]struct{}, es []string) map[string]struct{} {
	m = make(map[string]struct{}, len(es))
	for _, e := range es {
		m[e] = struct{}{}
	}
	return m
}

var flatDef = typeDef{name: "flat", tagged: true, leaves: []leafDef{
	{name: "CfgPath", kind: kString, path: pFull, tagPath: []string{"cfgpath"}, env: "CFGPATH", flag: "cfgpath",
		set: func(c any, v value) { c.(*FlatCfg).CfgPath = v.s }},
	{name: "Name", kind: kString, tagPath: []string{"name"}, env: "NAME", flag: "name",
		set: func(c any, v value) { c.(*FlatCfg).Name = v.s }},
	{name: "Count", kind: kInt, rule: rNonNeg, tagPath: []string{"count"}, env: "COUNT", flag: "count",
		set: func(c any, v value) { c.(*FlatCfg).Count = int(v.i) }},
	{name: "Wait", kind: kDur, tagPath: []string{"wait"}, env: "WAIT", flag: "wait",
		set: func(c any, v value) { c.(*FlatCfg).Wait = v.d }},
	{name: "Tags", kind: kSet, tagPath: []string{"tags"}, env: "TAGS", flag: "tags",
		set: func(c any, v value) { c.(*FlatCfg).Tags = set(nil, v.elems) }},
	{name: "Guard", kind: kString, rule: rNonEmpty, tagPath: []string{"guard"}, env: "GUARD", flag: "guard",
		set: func(c any, v value) { c.(*FlatCfg).Guard = v.s }},
	{name: "Verbose", kind: kBool, tagPath: []string{"verbose"}, env: "VERBOSE", flag: "verbose",
		set: func(c any, v value) { c.(*FlatCfg).Verbose = v.b }},
}}

var nestDef = typeDef{name: "nest", tagged: true, leaves: []leafDef{
	{name: "ConfFile", kind: kString, path: pFull, tagPath: []string{"conf_file"}, aliasTag: "old_conf",
		env: "CONF_FILE", envAl: "OLD_CONF", flag: "conf_file", flagAl: "old_conf",
		set: func(c any, v value) { c.(*NestCfg).ConfFile = v.s }},
	{name: "Server.Host", kind: kString, tagPath: []string{"server", "host"}, env: "SERVER_HOST", flag: "server-host",
		set: func(c any, v value) { c.(*NestCfg).Server.Host = v.s }},
	{name: "Server.Port", kind: kInt, tagPath: []string{"server", "port"}, aliasTag: "listen_port",
		env: "SERVER_PORT", envAl: "SERVER_LISTEN_PORT", flag: "server-port", flagAl: "server-listen_port",
		set: func(c any, v value) { c.(*NestCfg).Server.Port = int(v.i) }},
	{name: "Server.Limits.MaxConn", kind: kInt, rule: rNonNeg, tagPath: []string{"server", "limits", "max_conn"},
		env: "SERVER_LIMITS_MAX_CONN", flag: "server-limits-max_conn",
		set: func(c any, v value) { c.(*NestCfg).Server.Limits.MaxConn = int(v.i) }}, // (Limits is allocated by newConfig)
	{name: "Server.Limits.Idle", kind: kDur, tagPath: []string{"server", "limits", "idle"},
		env: "SERVER_LIMITS_IDLE", flag: "server-limits-idle",
		set: func(c any, v value) { c.(*NestCfg).Server.Limits.Idle = v.d }},
	{name: "Labels", kind: kSet, tagPath: []string{"labels"}, env: "LABELS", flag: "labels",
		set: func(c any, v value) { c.(*NestCfg).Labels = set(nil, v.elems) }},
	{name: "Level", kind: kInt, rule: rPositive, tagPath: []string{"level"}, env: "LEVEL", flag: "level",
		set: func(c any, v value) { c.(*NestCfg).Level = int(v.i) }},
}}

var plainDef = typeDef{name: "plain", tagged: false, leaves: []leafDef{
	{name: "ConfigFile", kind: kString, path: pFull, goPath: []string{"ConfigFile"}, goWords: [][]string{{"config", "file"}},
		env: "CONFIG_FILE", flag: "config-file",
		set: func(c any, v value) { c.(*PlainCfg).ConfigFile = v.s }},
	{name: "MaxIdle", kind: kInt, rule: rPositive, goPath: []string{"MaxIdle"}, goWords: [][]string{{"max", "idle"}},
		aliasGo: "IdleLimit", aliasWords: []string{"idle", "limit"},
		env: "MAX_IDLE", envAl: "IDLE_LIMIT", flag: "max-idle", flagAl: "IdleLimit", // (the flag keeps the alias text as written)
		set: func(c any, v value) { c.(*PlainCfg).MaxIdle = int(v.i) }},
	{name: "Grace", kind: kDur, goPath: []string{"Grace"}, goWords: [][]string{{"grace"}}, env: "GRACE", flag: "grace",
		set: func(c any, v value) { c.(*PlainCfg).Grace = v.d }},
	{name: "Peers", kind: kSlice, goPath: []string{"Peers"}, goWords: [][]string{{"peers"}}, env: "PEERS", flag: "peers",
		set: func(c any, v value) { c.(*PlainCfg).Peers = append([]string(nil), v.elems...) }},
	{name: "DB.Login", kind: kString, goPath: []string{"DB", "Login"}, goWords: [][]string{{"db"}, {"login"}},
		env: "DB_LOGIN", flag: "db-login",
		set: func(c any, v value) { c.(*PlainCfg).DB.Login = v.s }},
	{name: "DB.Retries", kind: kInt, rule: rNonNeg, goPath: []string{"DB", "Retries"}, goWords: [][]string{{"db"}, {"retries"}},
		aliasGo: "RetryBudget", aliasWords: []string{"retry", "budget"},
		env: "DB_RETRIES", envAl: "DB_RETRY_BUDGET", flag: "db-retries", flagAl: "db-RetryBudget",
		set: func(c any, v value) { c.(*PlainCfg).DB.Retries = int(v.i) }},
	{name: "Weight", kind: kFloat, goPath: []string{"Weight"}, goWords: [][]string{{"weight"}}, env: "WEIGHT", flag: "weight",
		set: func(c any, v value) { c.(*PlainCfg).Weight = v.f }},
}}

var splitDef = typeDef{name: "split", tagged: true, leaves: []leafDef{
	{name: "Dir", kind: kString, path: pDir, tagPath: []string{"dir"}, env: "DIR", flag: "dir",
		set: func(c any, v value) { c.(*SplitCfg).Dir = v.s }},
	{name: "Base", kind: kString, path: pBase, tagPath: []string{"base"}, env: "BASE", flag: "base",
		set: func(c any, v value) { c.(*SplitCfg).Base = v.s }},
	{name: "Quota", kind: kInt64, rule: rPositive, tagPath: []string{"quota"}, env: "QUOTA", flag: "quota",
		set: func(c any, v value) { c.(*SplitCfg).Quota = v.i }},
	{name: "Modes", kind: kSet, tagPath: []string{"modes"}, env: "MODES", flag: "modes",
		set: func(c any, v value) { c.(*SplitCfg).Modes = set(nil, v.elems) }},
	{name: "TTL", kind: kDur, tagPath: []string{"ttl"}, env: "TTL", flag: "ttl",
		set: func(c any, v value) { c.(*SplitCfg).TTL = v.d }},
	{name: "Inner.Key", kind: kString, tagPath: []string{"inner", "key"}, env: "INNER_KEY", flag: "inner-key",
		set: func(c any, v value) { c.(*SplitCfg).Inner.Key = v.s }},
	{name: "Inner.Depth", kind: kUint16, tagPath: []string{"inner", "depth"}, env: "INNER_DEPTH", flag: "inner-depth",
		set: func(c any, v value) { c.(*SplitCfg).Inner.Depth = uint16(v.i) }},
}}

// newConfig returns an empty config of the named type with its pointer-typed
// struct fields allocated: the defaults always hold non-nil pointers, and so
// does every expected config.
func newConfig(name string) any {
	switch name {
	case "flat":
		return &FlatCfg{}
	case "nest":
		return &NestCfg{Server: NestServer{Limits: &NestLimits{}}}
	case "plain":
		return &PlainCfg{DB: &PlainDB{}}
	case "split":
		return &SplitCfg{}
	case "embed":
		return &EmbedCfg{}
	}
	panic("unknown type " + name)
}

var embedDef = typeDef{name: "embed", tagged: true, leaves: []leafDef{
	{name: "CfgFile", kind: kString, path: pFull, tagPath: []string{"cfgfile"}, env: "CFGFILE", flag: "cfgfile",
		set: func(c any, v value) { c.(*EmbedCfg).CfgFile = v.s }},
	{name: "EmbedCommon.Region", kind: kString, tagPath: []string{"region"}, embedName: "EmbedCommon", embedWords: []string{"embed", "common"},
		env: "REGION", flag: "region",
		set: func(c any, v value) { c.(*EmbedCfg).Region = v.s }},
	{name: "EmbedCommon.Replicas", kind: kInt, rule: rNonNeg, tagPath: []string{"replicas"}, embedName: "EmbedCommon", embedWords: []string{"embed", "common"},
		env: "REPLICAS", flag: "replicas",
		set: func(c any, v value) { c.(*EmbedCfg).Replicas = int(v.i) }},
	{name: "EmbedCommon.Zones", kind: kSet, tagPath: []string{"zones"}, embedName: "EmbedCommon", embedWords: []string{"embed", "common"},
		env: "ZONES", flag: "zones",
		set: func(c any, v value) { c.(*EmbedCfg).Zones = set(nil, v.elems) }},
	{name: "EmbedCommon.Linger", kind: kDur, tagPath: []string{"linger"}, embedName: "EmbedCommon", embedWords: []string{"embed", "common"},
		env: "LINGER", flag: "linger",
		set: func(c any, v value) { c.(*EmbedCfg).Linger = v.d }},
	{name: "Title", kind: kString, tagPath: []string{"title"}, env: "TITLE", flag: "title",
		set: func(c any, v value) { c.(*EmbedCfg).Title = v.s }},
	{name: "Rank", kind: kInt, rule: rPositive, tagPath: []string{"rank"}, env: "RANK", flag: "rank",
		set: func(c any, v value) { c.(*EmbedCfg).Rank = int(v.i) }},
}}

var typeDefs = map[string]*typeDef{"flat": &flatDef, "nest": &nestDef, "plain": &plainDef, "split": &splitDef, "embed": &embedDef}
var typeNames = []string{"flat", "nest", "plain", "split", "embed"}

// ----------------------------------------------------------------------------
// Values by construction.  gen identifies the origin of a value:
//   0 default, 1 file (initial), 2 environment, 3 flag, 4..6 file rewrite 1..3,
//   7 decoy file.
// For one leaf (one seed) the values of different origins are pairwise
// different, so the winning layer is identifiable from the value alone
// (except for bools, and except where the case says that one layer repeats
// the default's value: LeafCase.EqDef).

const (
	gDefault = 0
	gFile    = 1
	gEnv     = 2
	gFlag    = 3
	gDecoy   = 7
)

const genLetters = "dfegrstz"

func leafValue(l *leafDef, seed, gen int, bad bool) value {
	n := int64(seed)*8 + int64(gen)
	switch l.kind {
	case kString:
		return value{s: fmt.Sprintf("%c%dx%d", genLetters[gen], seed, gen)}
	case kInt, kInt64, kUint16:
		if bad && l.kind != kUint16 {
			return value{i: -n}
		}
		return value{i: n}
	case kDur:
		return value{d: time.Duration(n) * time.Millisecond}
	case kFloat:
		return value{f: float64(n) + 0.5}
	case kSet, kSlice:
		return value{elems: []string{fmt.Sprintf("%c%d", genLetters[gen], seed), fmt.Sprintf("%ck%d", genLetters[gen], gen)}}
	case kBool:
		// only two values: bit gen of the seed (the layers of one leaf are
		// NOT pairwise different for this kind)
		return value{b: (seed>>uint(gen))&1 == 1}
	}
	panic("unknown kind")
}

// text is the value as the environment / a flag / the parse package takes it.
func (l *leafDef) text(v value) string {
	switch l.kind {
	case kString:
		return v.s
	case kInt, kInt64, kUint16:
		return strconv.FormatInt(v.i, 10)
	case kDur:
		return v.d.String()
	case kFloat:
		return strconv.FormatFloat(v.f, 'f', -1, 64)
	case kSet, kSlice:
		return strings.Join(v.elems, ",")
	case kBool:
		return strconv.FormatBool(v.b)
	}
	panic("unknown kind")
}

// lit is the value as a literal that is valid in JSON, YAML, TOML and Cue.
func (l *leafDef) lit(v value) string {
	switch l.kind {
	case kString:
		return strconv.Quote(v.s)
	case kInt, kInt64, kUint16:
		return strconv.FormatInt(v.i, 10)
	case kDur:
		return strconv.Quote(v.d.String())
	case kFloat:
		// always a float literal ("0" is an integer in TOML, and go-toml
		// does not convert it)
		s := strconv.FormatFloat(v.f, 'f', -1, 64)
		if !strings.Contains(s, ".") {
			s += ".0"
		}
		return s
	case kSet, kSlice:
		qs := make([]string, len(v.elems))
		for i, e := range v.elems {
			qs[i] = strconv.Quote(e)
		}
		return "[" + strings.Join(qs, ", ") + "]"
	case kBool:
		return strconv.FormatBool(v.b)
	}
	panic("unknown kind")
}

// fileKey is the key path of the leaf in a config file of the given format.
// enc is "" (no FileFieldNameEncoder), "snake", "kebab" or "upper"
// (UPPER_SNAKE); PlainCfg and EmbedCfg only.
//
// An untagged leaf with a dialsalias (Go camel case, which is what ez's default
// DialsTagNameDecoder DecodeGoCamelCase splits): read off the unmodified tree,
// the alias key in the file is the alias's words in the encoder's casing
// (IdleLimit -> idle_limit / idle-limit / IDLE_LIMIT), and without an encoder
// the alias text as written (in every format, YAML included: it is a tag).
// flatten is Params.FlattenAnonymousFields.
//
// Leaves of an embedded (anonymous, untagged) struct - layout read off the
// unmodified tree: without an encoder JSON and Cue promote them to the level
// of the embedding struct, yaml.v2 nests them under the lower-cased type name
// unless FlattenAnonymousFields promotes them, go-toml nests them under the
// type name; with a FileFieldNameEncoder the embedded field gets a tag made of
// its type name's words, so every format nests them under that name - except
// YAML with FlattenAnonymousFields, which still promotes.
func (l *leafDef) fileKey(format, enc string, flatten, alias bool) []string {
	if l.tagPath != nil {
		var k []string
		if l.embedName != "" {
			switch {
			case format == "yaml" && flatten:
			case enc == "snake":
				k = append(k, strings.Join(l.embedWords, "_"))
			case enc == "kebab":
				k = append(k, strings.Join(l.embedWords, "-"))
			case enc == "upper":
				k = append(k, strings.Join(l.embedWords, "_")) // upper-cased below
			case format == "yaml":
				k = append(k, strings.ToLower(l.embedName))
			case format == "toml":
				k = append(k, l.embedName)
			}
		}
		k = append(k, l.tagPath...)
		if alias && l.aliasTag != "" {
			k[len(k)-1] = l.aliasTag
		}
		if enc == "upper" {
			for i := range k {
				k[i] = strings.ToUpper(k[i]) // single-word tags, UPPER_SNAKE encoder
			}
		}
		return k
	}
	k := make([]string, len(l.goPath))
	for i, g := range l.goPath {
		switch enc {
		case "snake":
			k[i] = strings.Join(l.goWords[i], "_")
		case "kebab":
			k[i] = strings.Join(l.goWords[i], "-")
		case "upper":
			k[i] = strings.ToUpper(strings.Join(l.goWords[i], "_"))
		default:
			if format == "yaml" {
				k[i] = strings.ToLower(g) // yaml.v2's default key for an untagged field
			} else {
				k[i] = g
			}
		}
	}
	if alias && l.aliasGo != "" {
		switch enc {
		case "snake":
			k[len(k)-1] = strings.Join(l.aliasWords, "_")
		case "kebab":
			k[len(k)-1] = strings.Join(l.aliasWords, "-")
		case "upper":
			k[len(k)-1] = strings.ToUpper(strings.Join(l.aliasWords, "_"))
		default:
			k[len(k)-1] = l.aliasGo
		}
	}
	return k
}

// ----------------------------------------------------------------------------
// Config-file emitters (independent of the library's decoders).

type node struct {
	key  string
	lit  string // scalar / list literal ("" for a table)
	kids []*node
}

func (n *node) child(key string) *node {
	for _, k := range n.kids {
		if k.key == key {
			return k
		}
	}
	k := &node{key: key}
	n.kids = append(n.kids, k)
	return k
}

func (n *node) put(path []string, lit string) {
	cur := n
	for _, p := range path {
		cur = cur.child(p)
	}
	cur.lit = lit
}

func (n *node) isTable() bool { return n.lit == "" }

func emit(format string, root *node) string {
	var b strings.Builder
	switch format {
	case "json":
		emitJSON(&b, root, 0)
		b.WriteString("\n")
	case "yaml":
		if len(root.kids) == 0 {
			return "{}\n"
		}
		emitYAML(&b, root, 0)
	case "toml":
		emitTOML(&b, root, "")
	case "cue":
		emitCue(&b, root, 0)
	default:
		panic("unknown format " + format)
	}
	return b.String()
}

func emitJSON(b *strings.Builder, n *node, depth int) {
	ind := strings.Repeat("  ", depth+1)
	b.WriteString("{")
	for i, k := range n.kids {
		if i > 0 {
			b.WriteString(",")
		}
		b.WriteString("\n" + ind + strconv.Quote(k.key) + ": ")
		if k.isTable() {
			emitJSON(b, k, depth+1)
		} else {
			b.WriteString(k.lit)
		}
	}
	if len(n.kids) > 0 {
		b.WriteString("\n" + strings.Repeat("  ", depth))
	}
	b.WriteString("}")
}

func emitYAML(b *strings.Builder, n *node, depth int) {
	ind := strings.Repeat("  ", depth)
	for _, k := range n.kids {
		if k.isTable() && len(k.kids) == 0 {
			b.WriteString(ind + k.key + ": {}\n")
		} else if k.isTable() {
			b.WriteString(ind + k.key + ":\n")
			emitYAML(b, k, depth+1)
		} else {
			b.WriteString(ind + k.key + ": " + k.lit + "\n")
		}
	}
}

func emitTOML(b *strings.Builder, n *node, prefix string) {
	for _, k := range n.kids {
		if !k.isTable() {
			b.WriteString(k.key + " = " + k.lit + "\n")
		}
	}
	for _, k := range n.kids {
		if k.isTable() {
			full := k.key
			if prefix != "" {
				full = prefix + "." + k.key
			}
			b.WriteString("\n[" + full + "]\n")
			emitTOML(b, k, full)
		}
	}
}

func emitCue(b *strings.Builder, n *node, depth int) {
	ind := strings.Repeat("\t", depth)
	for _, k := range n.kids {
		if k.isTable() {
			b.WriteString(ind + strconv.Quote(k.key) + ": {\n")
			emitCue(b, k, depth+1)
			b.WriteString(ind + "}\n")
		} else {
			b.WriteString(ind + strconv.Quote(k.key) + ": " + k.lit + "\n")
		}
	}
}

// malformed returns content the decoder of the format must reject.
// variant 0: syntax garbage; variant 1: a well-formed document whose value for
// an integer leaf is a list of strings.
func malformed(format string, variant int, intKey []string) string {
	if variant == 1 && intKey != nil {
		root := &node{}
		root.put(intKey, `["not", "a", "number"]`)
		return emit(format, root)
	}
	switch format {
	case "json":
		return `{"name": `
	case "yaml":
		return "name: [1, 2\nother: }{\n"
	case "toml":
		return "name = = 1\n"
	default:
		return "name: {\n"
	}
}

// ----------------------------------------------------------------------------
// Paths.

type paths struct {
	dir string // temp dir of the case
	ext string
}

// full-path leaves: the value the given origin supplies.  real says whether
// the origin is the one whose path must be used.
func (p paths) fullPath(gen int, real bool) string {
	if real {
		return filepath.Join(p.dir, "real"+p.ext)
	}
	return filepath.Join(p.dir, fmt.Sprintf("decoy-%d%s", gen, p.ext))
}

func (p paths) dirOf(gen int) string  { return filepath.Join(p.dir, fmt.Sprintf("dir%d", gen)) }
func (p paths) baseOf(gen int) string { return fmt.Sprintf("base%d%s", gen, p.ext) }
