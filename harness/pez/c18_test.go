package pez

import (
	"context"
	"encoding/json"
	"errors"
	"flag"
	"fmt"
	"io"
	"os"
	"path/filepath"
	"reflect"
	"runtime"
	"runtime/debug"
	"sort"
	"strconv"
	"strings"
	"sync"
	"syscall"
	"testing"
	"testing/synctest"
	"time"
	"unsafe"

	"github.com/vimeo/dials"
	"github.com/vimeo/dials/decoders/cue"
	djson "github.com/vimeo/dials/decoders/json"
	"github.com/vimeo/dials/decoders/toml"
	"github.com/vimeo/dials/decoders/yaml"
	"github.com/vimeo/dials/ez"
	dflag "github.com/vimeo/dials/sources/flag"
	"github.com/vimeo/dials/tagformat/caseconversion"
	"pgregory.net/rapid"

	"verifharness/internal/vrt"
)

// ----------------------------------------------------------------------------
// The case.

const (
	bDefault = 1 << iota
	bFile
	bEnv
	bFlag
)

// LeafCase says which layers set one leaf and with what.
type LeafCase struct {
	Layers int `json:"layers"`          // bit0 default, bit1 file, bit2 environment, bit3 flag
	Seed   int `json:"seed"`            // values are derived from (seed, layer): distinct per layer
	Bad    int `json:"bad,omitempty"`   // same bits: that layer's value violates the leaf's Verify rule (signed integer leaves with a rule)
	Alias  int `json:"alias,omitempty"` // bits 1..3: that layer addresses the leaf by its alias name
	Form   int `json:"form,omitempty"`  // argv form of the flag: -n=v, --n=v, -n v, --n v (bools: -n=v, --n=v, -n / -n=false, --n / --n=false)
	// EqDef: 0, or ONE of the file/env/flag bits: that layer carries exactly
	// the value the defaults struct has for the leaf (the generated default,
	// or the zero value when the default layer does not set the leaf), so
	// "explicitly set to the default" must still beat the lower layers.
	EqDef int `json:"eq_def,omitempty"`
	// EmptyFile (set leaves, AutoSetToSlice on): the file assigns the leaf an
	// explicitly empty list; the file layer's value is the empty set.
	EmptyFile bool `json:"empty_file,omitempty"`
	// PreReg (scalar leaves, flag modes cmdline and ownset): the APPLICATION
	// defined this leaf's flag itself (std flag type matching the leaf, its
	// own default and help text) on the FlagSet before ez's flag source
	// registered the rest; the flag is on the command line iff the flag bit
	// of Layers is set.
	PreReg bool `json:"pre_reg,omitempty"`
}

// RewLeaf is one leaf in a later version of the config file.
type RewLeaf struct {
	In    bool `json:"in,omitempty"`
	Bad   bool `json:"bad,omitempty"`
	Alias bool `json:"alias,omitempty"`
	Empty bool `json:"empty,omitempty"` // set leaves: this version assigns an explicitly empty list
}

// Rewrite is one later version of the config file and how it is put in place.
type Rewrite struct {
	Leaves []RewLeaf `json:"leaves"`
	// Mech: "" / "rename" (write a temp file, rename it over the path),
	// "remove-rename" (unlink the file, then temp + rename),
	// "remove-create" (unlink, then create + write at the path),
	// "truncate" (truncate in place, then write).  With Layout k8s every
	// version is installed by a ..data symlink swap instead.
	Mech string `json:"mech,omitempty"`
	// Settle: after the unlink / the truncation wait until the watcher has
	// noticed (inotify queue drained, library goroutines parked) before the
	// new content appears.
	Settle bool `json:"settle,omitempty"`
	// SameAsInitial: this version is byte for byte the file the entry point
	// started with (Leaves is ignored); only after at least one different
	// version, and never directly after identical bytes.
	SameAsInitial bool `json:"same_as_initial,omitempty"`
	// RemoveOld (k8s): remove the previous ..ts-N directory after the swap.
	RemoveOld bool `json:"remove_old,omitempty"`
}

// C18Case describes one ez invocation completely.
type C18Case struct {
	Type      string `json:"type"`                  // flat | nest | plain | split
	Format    string `json:"format"`                // json | yaml | toml | cue
	Entry     string `json:"entry"`                 // typed | ext | factory | factoryp
	Ext       string `json:"ext"`                   // file extension of the config file
	Enc       string `json:"enc,omitempty"`         // plain and embed only: FileFieldNameEncoder "", snake, kebab
	Flatten   bool   `json:"flatten,omitempty"`     // Params.FlattenAnonymousFields
	NoSetList bool   `json:"no_set_list,omitempty"` // Params.DisableAutoSetToSlice: sets are written as maps of empty tables, not as lists
	// ScribbleBefore r > 0: just before file version r is installed the
	// harness overwrites, in place, what the reference-typed leaves of ITS OWN
	// defaults struct point to (map entries, slice elements, pointees); the
	// expected stack keeps using the defaults as they were passed.
	ScribbleBefore int        `json:"scribble_before,omitempty"`
	Watch          bool       `json:"watch"`          // Params.WatchConfigFile
	FlagMode       string     `json:"flag_mode"`      // explicit (flag.NewSetWithArgs) | ownset (the application's FlagSet in a flag.Set literal) | cmdline (flag.CommandLine + os.Args)
	FlagCfg        bool       `json:"flag_cfg"`       // cmdline: pass DefaultFlagNameConfig() explicitly instead of nil
	Callbacks      bool       `json:"callbacks"`      // register OnNewConfig / OnWatchedError
	FileState      string     `json:"file_state"`     // valid | missing | malformed | badext
	Malformed      int        `json:"malformed_kind"` // 0 syntax, 1 wrong type
	Leaves         []LeafCase `json:"leaves"`         // in leaf-table order
	ArgRot         int        `json:"arg_rot"`        // rotation of the argv flag order
	Rewrites       []Rewrite  `json:"rewrites,omitempty"`
	Layout         string     `json:"layout,omitempty"`    // "" direct; "k8s": path -> ..data/<base>, ..data -> ..ts-N (Kubernetes AtomicWriter); watch on, valid file only
	NoBubble       bool       `json:"no_bubble,omitempty"` // watch-off: run in real time instead of a synctest bubble
}

var extsFor = map[string][]string{
	"json": {".json", ".JSON"},
	"yaml": {".yaml", ".yml", ".YML"},
	"toml": {".toml", ".Toml"},
	"cue":  {".cue"},
}

// ----------------------------------------------------------------------------
// Generator.

func genC18(watch bool) func(t *rapid.T) C18Case {
	return func(t *rapid.T) C18Case {
		c := C18Case{Watch: watch}
		c.Type = rapid.SampledFrom(typeNames).Draw(t, "type")
		td := typeDefs[c.Type]
		c.Format = rapid.SampledFrom([]string{"json", "yaml", "toml", "cue"}).Draw(t, "format")
		c.Entry = rapid.SampledFrom([]string{"typed", "typed", "ext", "ext", "factory", "factoryp"}).Draw(t, "entry")
		if c.Entry == "ext" {
			c.Ext = rapid.SampledFrom(extsFor[c.Format]).Draw(t, "ext")
		} else {
			c.Ext = rapid.SampledFrom(append([]string{".conf", "", ".txt"}, extsFor[c.Format]...)).Draw(t, "ext")
		}
		if c.Type == "plain" || c.Type == "embed" {
			c.Enc = rapid.SampledFrom([]string{"", "snake", "kebab", "upper", ""}).Draw(t, "enc")
		}
		c.Flatten = rapid.Bool().Draw(t, "flatten")
		c.NoSetList = rapid.IntRange(0, 2).Draw(t, "no_set_list") == 2
		switch rapid.IntRange(0, 4).Draw(t, "flagmode") {
		case 0:
			c.FlagMode = "cmdline"
			c.FlagCfg = rapid.Bool().Draw(t, "flagcfg")
		case 1:
			c.FlagMode = "ownset"
			c.FlagCfg = rapid.Bool().Draw(t, "flagcfg")
		default:
			c.FlagMode = "explicit"
		}
		c.Callbacks = rapid.IntRange(0, 4).Draw(t, "callbacks") != 0
		// (rapid favours the low end of a range: the common class comes first)
		switch s := rapid.IntRange(0, 19).Draw(t, "filestate"); {
		case s < 15:
			c.FileState = "valid"
		case s < 17:
			c.FileState = "malformed"
			c.Malformed = rapid.IntRange(0, 1).Draw(t, "malformed")
		case s < 19 || c.Entry != "ext":
			c.FileState = "missing"
		default:
			c.FileState = "badext"
			c.Ext = rapid.SampledFrom([]string{".conf", "", ".jsn"}).Draw(t, "badext")
		}
		if !watch {
			c.NoBubble = rapid.IntRange(0, 9).Draw(t, "nobubble") == 0
		}
		noPath := rapid.IntRange(0, 14).Draw(t, "nopath") == 14

		// plan for the verifier: 0 valid, 1 valid only with the file, 2 failing
		plan := 0
		switch s := rapid.IntRange(0, 19).Draw(t, "plan"); {
		case s < 9:
			plan = 0
		case s < 17:
			plan = 1
		default:
			plan = 2
		}
		var ruled []int
		for i := range td.leaves {
			if td.leaves[i].rule != rNone {
				ruled = append(ruled, i)
			}
		}
		target := ruled[rapid.IntRange(0, len(ruled)-1).Draw(t, "target")]

		c.Leaves = make([]LeafCase, len(td.leaves))
		dense := rapid.IntRange(0, 2).Draw(t, "dense") // 0: sparse, 1: half, 2: dense
		for i := range td.leaves {
			l := &td.leaves[i]
			lc := LeafCase{Seed: rapid.IntRange(1, 4000).Draw(t, "seed")}
			if l.path != pNone {
				// who supplies the path: any non-empty subset of default/env/flag
				if !(noPath && l.path != pDir) {
					m := rapid.IntRange(1, 7).Draw(t, "pathsrc")
					if m&1 != 0 {
						lc.Layers |= bDefault
					}
					if m&2 != 0 {
						lc.Layers |= bEnv
					}
					if m&4 != 0 {
						lc.Layers |= bFlag
					}
				}
				if rapid.IntRange(0, 3).Draw(t, "path_in_file") == 0 {
					lc.Layers |= bFile
				}
			} else {
				for b := 0; b < 4; b++ {
					var in bool
					switch dense {
					case 0:
						in = rapid.IntRange(0, 3).Draw(t, "in") == 0
					case 1:
						in = rapid.Bool().Draw(t, "in")
					default:
						in = rapid.IntRange(0, 4).Draw(t, "in") != 0
					}
					if in {
						lc.Layers |= 1 << b
					}
				}
				if l.rule != rNone && l.isInt() {
					for b := 0; b < 4; b++ {
						if rapid.IntRange(0, 3).Draw(t, "bad") == 0 {
							lc.Bad |= 1 << b
						}
					}
				}
			}
			if l.hasAlias() {
				lc.Alias = rapid.IntRange(0, 7).Draw(t, "alias") << 1
			}
			lc.Form = rapid.IntRange(0, 3).Draw(t, "form")
			c.Leaves[i] = lc
		}

		// steer the ruled leaves towards the plan (the oracle does not depend
		// on this: Run evaluates the rules on the expected configs itself)
		top := func(lc LeafCase) int { // highest layer bit set
			for b := 3; b >= 0; b-- {
				if lc.Layers&(1<<b) != 0 {
					return 1 << b
				}
			}
			return 0
		}
		for _, i := range ruled {
			l := &td.leaves[i]
			lc := &c.Leaves[i]
			mode := 0 // make it valid
			if i == target {
				mode = plan
			}
			switch mode {
			case 0:
				if top(*lc) == 0 && l.rule != rNonNeg {
					lc.Layers |= 1 << rapid.IntRange(0, 3).Draw(t, "fix_layer")
				}
				lc.Bad &^= top(*lc)
			case 1:
				lc.Layers &^= bEnv | bFlag
				lc.Layers |= bFile
				lc.Bad &^= bFile
				switch l.rule {
				case rNonNeg:
					lc.Layers |= bDefault
					lc.Bad |= bDefault
				case rPositive:
					if lc.Layers&bDefault != 0 {
						lc.Bad |= bDefault
					}
				case rNonEmpty:
					lc.Layers &^= bDefault
				}
			case 2:
				if l.rule == rNonEmpty {
					lc.Layers = 0
				} else {
					if top(*lc) == 0 {
						lc.Layers |= 1 << rapid.IntRange(0, 3).Draw(t, "fix_layer")
					}
					lc.Bad |= top(*lc)
				}
			}
		}

		// make sure a fair share of cases has a leaf that three or four
		// layers set
		if rapid.IntRange(0, 2).Draw(t, "force_multi") != 0 {
			var cands []int
			for i := range td.leaves {
				if td.leaves[i].path == pNone && !(i == target && plan != 0) {
					cands = append(cands, i)
				}
			}
			i := cands[rapid.IntRange(0, len(cands)-1).Draw(t, "multi_leaf")]
			drop := rapid.IntRange(0, 4).Draw(t, "multi_drop") // 4: keep all four
			m := bDefault | bFile | bEnv | bFlag
			if drop < 4 {
				m &^= 1 << drop
			}
			lc := &c.Leaves[i]
			lc.Layers |= m
			if td.leaves[i].rule != rNone {
				lc.Bad &^= top(*lc)
			}
		}
		// one leaf in five: the highest layer that sets it repeats the
		// default's value while a lower non-default layer says something else
		for i := range td.leaves {
			l := &td.leaves[i]
			if l.path != pNone || (i == target && plan != 0) {
				continue
			}
			if rapid.IntRange(0, 4).Draw(t, "eqdef") != 4 {
				continue
			}
			lc := &c.Leaves[i]
			switch rapid.IntRange(0, 5).Draw(t, "eqdef_layer") {
			case 0, 1, 2: // flag repeats the default; env and/or file differ
				lc.Layers |= bFlag
				if lc.Layers&(bEnv|bFile) == 0 {
					lc.Layers |= []int{bEnv, bFile, bEnv | bFile}[rapid.IntRange(0, 2).Draw(t, "eqdef_lower")]
				}
				lc.EqDef = bFlag
			case 3, 4: // env (the top layer) repeats the default; the file differs
				lc.Layers &^= bFlag
				lc.Layers |= bEnv | bFile
				lc.EqDef = bEnv
			default: // the file (the top layer) repeats the default
				lc.Layers &^= bFlag | bEnv
				lc.Layers |= bFile
				lc.EqDef = bFile
			}
			if l.kind == kSet || l.kind == kSlice || rapid.Bool().Draw(t, "eqdef_has_default") {
				lc.Layers |= bDefault // (an empty set/slice text is another property's corner)
			} else {
				lc.Layers &^= bDefault // the struct default is the zero value
			}
		}
		// set leaves: one in four has a non-empty default and a file that
		// assigns the explicitly empty list (half of them with nothing above
		// the file, so the empty set is what must be visible)
		if !c.NoSetList {
			for i := range td.leaves {
				if td.leaves[i].kind != kSet || c.Leaves[i].EqDef != 0 {
					continue
				}
				if rapid.IntRange(0, 3).Draw(t, "empty_file") != 3 {
					continue
				}
				lc := &c.Leaves[i]
				lc.Layers |= bDefault | bFile
				lc.EmptyFile = true
				if rapid.Bool().Draw(t, "empty_file_wins") {
					lc.Layers &^= bEnv | bFlag
				}
			}
		}
		// the application defines some of the flags itself (possible where the
		// FlagSet exists before dials registers: flag.CommandLine, or its own
		// FlagSet handed over in a flag.Set)
		if c.FlagMode != "explicit" && rapid.IntRange(0, 2).Draw(t, "prereg_any") != 2 {
			for i := range td.leaves {
				if preRegKind(td.leaves[i].kind) && rapid.IntRange(0, 2).Draw(t, "prereg") == 0 {
					c.Leaves[i].PreReg = true
				}
			}
		}
		c.ArgRot = rapid.IntRange(0, 7).Draw(t, "arg_rot")

		if watch && c.FileState == "valid" && !noPath {
			n := rapid.IntRange(0, 3).Draw(t, "rewrites")
			if n == 0 && rapid.Bool().Draw(t, "rewrites_again") {
				n = 1
			}
			for r := 0; r < n; r++ {
				rw := Rewrite{Leaves: make([]RewLeaf, len(td.leaves))}
				anyIn := false
				for i := range td.leaves {
					l := &td.leaves[i]
					rl := RewLeaf{}
					if l.path != pNone {
						rl.In = rapid.IntRange(0, 5).Draw(t, "rw_path") == 0
					} else {
						rl.In = rapid.IntRange(0, 2).Draw(t, "rw_in") != 0
						anyIn = anyIn || rl.In
					}
					if l.rule != rNone && l.isInt() {
						rl.Bad = rapid.IntRange(0, 7).Draw(t, "rw_bad") == 0
					}
					if l.hasAlias() {
						rl.Alias = rapid.Bool().Draw(t, "rw_alias")
					}
					if l.kind == kSet && !c.NoSetList && rl.In {
						rl.Empty = rapid.IntRange(0, 4).Draw(t, "rw_empty") == 4
					}
					rw.Leaves[i] = rl
				}
				if !anyIn {
					for i := range td.leaves {
						if td.leaves[i].path == pNone {
							rw.Leaves[i].In = true
							break
						}
					}
				}
				switch m := rapid.IntRange(0, 19).Draw(t, "rw_mech"); {
				case m < 7:
					rw.Mech = "rename"
				case m < 13:
					rw.Mech = "remove-rename"
				case m < 16:
					rw.Mech = "remove-create"
				default:
					rw.Mech = "truncate"
				}
				rw.Settle = rapid.IntRange(0, 3).Draw(t, "rw_settle") != 3
				rw.RemoveOld = rapid.Bool().Draw(t, "rw_remove_old")
				c.Rewrites = append(c.Rewrites, rw)
			}
			if n >= 2 && rapid.IntRange(0, 2).Draw(t, "rollback") != 2 {
				// a rolled-back deployment: A -> B (-> C) -> A
				c.Rewrites[rapid.IntRange(1, n-1).Draw(t, "rollback_at")].SameAsInitial = true
			}
			if n > 0 && rapid.IntRange(0, 5).Draw(t, "layout") == 5 {
				c.Layout = "k8s"
			}
			if n > 0 && rapid.Bool().Draw(t, "scribble") {
				c.ScribbleBefore = rapid.IntRange(1, n).Draw(t, "scribble_before")
			}
		}
		return c
	}
}

// ----------------------------------------------------------------------------
// Run.

// c18T is the *testing.T of the running test function: synctest.Test needs one.
var c18T *testing.T

func runC18(c C18Case) (v vrt.Verdict) {
	td := typeDefs[c.Type]
	if td == nil {
		return vrt.Discardf("unknown type %q", c.Type)
	}
	if msg := validateCase(c, td); msg != "" {
		return vrt.Discardf("malformed case: %s", msg)
	}
	// Cases run sequentially and each one ends with cancel + waiting for its
	// library goroutines to exit.  Should some of an earlier case still be
	// alive AND runnable, they could call Verify into this case's recorder:
	// wait for them, and do not judge this case if they do not go away.
	if total, _ := libGoroutines(); total != 0 {
		if !waitLibGone(10*time.Second) && !allParked3() {
			return vrt.Discardf("inconclusive: library goroutines of an earlier case are still running")
		}
	}
	bubble := !c.Watch && !c.NoBubble && c18T != nil
	if !bubble {
		return dispatch(c, td, false)
	}
	defer func() {
		if r := recover(); r != nil {
			v = vrt.KeyedViolationf("bubble", "synctest bubble failed (watch off): %v", r)
		}
	}()
	synctest.Test(c18T, func(*testing.T) {
		v = vrt.SafeRun(func(c C18Case) vrt.Verdict { return dispatch(c, td, true) }, c)
	})
	return v
}

func validateCase(c C18Case, td *typeDef) string {
	if len(c.Leaves) != len(td.leaves) {
		return "leaf count"
	}
	if _, ok := extsFor[c.Format]; !ok {
		return "format"
	}
	switch c.Entry {
	case "typed", "ext", "factory", "factoryp":
	default:
		return "entry"
	}
	switch c.FileState {
	case "valid", "missing", "malformed":
	case "badext":
		if c.Entry != "ext" {
			return "badext without the extension entry point"
		}
		if decoderExtKnown(c.Ext) {
			return "badext with a known extension"
		}
	default:
		return "file state"
	}
	if c.Entry == "ext" && c.FileState != "badext" && !decoderExtKnown(c.Ext) {
		return "extension entry point with an unknown extension"
	}
	if c.Entry == "ext" && c.FileState != "badext" {
		ok := false
		for _, e := range extsFor[c.Format] {
			ok = ok || e == c.Ext
		}
		if !ok {
			return "extension does not match the format"
		}
	}
	if strings.ContainsAny(c.Ext, "/\x00") {
		return "ext"
	}
	for i, lc := range c.Leaves {
		if lc.PreReg && (c.FlagMode == "explicit" || !preRegKind(td.leaves[i].kind)) {
			return fmt.Sprintf("leaf %d pre_reg", i)
		}
	}
	if c.FlagMode != "explicit" && c.FlagMode != "cmdline" && c.FlagMode != "ownset" {
		return "flag mode"
	}
	if c.Enc != "" && ((c.Type != "plain" && c.Type != "embed") || (c.Enc != "snake" && c.Enc != "kebab" && c.Enc != "upper")) {
		return "enc"
	}
	for i, lc := range c.Leaves {
		if lc.Seed < 1 || lc.Seed > 4000 || lc.Layers < 0 || lc.Layers > 15 {
			return fmt.Sprintf("leaf %d seed/layers", i)
		}
		if lc.EmptyFile && (td.leaves[i].kind != kSet || c.NoSetList || lc.Layers&bFile == 0) {
			return fmt.Sprintf("leaf %d empty_file", i)
		}
		if lc.EqDef != 0 {
			l := &td.leaves[i]
			if lc.EqDef != bFile && lc.EqDef != bEnv && lc.EqDef != bFlag {
				return fmt.Sprintf("leaf %d eq_def", i)
			}
			if l.path != pNone || lc.Layers&lc.EqDef == 0 {
				return fmt.Sprintf("leaf %d eq_def on a path leaf / absent layer", i)
			}
			if (l.kind == kSet || l.kind == kSlice) && lc.Layers&bDefault == 0 {
				return fmt.Sprintf("leaf %d eq_def with an empty collection", i)
			}
		}
	}
	if len(c.Rewrites) > 0 && (!c.Watch || c.FileState != "valid") {
		return "rewrites without a watched valid file"
	}
	if len(c.Rewrites) > 3 {
		return "too many rewrites"
	}
	if c.ScribbleBefore < 0 || c.ScribbleBefore > len(c.Rewrites) {
		return "scribble point"
	}
	for k, rw := range c.Rewrites {
		if rw.SameAsInitial && (k == 0 || c.Rewrites[k-1].SameAsInitial) {
			return "rollback to the initial bytes without a different version before it"
		}
		if len(rw.Leaves) != len(td.leaves) {
			return "rewrite leaf count"
		}
		for i, rl := range rw.Leaves {
			if rl.Empty && (td.leaves[i].kind != kSet || c.NoSetList || !rl.In) {
				return "rewrite empty list"
			}
		}
		switch rw.Mech {
		case "", "rename", "remove-rename", "remove-create", "truncate":
		default:
			return "rewrite mechanism"
		}
	}
	if c.Layout != "" && (c.Layout != "k8s" || !c.Watch || c.FileState != "valid") {
		return "layout"
	}
	// split: a base name from default/env/flag needs a directory from them too
	var dirL, baseL *LeafCase
	for i := range td.leaves {
		switch td.leaves[i].path {
		case pDir:
			dirL = &c.Leaves[i]
		case pBase:
			baseL = &c.Leaves[i]
		}
	}
	if baseL != nil && baseL.Layers&(bDefault|bEnv|bFlag) != 0 && dirL.Layers&(bDefault|bEnv|bFlag) == 0 {
		return "base without dir"
	}
	return ""
}

// preRegKind: leaf kinds for which the std flag package has a flag type an
// application would define itself.
func preRegKind(k kind) bool {
	switch k {
	case kString, kInt, kInt64, kUint16, kDur, kFloat, kBool:
		return true
	}
	return false
}

func decoderExtKnown(ext string) bool {
	switch strings.ToLower(ext) {
	case ".yaml", ".yml", ".json", ".toml", ".cue":
		return true
	}
	return false
}

func dispatch(c C18Case, td *typeDef, bubble bool) vrt.Verdict {
	switch c.Type {
	case "flat":
		return execCase[FlatCfg](c, td, bubble, (*FlatCfg).rule)
	case "nest":
		return execCase[NestCfg](c, td, bubble, (*NestCfg).rule)
	case "plain":
		return execCase[PlainCfg](c, td, bubble, (*PlainCfg).rule)
	case "split":
		return execCase[SplitCfg](c, td, bubble, (*SplitCfg).rule)
	case "embed":
		return execCase[EmbedCfg](c, td, bubble, (*EmbedCfg).rule)
	}
	return vrt.Discardf("unknown type %q", c.Type)
}

// cbLog records the global callbacks.
type cbLog[T any] struct {
	mu   sync.Mutex
	news [][2]*T // old, new (deep snapshots taken inside the callback)
	errs []cbErr[T]
	// the pointers the library handed to the callbacks, with the snapshot
	// taken at that moment: later re-stacks must not modify them
	handed []handout[T]
}

// handout is a config the library handed out (a View() result, an Events()
// value, a callback argument) and a deep snapshot taken when it was.
type handout[T any] struct {
	p    *T
	snap *T
	what string
}

type cbErr[T any] struct {
	err      error
	old, new *T
}

func (l *cbLog[T]) snapshot() ([][2]*T, []cbErr[T]) {
	l.mu.Lock()
	defer l.mu.Unlock()
	return append([][2]*T(nil), l.news...), append([]cbErr[T](nil), l.errs...)
}

func cp[T any](p *T) *T {
	if p == nil {
		return nil
	}
	return deepCopy(p).(*T)
}

// highest of default/env/flag that supplies a path leaf; -1 if none
func pathWinner(lc LeafCase) int {
	switch {
	case lc.Layers&bFlag != 0:
		return gFlag
	case lc.Layers&bEnv != 0:
		return gEnv
	case lc.Layers&bDefault != 0:
		return gDefault
	}
	return -1
}

func execCase[T any, TP ez.ConfigWithConfigPath[T]](c C18Case, td *typeDef, bubble bool, rule func(*T) error) vrt.Verdict {
	// ------------------------------------------------------------ layout
	tmp, err := os.MkdirTemp("", "c18-")
	if err != nil {
		return vrt.Discardf("harness: mkdtemp: %v", err)
	}
	defer os.RemoveAll(tmp)
	if r, err := filepath.EvalSymlinks(tmp); err == nil {
		tmp = r
	}
	p := paths{dir: tmp, ext: c.Ext}

	// where the config file really is (by construction: the path supplied by
	// the highest of default/env/flag)
	realPath, havePath := "", false
	dirWin, baseWin := -1, -1
	for i := range td.leaves {
		switch td.leaves[i].path {
		case pFull:
			if w := pathWinner(c.Leaves[i]); w >= 0 {
				realPath, havePath = p.fullPath(w, true), true
			}
		case pDir:
			dirWin = pathWinner(c.Leaves[i])
		case pBase:
			baseWin = pathWinner(c.Leaves[i])
		}
	}
	if baseWin >= 0 {
		realPath, havePath = filepath.Join(p.dirOf(dirWin), p.baseOf(baseWin)), true
	}

	// value of leaf i as supplied by origin gen
	val := func(i, gen int, bad bool) value {
		l := &td.leaves[i]
		switch l.path {
		case pFull:
			return value{s: p.fullPath(gen, gen == pathWinner(c.Leaves[i]))}
		case pDir:
			return value{s: p.dirOf(gen)}
		case pBase:
			return value{s: p.baseOf(gen)}
		}
		lc := c.Leaves[i]
		if l.kind == kSet && ((gen == gFile && lc.EmptyFile) || (gen >= 4 && gen <= 6 && gen-4 < len(c.Rewrites) && c.Rewrites[gen-4].Leaves[i].Empty)) {
			return value{elems: []string{}} // the explicitly empty list: the empty set
		}
		if lc.EqDef != 0 && gen >= gFile && gen <= gFlag && lc.EqDef == 1<<gen {
			// this layer repeats what the defaults struct holds
			if lc.Layers&bDefault == 0 {
				return value{}
			}
			return leafValue(l, lc.Seed, gDefault, lc.Bad&bDefault != 0)
		}
		return leafValue(l, lc.Seed, gen, bad)
	}

	// file layer of version r (0 initial, 1.. rewrites): presence, origin, bad, alias
	fileLeaf := func(i, r int) (in bool, gen int, bad, alias bool) {
		if r == 0 {
			lc := c.Leaves[i]
			return lc.Layers&bFile != 0, gFile, lc.Bad&bFile != 0, lc.Alias&bFile != 0
		}
		if c.Rewrites[r-1].SameAsInitial {
			// the file returns byte for byte to its start-up contents
			lc := c.Leaves[i]
			return lc.Layers&bFile != 0, gFile, lc.Bad&bFile != 0, lc.Alias&bFile != 0
		}
		rl := c.Rewrites[r-1].Leaves[i]
		return rl.In, 3 + r, rl.Bad, rl.Alias
	}

	// expected config: defaults, then (fileVer >= 0) the file, then env, then flags
	build := func(fileVer int, envFlags bool) *T {
		cfg := newConfig(td.name).(*T)
		for i := range td.leaves {
			lc := c.Leaves[i]
			set := td.leaves[i].set
			if lc.Layers&bDefault != 0 {
				set(cfg, val(i, gDefault, lc.Bad&bDefault != 0))
			}
			if fileVer >= 0 {
				if in, gen, bad, _ := fileLeaf(i, fileVer); in {
					set(cfg, val(i, gen, bad))
				}
			}
			if envFlags && lc.Layers&bEnv != 0 {
				set(cfg, val(i, gEnv, lc.Bad&bEnv != 0))
			}
			if envFlags && lc.Layers&bFlag != 0 {
				set(cfg, val(i, gFlag, lc.Bad&bFlag != 0))
			}
		}
		return cfg
	}

	putLeaf := func(root *node, l *leafDef, alias bool, v value) {
		key := l.fileKey(c.Format, c.Enc, c.Flatten, alias)
		if l.kind == kSet && c.NoSetList {
			// DisableAutoSetToSlice: the file holds the map itself
			for _, e := range v.elems {
				root.put(append(append([]string(nil), key...), e), "")
			}
			return
		}
		root.put(key, l.lit(v))
	}
	fileContent := func(r int) string {
		root := &node{}
		for i := range td.leaves {
			if in, gen, bad, alias := fileLeaf(i, r); in {
				putLeaf(root, &td.leaves[i], alias, val(i, gen, bad))
			}
		}
		return emit(c.Format, root)
	}
	decoyContent := func() string {
		root := &node{}
		for i := range td.leaves {
			l := &td.leaves[i]
			if l.path == pNone {
				putLeaf(root, l, false, val(i, gDecoy, false))
			}
		}
		return emit(c.Format, root)
	}

	// ------------------------------------------------------------ files
	decoy := decoyContent()
	writeIfNotReal := func(path string) error {
		if path == realPath {
			return nil
		}
		return os.WriteFile(path, []byte(decoy), 0o644)
	}
	if baseWin >= 0 || dirWin >= 0 || td.name == "split" {
		for dg := 0; dg <= 3; dg++ {
			if err := os.Mkdir(p.dirOf(dg), 0o755); err != nil {
				return vrt.Discardf("harness: mkdir: %v", err)
			}
			for bg := 0; bg <= 3; bg++ {
				if err := writeIfNotReal(filepath.Join(p.dirOf(dg), p.baseOf(bg))); err != nil {
					return vrt.Discardf("harness: write decoy: %v", err)
				}
			}
		}
	} else {
		for g := 0; g <= 3; g++ {
			if err := writeIfNotReal(p.fullPath(g, false)); err != nil {
				return vrt.Discardf("harness: write decoy: %v", err)
			}
		}
	}
	if len(c.Rewrites) > 0 && !havePath {
		return vrt.Discardf("malformed case: rewrites without a config path")
	}
	var firstContent string
	if havePath {
		switch c.FileState {
		case "valid", "badext":
			firstContent = fileContent(0)
		case "malformed":
			var intKey []string
			for i := range td.leaves {
				if td.leaves[i].isInt() {
					intKey = td.leaves[i].fileKey(c.Format, c.Enc, c.Flatten, false)
					break
				}
			}
			firstContent = malformed(c.Format, c.Malformed, intKey)
		}
		if c.Layout == "k8s" {
			// <dir>/<base> -> ..data/<base>, ..data -> ..ts-0, ..ts-0/<base> regular file
			kd, kb := filepath.Dir(realPath), filepath.Base(realPath)
			err := os.Mkdir(filepath.Join(kd, "..ts-0"), 0o755)
			if err == nil {
				err = os.WriteFile(filepath.Join(kd, "..ts-0", kb), []byte(firstContent), 0o644)
			}
			if err == nil {
				err = os.Symlink("..ts-0", filepath.Join(kd, "..data"))
			}
			if err == nil {
				err = os.Symlink(filepath.Join("..data", kb), realPath)
			}
			if err != nil {
				return vrt.Discardf("harness: k8s layout: %v", err)
			}
		} else if c.FileState != "missing" {
			if err := os.WriteFile(realPath, []byte(firstContent), 0o644); err != nil {
				return vrt.Discardf("harness: write config: %v", err)
			}
		}
	}
	if c.Layout == "k8s" && !havePath {
		return vrt.Discardf("malformed case: k8s layout without a config path")
	}

	// ------------------------------------------------------------ environment
	type savedEnv struct {
		name string
		val  string
		had  bool
	}
	var saved []savedEnv
	for i := range td.leaves {
		for _, n := range []string{td.leaves[i].env, td.leaves[i].envAl} {
			if n == "" {
				continue
			}
			v, had := os.LookupEnv(n)
			saved = append(saved, savedEnv{n, v, had})
			os.Unsetenv(n)
		}
	}
	defer func() {
		for _, s := range saved {
			if s.had {
				os.Setenv(s.name, s.val)
			} else {
				os.Unsetenv(s.name)
			}
		}
	}()
	for i := range td.leaves {
		lc := c.Leaves[i]
		if lc.Layers&bEnv == 0 {
			continue
		}
		l := &td.leaves[i]
		name := l.env
		if lc.Alias&bEnv != 0 && l.envAl != "" {
			name = l.envAl
		}
		os.Setenv(name, l.text(val(i, gEnv, lc.Bad&bEnv != 0)))
	}

	// ------------------------------------------------------------ flags
	var flagArgs [][]string
	for i := range td.leaves {
		lc := c.Leaves[i]
		if lc.Layers&bFlag == 0 {
			continue
		}
		l := &td.leaves[i]
		name := l.flag
		if lc.Alias&bFlag != 0 && l.flagAl != "" {
			name = l.flagAl
		}
		fv := val(i, gFlag, lc.Bad&bFlag != 0)
		txt := l.text(fv)
		if l.kind == kBool && lc.Form&3 >= 2 {
			// a bool flag takes no separate value argument
			dash := []string{"-", "--"}[lc.Form&1]
			if fv.b {
				flagArgs = append(flagArgs, []string{dash + name})
			} else {
				flagArgs = append(flagArgs, []string{dash + name + "=false"})
			}
			continue
		}
		switch lc.Form & 3 {
		case 0:
			flagArgs = append(flagArgs, []string{"-" + name + "=" + txt})
		case 1:
			flagArgs = append(flagArgs, []string{"--" + name + "=" + txt})
		case 2:
			flagArgs = append(flagArgs, []string{"-" + name, txt})
		default:
			flagArgs = append(flagArgs, []string{"--" + name, txt})
		}
	}
	var argv []string
	if n := len(flagArgs); n > 0 {
		rot := ((c.ArgRot % n) + n) % n
		for k := 0; k < n; k++ {
			argv = append(argv, flagArgs[(k+rot)%n]...)
		}
	}

	defaults := build(-1, false)
	defaultsBefore := cp(defaults)

	params := ez.Params[T]{WatchConfigFile: c.Watch, FlattenAnonymousFields: c.Flatten, DisableAutoSetToSlice: c.NoSetList}
	switch c.Enc {
	case "snake":
		params.FileFieldNameEncoder = caseconversion.EncodeLowerSnakeCase
	case "kebab":
		params.FileFieldNameEncoder = caseconversion.EncodeKebabCase
	case "upper":
		params.FileFieldNameEncoder = caseconversion.EncodeUpperSnakeCase
	}
	// the flags the application defines itself, before dials registers the rest
	appFlags := func(fs *flag.FlagSet) {
		const help = "defined by the application, not by dials"
		for i := range td.leaves {
			lc := c.Leaves[i]
			if !lc.PreReg {
				continue
			}
			l := &td.leaves[i]
			name := l.flag
			if lc.Alias&bFlag != 0 && l.flagAl != "" {
				name = l.flagAl
			}
			switch l.kind {
			case kString:
				fs.String(name, "app-flag-default", help)
			case kInt:
				fs.Int(name, 31337, help)
			case kInt64:
				fs.Int64(name, 31337, help)
			case kUint16:
				fs.Uint(name, 31337, help)
			case kDur:
				fs.Duration(name, 31337*time.Second, help)
			case kFloat:
				fs.Float64(name, 3133.75, help)
			case kBool:
				fs.Bool(name, true, help)
			}
		}
	}
	switch c.FlagMode {
	case "explicit":
		fs, err := dflag.NewSetWithArgs(dflag.DefaultFlagNameConfig(), defaults, argv)
		if err != nil {
			return vrt.Violationf("flag.NewSetWithArgs failed on a supported config type: %v", err)
		}
		fs.Flags.SetOutput(io.Discard)
		params.FlagSource = fs
	case "ownset":
		// the application's own FlagSet, handed over in a flag.Set literal
		fs := flag.NewFlagSet("c18app", flag.ContinueOnError)
		fs.SetOutput(io.Discard)
		appFlags(fs)
		src := &dflag.Set{Flags: fs, ParseFunc: func() error { return fs.Parse(argv) }}
		if c.FlagCfg {
			src.NameCfg = dflag.DefaultFlagNameConfig()
		}
		params.FlagSource = src
	default:
		oldCL, oldArgs := flag.CommandLine, os.Args
		defer func() { flag.CommandLine, os.Args = oldCL, oldArgs }()
		flag.CommandLine = flag.NewFlagSet("c18", flag.ContinueOnError)
		flag.CommandLine.SetOutput(io.Discard)
		appFlags(flag.CommandLine)
		os.Args = append([]string{"c18"}, argv...)
		if c.FlagCfg {
			params.FlagConfig = dflag.DefaultFlagNameConfig()
		}
	}

	log := &cbLog[T]{}
	if c.Callbacks {
		params.OnNewConfig = func(_ context.Context, o, n *T) {
			log.mu.Lock()
			so, sn := cp(o), cp(n)
			log.news = append(log.news, [2]*T{so, sn})
			log.handed = append(log.handed, handout[T]{o, so, "OnNewConfig's oldConfig"}, handout[T]{n, sn, "OnNewConfig's newConfig"})
			log.mu.Unlock()
		}
		params.OnWatchedError = func(_ context.Context, err error, o, n *T) {
			log.mu.Lock()
			so, sn := cp(o), cp(n)
			log.errs = append(log.errs, cbErr[T]{err, so, sn})
			log.handed = append(log.handed, handout[T]{o, so, "OnWatchedError's oldConfig"}, handout[T]{n, sn, "OnWatchedError's newConfig"})
			log.mu.Unlock()
		}
	}

	var factoryPaths []string
	var factoryMu sync.Mutex
	decoderFor := func(path string) dials.Decoder {
		factoryMu.Lock()
		factoryPaths = append(factoryPaths, path)
		factoryMu.Unlock()
		switch c.Format {
		case "json":
			return &djson.Decoder{}
		case "yaml":
			return &yaml.Decoder{FlattenAnonymous: c.Flatten} // (a caller's factory honours its own option)
		case "toml":
			return &toml.Decoder{}
		default:
			return &cue.Decoder{}
		}
	}

	// ------------------------------------------------------------ expectations
	inter := build(-1, true) // the file-less intermediate
	noPath := !havePath
	var full *T
	switch {
	case noPath:
		full = inter // no file: the full stack is defaults + env + flags
	case c.FileState == "valid":
		full = build(0, true)
	}
	fileErrExpected := havePath && c.FileState != "valid"
	var ruleErr error
	if full != nil {
		ruleErr = rule(full)
	}
	interValid := rule(inter) == nil
	eq := func(a, b *T) bool { return reflect.DeepEqual(a, b) }

	labels := []string{"type=" + c.Type, "format=" + c.Format, "entry=" + c.Entry, "flags=" + c.FlagMode,
		fmt.Sprintf("watch=%v", c.Watch), fmt.Sprintf("callbacks=%v", c.Callbacks),
		fmt.Sprintf("flatten-anonymous=%v", c.Flatten), fmt.Sprintf("disable-auto-set-to-slice=%v", c.NoSetList), "file-key-encoder=" + map[string]string{"": "nil", "snake": "snake", "kebab": "kebab", "upper": "UPPER_SNAKE"}[c.Enc]}
	if c.Type == "embed" {
		labels = append(labels, fmt.Sprintf("embed:%s/%s/flatten=%v/enc=%s", c.Entry, c.Format, c.Flatten, map[string]string{"": "nil", "snake": "snake", "kebab": "kebab", "upper": "UPPER_SNAKE"}[c.Enc]))
	}
	if noPath {
		labels = append(labels, "file=nopath")
	} else {
		labels = append(labels, "file="+c.FileState)
		w := baseWin
		for i := range td.leaves {
			if td.leaves[i].path == pFull {
				w = pathWinner(c.Leaves[i])
			}
		}
		labels = append(labels, "path-from="+map[int]string{gDefault: "default", gEnv: "env", gFlag: "flag"}[w])
	}
	if bubble {
		labels = append(labels, "bubble")
	}
	maxLayers, aliasUsed, pathInFile := 0, false, false
	for i := range td.leaves {
		lc := c.Leaves[i]
		if td.leaves[i].path != pNone {
			pathInFile = pathInFile || lc.Layers&bFile != 0
			continue
		}
		n := 0
		for b := 0; b < 4; b++ {
			if lc.Layers&(1<<b) != 0 {
				n++
			}
		}
		if n > maxLayers {
			maxLayers = n
		}
	}
	for i := range td.leaves {
		if td.leaves[i].hasAlias() && c.Leaves[i].Alias&c.Leaves[i].Layers&(bFile|bEnv|bFlag) != 0 {
			aliasUsed = true
		}
	}
	labels = append(labels, fmt.Sprintf("max-layers-on-a-leaf=%d", maxLayers))
	kindNames := map[kind]string{kString: "string", kInt: "int", kInt64: "int", kUint16: "int", kDur: "duration", kFloat: "float", kSet: "set", kSlice: "slice", kBool: "bool"}
	for i := range td.leaves {
		lc := c.Leaves[i]
		if lc.EqDef == 0 {
			continue
		}
		ln := map[int]string{bFile: "file", bEnv: "env", bFlag: "flag"}[lc.EqDef]
		labels = append(labels, "layer-equals-default:"+ln, "layer-equals-default:"+ln+":"+kindNames[td.leaves[i].kind])
		if lc.Layers&bDefault == 0 {
			labels = append(labels, "layer-equals-default:zero-default")
		}
		if lc.EqDef == bFlag {
			labels = append(labels, fmt.Sprintf("layer-equals-default:flag:argv-form=%d", lc.Form&3))
		}
	}
	for i := range td.leaves {
		lc := c.Leaves[i]
		if !lc.PreReg {
			continue
		}
		if lc.Layers&bFlag != 0 {
			labels = append(labels, "app-defined-flag:given")
			if td.leaves[i].path != pNone {
				labels = append(labels, "app-defined-flag:given:config-path")
			}
		} else {
			labels = append(labels, "app-defined-flag:not-given")
		}
	}
	for i := range td.leaves {
		if lc := c.Leaves[i]; lc.EmptyFile && !noPath && c.FileState == "valid" {
			labels = append(labels, "file-assigns-empty-set-over-nonempty-default")
			if lc.Layers&(bEnv|bFlag) == 0 {
				labels = append(labels, "file-assigns-empty-set-over-nonempty-default:file-wins")
			}
		}
	}
	encName := map[string]string{"": "nil", "snake": "snake", "kebab": "kebab", "upper": "UPPER_SNAKE"}[c.Enc]
	for i := range td.leaves {
		if lc := c.Leaves[i]; td.leaves[i].hasAlias() && !noPath && c.FileState == "valid" && lc.Layers&bFile != 0 && lc.Alias&bFile != 0 {
			labels = append(labels, "file-names-leaf-by-alias:encoder="+encName)
		}
	}
	if aliasUsed {
		labels = append(labels, "alias-used")
	}
	if pathInFile && !noPath {
		labels = append(labels, "path-leaf-also-in-file")
	}
	onlyWithFile := full != nil && !noPath && ruleErr == nil && !interValid
	if onlyWithFile {
		labels = append(labels, "valid-only-with-file")
	}
	if full != nil && ruleErr != nil {
		labels = append(labels, "verify-fails")
	}
	if full != nil && !noPath && eq(full, inter) {
		labels = append(labels, "file-invisible")
	}
	if len(c.Rewrites) > 0 {
		labels = append(labels, fmt.Sprintf("rewrites=%d", len(c.Rewrites)))
	}
	nonTrivial := maxLayers >= 3 && onlyWithFile

	// ------------------------------------------------------------ execute
	recd := &verifyRec{}
	setRecorder(recd)
	defer setRecorder(nil)

	ctx, cancel := context.WithCancel(context.Background())
	cancelled := false
	finish := func() {
		if cancelled {
			return
		}
		cancelled = true
		cancel()
		if bubble {
			synctest.Wait()
		} else {
			waitLibGone(2 * time.Second)
		}
	}
	defer finish()

	cfgArg := TP(defaults)
	call := func() (*dials.Dials[T], error) {
		switch c.Entry {
		case "typed":
			switch c.Format {
			case "json":
				return ez.JSONConfigEnvFlag[T, TP](ctx, cfgArg, params)
			case "yaml":
				return ez.YAMLConfigEnvFlag[T, TP](ctx, cfgArg, params)
			case "toml":
				return ez.TOMLConfigEnvFlag[T, TP](ctx, cfgArg, params)
			default:
				return ez.CueConfigEnvFlag[T, TP](ctx, cfgArg, params)
			}
		case "ext":
			return ez.FileExtensionDecoderConfigEnvFlag[T, TP](ctx, cfgArg, params)
		case "factory":
			return ez.ConfigFileEnvFlag[T, TP](ctx, cfgArg, decoderFor, params)
		default:
			return ez.ConfigFileEnvFlagDecoderFactoryParams[T, TP](ctx, cfgArg,
				func(path string, _ ez.Params[T]) dials.Decoder { return decoderFor(path) }, params)
		}
	}
	var d *dials.Dials[T]
	var callErr error
	if bubble {
		// a call that never returns is a deadlock of the bubble (reported by runC18)
		d, callErr = call()
	} else {
		// real time: the call runs on its own goroutine so that a call that
		// never returns is decided by the goroutine-dump rule, not by a hang
		type callResult struct {
			d     *dials.Dials[T]
			err   error
			panic string
		}
		done := make(chan callResult, 1)
		go func() {
			var r callResult
			defer func() {
				if p := recover(); p != nil {
					st := string(debug.Stack())
					if len(st) > 4000 {
						st = st[:4000]
					}
					r.panic = fmt.Sprintf("%v\n%s", p, st)
				}
				done <- r
			}()
			r.d, r.err = call()
		}()
		select {
		case r := <-done:
			if r.panic != "" {
				return vrt.KeyedViolationf("panic", "the entry point panicked: %s", r.panic).With(nonTrivial, labels...)
			}
			d, callErr = r.d, r.err
		case <-time.After(10 * time.Second):
			if allParked3() {
				return vrt.KeyedViolationf("entry-hang", "the entry point has not returned after 10 s and every library goroutine (including the call) is parked in three dumps 300 ms apart: it can never return\n%s", libDump()).With(nonTrivial, labels...)
			}
			return vrt.Discardf("inconclusive: entry point not returned after 10 s while library goroutines are still runnable")
		}
	}

	// immediately after return: nothing may be pending on Events()
	var earlyEvent *T
	gotEarly := false
	if d != nil {
		select {
		case earlyEvent = <-d.Events():
			gotEarly = true
		default:
		}
	}
	describe := func(x *T) string {
		switch {
		case x == nil:
			return "<nil>"
		case full != nil && eq(x, full):
			return fmt.Sprintf("the full stack %+v", *x)
		case eq(x, inter):
			return fmt.Sprintf("the FILE-LESS INTERMEDIATE %+v", *x)
		}
		return fmt.Sprintf("%+v", *x)
	}

	// ---- the path ConfigPath produced (observable through the decoder factory)
	if c.Entry == "factory" || c.Entry == "factoryp" {
		factoryMu.Lock()
		fp := append([]string(nil), factoryPaths...)
		factoryMu.Unlock()
		if noPath && len(fp) != 0 {
			return vrt.KeyedViolationf("path", "ConfigPath reports no file (no path in defaults/env/flags) but the decoder factory was asked for %q", fp).With(nonTrivial, labels...)
		}
		if !noPath && (len(fp) != 1 || fp[0] != realPath) {
			return vrt.KeyedViolationf("path", "the decoder factory was called with %q; ConfigPath on defaults+env+flags is %q", fp, realPath).With(nonTrivial, labels...)
		}
	}

	// ---- configs handed out earlier are never modified by later re-stacks
	var handed []handout[T]
	keep := func(x *T, what string) {
		if x != nil {
			handed = append(handed, handout[T]{x, cp(x), what})
		}
	}
	checkHanded := func(when string) *vrt.Verdict {
		all := append([]handout[T](nil), handed...)
		log.mu.Lock()
		all = append(all, log.handed...)
		log.mu.Unlock()
		ptrs, snaps := recd.receivers()
		for k := range ptrs {
			all = append(all, handout[T]{ptrs[k].(*T), snaps[k].(*T), fmt.Sprintf("the receiver of Verify call #%d", k)})
		}
		for _, h := range all {
			if h.p == nil || eq(h.p, h.snap) {
				continue
			}
			v := vrt.KeyedViolationf("handed-out-config-modified", "%s: %s was modified after it was handed out: it was %+v, now it is %+v\n%s", when, h.what, deref(h.snap), deref(h.p), leafDiff(td, h.p, h.snap)).With(nonTrivial, labels...)
			return &v
		}
		return nil
	}

	// ---- Verify log against the initial full stack
	// Verify calls with an index in one of these ranges happened while the
	// file was being rewritten NON-atomically (truncate / create + write): the
	// watcher may legitimately have read an empty or partial file then.
	var exempt [][2]int
	looseFrom := -1 // >= 0: a non-atomic rewrite is in progress since this index
	var transients []*T
	checkVerifyLog := func(legit []*T, what string) *vrt.Verdict {
		for k, e := range recd.snapshot() {
			x := e.(*T)
			if looseFrom >= 0 && k >= looseFrom {
				continue
			}
			skip := false
			for _, r := range exempt {
				skip = skip || (k >= r[0] && k < r[1])
			}
			if skip {
				continue
			}
			ok := false
			for _, l := range legit {
				ok = ok || eq(x, l)
			}
			if ok {
				continue
			}
			var v vrt.Verdict
			if eq(x, inter) {
				v = vrt.KeyedViolationf("verify-intermediate", "%s: Verify call #%d ran on the file-less intermediate config %v; the full stack is %s", what, k, deref(x), describeAll(legit))
			} else {
				v = vrt.KeyedViolationf("verify-foreign", "%s: Verify call #%d ran on %v, which is neither the full stack nor any later full stack %s (intermediate %v)\n%s", what, k, deref(x), describeAll(legit), deref(inter), leafDiff(td, x, legit[len(legit)-1]))
			}
			v = v.With(nonTrivial, labels...)
			return &v
		}
		return nil
	}

	if fileErrExpected {
		// missing / malformed / unknown extension: an error, no Dials, and
		// Verify never ran (there is no full stack to run it on)
		if callErr == nil {
			return vrt.KeyedViolationf("file-"+c.FileState+"-accepted", "config file %s (%s) but the entry point returned no error; view %s", c.FileState, realPath, describe(viewOf(d))).With(nonTrivial, labels...)
		}
		if d != nil {
			return vrt.KeyedViolationf("dials-with-error", "entry point returned an error (%v) AND a non-nil Dials", callErr).With(nonTrivial, labels...)
		}
		if calls := recd.snapshot(); len(calls) != 0 {
			return vrt.KeyedViolationf("verify-intermediate", "config file %s: Verify ran %d time(s), first on %+v, although the file layer never stacked", c.FileState, len(calls), calls[0]).With(nonTrivial, labels...)
		}
		if c.FileState == "missing" && errors.Is(callErr, os.ErrNotExist) {
			labels = append(labels, "missing-file-error-is-ErrNotExist")
		}
		finish()
		if v := checkCallbacksQuiet(log, "after a failed entry point"); v != nil {
			return v.With(nonTrivial, labels...)
		}
		return vrt.OK(false, labels...)
	}

	precedenceViolation := func(first *T) vrt.Verdict {
		return vrt.KeyedViolationf("precedence", "first View() = %s\nwant flag > env > file > default = %+v\n%s(file %q:\n%s)", describe(first), *full, leafDiff(td, first, full), realPath, firstContent).With(nonTrivial, labels...)
	}
	if ruleErr == nil && callErr == nil && d != nil && !eq(d.View(), full) {
		return precedenceViolation(d.View()) // (reported before the Verify log: a mis-stacked config is also what Verify saw)
	}
	if v := checkVerifyLog([]*T{full}, "initial call"); v != nil {
		return *v
	}
	if ruleErr != nil {
		if callErr == nil {
			return vrt.KeyedViolationf("verify-error-lost", "Verify rejects the full stack (%v) but the entry point returned no error; view %s", ruleErr, describe(viewOf(d))).With(nonTrivial, labels...)
		}
		if !errors.Is(callErr, errVerify) {
			return vrt.KeyedViolationf("verify-error-lost", "Verify rejects the full stack (%v) but the entry point's error does not wrap it: %v", ruleErr, callErr).With(nonTrivial, labels...)
		}
		if d != nil {
			return vrt.KeyedViolationf("dials-with-error", "entry point returned an error (%v) AND a non-nil Dials", callErr).With(nonTrivial, labels...)
		}
		if len(recd.snapshot()) == 0 {
			return vrt.KeyedViolationf("verify-missing", "entry point returned the verifier's error but Verify was never called").With(nonTrivial, labels...)
		}
		finish()
		if v := checkCallbacksQuiet(log, "after a failed entry point"); v != nil {
			return v.With(nonTrivial, labels...)
		}
		return vrt.OK(false, labels...)
	}

	// success expected
	if callErr != nil {
		key := "unexpected-error"
		if errors.Is(callErr, errVerify) && !interValid {
			key = "verify-intermediate"
		}
		return vrt.KeyedViolationf(key, "the full stack %+v is valid but the entry point failed: %v (intermediate %+v valid=%v; file %q:\n%s)", *full, callErr, *inter, interValid, realPath, firstContent).With(nonTrivial, labels...)
	}
	if d == nil {
		return vrt.Violationf("entry point returned nil Dials and nil error").With(nonTrivial, labels...)
	}
	first := d.View()
	keep(first, "the first View()")
	if !eq(first, full) {
		return precedenceViolation(first)
	}
	if len(recd.snapshot()) == 0 {
		return vrt.KeyedViolationf("verify-missing", "entry point succeeded but Verify never ran on the full stack").With(nonTrivial, labels...)
	}
	if gotEarly {
		return vrt.KeyedViolationf("events-pending", "immediately after the entry point returned, Events() delivered %s", describe(earlyEvent)).With(nonTrivial, labels...)
	}
	if !eq(defaults, defaultsBefore) {
		// not part of C18 (informational): the flag source binds set/slice
		// flags to the fields of the caller's defaults struct
		labels = append(labels, "info:defaults-struct-modified-by-flags")
		for _, ln := range strings.Split(strings.TrimSpace(leafDiff(td, defaults, defaultsBefore)), "\n") {
			if f := strings.Fields(ln); len(f) >= 2 {
				labels = append(labels, "info:defaults-struct-modified:"+c.Type+"."+strings.TrimSuffix(f[1], ":"))
			}
		}
	}

	// let everything that is still in flight land, then look again
	settled := true
	if bubble {
		synctest.Wait()
	} else {
		settled = settle(2 * time.Second)
	}
	if !settled {
		labels = append(labels, "not-settled-after-return")
	}
	select {
	case ev := <-d.Events():
		return vrt.KeyedViolationf("events-pending", "after the entry point returned (no file change), Events() delivered %s", describe(ev)).With(nonTrivial, labels...)
	default:
	}
	if v := checkCallbacksQuiet(log, "after the entry point returned and before any file change"); v != nil {
		return v.With(nonTrivial, labels...)
	}
	if !eq(d.View(), full) {
		return vrt.KeyedViolationf("precedence", "View() changed without a file change: %s, was %+v", describe(d.View()), *full).With(nonTrivial, labels...)
	}
	if v := checkHanded("after the entry point returned"); v != nil {
		return *v
	}

	// ------------------------------------------------------------ rewrites
	legit := []*T{full}
	cur := full
	prevContent := firstContent
	for r := 1; r <= len(c.Rewrites); r++ {
		content := fileContent(r)
		if content == prevContent {
			return vrt.Discardf("malformed case: rewrite %d does not change the file", r)
		}
		prevContent = content
		fullR := build(r, true)
		legit = append(legit, fullR)
		validR := rule(fullR) == nil
		want := cur
		if validR {
			want = fullR
		} else {
			labels = append(labels, "rewrite-rejected-by-verify")
		}
		for i := range td.leaves {
			if td.leaves[i].path != pNone {
				continue
			}
			was, _, _, _ := fileLeaf(i, r-1)
			is, _, _, _ := fileLeaf(i, r)
			if _, _, _, al := fileLeaf(i, r); is && al && td.leaves[i].hasAlias() {
				labels = append(labels, "file-names-leaf-by-alias:encoder="+encName)
			}
			if is && c.Rewrites[r-1].Leaves[i].Empty {
				labels = append(labels, "rewrite-assigns-empty-set")
				if c.Leaves[i].Layers&(bEnv|bFlag) == 0 {
					labels = append(labels, "rewrite-assigns-empty-set:file-wins")
				}
			}
			if was && !is {
				// the leaf must fall back to env / flag / default
				labels = append(labels, "rewrite-omits-earlier-key")
				if n := td.leaves[i].name; strings.HasPrefix(n, "Server.Limits.") || strings.HasPrefix(n, "DB.") {
					labels = append(labels, "rewrite-omits-key-under-pointer-default")
					if c.Leaves[i].Layers&(bEnv|bFlag) == 0 {
						labels = append(labels, "rewrite-omits-key-under-pointer-default:falls-back-to-default")
					}
				}
			}
		}
		if r == c.ScribbleBefore {
			// the caller goes on using its own struct: everything its
			// reference-typed leaves point to is overwritten in place.  The
			// library took its own copy of the defaults when it was called.
			n, observable := scribbleDefaults(td, c, defaults, func(i int) bool {
				in, _, _, _ := fileLeaf(i, r)
				return !in && c.Leaves[i].Layers&(bEnv|bFlag) == 0
			})
			if n > 0 {
				labels = append(labels, "caller-scribbled-own-defaults")
			}
			if observable {
				labels = append(labels, "caller-scribbled-own-defaults:a-scribbled-leaf-falls-back-to-the-default")
			}
			if got := d.View(); !eq(got, cur) {
				return vrt.KeyedViolationf("defaults-shared-with-caller", "the caller modified its own defaults struct in place after the entry point returned and the view changed from %+v to %+v", deref(cur), deref(got)).With(nonTrivial, labels...)
			}
			if v := checkHanded("after the caller modified its own defaults struct"); v != nil {
				return *v
			}
		}
		if c.Rewrites[r-1].SameAsInitial {
			if content != firstContent {
				return vrt.Discardf("harness: rollback version %d does not reproduce the initial bytes", r)
			}
			labels = append(labels, "rewrite-back-to-initial-bytes")
		}
		nBefore := len(recd.snapshot())
		rw := c.Rewrites[r-1]
		mech := rw.Mech
		if mech == "" {
			mech = "rename"
		}
		if c.Layout == "k8s" {
			mech = "swap"
		}
		if !validR && (mech == "truncate" || mech == "remove-create") {
			// while a file is rewritten in place the view may legitimately
			// move to the stack of an empty / partial file; with a version
			// Verify rejects the final view would be unknowable: install
			// this one atomically
			mech = "rename"
		}
		what := fmt.Sprintf("rewrite %d (%s)", r, mech)
		labels = append(labels, "rewrite-mech="+mech)
		kd, kb := filepath.Dir(realPath), filepath.Base(realPath)
		renameOver := func() error {
			tmpName := filepath.Join(kd, ".tmp-c18")
			if err := os.WriteFile(tmpName, []byte(content), 0o644); err != nil {
				return err
			}
			return os.Rename(tmpName, realPath)
		}
		// the watcher has noticed: nothing may have moved (no Verify, same view)
		noticed := func(state string) {
			if !rw.Settle {
				return
			}
			if settleWatcher(2 * time.Second) {
				labels = append(labels, "watcher-noticed:"+state)
			} else {
				labels = append(labels, "not-settled:"+state)
			}
		}
		var instErr error
		switch mech {
		case "rename":
			instErr = renameOver()
		case "swap":
			ts := fmt.Sprintf("..ts-%d", r)
			instErr = os.Mkdir(filepath.Join(kd, ts), 0o755)
			if instErr == nil {
				instErr = os.WriteFile(filepath.Join(kd, ts, kb), []byte(content), 0o644)
			}
			if instErr == nil {
				instErr = os.Symlink(ts, filepath.Join(kd, "..data_tmp"))
			}
			if instErr == nil {
				instErr = os.Rename(filepath.Join(kd, "..data_tmp"), filepath.Join(kd, "..data"))
			}
			if instErr == nil && rw.RemoveOld {
				instErr = os.RemoveAll(filepath.Join(kd, fmt.Sprintf("..ts-%d", r-1)))
				labels = append(labels, "k8s-old-dir-removed")
			}
		case "remove-rename", "remove-create":
			instErr = os.Remove(realPath)
			if instErr != nil {
				break
			}
			noticed("file-missing")
			// While the file is missing the file source has nothing to report
			// (sources/file watchLoop: a not-exist error just resumes the
			// loop): the view stays at the last good config, Verify is not
			// called.  This holds whether or not the watcher has looked yet.
			if got := d.View(); !eq(got, cur) {
				return vrt.KeyedViolationf("view-changed-while-file-missing", "%s: the config file was removed and the view changed from %+v to %+v", what, deref(cur), deref(got)).With(nonTrivial, labels...)
			}
			if n := len(recd.snapshot()); n != nBefore {
				return vrt.KeyedViolationf("verify-while-file-missing", "%s: Verify ran %d time(s) while the config file did not exist", what, n-nBefore).With(nonTrivial, labels...)
			}
			if mech == "remove-rename" {
				instErr = renameOver()
			} else {
				looseFrom = nBefore
				instErr = os.WriteFile(realPath, []byte(content), 0o644) // create, then one write
			}
		case "truncate":
			looseFrom = nBefore
			var f *os.File
			f, instErr = os.OpenFile(realPath, os.O_WRONLY|os.O_TRUNC, 0o644)
			if instErr != nil {
				break
			}
			noticed("file-truncated")
			_, instErr = f.Write([]byte(content))
			if cerr := f.Close(); instErr == nil {
				instErr = cerr
			}
		}
		if instErr != nil {
			return vrt.Discardf("harness: %s: %v", what, instErr)
		}
		deadline := time.Now().Add(10 * time.Second)
		converged := false
		for it := 0; ; it++ {
			if v := checkVerifyLog(legit, what); v != nil {
				return *v
			}
			now := d.View() // (read before the log: Verify records before the monitor stores)
			seen := false
			for _, e := range recd.snapshot()[nBefore:] {
				seen = seen || eq(e.(*T), fullR)
			}
			if !seen && eq(now, fullR) && !eq(fullR, cur) {
				return vrt.KeyedViolationf("verify-skipped-on-rewrite", "%s: the view already shows the new stack %+v but Verify never ran on it (verification was enabled before the entry point returned)", what, *now).With(nonTrivial, labels...)
			}
			if seen && eq(now, want) {
				converged = true
				break
			}
			if time.Now().After(deadline) {
				break
			}
			if it < 300 {
				time.Sleep(50 * time.Microsecond)
			} else {
				time.Sleep(time.Millisecond)
			}
		}
		if !converged {
			got := d.View()
			if allParked3() {
				if eq(got, want) {
					return vrt.KeyedViolationf("verify-skipped-on-rewrite", "%s: 10 s after the new version was put in place every library goroutine is parked (3 dumps 300 ms apart), the view is as expected (%+v) but Verify never ran on the new stack %+v", what, *got, *fullR).With(nonTrivial, labels...)
				}
				return vrt.KeyedViolationf("lost-update", "%s: 10 s after the new version was put in place, every library goroutine is parked (3 dumps 300 ms apart) and the view is %+v, want %+v; Verify calls since the rewrite: %d\nfile:\n%s", what, deref(got), deref(want), len(recd.snapshot())-nBefore, content).With(nonTrivial, labels...)
			}
			return vrt.Discardf("inconclusive: %s not converged after 10 s while library goroutines are still runnable", what)
		}
		if looseFrom >= 0 {
			// every Verify of the window precedes the one on the final
			// content (later reads of the file find it unchanged): the
			// receivers seen so far are the legitimate transients
			all := recd.snapshot()
			for _, e := range all[looseFrom:] {
				if x := e.(*T); !eq(x, fullR) {
					transients = append(transients, x)
					labels = append(labels, "transient-stack-during-in-place-rewrite")
				}
			}
			exempt = append(exempt, [2]int{looseFrom, len(all)})
			looseFrom = -1
		}
		// a rejected version must leave the view alone; an accepted one must stay
		if !settle(2 * time.Second) {
			labels = append(labels, "not-settled-after-rewrite")
		}
		if v := checkVerifyLog(legit, what); v != nil {
			return *v
		}
		keep(d.View(), fmt.Sprintf("the View() after rewrite %d", r))
		if got := d.View(); !eq(got, want) {
			return vrt.KeyedViolationf("rewrite-precedence", "%s: the view is %+v, want %+v\n%s(file:\n%s)", what, deref(got), deref(want), leafDiff(td, got, want), content).With(nonTrivial, labels...)
		}
		for drained := false; !drained; {
			select {
			case ev := <-d.Events():
				keep(ev, fmt.Sprintf("an Events() value after rewrite %d", r))
				if !memberOf(ev, legit) && !memberOf(ev, transients) {
					return vrt.KeyedViolationf("events-foreign", "%s: Events() delivered %s, which is not a full stack of any file version", what, describe(ev)).With(nonTrivial, labels...)
				}
			default:
				drained = true
			}
		}
		if v := checkHanded(what); v != nil {
			return *v
		}
		cur = want
	}
	if len(c.Rewrites) > 0 {
		news, errs := log.snapshot()
		for _, n := range news {
			for _, x := range n {
				if x != nil && !memberOf(x, legit) && !memberOf(x, transients) {
					return vrt.KeyedViolationf("callback-foreign", "OnNewConfig(old=%s, new=%s): not full stacks of a file version", describe(n[0]), describe(n[1])).With(nonTrivial, labels...)
				}
			}
		}
		for _, e := range errs {
			for _, x := range []*T{e.old, e.new} {
				if x != nil && !memberOf(x, legit) && !memberOf(x, transients) {
					return vrt.KeyedViolationf("callback-foreign", "OnWatchedError(%v, old=%s, new=%s): not full stacks of a file version", e.err, describe(e.old), describe(e.new)).With(nonTrivial, labels...)
				}
			}
			if errors.Is(e.err, errVerify) {
				labels = append(labels, "watched-error-from-verify")
			} else {
				labels = append(labels, "watched-error-other")
			}
		}
	}
	if v := checkHanded("at the end of the case"); v != nil {
		return *v
	}
	finish()
	return vrt.OK(nonTrivial, labels...)
}

// scribbleDefaults overwrites in place what the reference-typed leaves of the
// caller's defaults struct point to: map entries, slice elements and the
// fields of pointees.  Maps and slices that the flag layer sets are left
// alone: the flag source binds such flags to the fields of the struct it was
// given, so it legitimately shares them with the caller.  It returns how many
// leaves were scribbled and whether one of them satisfies watch (the caller
// passes "the default wins this leaf in the next file version").
func scribbleDefaults(td *typeDef, c C18Case, defaults any, watch func(i int) bool) (n int, observable bool) {
	const junk = "caller-wrote-this-later"
	for i := range td.leaves {
		l := &td.leaves[i]
		if l.path != pNone {
			continue
		}
		v := reflect.ValueOf(defaults).Elem()
		viaPtr := false
		ok := true
		for _, f := range strings.Split(l.name, ".") {
			if v.Kind() == reflect.Ptr {
				if v.IsNil() {
					ok = false
					break
				}
				v, viaPtr = v.Elem(), true
			}
			v = v.FieldByName(f)
		}
		if !ok {
			continue
		}
		done := false
		switch v.Kind() {
		case reflect.Map:
			if c.Leaves[i].Layers&bFlag != 0 || v.IsNil() {
				continue
			}
			keys := v.MapKeys()
			sort.Slice(keys, func(a, b int) bool { return keys[a].String() < keys[b].String() })
			if len(keys) > 0 {
				v.SetMapIndex(keys[0], reflect.Value{}) // delete
			}
			v.SetMapIndex(reflect.ValueOf(junk), reflect.ValueOf(struct{}{}))
			done = true
		case reflect.Slice:
			if c.Leaves[i].Layers&bFlag != 0 || v.Len() == 0 {
				continue
			}
			for k := 0; k < v.Len(); k++ {
				v.Index(k).SetString(junk)
			}
			done = true
		default:
			if !viaPtr {
				continue // a plain field of the struct itself: not "in place"
			}
			switch v.Kind() {
			case reflect.String:
				v.SetString(junk)
			case reflect.Int, reflect.Int64:
				v.SetInt(770077 + int64(i))
			case reflect.Bool:
				v.SetBool(!v.Bool())
			case reflect.Float64:
				v.SetFloat(770077.25)
			default:
				continue
			}
			done = true
		}
		if done {
			n++
			observable = observable || watch(i)
		}
	}
	return n, observable
}

func viewOf[T any](d *dials.Dials[T]) *T {
	if d == nil {
		return nil
	}
	return d.View()
}

func memberOf[T any](x *T, set []*T) bool {
	for _, s := range set {
		if reflect.DeepEqual(x, s) {
			return true
		}
	}
	return false
}

func describeAll[T any](xs []*T) string {
	var b strings.Builder
	for i, x := range xs {
		if i > 0 {
			b.WriteString(" | ")
		}
		fmt.Fprintf(&b, "%v", deref(x))
	}
	return b.String()
}

// checkCallbacksQuiet: before any file change neither global callback may have run.
func checkCallbacksQuiet[T any](log *cbLog[T], when string) *vrt.Verdict {
	news, errs := log.snapshot()
	if len(news) > 0 {
		v := vrt.KeyedViolationf("callback-early", "%s, OnNewConfig had been called %d time(s); first: old=%+v new=%+v", when, len(news), deref(news[0][0]), deref(news[0][1]))
		return &v
	}
	if len(errs) > 0 {
		v := vrt.KeyedViolationf("callback-early", "%s, OnWatchedError had been called %d time(s); first: err=%v old=%+v new=%+v", when, len(errs), errs[0].err, deref(errs[0].old), deref(errs[0].new))
		return &v
	}
	return nil
}

func deref[T any](p *T) any {
	if p == nil {
		return "<nil>"
	}
	// JSON shows what is behind pointer-typed fields (durations in ns)
	if b, err := json.Marshal(p); err == nil {
		return string(b)
	}
	return *p
}

// leafDiff names the leaves on which two configs differ.
func leafDiff(td *typeDef, got, want any) string {
	var b strings.Builder
	g, w := reflect.ValueOf(got).Elem(), reflect.ValueOf(want).Elem()
	for i := range td.leaves {
		field := func(v reflect.Value) any {
			for _, f := range strings.Split(td.leaves[i].name, ".") {
				if v.Kind() == reflect.Ptr {
					if v.IsNil() {
						return "<nil " + v.Type().String() + ">"
					}
					v = v.Elem()
				}
				v = v.FieldByName(f)
			}
			return v.Interface()
		}
		gv, wv := field(g), field(w)
		if !reflect.DeepEqual(gv, wv) {
			fmt.Fprintf(&b, "  leaf %s: got %v, want %v\n", td.leaves[i].name, gv, wv)
		}
	}
	return b.String()
}

// ----------------------------------------------------------------------------
// Goroutine-dump helpers (real-time cases).

var stackBuf = make([]byte, 1<<20) // cases run sequentially

// libGoroutines counts the goroutines (other than the caller) that have a
// dials or fsnotify frame, and how many of them are not parked.
func libGoroutines() (total, busy int) {
	n := runtime.Stack(stackBuf, true)
	blocks := strings.Split(string(stackBuf[:n]), "\n\n")
	for k, b := range blocks {
		if k == 0 {
			continue // the caller
		}
		if !strings.Contains(b, "github.com/vimeo/dials") && !strings.Contains(b, "github.com/fsnotify/fsnotify") {
			continue
		}
		total++
		state := ""
		if i := strings.IndexByte(b, '['); i >= 0 {
			if j := strings.IndexByte(b[i:], ']'); j > 0 {
				state = b[i+1 : i+j]
			}
		}
		for _, s := range []string{"running", "runnable", "syscall", "sleep"} {
			if strings.HasPrefix(state, s) {
				busy++
				break
			}
		}
	}
	return total, busy
}

// libDump returns the stacks of the library goroutines (for messages).
func libDump() string {
	n := runtime.Stack(stackBuf, true)
	var b strings.Builder
	for k, blk := range strings.Split(string(stackBuf[:n]), "\n\n") {
		if k > 0 && (strings.Contains(blk, "github.com/vimeo/dials") || strings.Contains(blk, "github.com/fsnotify/fsnotify")) {
			b.WriteString(blk + "\n\n")
		}
	}
	out := b.String()
	if len(out) > 6000 {
		out = out[:6000]
	}
	return out
}

// settle waits until every library goroutine is parked in two consecutive dumps.
func settle(max time.Duration) bool {
	deadline := time.Now().Add(max)
	quiet := 0
	for {
		runtime.Gosched()
		if _, busy := libGoroutines(); busy == 0 {
			quiet++
			if quiet >= 2 {
				return true
			}
		} else {
			quiet = 0
		}
		if time.Now().After(deadline) {
			return false
		}
		time.Sleep(100 * time.Microsecond)
	}
}

// inotifyQueued is the number of bytes of events waiting in the kernel queues
// of all inotify descriptors of the process (FIONREAD; consumes nothing).
func inotifyQueued() int {
	ents, err := os.ReadDir("/proc/self/fd")
	if err != nil {
		return 0
	}
	total := 0
	for _, e := range ents {
		if l, err := os.Readlink("/proc/self/fd/" + e.Name()); err != nil || l != "anon_inode:inotify" {
			continue
		}
		fd, err := strconv.Atoi(e.Name())
		if err != nil {
			continue
		}
		var n int32
		if _, _, en := syscall.Syscall(syscall.SYS_IOCTL, uintptr(fd), 0x541B /* FIONREAD */, uintptr(unsafe.Pointer(&n))); en == 0 {
			total += int(n)
		}
	}
	return total
}

// settleWatcher waits until the file watcher has seen everything that
// happened to the file system so far: no inotify event is queued in the kernel
// and every library goroutine is parked, in three consecutive looks.  A false
// return only means "not known" and never decides a verdict.
func settleWatcher(max time.Duration) bool {
	deadline := time.Now().Add(max)
	quiet := 0
	for {
		runtime.Gosched()
		_, busy := libGoroutines()
		if busy == 0 && inotifyQueued() == 0 {
			quiet++
			if quiet >= 3 {
				return true
			}
		} else {
			quiet = 0
		}
		if time.Now().After(deadline) {
			return false
		}
		time.Sleep(200 * time.Microsecond)
	}
}

// waitLibGone waits (bounded) for every library goroutine to exit after the
// context was cancelled, so the next case starts clean.
func waitLibGone(max time.Duration) bool {
	deadline := time.Now().Add(max)
	for {
		runtime.Gosched()
		if total, _ := libGoroutines(); total == 0 {
			return true
		}
		if time.Now().After(deadline) {
			return false
		}
		time.Sleep(100 * time.Microsecond)
	}
}

// allParked3: three dumps 300 ms apart, every library goroutine parked in all.
func allParked3() bool {
	for k := 0; k < 3; k++ {
		if k > 0 {
			time.Sleep(300 * time.Millisecond)
		}
		if _, busy := libGoroutines(); busy != 0 {
			return false
		}
	}
	return true
}

// ----------------------------------------------------------------------------
// Test functions.

const c18Rule = "static ez config types (flat with a bool; nested with aliases and a pointer-to-struct field; untagged with FileFieldNameEncoder and a pointer-to-struct field; path computed from two leaves; one with an embedded untagged struct whose leaves file, env and flag set), each with ConfigPath and a recording, content-dependent Verify; " +
	"the defaults hold non-nil pointers to structs (leaves below them settable from file, env and flag) and, when the default layer sets them, non-empty maps and slices. " +
	"Per leaf rapid draws a subset of {default, file, env, flag}; the value of a layer is derived from (leaf seed, layer) so the four are pairwise different " +
	"(one leaf in five instead lets its top layer - flag, env or file - repeat exactly the value the defaults struct holds, generated or zero, while a lower non-default layer differs: an explicit value equal to the default must still win; one bool leaf, whose flag is also spelled bare -n / -n=false). " +
	"Format json/yaml/toml/cue through the named per-format entry points, FileExtensionDecoderConfigEnvFlag with every extension it knows (.json .yaml .yml .toml .cue, also upper case), ConfigFileEnvFlag with a factory and ConfigFileEnvFlagDecoderFactoryParams, " +
	"leaves with a dialsalias (tagged: conf_file/old_conf, port/listen_port; untagged, multi-word, Go camel case as ez's default DialsTagNameDecoder expects: MaxIdle/IdleLimit, DB.Retries/RetryBudget) are named by their primary key or by their alias - never both - independently in each file version, in the environment and on the command line; in the file the alias is spelled in the file's key convention as read off the unmodified tree (no encoder: the alias text as written; snake idle_limit, kebab idle-limit, UPPER_SNAKE IDLE_LIMIT) and counts as set by the file layer whichever name was used; " +
	"with AutoSetToSlice on, one set leaf in four has a non-empty default and a file (initial, or a later version) that assigns it the explicitly empty list []: on the unmodified tree all four decoders then deliver the empty (non-nil) set, which beats the default like any other file value; " +
	"crossed with Params.FlattenAnonymousFields on/off, FileFieldNameEncoder nil / snake / kebab / UPPER_SNAKE (untagged and embedded types) and DisableAutoSetToSlice on/off (sets then written as maps); the file layout of embedded leaves per format and option is written down in the harness as read off the unmodified tree " +
	"(JSON and Cue promote them, yaml.v2 nests them under the lower-cased type name unless FlattenAnonymousFields promotes them, go-toml nests them under the type name, with an encoder every format nests them under the encoded type name except YAML with FlattenAnonymousFields); the path comes from default/env/flag (lower layers and the file itself name decoy files that exist with other content); " +
	"file valid / missing / malformed / unknown extension / no path at all; flags through Params.FlagSource built by flag.NewSetWithArgs on a fresh FlagSet, through the application's own FlagSet handed over in a flag.Set literal, or through a fresh flag.CommandLine + os.Args (swapped in with the restore deferred first); " +
	"in the last two the application defines some of the scalar leaves' flags ITSELF beforehand (matching std flag type, own default and help text; also the config-path leaf's flag) - given on the command line such a flag is part of the flags layer like any other (the file it names is the one read), not given its application default must not appear. " +
	"Oracle by construction: first View() = flag > env > file > default per leaf; the decoder factory saw the path of defaults+env+flags; every Verify receiver deep-equals a full stack (never the file-less intermediate, none at all when the file cannot be read); " +
	"a rejected full stack gives an error that errors.Is the verifier's and no Dials; after return Events() is empty and neither global callback ran (watch off: inside a synctest bubble after synctest.Wait; watch on: after all library goroutines parked); " +
	"every config handed out (View() results, Events() values, callback arguments, Verify receivers) is deep-snapshotted when handed out and must still equal its snapshot after every later re-stack and at the end. " +
	"non-trivial = some leaf set by >= 3 layers AND the intermediate is rejected by Verify while the full stack is accepted; distinct = distinct cases"

var c18Assumptions = []string{
	"a caller may keep using its own defaults struct after the entry point returned (dials.Config deep-copies it); maps and slices that a flag is bound to are shared with the flag source by its design (flag.Var on the struct's field) and are therefore not modified by the harness",
	"the embedded struct's leaves carry single-word dials tags, so a FileFieldNameEncoder leaves their keys unchanged and only the key of the embedded struct itself depends on it",
	"layer values are simple tokens (letters, digits), positive/negative integers, millisecond durations, x.5 floats and two-element string sets, so no decoder/parse corner case interferes",
	"file keys, environment names and flag names are written down in the harness (dials tags; UPPER_SNAKE of the flattened path; kebab-joined path), not read from the library",
	"missing/malformed file: ez documents only that SetSource 'will fail if the file source fails'; the check requires a non-nil error and a nil Dials, not a particular error",
	"an in-place rewrite (truncate + write, create + write) legitimately exposes an empty or partial file, i.e. possibly the intermediate: the Verify receivers of that window (exactly those recorded before the Verify on the final content) and the callback / Events values equal to them are accepted, and such a version is only installed in place when Verify accepts it (otherwise by rename)",
	"while the config file does not exist the file source reports neither a value nor an error (read off sources/file watchLoop on the unmodified tree), so the view stays and Verify does not run; whether the watcher has already noticed the removal is established by FIONREAD == 0 on the inotify descriptors plus parked goroutines and only labels the case",
	"cases run sequentially; environment, flag.CommandLine and os.Args are restored at the end of every Run",
}

func TestC18Static(t *testing.T) {
	c18T = t
	defer func() { c18T = nil }()
	vrt.Check(t, vrt.Prop[C18Case]{
		ID: "C18", Name: "static",
		Rule:        "watch off. " + c18Rule,
		Assumptions: c18Assumptions,
		Gen:         genC18(false), Run: runC18,
	})
}

func TestC18Watch(t *testing.T) {
	c18T = t
	defer func() { c18T = nil }()
	vrt.Check(t, vrt.Prop[C18Case]{
		ID: "C18", Name: "watch",
		Rule: "watch on, 0-3 later versions of the file (each with its own leaf subset and fresh values, so later versions OMIT keys earlier versions set and the leaf must fall back to env / flag / default, also below a non-nil default pointer; some rejected by Verify), " +
			"at a drawn point before one of these versions the harness, acting as the caller, overwrites in place everything the reference-typed leaves of ITS OWN defaults struct point to (map entries, slice elements, pointees; not the maps/slices a flag is bound to) - the view and all later stacks must keep using the defaults as they were passed; " +
			"some histories of two or three versions bring the file back, byte for byte, to its start-up contents after at least one different version (A -> B -> A; identical bytes directly after each other stay out: that is the documented duplicate suppression) - the view must return to the start-up stack and Verify must run on it again; " +
			"versions are put in place by temp + rename-over, by unlink - (wait until the watcher has noticed: inotify queue drained, library goroutines parked) - temp + rename, by unlink - wait - create + write, by truncate in place - wait - write, or, in the Kubernetes AtomicWriter layout (path -> ..data/<base>, ..data -> ..ts-N), by a ..data symlink swap with or without removal of the old directory; " +
			"while the file is missing the view must stay at the last good config and Verify must not run (the file source reports nothing for a missing file); Verify receivers seen while a file is rewritten in place (truncate / create + write: an empty or partial file is legitimately readable) are exempt from the membership rule but the final view is not; after each the view must converge to flag > env > NEW file > default " +
			"(or stay, when Verify rejects the new stack), every Verify receiver / Events value / callback argument must be a full stack of some file version; convergence is polled, a 10 s stall is a violation only if three goroutine dumps 300 ms apart show every library goroutine parked, otherwise the case is discarded as inconclusive. " + c18Rule,
		Assumptions: c18Assumptions,
		Gen:         genC18(true), Run: runC18,
	})
}
