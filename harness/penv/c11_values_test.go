package penv

import (
	"fmt"
	"math"
	"reflect"
	"strconv"
	"strings"
	"time"
	"unicode/utf8"

	"pgregory.net/rapid"
)

// ---- typed values, their text renderings (produced here, never by dials) ----

// C11Val is a JSON-serialisable typed value.  Exactly one group is used,
// chosen by the leaf type it is built for.
type C11Val struct {
	S     *string  `json:"s,omitempty"`
	I     *int64   `json:"i,omitempty"`  // signed integers and durations
	U     *uint64  `json:"u,omitempty"`  // unsigned integers
	F     *uint64  `json:"f,omitempty"`  // float64 bits (real part for complex)
	Im    *uint64  `json:"im,omitempty"` // float64 bits of the imaginary part
	B     *bool    `json:"b,omitempty"`
	L     []C11Val `json:"l,omitempty"` // slice / set elements
	M     []C11KV  `json:"m,omitempty"` // map pairs, in text order
	Empty bool     `json:"empty,omitempty"`
}

// C11KV is one key/value pair of a map value.
type C11KV struct {
	K string `json:"k"`
	V C11Val `json:"v"`
}

var durationT = reflect.TypeOf(time.Duration(0))

// c11Build turns a C11Val into a Go value of type t.
func c11Build(t reflect.Type, v C11Val) (out reflect.Value, err error) {
	defer func() {
		if r := recover(); r != nil {
			err = fmt.Errorf("value does not fit type %s: %v", t, r)
		}
	}()
	out = reflect.New(t).Elem()
	need := func(ok bool) {
		if !ok {
			panic("wrong value group")
		}
	}
	switch t.Kind() {
	case reflect.String:
		need(v.S != nil)
		out.SetString(*v.S)
	case reflect.Bool:
		need(v.B != nil)
		out.SetBool(*v.B)
	case reflect.Int, reflect.Int8, reflect.Int16, reflect.Int32, reflect.Int64:
		need(v.I != nil && !out.OverflowInt(*v.I))
		out.SetInt(*v.I)
	case reflect.Uint, reflect.Uint8, reflect.Uint16, reflect.Uint32, reflect.Uint64:
		need(v.U != nil && !out.OverflowUint(*v.U))
		out.SetUint(*v.U)
	case reflect.Float32, reflect.Float64:
		need(v.F != nil)
		out.SetFloat(math.Float64frombits(*v.F))
	case reflect.Complex64, reflect.Complex128:
		need(v.F != nil && v.Im != nil)
		out.SetComplex(complex(math.Float64frombits(*v.F), math.Float64frombits(*v.Im)))
	case reflect.Pointer:
		e, err := c11Build(t.Elem(), v)
		if err != nil {
			return out, err
		}
		p := reflect.New(t.Elem())
		p.Elem().Set(e)
		out.Set(p)
	case reflect.Slice:
		s := reflect.MakeSlice(t, 0, len(v.L))
		for _, ev := range v.L {
			e, err := c11Build(t.Elem(), ev)
			if err != nil {
				return out, err
			}
			s = reflect.Append(s, e)
		}
		out.Set(s)
	case reflect.Map:
		m := reflect.MakeMap(t)
		switch {
		case t.Elem().Kind() == reflect.Struct: // set
			for _, ev := range v.L {
				need(ev.S != nil)
				m.SetMapIndex(reflect.ValueOf(*ev.S).Convert(t.Key()), reflect.Zero(t.Elem()))
			}
		case t.Elem().Kind() == reflect.Slice: // map[string][]string: repeated keys append
			for _, kv := range v.M {
				need(kv.V.S != nil)
				k := reflect.ValueOf(kv.K).Convert(t.Key())
				cur := m.MapIndex(k)
				if !cur.IsValid() {
					cur = reflect.MakeSlice(t.Elem(), 0, 1)
				}
				m.SetMapIndex(k, reflect.Append(cur, reflect.ValueOf(*kv.V.S).Convert(t.Elem().Elem())))
			}
		default:
			for _, kv := range v.M {
				e, err := c11Build(t.Elem(), kv.V)
				if err != nil {
					return out, err
				}
				m.SetMapIndex(reflect.ValueOf(kv.K).Convert(t.Key()), e)
			}
		}
		out.Set(m)
	default:
		return out, fmt.Errorf("unsupported leaf kind %s", t.Kind())
	}
	return out, nil
}

// ---- generation ----

var c11HostileStrings = []string{
	"", " ", "a,b", "k:v", `"quoted"`, `"`, `'`, "`", `back\slash`, `\`, "new\nline", "tab\t", "cr\rlf\n", "ünïcödé", "日本語", "'single'",
	"a=b", "=", "x y z", " lead", "trail ", "#hash", "{brace}", "[bracket]", "null", "true", "0", "-1", ",", ":", ",,", "a:b:c", `","`, `\"`, `\\`, "$HOME", "${X}", "%d", "\x7f", "\u00a0", "\ufeffbom", "é", "á", "\U0001F600",
}

func genString(rt *rapid.T) string {
	switch rapid.IntRange(0, 9).Draw(rt, "str_class") {
	case 0, 1, 2:
		return rapid.SampledFrom(c11HostileStrings).Draw(rt, "hostile")
	case 3, 4:
		// any text without NUL (the OS cannot store NUL in a variable)
		s := rapid.String().Draw(rt, "anystr")
		return strings.ReplaceAll(s, "\x00", "0")
	case 5:
		// assembled from separators and quotes
		n := rapid.IntRange(1, 6).Draw(rt, "sepn")
		var b strings.Builder
		for i := 0; i < n; i++ {
			b.WriteString(rapid.SampledFrom([]string{",", ":", `"`, `'`, "`", `\`, " ", "a", "b1", "\n", "=", "-", "é"}).Draw(rt, "sep"))
		}
		return b.String()
	default:
		return rapid.StringMatching(`[a-zA-Z0-9._/+\-$%]{1,8}`).Draw(rt, "plain")
	}
}

func genKey(rt *rapid.T, i int) string {
	// uniqueness comes from the index prefix; the empty key (at most once per
	// map) has to be written quoted.
	tail := ""
	switch rapid.IntRange(0, 7).Draw(rt, "key_class") {
	case 0, 1:
		tail = rapid.SampledFrom([]string{" sp", ",c", ":c", `"q`, "é", "=e", `\b`, "'"}).Draw(rt, "key_hostile")
	case 2, 3:
		tail = rapid.StringMatching(`[a-z0-9._/\-]{0,5}`).Draw(rt, "key_plain")
	case 4:
		if i == 0 {
			return ""
		}
	}
	return fmt.Sprintf("k%d%s", i, tail)
}

func genInt(rt *rapid.T, bits int) int64 {
	min := int64(-1) << (bits - 1)
	max := -(min + 1)
	switch rapid.IntRange(0, 9).Draw(rt, "int_class") {
	case 0:
		return min
	case 1:
		return max
	case 2:
		return rapid.SampledFrom([]int64{0, 1, -1}).Draw(rt, "int_small")
	case 3:
		return rapid.SampledFrom([]int64{min + 1, max - 1}).Draw(rt, "int_near")
	}
	return rapid.Int64Range(min, max).Draw(rt, "int")
}

func genUint(rt *rapid.T, bits int) uint64 {
	var max uint64 = math.MaxUint64 >> (64 - bits)
	switch rapid.IntRange(0, 9).Draw(rt, "uint_class") {
	case 0:
		return max
	case 1:
		return rapid.SampledFrom([]uint64{0, 1, max - 1}).Draw(rt, "uint_small")
	}
	return rapid.Uint64Range(0, max).Draw(rt, "uint")
}

func genFloat(rt *rapid.T, bits int) float64 {
	var f float64
	switch rapid.IntRange(0, 11).Draw(rt, "float_class") {
	case 0:
		f = math.Inf(1)
	case 1:
		f = math.Inf(-1)
	case 2:
		f = math.NaN()
	case 3:
		f = rapid.SampledFrom([]float64{0, math.Copysign(0, -1), 1, -1.5}).Draw(rt, "float_small")
	case 4:
		if bits == 32 {
			f = rapid.SampledFrom([]float64{math.MaxFloat32, -math.MaxFloat32, math.SmallestNonzeroFloat32}).Draw(rt, "float_edge")
		} else {
			f = rapid.SampledFrom([]float64{math.MaxFloat64, -math.MaxFloat64, math.SmallestNonzeroFloat64}).Draw(rt, "float_edge")
		}
	default:
		if bits == 32 {
			f = float64(rapid.Float32().Draw(rt, "f32"))
		} else {
			f = rapid.Float64().Draw(rt, "f64")
		}
	}
	if bits == 32 {
		f = float64(float32(f))
	}
	return f
}

func bitsOf(k reflect.Kind) int {
	switch k {
	case reflect.Int8, reflect.Uint8:
		return 8
	case reflect.Int16, reflect.Uint16:
		return 16
	case reflect.Int32, reflect.Uint32, reflect.Float32:
		return 32
	case reflect.Int, reflect.Uint:
		return strconv.IntSize
	case reflect.Complex64:
		return 32
	}
	return 64
}

// bareOK reports whether s can be written unquoted as an element of the
// documented comma-separated syntax: only characters the splitters name as
// always allowed, letters and digits.
func bareOK(s string, inMap bool) bool {
	if s == "" || !utf8.ValidString(s) {
		return false
	}
	for _, r := range s {
		switch {
		case r >= 'a' && r <= 'z', r >= 'A' && r <= 'Z', r >= '0' && r <= '9':
		case strings.ContainsRune("._/+-$%", r):
		case r == ':' && !inMap:
		case r == 'é' || r == '日' || r == 'µ' || r == 'ü':
		default:
			return false
		}
	}
	return true
}

func rawOK(s string) bool {
	if !utf8.ValidString(s) || strings.ContainsAny(s, "`\r\x00\ufeff") {
		return false
	}
	return true
}

// quoteElem writes one element of a collection: bare when allowed and chosen,
// else a Go interpreted or raw string literal.
func quoteElem(rt *rapid.T, s string, inMap bool) (string, string) {
	style := rapid.IntRange(0, 5).Draw(rt, "quote_style")
	if bareOK(s, inMap) && style < 4 {
		return s, "bare"
	}
	if rawOK(s) && style == 5 {
		return "`" + s + "`", "raw-quoted"
	}
	return strconv.Quote(s), "quoted"
}

type c11Rendered struct {
	Val    C11Val
	Text   string
	Labels []string
}

func (r *c11Rendered) label(l string) {
	for _, x := range r.Labels {
		if x == l {
			return
		}
	}
	r.Labels = append(r.Labels, l)
}

// scalarText renders a scalar of kind t (not string) and returns the value.
func genScalar(rt *rapid.T, t reflect.Type, r *c11Rendered, top bool) (C11Val, string) {
	switch t.Kind() {
	case reflect.Bool:
		b := rapid.Bool().Draw(rt, "bool")
		var txt string
		if b {
			txt = rapid.SampledFrom([]string{"true", "true", "1", "t", "T", "TRUE", "True"}).Draw(rt, "bool_text")
		} else {
			txt = rapid.SampledFrom([]string{"false", "false", "0", "f", "F", "FALSE", "False"}).Draw(rt, "bool_text")
		}
		return C11Val{B: &b}, txt
	case reflect.Int, reflect.Int8, reflect.Int16, reflect.Int32, reflect.Int64:
		if t == durationT {
			d := time.Duration(genInt(rt, 64))
			if rapid.IntRange(0, 2).Draw(rt, "dur_round") == 0 {
				d = d / time.Second * time.Second
			}
			i := int64(d)
			return C11Val{I: &i}, d.String()
		}
		i := genInt(rt, bitsOf(t.Kind()))
		txt := strconv.FormatInt(i, 10)
		switch rapid.IntRange(0, 9).Draw(rt, "int_style") {
		case 0:
			if i >= 0 {
				txt = "+" + txt
				r.label("int:plus-sign")
			}
		case 1:
			// the parser is called with base 0: base prefixes are accepted
			if i >= 0 {
				txt = "0x" + strconv.FormatInt(i, 16)
			} else {
				txt = "-0x" + strconv.FormatUint(uint64(-(i+1))+1, 16)
			}
			r.label("int:hex")
		case 2, 3:
			// a leading zero makes it a Go legacy octal literal (0755 = 493,
			// -010 = -8, 00 = 0), as ParseInt with base 0 reads it
			abs := uint64(i)
			sign := rapid.SampledFrom([]string{"", "", "+"}).Draw(rt, "octal_sign")
			if i < 0 {
				abs, sign = uint64(-(i+1))+1, "-"
			}
			txt = sign + "0" + strconv.FormatUint(abs, 8)
			r.label("int:legacy-octal")
		case 4:
			if i >= 0 {
				txt = "0o" + strconv.FormatInt(i, 8)
				r.label("int:0o-octal")
			}
		}
		return C11Val{I: &i}, txt
	case reflect.Uint, reflect.Uint8, reflect.Uint16, reflect.Uint32, reflect.Uint64:
		u := genUint(rt, bitsOf(t.Kind()))
		txt := strconv.FormatUint(u, 10)
		switch rapid.IntRange(0, 9).Draw(rt, "uint_style") {
		case 0:
			txt = "0x" + strconv.FormatUint(u, 16)
			r.label("int:hex")
		case 1, 2:
			txt = "0" + strconv.FormatUint(u, 8) // legacy octal, as for signed kinds
			r.label("int:legacy-octal")
		}
		return C11Val{U: &u}, txt
	case reflect.Float32, reflect.Float64:
		bits := bitsOf(t.Kind())
		if t.Kind() == reflect.Float64 {
			bits = 64
		}
		f := genFloat(rt, bits)
		fb := math.Float64bits(f)
		fmtc := rapid.SampledFrom([]byte{'g', 'g', 'e', 'f'}).Draw(rt, "float_fmt")
		if fmtc == 'f' && (math.Abs(f) > 1e20 || (f != 0 && math.Abs(f) < 1e-6)) {
			fmtc = 'g'
		}
		txt := strconv.FormatFloat(f, fmtc, -1, bits)
		if math.IsNaN(f) || math.IsInf(f, 0) {
			r.label("float:nan-inf")
		}
		return C11Val{F: &fb}, txt
	case reflect.Complex64, reflect.Complex128:
		bits := 64
		if t.Kind() == reflect.Complex64 {
			bits = 32
		}
		gen := func() float64 {
			f := genFloat(rt, bits)
			if math.IsNaN(f) || math.IsInf(f, 0) {
				f = 2.5
			}
			return f
		}
		re, im := gen(), gen()
		rb, ib := math.Float64bits(re), math.Float64bits(im)
		txt := strconv.FormatComplex(complex(re, im), 'g', -1, bits*2)
		if rapid.Bool().Draw(rt, "complex_noparens") {
			txt = strings.TrimSuffix(strings.TrimPrefix(txt, "("), ")")
		}
		return C11Val{F: &rb, Im: &ib}, txt
	}
	panic("genScalar: unsupported kind " + t.Kind().String())
}

// genValue draws a value of leaf type t and renders its text.
func genValue(rt *rapid.T, t reflect.Type) c11Rendered {
	r := &c11Rendered{}
	switch t.Kind() {
	case reflect.Pointer:
		in := genValue(rt, t.Elem())
		in.label("user-pointer")
		return in
	case reflect.String:
		s := genString(rt)
		r.Val, r.Text = C11Val{S: &s}, s
		if s == "" {
			r.label("empty-string-value")
		}
		if strings.ContainsAny(s, "\",:'`\\\n ") {
			r.label("string:hostile")
		}
	case reflect.Slice:
		n := rapid.IntRange(0, 4).Draw(rt, "slice_len")
		sep := rapid.SampledFrom([]string{",", ",", ", "}).Draw(rt, "slice_sep")
		var parts []string
		for i := 0; i < n; i++ {
			ev, txt := genElem(rt, t.Elem(), r, false)
			r.Val.L = append(r.Val.L, ev)
			parts = append(parts, txt)
		}
		r.Text = strings.Join(parts, sep)
		if n == 0 {
			r.Val.Empty = true
			r.label("empty-collection")
		}
		r.label("slice")
	case reflect.Map:
		n := rapid.IntRange(0, 4).Draw(rt, "map_len")
		sep := rapid.SampledFrom([]string{",", ",", ", "}).Draw(rt, "map_sep")
		var parts []string
		switch {
		case t.Elem().Kind() == reflect.Struct: // set: distinct elements
			seen := map[string]bool{}
			for i := 0; i < n; i++ {
				s := genString(rt)
				if seen[s] {
					s = genKey(rt, i)
				}
				seen[s] = true
				txt, lab := quoteElem(rt, s, false)
				r.label("elem:" + lab)
				sv := s
				r.Val.L = append(r.Val.L, C11Val{S: &sv})
				parts = append(parts, txt)
			}
			r.label("set")
		case t.Elem().Kind() == reflect.Slice: // map[string][]string
			keys := []string{}
			valued := false
			for i := 0; i < n; i++ {
				var k string
				if len(keys) > 0 && rapid.IntRange(0, 2).Draw(rt, "msl_repeat") == 0 {
					k = rapid.SampledFrom(keys).Draw(rt, "msl_key")
					r.label("map:repeated-key-appends")
				} else {
					k = genKey(rt, i)
					keys = append(keys, k)
				}
				s := genMapString(rt, i)
				ktxt, _ := quoteElem(rt, k, true)
				sv := s
				r.Val.M = append(r.Val.M, C11KV{K: k, V: C11Val{S: &sv}})
				parts = append(parts, mapEntryText(rt, r, ktxt, s, valued))
				valued = valued || s != ""
			}
			r.label("map-of-slices")
		case t.Elem().Kind() == reflect.String: // map[string]string, Labels
			valued := false
			for i := 0; i < n; i++ {
				k := genKey(rt, i)
				s := genMapString(rt, i)
				ktxt, _ := quoteElem(rt, k, true)
				sv := s
				r.Val.M = append(r.Val.M, C11KV{K: k, V: C11Val{S: &sv}})
				parts = append(parts, mapEntryText(rt, r, ktxt, s, valued))
				valued = valued || s != ""
			}
			r.label("map")
		default:
			for i := 0; i < n; i++ {
				k := genKey(rt, i)
				ev, vtxt := genElem(rt, t.Elem(), r, true)
				ktxt, _ := quoteElem(rt, k, true)
				r.Val.M = append(r.Val.M, C11KV{K: k, V: ev})
				parts = append(parts, ktxt+":"+rapid.SampledFrom([]string{"", "", " "}).Draw(rt, "colon_sp")+vtxt)
			}
			r.label("map")
		}
		r.Text = strings.Join(parts, sep)
		if n == 0 {
			r.Val.Empty = true
			r.label("empty-collection")
		}
	default:
		r.Val, r.Text = genScalar(rt, t, r, true)
	}
	return *r
}

// genMapString draws a string-typed map value; entries after the first are
// the empty string fairly often so that value-less entries follow valued ones.
func genMapString(rt *rapid.T, i int) string {
	if i > 0 && rapid.IntRange(0, 2).Draw(rt, "map_empty_value") == 0 {
		return ""
	}
	return genString(rt)
}

// mapEntryText renders one key:value entry of a string-valued map (or of a
// map[string][]string).  An entry without a value token -- `k` or `k:` -- has
// the empty text as its value (observed on the unmodified parse package for
// every map kind that goes through splitMap: "" for string values, an
// appended "" element for []string values, a cast error for other values).
func mapEntryText(rt *rapid.T, r *c11Rendered, ktxt, val string, afterValued bool) string {
	if val == "" {
		switch rapid.IntRange(0, 3).Draw(rt, "valueless_style") {
		case 0, 1:
			r.label("map:value-less-entry")
			if afterValued {
				r.label("map:value-less-after-valued")
			}
			return ktxt + rapid.SampledFrom([]string{"", ":"}).Draw(rt, "valueless_colon")
		}
	}
	vtxt, lab := quoteElem(rt, val, true)
	r.label("elem:" + lab)
	return ktxt + ":" + rapid.SampledFrom([]string{"", "", " "}).Draw(rt, "colon_sp") + vtxt
}

// genElem draws one element of a slice or one map value and its text.
func genElem(rt *rapid.T, t reflect.Type, r *c11Rendered, inMap bool) (C11Val, string) {
	if t.Kind() == reflect.String {
		s := genString(rt)
		txt, lab := quoteElem(rt, s, inMap)
		r.label("elem:" + lab)
		return C11Val{S: &s}, txt
	}
	if t.Kind() == reflect.Slice {
		// an element that is itself a list: its text, quoted as one element
		in := genValue(rt, t)
		txt, lab := quoteElem(rt, in.Text, inMap)
		r.label("elem:" + lab)
		r.label("nested-slice")
		return in.Val, txt
	}
	v, raw := genScalar(rt, t, r, false)
	txt, lab := quoteElem(rt, raw, inMap)
	r.label("elem:" + lab)
	return v, txt
}

// ---- texts that must be rejected ----

// unseparatedTexts lists item lists in which two items are NOT separated by a
// comma: adjacent quoted literals, text right after a closing quote, a quote
// right after a bare item, items separated by a tab / newline / CRLF.  Each
// is an error for every slice and set kind on the unmodified tree (checked for
// string, numeric, bool, duration, complex, named and nested slices and the
// string set).  A plain space is deliberately absent: it is part of a bare
// item ("a b" is one string item).  g is an acceptable item text without
// blanks, quotes or commas.
func unseparatedTexts(g string) []string {
	q := `"` + g + `"`
	return []string{
		q + " " + q + "," + g, q + q, q + g, q + g + "," + g, g + q, g + "," + q + q, g + "," + q + " " + q,
		g + "\t" + g, g + "\n" + g, g + "," + g + "\n" + g, g + "\r\n" + g, q + "\t" + q, q + "\n" + q,
		"`" + g + "` `" + g + "`", "`" + g + "`" + g,
	}
}

// goodScalarText is an acceptable text for a non-string scalar type.
func goodScalarText(t reflect.Type) string {
	switch t.Kind() {
	case reflect.Bool:
		return "true"
	case reflect.Int, reflect.Int8, reflect.Int16, reflect.Int32, reflect.Int64:
		if t == durationT {
			return "10s"
		}
		return "10"
	case reflect.Uint, reflect.Uint8, reflect.Uint16, reflect.Uint32, reflect.Uint64, reflect.Float32, reflect.Float64:
		return "10"
	case reflect.Complex64, reflect.Complex128:
		return "1+2i"
	}
	return ""
}

// badTexts lists texts that are unparsable or just out of range for type t
// (nil when every text is acceptable, as for strings).
func badTexts(t reflect.Type) []string {
	switch t.Kind() {
	case reflect.Pointer:
		return badTexts(t.Elem())
	case reflect.Bool:
		return []string{"", "yes", "2", "tru", " true", "true ", "truefalse"}
	case reflect.Int, reflect.Int8, reflect.Int16, reflect.Int32, reflect.Int64:
		if t == durationT {
			return []string{"", "5", "1x", "s", "1h 2m", "2562047h47m16.854775808s", "9223372037s", "1.5"}
		}
		bits := bitsOf(t.Kind())
		min := int64(-1) << (bits - 1)
		max := -(min + 1)
		over := strconv.FormatUint(uint64(max)+1, 10)
		under := "-" + strconv.FormatUint(uint64(max)+2, 10)
		return []string{"", "12x", " 5", "5 ", "1.5", "1e3", "--1", "0x", over, under, "99999999999999999999999",
			"089", "09", "-08", "+09", "0778"} // a leading zero announces octal: 8 and 9 are no octal digits
	case reflect.Uint, reflect.Uint8, reflect.Uint16, reflect.Uint32, reflect.Uint64:
		bits := bitsOf(t.Kind())
		var max uint64 = math.MaxUint64 >> (64 - bits)
		over := "18446744073709551616"
		if bits < 64 {
			over = strconv.FormatUint(max+1, 10)
		}
		return []string{"", "-1", "12x", " 5", "1.5", over, "99999999999999999999999", "089", "09", "08"}
	case reflect.Float32:
		// just outside float32 but inside float64, both signs, and far outside
		return []string{"", "abc", "1.2.3", "1e", " 1", "3.5e38", "-3.5e38", "1e39", "-1e39", "1e40", "-1e300", "1e309"}
	case reflect.Float64:
		return []string{"", "abc", "1.2.3", "1e", " 1", "1.8e308", "-1.8e308", "1e309", "-1e309", "1e400"}
	case reflect.Complex64:
		// one part just outside float32 range (inside float64), real or
		// imaginary, both signs; a narrowing conversion would give +-Inf
		return []string{"", "abc", "1+2j", "(1+2i", "1+2i)", "1++2i",
			"3.5e38+2i", "-3.5e38+2i", "1e39+2i", "-1e39-2i", "1e40+2i", "-1e40+2i", "1e300+2i", "(1e40+2i)",
			"1+3.5e38i", "1-3.5e38i", "1-4e38i", "1+1e39i", "1-1e39i", "1+1e40i", "1-1e40i", "1+1e300i", "(1-1e40i)",
			"1e40", "-1e39", "1e40i", "-3.5e38i", "1e309+2i", "1+1e400i"}
	case reflect.Complex128:
		return []string{"", "abc", "1+2j", "(1+2i", "1+2i)", "1++2i",
			"1e309+2i", "-1e309+2i", "1.8e308+2i", "1e400+2i", "1+1e309i", "1-1e309i", "1-1.8e308i", "1+1e400i", "(1e309-2i)", "1e309", "-1e400i"}
	case reflect.Slice:
		out := []string{`"abc`, `a,"b`, `'a'`, "a,'b'", "`abc"}
		inner := t.Elem()
		for inner.Kind() == reflect.Slice {
			inner = inner.Elem()
		}
		g := goodScalarText(inner)
		if inner.Kind() == reflect.String {
			g = "ab"
		}
		out = append(out, unseparatedTexts(g)...)
		if inner.Kind() == reflect.String {
			return out // any comma-separated list of words is a list (of lists) of strings
		}
		if t.Elem().Kind() != reflect.String {
			for _, b := range badTexts(t.Elem()) {
				if b == "" || strings.ContainsAny(b, " ") {
					continue // an empty text is the empty slice; blanks are token separators
				}
				out = append(out, b, "1,"+b)
			}
			if inner.Kind() != reflect.Bool && inner != durationT {
				out = append(out, "1,x,3")
			}
		}
		return out
	case reflect.Map:
		switch {
		case t.Elem().Kind() == reflect.Struct:
			return append([]string{"a,a", `a,"a"`, `"abc`, `'a'`}, unseparatedTexts("ab")...)
		case t.Elem().Kind() == reflect.Slice:
			return []string{":v", "a:b:c", `a:"x`, `"a:b`}
		case t.Elem().Kind() == reflect.String:
			return []string{"a:1,a:2", ":v", "a:b:c", `a:"x`, `a:b,"a":c`}
		}
		out := []string{":1", "a:1:2", `a:"1`}
		// a value-less entry has the empty text as its value, which no scalar
		// other than a string accepts -- also right after a valued entry
		if g := goodScalarText(t.Elem()); g != "" {
			out = append(out, "a:"+g+",b", "a:"+g+",b:", "a:"+g+",b:,c:"+g, "a:"+g+", b", `a:"`+g+`",b:`)
		}
		for _, b := range badTexts(t.Elem()) {
			if strings.ContainsAny(b, " ") {
				continue
			}
			out = append(out, "a:"+b)
		}
		return out
	}
	return nil
}
