package penv

import (
	"context"
	"fmt"
	"os"
	"reflect"
	"sort"
	"strings"
	"testing"

	"github.com/vimeo/dials"
	"github.com/vimeo/dials/ptrify"
	"github.com/vimeo/dials/sources/env"
	"pgregory.net/rapid"

	"verifharness/internal/shape"
	"verifharness/internal/vrt"
)

// ---- switches ----

// c11NamedScalarLeaves: named scalar leaf types (shape.Level, Count, Ratio,
// Flag, Name, Timeout, Color) and collections of them.  They panicked through
// the env source before the C16 repair (parse.String now converts to the
// requested type); C11_NAMED_SCALARS=0 switches them off again.
var c11NamedScalarLeaves = os.Getenv("C11_NAMED_SCALARS") != "0"

// c11PanickyCollections: *[]T, *map[..]T and [][]T leaves, which panicked in
// the string-casting mangler / parse.String before their repair;
// C11_PANICKY_COLLECTIONS=0 switches them off again.
var c11PanickyCollections = os.Getenv("C11_PANICKY_COLLECTIONS") != "0"

var c11GoodLeafTypes = []string{
	"bool", "int", "int8", "int16", "int32", "int64", "uint", "uint8", "uint16", "uint32", "uint64",
	"float32", "float64", "complex64", "complex128", "string", "string", "time.Duration",
	"*int", "*string", "*bool", "*float64", "*time.Duration", "*uint8",
	"[]string", "[]string", "[]int", "[]int8", "[]int64", "[]uint16", "[]uint64", "[]float64", "[]bool", "[]time.Duration",
	"[]float32", "[]complex64", "[]complex128", "map[string]float32", "map[string]complex64", "map[string]complex128",
	"map[string]int", "map[string]string", "map[string]struct{}", "map[string][]string", "map[string]float64", "map[string]bool", "map[string]time.Duration", "map[string]uint8",
	"Names", "Nums", "Limits", "Labels",
}

// Leaves the env source cannot fill (it answers a present variable with an
// error): they are generated, never given a variable, and must stay unset.
var c11InertLeafTypes = []string{"time.Time", "Stamp", "[3]int", "uintptr", "**int", "net.IP", "[]*int"}

var c11NamedScalarTypes = []string{"Level", "Count", "Ratio", "Flag", "Name", "Timeout", "Color", "[]Level", "[]Name", "map[string]Level", "map[string]Ratio", "*Count"}
var c11PanickyTypes = []string{"*[]int", "*[]string", "*map[string]int", "[][]int", "[][]string"}

func c11IsInert(typ string) bool {
	for _, t := range c11InertLeafTypes {
		if t == typ {
			return true
		}
	}
	return typ == "chan" || typ == ""
}

var c11Initialisms = map[string]bool{"api": true, "cpu": true, "dns": true, "html": true, "http": true, "https": true, "id": true, "ip": true, "json": true, "rpc": true, "sql": true, "tcp": true, "tls": true, "ttl": true, "udp": true, "uid": true, "uri": true, "url": true, "uuid": true, "xml": true}

func title(w string) string { return strings.ToUpper(w[:1]) + w[1:] }

// renderTag spells a word list in one of the four tag styles DecodeGoTags
// documents (snake_case, kebab-case, lowerCamelCase, UpperCamelCase).  In the
// camel styles an initialism is written fully capitalised (hostID, JSONFile),
// except as the leading word of a lowerCamel tag (jsonFile).
func renderTag(words []string, style string) string {
	switch style {
	case "snake":
		return strings.Join(words, "_")
	case "kebab":
		return strings.Join(words, "-")
	}
	var b strings.Builder
	for i, w := range words {
		switch {
		case i == 0 && style == "lowerCamel":
			b.WriteString(w)
		case c11Initialisms[w]:
			b.WriteString(strings.ToUpper(w))
		default:
			b.WriteString(title(w))
		}
	}
	return b.String()
}

// ---- case ----

// C11Var is one variable placed in the environment.
type C11Var struct {
	Name string `json:"name"` // full name, prefix included
	Type string `json:"type,omitempty"`
	Val  C11Val `json:"val"`
	Text string `json:"text"`
}

// C11Case is one generated case.
type C11Case struct {
	Shape    shape.Shape         `json:"shape"`
	TagWords map[string][]string `json:"tag_words,omitempty"` // rendered dials tag -> its words
	Prefix   string              `json:"prefix,omitempty"`
	Defaults map[string]uint64   `json:"defaults,omitempty"`
	DefNil   map[string]bool     `json:"def_nil,omitempty"`
	Vars     []C11Var            `json:"vars,omitempty"`  // parsable values of leaf variables
	Noise    []C11Var            `json:"noise,omitempty"` // variables that name no leaf
	Bad      *C11Var             `json:"bad,omitempty"`   // a leaf variable with an unacceptable text
	GenTags  []string            `json:"gen_tags,omitempty"`
	// Later holds the environments of further Value calls made on the SAME
	// *env.Source with the same config type (the first call uses Vars / Noise
	// / Bad above).
	Later []C11Step `json:"later,omitempty"`
}

// C11Step is the environment of one Value call.
type C11Step struct {
	Vars  []C11Var `json:"vars,omitempty"`
	Noise []C11Var `json:"noise,omitempty"`
	Bad   *C11Var  `json:"bad,omitempty"`
}

func genTagWords(rt *rapid.T) []string {
	_, words := shape.GenName(rt, map[string]bool{})
	return words
}

func genC11(rt *rapid.T) C11Case {
	c := C11Case{TagWords: map[string][]string{}}
	tagSet := map[string]bool{}
	noteTag := func(s string) { tagSet[s] = true }

	leafTypes := append([]string{}, c11GoodLeafTypes...)
	leafTypes = append(leafTypes, c11InertLeafTypes...)
	if c11NamedScalarLeaves {
		leafTypes = append(leafTypes, c11NamedScalarTypes...)
	}
	if c11PanickyCollections {
		leafTypes = append(leafTypes, c11PanickyTypes...)
	}
	prof := shape.Profile{
		LeafTypes:  leafTypes,
		Nested:     []string{"struct", "pstruct", "embed", "pembed"},
		EmbedTypes: []string{"EmbA", "EmbB", "EmbC"},
		MaxDepth:   3, MaxFields: 5, MinFields: 1,
	}
	if rapid.Bool().Draw(rt, "with_skips") {
		prof.SkipClasses = []string{"unexported", "dash", "chan", "func"}
		noteTag("skip-classes-on")
	}
	prof.Tagger = func(t *rapid.T, f *shape.Field, depth int) {
		var parts []string
		// A Go name whose LAST word is an initialism is put in the plural in a
		// third of the cases (UserID -> UserIDs, words [user ids]): the
		// unmodified decoder reads a plural initialism at the end of a name
		// as one word for every initialism.  (In the middle of a name --
		// AllowedIPsCount -- it does not: see Assumptions; never generated.)
		if n := len(f.Words); n > 0 && (f.Kind == "leaf" || f.Kind == "struct" || f.Kind == "pstruct") && c11Initialisms[f.Words[n-1]] &&
			strings.HasSuffix(f.Name, strings.ToUpper(f.Words[n-1])) && rapid.IntRange(0, 2).Draw(t, "plural_initialism") == 0 {
			f.Words = append(append([]string{}, f.Words[:n-1]...), f.Words[n-1]+"s")
			f.Name += "s"
			noteTag("name:plural-initialism-at-end")
		}
		tagPct := 35
		if f.Kind == "leaf" {
			tagPct = 30
		}
		if rapid.IntRange(0, 99).Draw(t, "dials_tag") < tagPct {
			words := genTagWords(t)
			style := rapid.SampledFrom([]string{"snake", "kebab", "lowerCamel", "UpperCamel"}).Draw(t, "tag_style")
			if (style == "snake" || style == "kebab") && rapid.IntRange(0, 5).Draw(t, "tag_digit") == 0 {
				// a digit run as a whole component, never the first
				words = append(words, rapid.SampledFrom([]string{"2", "64", "0"}).Draw(t, "tag_digits"))
				if len(words) > 2 && rapid.Bool().Draw(t, "digit_mid") {
					n := len(words)
					words[n-1], words[n-2] = words[n-2], words[n-1]
				}
			}
			tag := renderTag(words, style)
			c.TagWords[tag] = words
			parts = append(parts, fmt.Sprintf(`dials:"%s"`, tag))
			noteTag("tag:" + style)
		}
		if f.Kind == "leaf" && rapid.IntRange(0, 99).Draw(t, "env_tag") < 15 {
			words := genTagWords(t)
			var name string
			switch rapid.IntRange(0, 3).Draw(t, "env_style") {
			case 0:
				name = strings.Join(words, "") // README: dialsenv:"configpath"
			case 1:
				name = strings.ToUpper(strings.Join(words, "_"))
			case 2:
				name = strings.Join(words, "_") + "_2"
			default:
				name = renderTag(words, "UpperCamel") + "_x"
			}
			parts = append(parts, fmt.Sprintf(`dialsenv:"%s"`, name))
		}
		if rapid.IntRange(0, 9).Draw(t, "other_tag") == 0 {
			parts = append(parts, `yaml:"zz_other"`)
		}
		if len(parts) > 0 {
			f.Tag = strings.Join(parts, " ")
		}
	}
	c.Shape = shape.Gen(rt, prof)

	// Deliberate shared variable (rare): a root leaf whose dials tag spells
	// the derived name of a nested leaf.
	if ls, err := c11Leaves(c.Shape, c.TagWords); err == nil && rapid.IntRange(0, 24).Draw(rt, "collide") == 0 {
		var cands []c11Leaf
		for _, l := range ls {
			if l.Depth >= 1 && !l.Skipped && !l.EnvTag && !c11IsInert(l.Type) {
				cands = append(cands, l)
			}
		}
		if len(cands) > 0 {
			x := rapid.SampledFrom(cands).Draw(rt, "collide_with")
			words := strings.Split(strings.ToLower(x.Name), "_")
			used := map[string]bool{}
			for _, f := range c.Shape.Fields {
				used[f.Name] = true
			}
			nf := shape.Field{Kind: "leaf", Type: x.Type}
			nf.Name, nf.Words = shape.GenName(rt, used)
			tag := strings.Join(words, "_")
			c.TagWords[tag] = words
			nf.Tag = fmt.Sprintf(`dials:"%s"`, tag)
			noteTag("collision:tag")
			c.Shape.Fields = append(c.Shape.Fields, nf)
		}
	}
	// The flattened Go field names (concatenated Go names along each path)
	// must be distinct: rename by construction ({Host{Port}; HostPort}).
	if c11RepairFlatNames(&c.Shape, c.TagWords) {
		noteTag("flat-name-repaired")
	}

	T, err := c.Shape.Build()
	if err != nil {
		rt.Fatalf("generated shape does not build: %v", err)
	}
	leaves, err := c11Leaves(c.Shape, c.TagWords)
	if err != nil {
		rt.Fatalf("naming model: %v", err)
	}
	c.Prefix = rapid.SampledFrom([]string{"", "", "", "APP", "C11", "my_app", "Svc2", "X", "APP_"}).Draw(rt, "prefix")
	// In a share of the cases the prefix is the leading word(s) of some leaf's
	// own name (Prefix "DB", leaf DB.Host): the documented variable is
	// DB_DB_HOST, never the un-prefixed look-alike DB_HOST.
	forceSet := map[string]bool{}
	type lookAlike struct{ name, typ string }
	var lookAlikes []lookAlike
	if rapid.IntRange(0, 3).Draw(rt, "prefix_from_name") == 0 {
		var cands []c11Leaf
		for _, l := range leaves {
			if !l.Skipped && strings.Contains(strings.Trim(l.Name, "_"), "_") {
				cands = append(cands, l)
			}
		}
		if len(cands) > 0 {
			l := rapid.SampledFrom(cands).Draw(rt, "prefix_leaf")
			parts := strings.Split(l.Name, "_")
			k := rapid.IntRange(1, min(3, len(parts)-1)).Draw(rt, "prefix_words")
			if p := strings.Join(parts[:k], "_"); p != "" {
				c.Prefix = p
				noteTag(fmt.Sprintf("prefix-from-leaf-name:%d-word", k))
			}
		}
	}
	if c.Prefix != "" {
		for _, l := range leaves {
			if !l.Skipped && strings.HasPrefix(l.Name, c.Prefix+"_") {
				forceSet[fullName(c.Prefix, l.Name)] = true
				lookAlikes = append(lookAlikes, lookAlike{l.Name, l.Type})
			}
		}
	}

	// defaults
	d := shape.GenData(rt, shape.Walk(T), 0, 0)
	c.Defaults, c.DefNil = d.Defaults, d.DefNil

	// variable groups: full name -> leaves
	groups, order := c11Groups(leaves, c.Prefix)
	density := rapid.SampledFrom([]int{10, 50, 50, 90}).Draw(rt, "density")
	var unset []string
	for _, name := range order {
		g := groups[name]
		if !g.settable {
			continue
		}
		if rapid.IntRange(0, 99).Draw(rt, "set") >= density && !(forceSet[name] && rapid.IntRange(0, 3).Draw(rt, "force_set") > 0) {
			unset = append(unset, name)
			continue
		}
		r := genValue(rt, shape.MustType(g.typ))
		c.Vars = append(c.Vars, C11Var{Name: name, Type: g.typ, Val: r.Val, Text: r.Text})
		for _, l := range r.Labels {
			noteTag("val:" + l)
		}
	}
	// one unacceptable value in about a quarter of the cases
	if rapid.IntRange(0, 3).Draw(rt, "with_bad") == 0 {
		var cands []string
		for _, name := range unset {
			if len(badTexts(shape.MustType(groups[name].typ))) > 0 {
				cands = append(cands, name)
			}
		}
		if len(cands) == 0 {
			// take over a set variable instead
			for i, v := range c.Vars {
				if len(badTexts(shape.MustType(v.Type))) > 0 {
					cands = append(cands, v.Name)
					c.Vars = append(c.Vars[:i:i], c.Vars[i+1:]...)
					break
				}
			}
		}
		if len(cands) > 0 {
			name := rapid.SampledFrom(cands).Draw(rt, "bad_var")
			typ := groups[name].typ
			txt := rapid.SampledFrom(badTexts(shape.MustType(typ))).Draw(rt, "bad_text")
			c.Bad = &C11Var{Name: name, Type: typ, Text: txt}
		}
	}

	// noise
	real := map[string]bool{}
	var allNames []string
	for _, l := range leaves {
		fn := fullName(c.Prefix, l.Name)
		allNames = append(allNames, fn)
		if !l.Skipped {
			real[fn] = true
		}
	}
	nn := rapid.IntRange(0, 6).Draw(rt, "n_noise")
	seenNoise := map[string]bool{}
	// the un-prefixed look-alike of a leaf whose name starts with the prefix,
	// holding a different (acceptable) text
	for i, la := range lookAlikes {
		if i >= 4 || real[la.name] || seenNoise[la.name] || la.name == "" {
			continue
		}
		txt := "1"
		if !c11IsInert(la.typ) {
			txt = genValue(rt, shape.MustType(la.typ)).Text
		}
		seenNoise[la.name] = true
		c.Noise = append(c.Noise, C11Var{Name: la.name, Text: txt})
		noteTag("noise:unprefixed-look-alike")
	}
	for i := 0; i < nn && len(leaves) > 0; i++ {
		l := rapid.SampledFrom(leaves).Draw(rt, "noise_leaf")
		fn := fullName(c.Prefix, l.Name)
		other := fullName(c.Prefix, rapid.SampledFrom(leaves).Draw(rt, "noise_other").Name)
		var cands []string
		cands = append(cands,
			strings.ToLower(fn), title(strings.ToLower(fn)), fn+"_", "_"+fn, fn+"_X", fn+"X", fn[:len(fn)-1],
			strings.ReplaceAll(fn, "_", ""), strings.ReplaceAll(fn, "_", "__"), strings.ReplaceAll(fn, "_", "-"),
			"OTHER_"+l.Name, c.Prefix+l.Name, l.Name, fn+"_"+other, other+"_"+l.Name,
			fullName(c.Prefix, l.Derived), l.Derived, fullName(c.Prefix, l.FlatName), fullName(c.Prefix, strings.ToUpper(l.FlatName)),
			fullName(c.Prefix, strings.ToUpper(strings.ReplaceAll(l.Path, ".", "_"))),
		)
		if i := strings.LastIndex(l.Name, "_"); i > 0 {
			cands = append(cands, fullName(c.Prefix, l.Name[:i]), fullName(c.Prefix, l.Name[i+1:]))
		}
		if l.Skipped {
			cands = append(cands, fn, fn, fn) // the variable a skipped field would have had
		}
		name := rapid.SampledFrom(cands).Draw(rt, "noise_name")
		if name == "" || real[name] || seenNoise[name] || strings.ContainsAny(name, "=\x00") {
			continue
		}
		seenNoise[name] = true
		txt := rapid.SampledFrom([]string{"1", "true", "x", "", "7s", "a,b", "k:1"}).Draw(rt, "noise_text")
		c.Noise = append(c.Noise, C11Var{Name: name, Text: txt})
	}
	// History: further calls on the same Source with other environments --
	// variables of the previous call disappear, change or stay, others appear.
	nLater := rapid.SampledFrom([]int{0, 0, 1, 1, 2}).Draw(rt, "later_calls")
	prevVars := c.Vars
	for si := 0; si < nLater; si++ {
		var st C11Step
		prev := map[string]C11Var{}
		for _, v := range prevVars {
			prev[v.Name] = v
		}
		var free []string
		for _, name := range order {
			g := groups[name]
			if !g.settable {
				continue
			}
			pv, was := prev[name]
			switch k := rapid.IntRange(0, 9).Draw(rt, "later_fate"); {
			case was && k < 4: // gone
				free = append(free, name)
			case was && k < 7, !was && k < 3: // changed / appeared
				r := genValue(rt, shape.MustType(g.typ))
				st.Vars = append(st.Vars, C11Var{Name: name, Type: g.typ, Val: r.Val, Text: r.Text})
			case was:
				st.Vars = append(st.Vars, pv)
			default:
				free = append(free, name)
			}
		}
		if rapid.IntRange(0, 5).Draw(rt, "later_bad") == 0 {
			var cands []string
			for _, name := range free {
				if len(badTexts(shape.MustType(groups[name].typ))) > 0 {
					cands = append(cands, name)
				}
			}
			if len(cands) > 0 {
				name := rapid.SampledFrom(cands).Draw(rt, "later_bad_var")
				typ := groups[name].typ
				st.Bad = &C11Var{Name: name, Type: typ, Text: rapid.SampledFrom(badTexts(shape.MustType(typ))).Draw(rt, "later_bad_text")}
			}
		}
		for _, n := range c.Noise {
			if rapid.Bool().Draw(rt, "later_noise") {
				st.Noise = append(st.Noise, n)
			}
		}
		c.Later = append(c.Later, st)
		prevVars = st.Vars
	}
	if nLater > 0 {
		noteTag("history")
	}
	for t := range tagSet {
		c.GenTags = append(c.GenTags, t)
	}
	sort.Strings(c.GenTags)
	_ = allNames
	return c
}

var c11RenameWords = []string{"alpha", "bravo", "delta", "gamma", "zone", "node", "limit", "window"}

// c11RepairFlatNames renames generated leaves until no two configurable
// leaves flatten to the same Go field name; it reports whether it renamed.
func c11RepairFlatNames(s *shape.Shape, tagWords map[string][]string) bool {
	renamed := false
	for iter := 0; iter < 40; iter++ {
		leaves, err := c11Leaves(*s, tagWords)
		if err != nil {
			return renamed
		}
		seen := map[string]c11Leaf{}
		target := ""
		for _, l := range leaves {
			if l.Skipped {
				continue
			}
			if o, ok := seen[l.FlatName]; ok {
				switch {
				case !l.Embedded:
					target = l.Path
				case !o.Embedded:
					target = o.Path
				default:
					return renamed // two leaves of fixed embedded types: left to Run's discard
				}
				break
			}
			seen[l.FlatName] = l
		}
		if target == "" {
			return renamed
		}
		names := strings.Split(target, ".")
		fs := s.Fields
		for depth, n := range names {
			for i := range fs {
				if fs[i].Name != n {
					continue
				}
				if depth < len(names)-1 {
					fs = fs[i].Fields
					break
				}
				sib := map[string]bool{}
				for _, f := range fs {
					sib[f.Name] = true
				}
				for k := 0; ; k++ {
					w := c11RenameWords[(iter+k)%len(c11RenameWords)]
					fs[i].Name += title(w)
					fs[i].Words = append(append([]string{}, fs[i].Words...), w)
					if !sib[fs[i].Name] {
						break
					}
				}
				renamed = true
				break
			}
		}
	}
	return renamed
}

type c11Group struct {
	typ      string
	leaves   []c11Leaf
	settable bool
}

// c11Groups groups the configurable leaves by full variable name.
func c11Groups(leaves []c11Leaf, prefix string) (map[string]*c11Group, []string) {
	groups := map[string]*c11Group{}
	var order []string
	for _, l := range leaves {
		if l.Skipped {
			continue
		}
		fn := fullName(prefix, l.Name)
		g, ok := groups[fn]
		if !ok {
			g = &c11Group{typ: l.Type, settable: !c11IsInert(l.Type)}
			groups[fn] = g
			order = append(order, fn)
		}
		if g.typ != l.Type {
			g.settable = false // two leaves of different types share the variable
		}
		g.leaves = append(g.leaves, l)
	}
	return groups, order
}

// ---- environment guard ----

type envGuard struct {
	saved map[string]*string
	order []string
}

func (g *envGuard) touch(k string) {
	if _, ok := g.saved[k]; ok {
		return
	}
	if v, ok := os.LookupEnv(k); ok {
		g.saved[k] = &v
	} else {
		g.saved[k] = nil
	}
	g.order = append(g.order, k)
}

func (g *envGuard) set(k, v string) error { g.touch(k); return os.Setenv(k, v) }
func (g *envGuard) unset(k string)        { g.touch(k); os.Unsetenv(k) }
func (g *envGuard) restore() {
	for _, k := range g.order {
		if p := g.saved[k]; p != nil {
			os.Setenv(k, *p)
		} else {
			os.Unsetenv(k)
		}
	}
}

// ---- run ----

func setAtPath(root reflect.Value, names []string, val reflect.Value) error {
	v := root
	for i, n := range names {
		for v.Kind() == reflect.Pointer {
			if v.IsNil() {
				v.Set(reflect.New(v.Type().Elem()))
			}
			v = v.Elem()
		}
		if v.Kind() != reflect.Struct {
			return fmt.Errorf("%s: not a struct at %q", strings.Join(names, "."), n)
		}
		v = v.FieldByName(n)
		if !v.IsValid() {
			return fmt.Errorf("%s: no field %q", strings.Join(names, "."), n)
		}
		if i == len(names)-1 {
			if v.Type() != val.Type() {
				return fmt.Errorf("%s: field type %s, value type %s", strings.Join(names, "."), v.Type(), val.Type())
			}
			v.Set(val)
		}
	}
	return nil
}

// c11StepModel is what one call's environment must produce.
type c11StepModel struct {
	step       C11Step
	wantByPath map[string]reflect.Value
	textByPath map[string]string
}

func runC11(c C11Case) vrt.Verdict {
	T, err := c.Shape.Build()
	if err != nil {
		return vrt.Discardf("shape does not build")
	}
	leaves, err := c11Leaves(c.Shape, c.TagWords)
	if err != nil {
		return vrt.Discardf("naming model: %v", err)
	}
	if strings.ContainsAny(c.Prefix, "=\x00") {
		return vrt.Discardf("prefix is not a valid variable name part")
	}
	groups, _ := c11Groups(leaves, c.Prefix)

	// what each leaf must hold after each call: a function of that call's
	// environment alone
	steps := append([]C11Step{{Vars: c.Vars, Noise: c.Noise, Bad: c.Bad}}, c.Later...)
	if len(steps) > 4 {
		return vrt.Discardf("too many calls")
	}
	models := make([]c11StepModel, len(steps))
	for si, st := range steps {
		m := c11StepModel{step: st, wantByPath: map[string]reflect.Value{}, textByPath: map[string]string{}}
		seenVar := map[string]bool{}
		for _, v := range st.Vars {
			g, ok := groups[v.Name]
			if !ok || !g.settable || seenVar[v.Name] || g.typ != v.Type {
				return vrt.Discardf("variable does not name a settable leaf group")
			}
			seenVar[v.Name] = true
			for _, l := range g.leaves {
				w, err := c11Build(shape.MustType(l.Type), v.Val)
				if err != nil {
					return vrt.Discardf("value of %s: %v", v.Name, err)
				}
				m.wantByPath[l.Path] = w
				m.textByPath[l.Path] = v.Text
			}
			if strings.ContainsRune(v.Text, 0) {
				return vrt.Discardf("NUL in a value")
			}
		}
		if st.Bad != nil {
			g, ok := groups[st.Bad.Name]
			if !ok || seenVar[st.Bad.Name] || c11IsInert(g.typ) {
				return vrt.Discardf("bad variable does not name a free leaf group")
			}
		}
		for _, n := range st.Noise {
			if _, ok := groups[n.Name]; ok || n.Name == "" || strings.ContainsAny(n.Name, "=\x00") || seenVar[n.Name] {
				return vrt.Discardf("noise variable names a leaf or is not a valid name")
			}
		}
		models[si] = m
	}

	flatCount := map[string]int{}
	for _, l := range leaves {
		if !l.Skipped {
			flatCount[l.FlatName]++
		}
	}
	flatCollision := false
	for _, n := range flatCount {
		if n > 1 {
			flatCollision = true
		}
	}

	b := shape.NewBuilder(T, shape.ValueOpts{})
	d := shape.Data{Defaults: c.Defaults, DefNil: c.DefNil}
	defaults := b.Defaults(d)
	PT := ptrify.Pointerify(T, defaults.Elem())

	// ---- labels ----
	labels := append([]string{}, c.GenTags...)
	maxDepth, innerTag, anyEnvTag, anyEmbedded, anyInert, collision := 0, false, false, false, false, false
	for _, l := range leaves {
		if l.Skipped {
			continue
		}
		if l.Depth > maxDepth {
			maxDepth = l.Depth
		}
		innerTag = innerTag || l.InnerTag
		anyEnvTag = anyEnvTag || l.EnvTag
		anyEmbedded = anyEmbedded || l.Embedded
		anyInert = anyInert || c11IsInert(l.Type)
	}
	for _, gr := range groups {
		if len(gr.leaves) > 1 {
			collision = true
		}
	}
	prefixStartsName, anyBad, anyNoise := false, false, false
	dropped, changed, appeared := false, false, false
	for si, m := range models {
		anyBad = anyBad || m.step.Bad != nil
		anyNoise = anyNoise || len(m.step.Noise) > 0
		for _, l := range leaves {
			if !l.Skipped && c.Prefix != "" && strings.HasPrefix(l.Name, c.Prefix+"_") {
				if _, ok := m.wantByPath[l.Path]; ok {
					prefixStartsName = true
				}
			}
			if si > 0 && !l.Skipped {
				_, was := models[si-1].wantByPath[l.Path]
				_, is := m.wantByPath[l.Path]
				switch {
				case was && !is:
					dropped = true
				case !was && is:
					appeared = true
				case was && is && models[si-1].textByPath[l.Path] != m.textByPath[l.Path]:
					changed = true
				}
			}
		}
	}
	labels = append(labels, fmt.Sprintf("depth=%d", maxDepth), fmt.Sprintf("vars=%d", min(len(c.Vars), 5)), fmt.Sprintf("calls=%d", len(steps)))
	for cond, l := range map[string]bool{"inner-dials-tag": innerTag, "dialsenv-tag": anyEnvTag, "embedded": anyEmbedded, "inert-leaf": anyInert,
		"shared-variable": collision, "flat-name-collision": flatCollision, "prefix": c.Prefix != "", "noise": anyNoise, "bad-value": anyBad,
		"set-leaf-name-starts-with-prefix": prefixStartsName, "history:variable-dropped": dropped, "history:variable-changed": changed, "history:variable-appeared": appeared} {
		if l {
			labels = append(labels, cond)
		}
	}
	sort.Strings(labels)
	nonTrivial := (maxDepth >= 2 || innerTag) && len(c.Vars) >= 2

	riskKey := func(l c11Leaf) string {
		switch {
		case l.EnvTag:
			return ""
		case l.CapsJoin:
			return "tag-join-lost-boundary"
		}
		return ""
	}
	fail := func(key, format string, a ...any) *vrt.Verdict {
		var v vrt.Verdict
		if key != "" {
			v = vrt.KeyedViolationf(key, format, a...).With(false, labels...)
		} else {
			v = vrt.Violationf(format, a...).With(false, labels...)
		}
		return &v
	}

	// leafCheck compares a returned value leaf by leaf with a call's model:
	// set iff its variable is present, to exactly the value.
	leafCheck := func(got reflect.Value, m c11StepModel, when string) *vrt.Verdict {
		for _, l := range leaves {
			if l.Skipped {
				continue
			}
			f := shape.FieldByPath(got, l.Path)
			isSet := f.IsValid()
			if isSet {
				switch f.Kind() {
				case reflect.Pointer, reflect.Slice, reflect.Map:
					isSet = !f.IsNil()
				}
			}
			want, wantSet := m.wantByPath[l.Path]
			vn := fullName(c.Prefix, l.Name)
			switch {
			case wantSet && !isSet:
				return fail(riskKey(l), "%sleaf %s (%s): variable %s=%q is present but the leaf is unset", when, l.Path, l.Type, vn, m.textByPath[l.Path])
			case !wantSet && isSet:
				return fail(riskKey(l), "%sleaf %s (%s): variable %s is absent but the leaf is set to %v", when, l.Path, l.Type, vn, f)
			case wantSet:
				gv := f
				if gv.Type() != want.Type() {
					if gv.Kind() != reflect.Pointer || gv.Type().Elem() != want.Type() {
						return fail("", "%sleaf %s: result field has type %s, want %s or a pointer to it", when, l.Path, gv.Type(), want.Type())
					}
					gv = gv.Elem()
				}
				if df := shape.Diff(want, gv); df != "" {
					return fail("", "%sleaf %s (%s): variable %s=%q gave a different value at %s (want vs got)", when, l.Path, l.Type, vn, m.textByPath[l.Path], df)
				}
			}
		}
		return nil
	}

	// ONE source for every call of the case, as a long-lived program has.
	src := &env.Source{Prefix: c.Prefix}
	results := make([]reflect.Value, len(steps))
	for si, m := range models {
		st := m.step
		when := ""
		if len(steps) > 1 {
			when = fmt.Sprintf("call %d of %d on one Source: ", si+1, len(steps))
		}
		// ---- execute with the environment set, then restore it ----
		g := &envGuard{saved: map[string]*string{}}
		var got reflect.Value
		var callErr error
		var panicked any
		func() {
			defer g.restore()
			for _, l := range leaves {
				g.unset(fullName(c.Prefix, l.Name))
			}
			for _, other := range steps { // noise of other calls must be gone too
				for _, n := range other.Noise {
					g.unset(n.Name)
				}
			}
			for _, n := range st.Noise {
				if err := g.set(n.Name, n.Text); err != nil {
					callErr = fmt.Errorf("harness: setenv %q: %w", n.Name, err)
					return
				}
			}
			for _, v := range st.Vars {
				if err := g.set(v.Name, v.Text); err != nil {
					callErr = fmt.Errorf("harness: setenv %q: %w", v.Name, err)
					return
				}
			}
			if st.Bad != nil {
				if err := g.set(st.Bad.Name, st.Bad.Text); err != nil {
					callErr = fmt.Errorf("harness: setenv %q: %w", st.Bad.Name, err)
					return
				}
			}
			defer func() {
				if r := recover(); r != nil {
					panicked = r
				}
			}()
			got, callErr = src.Value(context.Background(), dials.NewType(PT))
		}()
		if callErr != nil && strings.HasPrefix(callErr.Error(), "harness:") {
			return vrt.Discardf("%v", callErr)
		}
		if panicked != nil {
			msg := fmt.Sprint(panicked)
			if flatCollision && strings.Contains(msg, "duplicate field") {
				return vrt.Discardf("flattened field names collide")
			}
			return vrt.KeyedViolationf("panic", "%senv.Source.Value panicked: %s", when, msg).With(false, labels...)
		}

		// ---- a bad value is an error and no value ----
		if st.Bad != nil {
			if callErr == nil {
				key := ""
				for _, l := range groups[st.Bad.Name].leaves {
					key = riskKey(l)
				}
				return *fail(key, "%svariable %s=%q is not an acceptable %s, but Value returned no error", when, st.Bad.Name, st.Bad.Text, st.Bad.Type)
			}
			if got.IsValid() {
				return *fail("", "%sValue returned an error (%v) together with a value of type %s", when, callErr, got.Type())
			}
			continue
		}
		if callErr != nil {
			// A noise variable may coincide with the (wrong) name a known naming
			// defect makes the source look up; classify such a failure with it.
			key := ""
			if len(st.Noise) > 0 {
				for _, l := range leaves {
					if k := riskKey(l); !l.Skipped && k != "" {
						key = k
					}
				}
			}
			return *fail(key, "%sValue failed although every variable holds an acceptable text: %v", when, callErr)
		}
		if !got.IsValid() || got.Type() != PT {
			return *fail("", "%sValue returned type %v, want the requested type %s", when, got, PT)
		}
		if v := leafCheck(got, m, when); v != nil {
			return *v
		}
		results[si] = got

		// ---- stacked over the defaults: nothing else touched ----
		stacked, err := dials.VerifCompose(b.Defaults(d).Interface(), []reflect.Value{got})
		if err != nil {
			return *fail("", "%sstacking the env value over the defaults failed: %v", when, err)
		}
		exp := b.Defaults(d)
		for _, l := range leaves {
			if w, ok := m.wantByPath[l.Path]; ok {
				if err := setAtPath(exp.Elem(), strings.Split(l.Path, "."), w); err != nil {
					return vrt.Discardf("harness: %v", err)
				}
			}
		}
		sv := reflect.ValueOf(stacked)
		if sv.Type() != exp.Type() {
			return *fail("", "%sstacked value has type %s, want %s", when, sv.Type(), exp.Type())
		}
		if df := shape.Diff(exp.Elem(), sv.Elem()); df != "" {
			return *fail("", "%sdefaults + env value differs from defaults with exactly the named leaves replaced at %s (want vs got)", when, df)
		}
	}
	// ---- values handed out earlier are not touched by later calls ----
	for si := 0; si < len(steps)-1; si++ {
		if !results[si].IsValid() {
			continue
		}
		if v := leafCheck(results[si], models[si], fmt.Sprintf("after %d later call(s) the value returned by call %d changed: ", len(steps)-1-si, si+1)); v != nil {
			return *v
		}
	}
	_ = defaults
	return vrt.OK(nonTrivial, labels...)
}

const c11Rule = "config struct types from the shape grammar restricted to leaves the env source casts from text (bool, ints, uints, floats, complex, string, time.Duration, pointers to scalars, slices of scalars, maps with string keys incl. sets and map[string][]string, named collection types) plus inert leaves it cannot fill (time.Time, text-unmarshalable structs, arrays, uintptr, **int, net.IP), nested / pointer / embedded structs to depth 3, Go field names from word lists with initialisms (a name whose last word is an initialism is put in the plural in a third of the cases: UserIDs, DB.BackendURLs, struct AllowedIPs{...}), skipped fields in half the cases; " +
	"`dials` tags at any level rendered from word lists in snake, kebab, lowerCamel, UpperCamel, the four spellings DecodeGoTags documents (initialisms in camel tags come from the golint list and are fully capitalised except as the leading word of a lowerCamel tag; every other word has >= 3 letters; digit runs only as whole non-leading snake/kebab components), `dialsenv` tags on leaves, optional prefix (fixed spellings, or in 1/4 of the cases the leading 1..3 words of some leaf's own derived name or dialsenv tag, e.g. Prefix DB with leaf DB.Host: the documented variable DB_DB_HOST is then usually set and the un-prefixed look-alike DB_HOST is present as noise with another acceptable text); " +
	"a subset of variables set (10/50/90 % density) with boundary-biased values and quoting-heavy strings rendered by the harness (strconv incl. 0x / 0o / legacy-octal leading-zero integer spellings, Duration.String, the documented comma/colon collection syntax with Go quoting; in string-valued maps and map[string][]string an empty value is often written as a value-less entry `k` or `k:`, also right after valued entries, which means the empty text for every map kind on the unmodified parser); noise variables derived from real names (wrong case, missing/extra prefix, dropped or doubled separators, path-joined name of a dialsenv leaf, names of skipped fields, prefixes/suffixes, sibling joins); in about half of the cases one or two further Value calls are made on the SAME *env.Source with another environment (each variable of the previous call disappears / changes / stays, others appear, noise is thinned, sometimes a bad text), every result is compared with the model of its own call and the earlier results are re-compared at the end; in 1/4 of the cases one unparsable or just-out-of-range text (incl. float32/complex64 parts just beyond float32, for scalar-valued maps a value-less entry after a valued one: a:10,b: is an error, not b:10; for slice and set leaves of every element kind two items not separated by a comma -- adjacent quoted literals, text right after a closing quote, tab- or newline-separated items -- which is an error, not a list without the later item). " +
	"Oracle: expected variable name known by construction (dialsenv verbatim, else UPPER_SNAKE of tag/name words along the path, untagged embedded structs contribute nothing, prefix + '_' in front of every name); result has the requested type; a leaf is non-nil iff its variable is present and then equals the generated value; defaults stacked with the result equal defaults with exactly those leaves replaced; a bad text gives an error and an invalid Value. " +
	"non-trivial = (>=2 levels of nesting or a dials tag on an inner level) and >=2 variables set; distinct = distinct case JSON"

var c11Assumptions = []string{
	"the environment is process-global: cases run sequentially, every touched variable (all leaf names of the case, noise, skipped-field names) is saved, cleared before the call and restored afterwards",
	"the empty map key is written quoted (\"\":v), as the repaired splitMap accepts it",
	"named scalar leaf types (and collections of them) and *[]T, *map, [][]T leaves are included since their repairs; C11_NAMED_SCALARS=0 / C11_PANICKY_COLLECTIONS=0 exclude them again",
	"integers are Go integer literals (parse.parseNumber calls ParseInt/ParseUint with base 0; observed on the unmodified tree for signed, unsigned and named kinds, also as slice elements and map values): a share of the texts carry a 0x / 0o prefix, a + sign, or a leading zero, which means legacy octal (0755 = 493, -010 = -8, 00 = 0); 089, 09, -08 are errors",
	"untagged Go names may end in a plural initialism (UserIDs, BackendURLs, also as the name of an intermediate struct): the unmodified DecodeGoCamelCase reads it as one word (user+ids) for every initialism. A plural initialism in the MIDDLE of one name (AllowedIPsCount, IDsCount) is decoded allowed+i+ps+count by the unmodified tree as well, so such names are outside the generated domain (reported, not asserted)",
	"one *env.Source serves every call of a case (1..3 calls with the same config type, different environments); each result must be a function of that call's environment alone and earlier results must stay as returned",
	"two leaves whose names coincide legitimately share one variable; such a group is only given a value when all its leaves have the same type",
	"ALL-CAPS / UPPER_SNAKE `dials` tags are outside the domain: the env source decodes dials tags with caseconversion.DecodeGoTags, which documents only CamelCase, snake_case and kebab-case with fully capitalised acronyms and reads an all-caps word as an acronym run by design",
	"the configurable leaves flatten to distinct Go field names (concatenated Go names along the path): the generator renames by construction ({Host{Port}; HostPort} becomes HostPortAlpha); a replayed case that still collides and panics with 'duplicate field' is discarded",
	"a failure on a leaf below a level whose camel tag ends in a capitalised initialism (hostID, FileJSON) carries the root-cause key tag-join-lost-boundary; the key only classifies, it suppresses nothing unless listed in known_findings.json",
	"stacking goes through the verif-tagged export VerifCompose because reflect-built types cannot be type arguments of Config",
}

func TestC11Env(t *testing.T) {
	if err := c11CheckEmbTable(); err != nil {
		t.Fatal(err)
	}
	vrt.Check(t, vrt.Prop[C11Case]{
		ID: "C11", Name: "env", Rule: c11Rule, Assumptions: c11Assumptions,
		Gen: genC11, Run: runC11,
	})
}
