package penv

import (
	"fmt"
	"reflect"
	"strings"

	"verifharness/internal/shape"
)

// ---- naming model: which variable names which leaf, known by construction ----
//
// Rule (documented on env.Source.Value and in the README, re-verified by a
// probe against /repo before this file was written):
//   * a leaf with a `dialsenv` tag is named by that tag verbatim, not joined
//     with its path;
//   * otherwise the name is the UPPER_SNAKE join of, along the path from the
//     root: the words of the `dials` tag of a level if it has one (whatever
//     its spelling), else the words of its Go field name; an untagged embedded
//     struct contributes nothing;
//   * with Source.Prefix = P != "" every name (dialsenv ones included) becomes
//     P + "_" + name, P verbatim.

// c11Leaf is one leaf of the generated config type.
type c11Leaf struct {
	Path     string // dotted Go field names from the root of T
	Type     string // shape type expression
	Name     string // variable name WITHOUT the prefix
	EnvTag   bool   // named by a dialsenv tag
	Depth    int    // number of enclosing struct levels (embedded ones included)
	Skipped  bool   // the leaf (or an enclosing level) is omitted from the config (unexported / dials:"-" / chan / func)
	InnerTag bool   // some enclosing struct level carries a dials tag
	Embedded bool   // reached through an embedded struct
	OwnTag   bool   // the leaf itself carries a dials tag
	Derived  string // the name the leaf would have without its dialsenv tag
	FlatName string // concatenation of the non-embedded Go field names on the path
	// CapsJoin: some enclosing level's camel-case dials tag ends in an
	// upper-cased initialism (hostID, FileJSON).  Only used as a label and to
	// give failures on such leaves a root-cause key.
	CapsJoin bool
}

// embLeaf describes the fixed fields of the harness' embeddable struct types.
type embLeaf struct {
	path  string
	typ   string
	words []string
	skip  bool
}

var c11EmbTable = map[string][]embLeaf{
	"EmbA": {
		{"EaNum", "int", []string{"ea", "num"}, false},
		{"EaText", "string", []string{"ea", "text"}, false},
	},
	"EmbB": {
		{"EbList", "[]string", []string{"eb", "list"}, false},
		{"EbPtr", "*int", []string{"eb", "ptr"}, false},
		{"EbFlag", "bool", []string{"eb", "flag"}, false},
	},
	"EmbC": {
		{"EcFirst", "int16", []string{"ec", "first"}, false},
		{"ecHidden", "int", []string{"ec", "hidden"}, true},
		{"EcChan", "chan", []string{"ec", "chan"}, true},
		{"EcSecond", "string", []string{"ec", "second"}, false},
		{"EcInner.Deep", "uint32", []string{"ec", "inner", "deep"}, false},
		{"EcInner.Tag", "string", []string{"ec", "inner", "tag"}, false},
	},
}

// c11CheckEmbTable verifies the table against the real Go types so that a
// change of internal/shape cannot silently invalidate the oracle.
func c11CheckEmbTable() error {
	for name, ls := range c11EmbTable {
		t := shape.MustType(name)
		n := 0
		for _, nd := range shape.Walk(t) {
			if nd.Class == shape.ClassStruct || nd.Class == shape.ClassPStruct {
				continue
			}
			if n >= len(ls) || ls[n].path != nd.Path {
				return fmt.Errorf("embed table for %s out of date at %s", name, nd.Path)
			}
			if !ls[n].skip && shape.MustType(ls[n].typ) != nd.Type {
				return fmt.Errorf("embed table for %s: %s has type %s", name, nd.Path, nd.Type)
			}
			if ls[n].skip != (nd.Class == shape.ClassSkip) {
				return fmt.Errorf("embed table for %s: %s skip mismatch", name, nd.Path)
			}
			n++
		}
		if n != len(ls) {
			return fmt.Errorf("embed table for %s has %d entries, type has %d", name, len(ls), n)
		}
	}
	return nil
}

func upperSnake(words []string) string {
	up := make([]string, len(words))
	for i, w := range words {
		up[i] = strings.ToUpper(w)
	}
	return strings.Join(up, "_")
}

// c11Leaves lists the leaves of s with their variable names.  tagWords maps a
// rendered `dials` tag to the word list it was rendered from.
func c11Leaves(s shape.Shape, tagWords map[string][]string) ([]c11Leaf, error) {
	var out []c11Leaf
	err := c11Walk(s.Fields, nil, nil, nil, 0, c11Flags{}, tagWords, &out)
	return out, err
}

type c11Flags struct{ skipped, innerTag, embedded, capsJoin bool }

func endsUpper(s string) bool {
	return s != "" && s[len(s)-1] >= 'A' && s[len(s)-1] <= 'Z'
}

func c11Walk(fs []shape.Field, path, flat, words []string, depth int, fl c11Flags, tagWords map[string][]string, out *[]c11Leaf) error {
	skipped, innerTag, embedded := fl.skipped, fl.innerTag, fl.embedded
	for _, f := range fs {
		st := reflect.StructTag(f.Tag)
		dt, hasDials := st.Lookup("dials")
		var own []string
		switch {
		case hasDials && dt == "-":
			own = f.Words
		case hasDials:
			w, ok := tagWords[dt]
			if !ok {
				return fmt.Errorf("no word list recorded for dials tag %q", dt)
			}
			own = w
		case f.Kind == "embed" || f.Kind == "pembed":
			own = nil
		default:
			own = f.Words
		}
		p := append(append([]string{}, path...), f.Name)
		w := append(append([]string{}, words...), own...)
		fn := flat
		if f.Kind != "embed" && f.Kind != "pembed" {
			fn = append(append([]string{}, flat...), f.Name)
		}
		switch f.Kind {
		case "leaf", "skip":
			l := c11Leaf{Path: strings.Join(p, "."), Type: f.Type, Depth: depth, Skipped: skipped || f.Kind == "skip", InnerTag: innerTag, Embedded: embedded}
			l.Name = upperSnake(w)
			l.OwnTag = hasDials
			l.Derived, l.FlatName, l.CapsJoin = l.Name, strings.Join(fn, ""), fl.capsJoin
			if ev, ok := st.Lookup("dialsenv"); ok && ev != "" {
				l.Name, l.EnvTag = ev, true
			}
			*out = append(*out, l)
		case "struct", "pstruct":
			nf := c11Flags{skipped, innerTag || hasDials, embedded, fl.capsJoin || (hasDials && endsUpper(dt))}
			if err := c11Walk(f.Fields, p, fn, w, depth+1, nf, tagWords, out); err != nil {
				return err
			}
		case "embed", "pembed":
			tbl, ok := c11EmbTable[f.Type]
			if !ok {
				return fmt.Errorf("unknown embedded type %q", f.Type)
			}
			for _, e := range tbl {
				ep := append(append([]string{}, p...), e.path)
				ew := append(append([]string{}, w...), e.words...)
				*out = append(*out, c11Leaf{
					Path: strings.Join(ep, "."), Type: e.typ, Name: upperSnake(ew),
					Depth: depth + 1 + strings.Count(e.path, "."), Skipped: skipped || e.skip,
					InnerTag: innerTag || hasDials, Embedded: true,
					Derived: upperSnake(ew), FlatName: strings.Join(fn, "") + strings.ReplaceAll(e.path, ".", ""),
					CapsJoin: fl.capsJoin || (hasDials && endsUpper(dt)),
				})
			}
		default:
			return fmt.Errorf("unknown field kind %q", f.Kind)
		}
	}
	return nil
}

// fullName applies the prefix rule.
func fullName(prefix, name string) string {
	if prefix == "" {
		return name
	}
	return prefix + "_" + name
}
