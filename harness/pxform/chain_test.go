package pxform

import (
	"fmt"
	"time"

	"github.com/vimeo/dials/common"
	"github.com/vimeo/dials/decoders/json/jsontypes"
	"github.com/vimeo/dials/tagformat"
	"github.com/vimeo/dials/tagformat/caseconversion"
	"github.com/vimeo/dials/transform"
)

// ManglerSpec is the JSON description of one mangler of a chain.
type ManglerSpec struct {
	// Kind: alias | flatten | anonflatten | setslice | dursub | stringcast |
	// textunm | tagcopy | reformat
	Kind string `json:"kind"`
	// alias: the tag names handed to NewAliasMangler
	Tags []string `json:"tags,omitempty"`
	// flatten / reformat: the tag operated on; tagcopy: the source tag
	Tag string `json:"tag,omitempty"`
	// tagcopy: the destination tag
	NewTag string `json:"new_tag,omitempty"`
	// flatten: name / tag encoders; reformat: Enc
	NameEnc string `json:"name_enc,omitempty"`
	Enc     string `json:"enc,omitempty"`
	// reformat: decoder
	Dec string `json:"dec,omitempty"`
}

var encoders = map[string]caseconversion.EncodeCasingFunc{
	"uppercamel": caseconversion.EncodeUpperCamelCase,
	"lowercamel": caseconversion.EncodeLowerCamelCase,
	"kebab":      caseconversion.EncodeKebabCase,
	"lowersnake": caseconversion.EncodeLowerSnakeCase,
	"uppersnake": caseconversion.EncodeUpperSnakeCase,
	"casesnake":  caseconversion.EncodeCasePreservingSnakeCase,
}

var decoders = map[string]caseconversion.DecodeCasingFunc{
	"gotags":     caseconversion.DecodeGoTags,
	"gocamel":    caseconversion.DecodeGoCamelCase,
	"lowersnake": caseconversion.DecodeLowerSnakeCase,
	"casesnake":  caseconversion.DecodeCasePreservingSnakeCase,
}

// tag spellings each decoder is documented to accept (all words lower-case
// letters, camel spellings capitalise every word after the first / every word)
var decoderStyles = map[string][]string{
	"gotags":     {"snake", "kebab", "lcamel", "ucamel"},
	"gocamel":    {"snake", "lcamel", "ucamel"},
	"lowersnake": {"snake"},
	"casesnake":  {"snake"},
}

var allStyles = []string{"snake", "kebab", "lcamel", "ucamel"}

var durSub = func() transform.Mangler {
	m, err := transform.NewSingleTypeSubstitutionMangler[time.Duration, jsontypes.ParsingDuration]()
	if err != nil {
		panic(err)
	}
	return m
}()

// build constructs the library mangler a spec describes, from the exported
// constructors only.
func (s ManglerSpec) build() (transform.Mangler, error) {
	switch s.Kind {
	case "alias":
		return transform.NewAliasMangler(s.Tags...), nil
	case "flatten":
		ne, ok1 := encoders[s.NameEnc]
		te, ok2 := encoders[s.Enc]
		if !ok1 || !ok2 {
			return nil, fmt.Errorf("unknown encoder %q / %q", s.NameEnc, s.Enc)
		}
		return transform.NewFlattenMangler(s.Tag, ne, te), nil
	case "anonflatten":
		return transform.AnonymousFlattenMangler{}, nil
	case "setslice":
		return &transform.SetSliceMangler{}, nil
	case "dursub":
		return durSub, nil
	case "stringcast":
		return &transform.StringCastingMangler{}, nil
	case "textunm":
		return &transform.TextUnmarshalerMangler{}, nil
	case "tagcopy":
		return &tagformat.TagCopyingMangler{SrcTag: s.Tag, NewTag: s.NewTag}, nil
	case "reformat":
		d, ok1 := decoders[s.Dec]
		e, ok2 := encoders[s.Enc]
		if !ok1 || !ok2 {
			return nil, fmt.Errorf("unknown decoder %q / encoder %q", s.Dec, s.Enc)
		}
		return tagformat.NewTagReformattingMangler(s.Tag, d, e), nil
	}
	return nil, fmt.Errorf("unknown mangler kind %q", s.Kind)
}

// ChainSpec is a list of stages; each stage is the mangler list of one
// Transformer, stage k+1 operating on the type stage k produced (this is how
// ez stacks its transforming decoder on top of a decoder's own transformer).
type ChainSpec struct {
	Name   string          `json:"name"`
	Stages [][]ManglerSpec `json:"stages"`
	// KeyTags: a translated field is located by the first of these tags it
	// carries (value up to the first comma), else by its Go field name.
	KeyTags []string `json:"key_tags"`
}

func (c ChainSpec) all() []ManglerSpec {
	var out []ManglerSpec
	for _, s := range c.Stages {
		out = append(out, s...)
	}
	return out
}

func (c ChainSpec) has(kind string) bool {
	for _, m := range c.all() {
		if m.Kind == kind {
			return true
		}
	}
	return false
}

// ---- the chains the shipped sources and decoders build ----

// sources/env/env.go Value(): alias(dials, dialsenv), flatten(dials,
// UpperCamel, UpperCamel), reformat(dials, GoTags -> UPPER_SNAKE),
// tagcopy(dials -> dialsenv), stringcast.
func envChain() ChainSpec {
	return ChainSpec{Name: "env", KeyTags: []string{common.DialsEnvTagName}, Stages: [][]ManglerSpec{{
		{Kind: "alias", Tags: []string{common.DialsTagName, common.DialsEnvTagName}},
		{Kind: "flatten", Tag: common.DialsTagName, NameEnc: "uppercamel", Enc: "uppercamel"},
		{Kind: "reformat", Tag: common.DialsTagName, Dec: "gotags", Enc: "uppersnake"},
		{Kind: "tagcopy", Tag: common.DialsTagName, NewTag: common.DialsEnvTagName},
		{Kind: "stringcast"},
	}}}
}

// sources/flag/flag.go registerFlags(): alias(dials, dialsflag),
// flatten(dials, NameCfg.FieldNameEncodeCasing, NameCfg.TagEncodeCasing).
func flagChain(tagEnc string) ChainSpec {
	return ChainSpec{Name: "flag", KeyTags: []string{common.DialsFlagTagName, common.DialsTagName}, Stages: [][]ManglerSpec{{
		{Kind: "alias", Tags: []string{common.DialsTagName, common.DialsFlagTagName}},
		{Kind: "flatten", Tag: common.DialsTagName, NameEnc: "uppercamel", Enc: tagEnc},
	}}}
}

// sources/pflag/pflag.go registerFlags(): alias(dials, dialspflag,
// dialspflagshort), flatten(...).
func pflagChain(tagEnc string) ChainSpec {
	return ChainSpec{Name: "pflag", KeyTags: []string{common.DialsPFlagTag, common.DialsTagName}, Stages: [][]ManglerSpec{{
		{Kind: "alias", Tags: []string{common.DialsTagName, common.DialsPFlagTag, common.DialsPFlagShortTag}},
		{Kind: "flatten", Tag: common.DialsTagName, NameEnc: "uppercamel", Enc: tagEnc},
	}}}
}

// decoder stages: json and cue: dursub, tagcopy(dials -> json); yaml:
// tagcopy(dials -> yaml) [+ anonflatten]; toml: tagcopy(dials -> toml).
func decoderStage(format string) ([]ManglerSpec, string) {
	switch format {
	case "json", "cue":
		return []ManglerSpec{{Kind: "dursub"}, {Kind: "tagcopy", Tag: common.DialsTagName, NewTag: "json"}}, "json"
	case "yaml":
		return []ManglerSpec{{Kind: "tagcopy", Tag: common.DialsTagName, NewTag: "yaml"}}, "yaml"
	case "yamlanon":
		return []ManglerSpec{{Kind: "tagcopy", Tag: common.DialsTagName, NewTag: "yaml"}, {Kind: "anonflatten"}}, "yaml"
	case "toml":
		return []ManglerSpec{{Kind: "tagcopy", Tag: common.DialsTagName, NewTag: "toml"}}, "toml"
	}
	panic("unknown format " + format)
}

func decoderChain(format string) ChainSpec {
	st, key := decoderStage(format)
	return ChainSpec{Name: format, KeyTags: []string{key}, Stages: [][]ManglerSpec{st}}
}

// ez/ez.go: the file decoder is wrapped in a transforming decoder with
// alias(dials) [, reformat(dials, DialsTagNameDecoder|GoCamel,
// FileFieldNameEncoder)] [, setslice]; the decoder's own transformer follows.
func ezChain(format string, reformatDec, reformatEnc string, setSlice bool) ChainSpec {
	st1 := []ManglerSpec{{Kind: "alias", Tags: []string{common.DialsTagName}}}
	if reformatEnc != "" {
		st1 = append(st1, ManglerSpec{Kind: "reformat", Tag: common.DialsTagName, Dec: reformatDec, Enc: reformatEnc})
	}
	if setSlice {
		st1 = append(st1, ManglerSpec{Kind: "setslice"})
	}
	st2, key := decoderStage(format)
	return ChainSpec{Name: "ez-" + format, KeyTags: []string{key}, Stages: [][]ManglerSpec{st1, st2}}
}
