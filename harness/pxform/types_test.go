package pxform

import (
	"reflect"
	"time"

	"verifharness/internal/shape"
)

// ---- harness types added to the shape vocabulary for C10 ----

// Job is an element of slices of structs: the transformer recurses into it
// with every recursing mangler, so it carries a duration, a set, a
// text-unmarshalable field and a tagged field.
type Job struct {
	Name   string `dials:"job_name"`
	Every  time.Duration
	Tags   map[string]struct{} `dials:"tags"`
	When   time.Time
	Weight float64
	Hosts  []string
	Waits  []time.Duration
}

// TagSet is a named set type.
type TagSet map[string]struct{}

// EmbTag is an embeddable struct with tagged and aliased fields.
type EmbTag struct {
	EtPort  int    `dials:"et_port"`
	EtName  string `dials:"etname" dialsalias:"et_old_name"`
	EtEvery time.Duration
}

// EmbDeep is an embeddable struct with a nested struct.
type EmbDeep struct {
	EdFlag  bool
	EdInner struct {
		Level int `dials:"lvl"`
		Set   map[string]struct{}
	}
}

func init() {
	shape.RegisterBase("Job", reflect.TypeOf(Job{}))
	shape.RegisterBase("TagSet", reflect.TypeOf(TagSet(nil)))
	shape.RegisterBase("EmbTag", reflect.TypeOf(EmbTag{}))
	shape.RegisterBase("EmbDeep", reflect.TypeOf(EmbDeep{}))
	// maps whose KEY type is time.Duration (the shape grammar only spells
	// map[string]T); usable inside the grammar's composites: []DurKeyInt,
	// *DurKeyStr, map[string]DurKeyInt
	shape.RegisterBase("DurKeyStr", reflect.TypeOf(map[time.Duration]string{}))
	shape.RegisterBase("DurKeyInt", reflect.TypeOf(map[time.Duration]int{}))
	shape.RegisterBase("DurKeyDur", reflect.TypeOf(map[time.Duration]time.Duration{}))
	shape.RegisterBase("DurKeyInts", reflect.TypeOf(map[time.Duration][]int{}))
	shape.RegisterBase("DurKeyDurs", reflect.TypeOf(map[time.Duration][]time.Duration{}))
	shape.RegisterBase("DurKeyStrDur", reflect.TypeOf(map[time.Duration]map[string]time.Duration{}))
}

// staticWords gives the words of the Go names of fields of harness-declared
// struct types (the generated names carry their words in the shape).
var staticWords = map[string][]string{
	"EmbA": {"emb", "a"}, "EmbB": {"emb", "b"}, "EmbC": {"emb", "c"}, "EmbTag": {"emb", "tag"}, "EmbDeep": {"emb", "deep"},
	"EaNum": {"ea", "num"}, "EaText": {"ea", "text"},
	"EbList": {"eb", "list"}, "EbPtr": {"eb", "ptr"}, "EbFlag": {"eb", "flag"},
	"EcFirst": {"ec", "first"}, "EcSecond": {"ec", "second"}, "EcInner": {"ec", "inner"}, "Deep": {"deep"}, "Tag": {"tag"},
	"EtPort": {"et", "port"}, "EtName": {"et", "name"}, "EtEvery": {"et", "every"},
	"EdFlag": {"ed", "flag"}, "EdInner": {"ed", "inner"}, "Level": {"level"}, "Set": {"set"},
	"Name": {"name"}, "Every": {"every"}, "Tags": {"tags"}, "When": {"when"}, "Weight": {"weight"}, "Hosts": {"hosts"}, "Waits": {"waits"},
	"X": {"x"}, "Y": {"y"}, "Vals": {"vals"}, "M": {"m"}, "P": {"p"},
}

// staticTagWords gives the words of the tag values that appear in the
// declarations above.
var staticTagWords = map[string][]string{
	"job_name": {"job", "name"}, "tags": {"tags"}, "et_port": {"et", "port"}, "etname": {"etname"},
	"et_old_name": {"et", "old", "name"}, "lvl": {"lvl"},
}

var (
	durationT = reflect.TypeOf(time.Duration(0))
	strPtrT   = reflect.TypeOf((*string)(nil))
	emptyT    = reflect.TypeOf(struct{}{})
)
