package pxform

import (
	"encoding/json"
	"fmt"
	"reflect"
	"time"

	"verifharness/internal/shape"
)

// ---- harness types added to the shape vocabulary for C10 ----

// Job is an element of slices of structs: the transformer recurses into it
// with every recursing mangler, so it carries a duration, a set, a
// text-unmarshalable field and a tagged field.
type Job struct {
	Name   string `dials:"job_name"`
	Every  time.Duration
	Tags   map[string]struct{} `dials:"tags"`
	When   time.Time
	Weight float64
	Hosts  []string
	Waits  []time.Duration
	Title  Label
	Shards map[int]struct{}
}

// Label is a string-like text type: its UnmarshalText keeps any text
// verbatim, surrounding whitespace included.
type Label string

// UnmarshalText implements encoding.TextUnmarshaler.
func (l *Label) UnmarshalText(b []byte) error { *l = Label(b); return nil }

// MarshalText implements encoding.TextMarshaler.
func (l Label) MarshalText() ([]byte, error) { return []byte(l), nil }

// TagSet is a named set type.
type TagSet map[string]struct{}

// EmbTag is an embeddable struct with tagged and aliased fields.
type EmbTag struct {
	EtPort  int    `dials:"et_port"`
	EtName  string `dials:"etname" dialsalias:"et_old_name"`
	EtEvery time.Duration
}

// EmbDeep is an embeddable struct with a nested struct.
type EmbDeep struct {
	EdFlag  bool
	EdInner struct {
		Level int `dials:"lvl"`
		Set   map[string]struct{}
	}
}

// Unit is a NAMED empty struct: map[K]Unit is not a set for the set->slice
// mangler (which documents map[T]struct{}); it must be left alone.
type Unit struct{}

// NestA, NestB, NestC are differently typed nested struct members.
type NestA struct {
	AaNum  int
	AaText string
}

// NestB has collections, a duration and a map of named empty structs.
type NestB struct {
	BbFlag  bool
	BbList  []string
	BbEvery time.Duration
	BbUnits map[string]Unit
}

// NestC has a real set.
type NestC struct {
	CcRatio float64
	CcSet   map[string]struct{}
}

// EmbMulti is an embeddable struct with three differently typed nested struct
// members (by value and by pointer) between scalar leaves: hoisting it gives
// one input field several struct-typed outputs of different types.
type EmbMulti struct {
	EmLead  int
	EmFirst NestA
	EmMid   *NestB
	EmLast  NestC
	EmTail  string
}

// EmbPair has two differently typed nested struct members and nothing else.
type EmbPair struct {
	EpOne NestC
	EpTwo NestA
}

// EmbHidden has unexported fields in first, middle and LAST position.
type EmbHidden struct {
	front int
	EhNum int
	mid   string
	EhTxt string
	back  bool
}

// ---- elements of slices of structs with embedded structs (elements are not
// pointerified, so their unexported fields reach the manglers) ----

// TrailFirst has an unexported field in first position.
type TrailFirst struct {
	lead   int
	TfOnly int
}

// TrailMid has an unexported field between two exported ones.
type TrailMid struct {
	TmOne int
	mid   int
	TmTwo string
}

// TrailLast has an unexported field AFTER its last exported one.
type TrailLast struct {
	TlNum  int
	TlText string
	tail   int
}

// TrailDeep has two differently typed nested struct members.
type TrailDeep struct {
	TdAlpha NestA
	TdGamma NestC
}

// Cart embeds structs with unexported fields in first and middle position and
// one with nested struct members.
type Cart struct {
	TrailFirst
	Qty int
	TrailMid
	TrailDeep
}

// Wagon embeds a struct whose LAST field is unexported.
type Wagon struct {
	Load int
	TrailLast
}

// Holder is a nested value struct holding a pointer to a struct.
type Holder struct {
	HdTag   string
	HdInner *NestC
}

// Node is a slice element with a pointer-to-struct member and a nested value
// struct holding another one: one sub-transformer per member serves every
// element of the slice, each element holding different values.
type Node struct {
	NdNum  int
	NdPeer *NestA
	NdHold Holder
	NdMore *NestB
	// arrays of structs NOT behind a pointer: the transformer recurses into
	// them, slot by slot
	NdPair [2]NestA
	NdTrio [3]Leafy
	// named text-unmarshalable collections of structs, not behind a pointer
	NdLinks PeerPair
	NdPeers PeerList
}

// Peer is the element struct of the named text-unmarshalable collections
// below; it does not implement encoding.TextUnmarshaler itself.
type Peer struct {
	Host string
	Port int
}

// PeerList is a NAMED slice of structs that is a text leaf: UnmarshalText
// sits on the collection type.  The transformer must not recurse into it.
type PeerList []Peer

// UnmarshalText implements encoding.TextUnmarshaler (JSON array text).
func (p *PeerList) UnmarshalText(b []byte) error {
	var x []Peer
	if err := json.Unmarshal(b, &x); err != nil {
		return err
	}
	if x == nil {
		return fmt.Errorf("peer list %q: not a list", b)
	}
	*p = x
	return nil
}

// MarshalText implements encoding.TextMarshaler.
func (p PeerList) MarshalText() ([]byte, error) { return json.Marshal([]Peer(p)) }

// PeerPair is a NAMED array of structs that is a text leaf.
type PeerPair [2]Peer

// UnmarshalText implements encoding.TextUnmarshaler (JSON array text).
func (p *PeerPair) UnmarshalText(b []byte) error {
	var x []Peer
	if err := json.Unmarshal(b, &x); err != nil {
		return err
	}
	if len(x) != 2 {
		return fmt.Errorf("peer pair %q: want 2 peers", b)
	}
	p[0], p[1] = x[0], x[1]
	return nil
}

// MarshalText implements encoding.TextMarshaler.
func (p PeerPair) MarshalText() ([]byte, error) { return json.Marshal(p[:]) }

// Leafy is an array element with a set and a duration.
type Leafy struct {
	LfNum   int
	LfSet   map[string]struct{}
	LfEvery time.Duration
}

// ---- two- and three-level embedding, by value and by pointer, with leaves at
// every level ----

// EmbBase is the innermost embedded struct.
type EmbBase struct {
	BsNum  int
	BsText string
}

// EmbCommon embeds EmbBase by value.
type EmbCommon struct {
	CmFlag bool
	EmbBase
	CmList []string
}

// EmbCommonP embeds EmbRoot by pointer.
type EmbCommonP struct {
	*EmbRoot
	CpNum int
}

// EmbRoot is another innermost embedded struct.
type EmbRoot struct {
	RtEvery time.Duration
	RtSet   map[string]struct{}
}

// EmbTop embeds EmbCommon by value: three levels.
type EmbTop struct {
	EmbCommon
	TpRatio float64
}

// EmbTopP embeds EmbCommonP by pointer: three levels through pointers.
type EmbTopP struct {
	TpName string
	*EmbCommonP
}

var _ = []any{EmbHidden{}.front, EmbHidden{}.mid, EmbHidden{}.back, TrailFirst{}.lead, TrailMid{}.mid, TrailLast{}.tail}

func init() {
	shape.RegisterBase("Unit", reflect.TypeOf(Unit{}))
	shape.RegisterBase("IntKeyUnit", reflect.TypeOf(map[int]Unit{}))
	shape.RegisterBase("EmbMulti", reflect.TypeOf(EmbMulti{}))
	shape.RegisterBase("EmbPair", reflect.TypeOf(EmbPair{}))
	shape.RegisterBase("EmbHidden", reflect.TypeOf(EmbHidden{}))
	shape.RegisterBase("Node", reflect.TypeOf(Node{}))
	shape.RegisterBase("PeerList", reflect.TypeOf(PeerList(nil)))
	shape.RegisterBase("PeerPair", reflect.TypeOf(PeerPair{}))
	shape.RegisterBase("Label", reflect.TypeOf(Label("")))
	shape.RegisterBase("IntSet", reflect.TypeOf(map[int]struct{}{}))
	shape.RegisterBase("EmbCommon", reflect.TypeOf(EmbCommon{}))
	shape.RegisterBase("EmbCommonP", reflect.TypeOf(EmbCommonP{}))
	shape.RegisterBase("EmbTop", reflect.TypeOf(EmbTop{}))
	shape.RegisterBase("EmbTopP", reflect.TypeOf(EmbTopP{}))
	shape.RegisterBase("Cart", reflect.TypeOf(Cart{}))
	shape.RegisterBase("Wagon", reflect.TypeOf(Wagon{}))
	shape.RegisterBase("Job", reflect.TypeOf(Job{}))
	shape.RegisterBase("TagSet", reflect.TypeOf(TagSet(nil)))
	shape.RegisterBase("EmbTag", reflect.TypeOf(EmbTag{}))
	shape.RegisterBase("EmbDeep", reflect.TypeOf(EmbDeep{}))
	// maps whose KEY type is time.Duration (the shape grammar only spells
	// map[string]T); usable inside the grammar's composites: []DurKeyInt,
	// *DurKeyStr, map[string]DurKeyInt
	shape.RegisterBase("DurKeyStr", reflect.TypeOf(map[time.Duration]string{}))
	shape.RegisterBase("DurKeyInt", reflect.TypeOf(map[time.Duration]int{}))
	shape.RegisterBase("DurKeyDur", reflect.TypeOf(map[time.Duration]time.Duration{}))
	shape.RegisterBase("DurKeyInts", reflect.TypeOf(map[time.Duration][]int{}))
	shape.RegisterBase("DurKeyDurs", reflect.TypeOf(map[time.Duration][]time.Duration{}))
	shape.RegisterBase("DurKeyStrDur", reflect.TypeOf(map[time.Duration]map[string]time.Duration{}))
}

// staticWords gives the words of the Go names of fields of harness-declared
// struct types (the generated names carry their words in the shape).
var staticWords = map[string][]string{
	"EmbA": {"emb", "a"}, "EmbB": {"emb", "b"}, "EmbC": {"emb", "c"}, "EmbTag": {"emb", "tag"}, "EmbDeep": {"emb", "deep"},
	"EaNum": {"ea", "num"}, "EaText": {"ea", "text"},
	"EbList": {"eb", "list"}, "EbPtr": {"eb", "ptr"}, "EbFlag": {"eb", "flag"},
	"EcFirst": {"ec", "first"}, "EcSecond": {"ec", "second"}, "EcInner": {"ec", "inner"}, "Deep": {"deep"}, "Tag": {"tag"},
	"EtPort": {"et", "port"}, "EtName": {"et", "name"}, "EtEvery": {"et", "every"},
	"EdFlag": {"ed", "flag"}, "EdInner": {"ed", "inner"}, "Level": {"level"}, "Set": {"set"},
	"Name": {"name"}, "Every": {"every"}, "Tags": {"tags"}, "When": {"when"}, "Weight": {"weight"}, "Hosts": {"hosts"}, "Waits": {"waits"}, "Title": {"title"}, "Shards": {"shards"},
	"EmbMulti": {"emb", "multi"}, "EmbPair": {"emb", "pair"}, "EmbHidden": {"emb", "hidden"},
	"EmLead": {"em", "lead"}, "EmFirst": {"em", "first"}, "EmMid": {"em", "mid"}, "EmLast": {"em", "last"}, "EmTail": {"em", "tail"},
	"EpOne": {"ep", "one"}, "EpTwo": {"ep", "two"}, "EhNum": {"eh", "num"}, "EhTxt": {"eh", "txt"},
	"AaNum": {"aa", "num"}, "AaText": {"aa", "text"}, "BbFlag": {"bb", "flag"}, "BbList": {"bb", "list"}, "BbEvery": {"bb", "every"}, "BbUnits": {"bb", "units"},
	"CcRatio": {"cc", "ratio"}, "CcSet": {"cc", "set"},
	"TrailFirst": {"trail", "first"}, "TrailMid": {"trail", "mid"}, "TrailLast": {"trail", "last"}, "TrailDeep": {"trail", "deep"},
	"TfOnly": {"tf", "only"}, "TmOne": {"tm", "one"}, "TmTwo": {"tm", "two"}, "TlNum": {"tl", "num"}, "TlText": {"tl", "text"},
	"TdAlpha": {"td", "alpha"}, "TdGamma": {"td", "gamma"}, "Qty": {"qty"}, "Load": {"load"},
	"NdNum": {"nd", "num"}, "NdPeer": {"nd", "peer"}, "NdHold": {"nd", "hold"}, "NdMore": {"nd", "more"}, "HdTag": {"hd", "tag"}, "HdInner": {"hd", "inner"},
	"NdPair": {"nd", "pair"}, "NdTrio": {"nd", "trio"}, "LfNum": {"lf", "num"}, "LfSet": {"lf", "set"}, "LfEvery": {"lf", "every"},
	"EmbBase": {"emb", "base"}, "EmbCommon": {"emb", "common"}, "EmbCommonP": {"emb", "common", "p"}, "EmbRoot": {"emb", "root"}, "EmbTop": {"emb", "top"}, "EmbTopP": {"emb", "top", "p"},
	"BsNum": {"bs", "num"}, "BsText": {"bs", "text"}, "CmFlag": {"cm", "flag"}, "CmList": {"cm", "list"}, "CpNum": {"cp", "num"},
	"RtEvery": {"rt", "every"}, "RtSet": {"rt", "set"}, "TpRatio": {"tp", "ratio"}, "TpName": {"tp", "name"},
	"NdLinks": {"nd", "links"}, "NdPeers": {"nd", "peers"}, "Host": {"host"}, "Port": {"port"},
	"X": {"x"}, "Y": {"y"}, "Vals": {"vals"}, "M": {"m"}, "P": {"p"},
}

// staticTagWords gives the words of the tag values that appear in the
// declarations above.
var staticTagWords = map[string][]string{
	"job_name": {"job", "name"}, "tags": {"tags"}, "et_port": {"et", "port"}, "etname": {"etname"},
	"et_old_name": {"et", "old", "name"}, "lvl": {"lvl"},
}

var (
	durationT = reflect.TypeOf(time.Duration(0))
	strPtrT   = reflect.TypeOf((*string)(nil))
	emptyT    = reflect.TypeOf(struct{}{})
)
