package pxform

import (
	"fmt"
	"reflect"
	"sort"
	"strings"
	"testing"

	"github.com/vimeo/dials/transform"
	"pgregory.net/rapid"

	"verifharness/internal/shape"
	"verifharness/internal/vrt"
)

// realKey is how the harness locates a field of the translated type: by the
// first key tag it carries, else by its Go name -- never by position.
func realKey(sf reflect.StructField, keyTags []string) string {
	for _, t := range keyTags {
		if n := namePart(sf.Tag.Get(t)); n != "" {
			return n
		}
	}
	return sf.Name
}

func fieldByKey(st reflect.Type, key string, keyTags []string) int {
	for i := 0; i < st.NumField(); i++ {
		if realKey(st.Field(i), keyTags) == key {
			return i
		}
	}
	return -1
}

type runner struct {
	c     Case
	md    *model
	t0    reflect.Type
	tfs   []*transform.Transformer
	tt    reflect.Type // final translated type
	plain bool
	// values returned so far by this case's transformers
	results []earlier
	// while building a fill: the padding of the text written for
	// text-unmarshalable leaves, and whether some padded text is rejected by
	// its type's own UnmarshalText (reverse translation must then fail)
	pad            int
	rejected       bool
	expectedErrors int
}

func viol(key, format string, a ...any) *vrt.Verdict {
	v := vrt.KeyedViolationf(key, format, a...)
	return &v
}

// guarded runs f, turning a panic into an error string.
func guarded(f func() error) (err error, panicked bool) {
	defer func() {
		if r := recover(); r != nil {
			err, panicked = fmt.Errorf("panic: %v", r), true
		}
	}()
	return f(), false
}

// matchStruct requires the translated struct type st to have exactly the
// model's field set (by key) with the model's types.
func (r *runner) matchStruct(st reflect.Type, fs []*mfield, where string) *vrt.Verdict {
	kt := r.c.Chain.KeyTags
	real := map[string]int{}
	for i := 0; i < st.NumField(); i++ {
		k := realKey(st.Field(i), kt)
		if _, dup := real[k]; dup {
			return viol("field-set", "translated struct %s has two fields with key %q (key tags %v): %s", where, k, kt, st)
		}
		real[k] = i
	}
	want := map[string]*mfield{}
	for _, f := range fs {
		k, _ := r.md.m.key(f)
		want[k] = f
	}
	var missing, extra []string
	for k := range want {
		if _, ok := real[k]; !ok {
			missing = append(missing, k)
		}
	}
	for k := range real {
		if _, ok := want[k]; !ok {
			extra = append(extra, k)
		}
	}
	sort.Strings(missing)
	sort.Strings(extra)
	if len(missing)+len(extra) > 0 {
		return viol("field-set", "translated struct %s: keys missing %q, unexpected %q (key tags %v); translated type %s", where, missing, extra, kt, st)
	}
	for k, f := range want {
		sf := st.Field(real[k])
		at := where + "/" + k
		switch f.kind {
		case kLeaf:
			if sf.Type != f.rtype {
				key := "leaf-type"
				if f.otype.Kind() == reflect.Slice && f.otype.Elem().Kind() == reflect.Struct && implementsText(f.otype.Elem()) {
					key = keyTextSliceRec
				}
				if f.anon && f.rtype.Kind() == reflect.Pointer && sf.Type == f.rtype.Elem() && r.c.Chain.has("anonflatten") {
					key = keyAnonPtr
				}
				return viol(key, "translated field %s (from %s %s) has type %s, documented type %s", at, strings.Join(f.origin, "."), f.otype, sf.Type, f.rtype)
			}
		case kPStruct:
			if sf.Type.Kind() != reflect.Pointer || sf.Type.Elem().Kind() != reflect.Struct {
				return viol("leaf-type", "translated field %s has type %s, want pointer to struct", at, sf.Type)
			}
			if v := r.matchStruct(sf.Type.Elem(), f.children, at); v != nil {
				return v
			}
		case kStruct:
			if sf.Type.Kind() != reflect.Struct {
				return viol("leaf-type", "translated field %s has type %s, want struct", at, sf.Type)
			}
			if v := r.matchStruct(sf.Type, f.children, at); v != nil {
				return v
			}
		case kArrayStruct:
			if sf.Type.Kind() != reflect.Array || sf.Type.Len() != f.otype.Len() || sf.Type.Elem().Kind() != reflect.Struct {
				return viol("leaf-type", "translated field %s has type %s, want an array of %d structs", at, sf.Type, f.otype.Len())
			}
			if v := r.matchStruct(sf.Type.Elem(), f.children, at+"[]"); v != nil {
				return v
			}
		case kSliceStruct:
			if sf.Type.Kind() != reflect.Slice || sf.Type.Elem().Kind() != reflect.Struct {
				return viol("leaf-type", "translated field %s has type %s, want slice of struct", at, sf.Type)
			}
			if v := r.matchStruct(sf.Type.Elem(), f.children, at+"[]"); v != nil {
				return v
			}
		}
	}
	return nil
}

// forwardSliceStruct converts an original []S to the translated slice of
// structs, element field by element field, located by key.
func (r *runner) forwardSliceStruct(v0 reflect.Value, f *mfield, rt reflect.Type) (reflect.Value, reflect.Value, error) {
	n := v0.Len()
	out := reflect.MakeSlice(rt, n, n)
	want := reflect.MakeSlice(v0.Type(), n, n)
	for i := 0; i < n; i++ {
		want.Index(i).Set(cloneDeep(v0.Index(i)))
		if err := r.forwardElem(v0.Index(i), want.Index(i), out.Index(i), f.children); err != nil {
			return out, want, err
		}
	}
	return out, want, nil
}

// byPath follows Go field names from an element (through embedded and nested
// structs by value).
func byPath(v reflect.Value, path []string) reflect.Value {
	for _, n := range path {
		for v.Kind() == reflect.Pointer {
			if v.IsNil() {
				return reflect.Value{}
			}
			v = v.Elem()
		}
		if v.Kind() != reflect.Struct {
			return reflect.Value{}
		}
		v = v.FieldByName(n)
		if !v.IsValid() {
			return v
		}
	}
	return v
}

// forwardElem fills dst (a translated element struct, or a nested struct by
// value inside it) from the original element src; wroot is the expected
// original element.  Every translated field is located by key; its source is
// located by the Go-name path the model recorded.
func (r *runner) forwardElem(src, wroot, dst reflect.Value, children []*mfield) error {
	for _, c := range children {
		k, _ := r.md.m.key(c)
		idx := fieldByKey(dst.Type(), k, r.c.Chain.KeyTags)
		if idx < 0 {
			return fmt.Errorf("no field with key %q in element type %s", k, dst.Type())
		}
		switch c.kind {
		case kStruct:
			if dst.Field(idx).Kind() != reflect.Struct {
				return fmt.Errorf("element field %q is not a struct", k)
			}
			if err := r.forwardElem(src, wroot, dst.Field(idx), c.children); err != nil {
				return err
			}
		case kLeaf:
			sv := byPath(src, c.origin)
			if !sv.IsValid() {
				return fmt.Errorf("element has no field %v", c.origin)
			}
			tv, w, rej, err := forwardLeaf(sv, c, r.c.DupSets, r.pad)
			if err != nil {
				return err
			}
			if rej {
				r.rejected = true
				w = sv
			}
			dst.Field(idx).Set(tv)
			byPath(wroot, c.origin).Set(w)
		case kPStruct:
			// a pointer-to-struct member of a (not pointerified) element:
			// nil in the original stays nil
			sp := byPath(src, c.origin)
			if !sp.IsValid() {
				return fmt.Errorf("element has no field %v", c.origin)
			}
			if sp.IsNil() {
				continue
			}
			df := dst.Field(idx)
			if df.Kind() != reflect.Pointer || df.Type().Elem().Kind() != reflect.Struct {
				return fmt.Errorf("element field %q is not a pointer to struct", k)
			}
			df.Set(reflect.New(df.Type().Elem()))
			if err := r.forwardElem(src, wroot, df.Elem(), c.children); err != nil {
				return err
			}
		case kArrayStruct, kSliceStruct:
			// an array / slice of structs inside the element: slot by slot,
			// the children's paths are relative to the slot
			sarr, warr := byPath(src, c.origin), byPath(wroot, c.origin)
			if !sarr.IsValid() || !warr.IsValid() {
				return fmt.Errorf("element has no field %v", c.origin)
			}
			darr := dst.Field(idx)
			if c.kind == kSliceStruct {
				if sarr.IsNil() {
					continue
				}
				darr.Set(reflect.MakeSlice(darr.Type(), sarr.Len(), sarr.Len()))
			} else if darr.Kind() != reflect.Array || darr.Len() != sarr.Len() {
				return fmt.Errorf("element field %q is not an array of %d", k, sarr.Len())
			}
			for i := 0; i < sarr.Len(); i++ {
				if err := r.forwardElem(sarr.Index(i), warr.Index(i), darr.Index(i), c.children); err != nil {
					return err
				}
			}
		default:
			return fmt.Errorf("unsupported field kind inside a slice element")
		}
	}
	return nil
}

// write sets the translated leaf tl of root (a value of the translated type)
// and the corresponding leaf of exp (a value of T0).
func (r *runner) write(root, exp reflect.Value, tl tleaf, fe FillEntry) error {
	seed := fe.Seed
	kt := r.c.Chain.KeyTags
	v := root
	var slot reflect.Value
	for i, k := range tl.keyPath {
		idx := fieldByKey(v.Type(), k, kt)
		if idx < 0 {
			return fmt.Errorf("no field with key %q in %s", k, v.Type())
		}
		fv := v.Field(idx)
		if i == len(tl.keyPath)-1 {
			slot = fv
			break
		}
		if fv.IsNil() {
			fv.Set(reflect.New(fv.Type().Elem()))
		}
		v = fv.Elem()
	}
	f := tl.f
	v0 := makeLeaf(f.otype, seed, r.plain, hasConv(f, "strcast"))
	if fe.Empty {
		if ev, ok := emptyValue(f); ok {
			v0 = ev
		}
	}
	if fe.ZeroMember && !hasConv(f, "strcast") && hasSet(f.otype, 0) {
		// (the text form of a string cast cannot spell an empty member)
		v0 = addZeroSetMembers(v0)
	}
	r.pad = fe.Pad
	var tv, want reflect.Value
	var err error
	if f.kind == kSliceStruct {
		tv, want, err = r.forwardSliceStruct(v0, f, slot.Type())
	} else {
		var rej bool
		tv, want, rej, err = forwardLeaf(v0, f, r.c.DupSets, fe.Pad)
		if rej {
			r.rejected = true
		}
	}
	if err != nil {
		return err
	}
	slot.Set(withSpare(tv, r.c.SpareCap))
	// expected original: parents allocated on the way, by Go name
	e := exp
	for i, name := range f.origin {
		fe := e.FieldByName(name)
		if !fe.IsValid() {
			return fmt.Errorf("T0 has no field %s", strings.Join(f.origin[:i+1], "."))
		}
		if i == len(f.origin)-1 {
			fe.Set(want)
			break
		}
		if fe.IsNil() {
			fe.Set(reflect.New(fe.Type().Elem()))
		}
		e = fe.Elem()
	}
	return nil
}

// aliasedEmbedded: the chain aliases an embedded struct and later flattens
// (or hoists) it.
func (r *runner) aliasedEmbedded() bool {
	if !(r.c.Chain.has("alias") && (r.c.Chain.has("flatten") || r.c.Chain.has("anonflatten"))) {
		return false
	}
	groups := map[string]bool{}
	for _, tl := range r.md.tleaves {
		for _, ch := range tl.choices {
			groups[ch.group] = true
		}
	}
	found := false
	var walk func(fs []*mfield)
	walk = func(fs []*mfield) {
		for _, f := range fs {
			if f.anon && f.kind == kPStruct && groups[strings.Join(f.origin, ".")] {
				found = true
			}
			if f.kind == kPStruct {
				walk(f.children)
			}
		}
	}
	walk(r.md.t0)
	return found
}

func (r *runner) reverse(v reflect.Value) (out reflect.Value, err error, panicked bool) {
	err, panicked = guarded(func() error {
		cur := v
		for i := len(r.tfs) - 1; i >= 0; i-- {
			nv, e := r.tfs[i].ReverseTranslate(cur)
			if e != nil {
				return fmt.Errorf("stage %d: %w", i, e)
			}
			cur = nv
		}
		out = cur
		return nil
	})
	return
}

// classify gives a failure its root-cause key when the input belongs to a
// known defect class.
func (r *runner) classify(filled map[string]bool, msg, fallback string) string {
	ch := r.c.Chain
	if ch.has("textunm") && strings.Contains(msg, "panic") {
		for _, ol := range r.md.origins {
			if t := ol.otype; t.Kind() == reflect.Pointer && t.Elem().Kind() == reflect.Pointer && t.Elem().Implements(textUnmarshalerT) {
				return keyPtrPtrText
			}
		}
	}
	if ch.has("anonflatten") && strings.Contains(msg, "index out of range") {
		for _, ol := range r.md.origins {
			if filled[ol.path] && ol.otype.Kind() == reflect.Slice && embedsTrailingUnexported(ol.otype.Elem()) {
				return keyTrailingUnexported
			}
		}
	}
	for _, ol := range r.md.origins {
		// an unset pointer to a text-unmarshalable type (the leaf itself, or
		// the other copy of an aliased leaf)
		if ch.has("textunm") && isPtrText(ol.otype) && (!filled[ol.path] || len(ol.groups) > 0) {
			return keyTextunmUnset
		}
	}
	for _, ol := range r.md.origins {
		if ch.has("dursub") && filled[ol.path] && ol.otype.Kind() == reflect.Pointer && strings.Contains(msg, "unaddressable") {
			switch ol.otype.Elem().Kind() {
			case reflect.Slice, reflect.Map, reflect.Pointer:
				if _, ok := subDur(ol.otype); ok {
					return keyTypesubAddr
				}
			}
		}
	}
	if r.c.NamedCast && ch.has("stringcast") {
		for _, ol := range r.md.origins {
			if filled[ol.path] && ol.otype.Kind() == reflect.Pointer && ol.otype.Elem().PkgPath() != "" && ol.otype.Elem() != durationT && scalarCastable(ol.otype.Elem(), true) {
				return keyNamedCast
			}
		}
	}
	return fallback
}

// build makes the translated value for a fill and the expected original.
func (r *runner) build(fills []FillEntry, what string) (tv, exp reflect.Value, filled map[string]bool, bad *vrt.Verdict) {
	tv = reflect.New(r.tt).Elem()
	exp = reflect.New(r.t0).Elem()
	filled = map[string]bool{}
	r.rejected = false
	for _, fe := range fills {
		tl, ok := r.md.pick(fe.Path, r.c.Sides)
		if !ok {
			v := vrt.Discardf("fill path not in the model")
			return tv, exp, filled, &v
		}
		if tl.f.dead {
			v := vrt.Discardf("fill of a field that cannot carry a value")
			return tv, exp, filled, &v
		}
		if filled[fe.Path] {
			continue
		}
		filled[fe.Path] = true
		if err := r.write(tv, exp, tl, fe); err != nil {
			v := vrt.Discardf("harness cannot write the case: %v", err)
			// a malformed replay; a generated case never gets here
			if strings.HasPrefix(err.Error(), "no field with key") {
				return tv, exp, filled, viol("field-set", "%s: %v", what, err)
			}
			return tv, exp, filled, &v
		}
	}
	return tv, exp, filled, nil
}

// earlier is a value an earlier ReverseTranslate call on the same
// transformers returned.
type earlier struct {
	what  string
	fills []FillEntry
	got   reflect.Value
}

// regionsOf: the memory of a returned value, including the struct itself.
func regionsOf(v reflect.Value) []shape.Region {
	if v.CanAddr() {
		return shape.Regions(v.Addr())
	}
	return shape.Regions(v)
}

// roundTrip writes a fill into a fresh translated value, reverse-translates
// it with the case's transformers and judges the result on its own; then every
// value an earlier call returned is judged again against a freshly built
// expectation (a later call must not change it) and must not share memory
// with the new result.
func (r *runner) roundTrip(fills []FillEntry, what string) *vrt.Verdict {
	tv, exp, filled, bad := r.build(fills, what)
	if bad != nil {
		return bad
	}
	if r.rejected {
		// some written text is rejected by its type's own UnmarshalText:
		// the reverse translation must report an error, never a value
		_, err, panicked := r.reverse(tv)
		if err == nil {
			return viol("rejected-text-accepted", "%s: a text-unmarshalable leaf was written a text with surrounding whitespace that its own UnmarshalText rejects, yet ReverseTranslate returned a value; filled %v", what, shape.SortedKeys(filled))
		}
		if panicked {
			return viol(r.classify(filled, err.Error(), "reverse-panic"), "%s: ReverseTranslate panicked on a text its type rejects: %v", what, err)
		}
		r.expectedErrors++
		return nil
	}
	got, err, panicked := r.reverse(tv)
	if err != nil {
		fb := "reverse-error"
		if panicked {
			fb = "reverse-panic"
		}
		return viol(r.classify(filled, err.Error(), fb), "%s: ReverseTranslate failed: %v", what, err)
	}
	if got.Type() != r.t0 {
		return viol("result-type", "%s: reverse-translated value has type %s, want the pointerified type %s", what, got.Type(), r.t0)
	}
	if d := shape.Diff(exp, got); d != "" {
		return viol(r.classify(filled, d, "value"), "%s: reverse-translated value differs from the expected original at %s (expected vs got); filled %v", what, d, shape.SortedKeys(filled))
	}
	for _, e := range r.results {
		_, fresh, _, bad := r.build(e.fills, e.what)
		if bad != nil {
			return bad
		}
		if d := shape.Diff(fresh, e.got); d != "" {
			return viol("earlier-result-mutated", "the value returned for the %s changed when ReverseTranslate was called again (%s): now differs from its own expectation at %s (expected vs now)", e.what, what, d)
		}
		if ov := shape.Overlap(regionsOf(e.got), regionsOf(got)); ov != "" {
			return viol("results-share-memory", "the values returned for the %s and for the %s by the same transformers share memory: %s", e.what, what, ov)
		}
	}
	r.results = append(r.results, earlier{what: what, fills: fills, got: got})
	return nil
}

// containsSlice: a value of type t can hold a slice at some level.
func containsSlice(t reflect.Type, depth int) bool {
	if t == nil || depth > 6 {
		return false
	}
	switch t.Kind() {
	case reflect.Slice:
		return true
	case reflect.Pointer, reflect.Array, reflect.Map:
		return containsSlice(t.Elem(), depth+1)
	case reflect.Struct:
		for i := 0; i < t.NumField(); i++ {
			if t.Field(i).IsExported() && containsSlice(t.Field(i).Type, depth+1) {
				return true
			}
		}
	}
	return false
}

// embedsTrailingUnexported: struct type t embeds (by value) a struct whose
// last field is unexported.
func embedsTrailingUnexported(t reflect.Type) bool {
	if t.Kind() != reflect.Struct {
		return false
	}
	for i := 0; i < t.NumField(); i++ {
		f := t.Field(i)
		if f.Anonymous && f.Type.Kind() == reflect.Struct && f.Type.NumField() > 0 && !f.Type.Field(f.Type.NumField()-1).IsExported() {
			return true
		}
	}
	return false
}

// hasTextCollection: the leaf (or a leaf inside its elements) is a named
// slice / array of structs that implements encoding.TextUnmarshaler itself.
func hasTextCollection(f *mfield) bool {
	if f.kind == kLeaf {
		t := f.otype
		if t.Kind() == reflect.Pointer {
			t = t.Elem()
		}
		if (t.Kind() == reflect.Slice || t.Kind() == reflect.Array) && t.Elem().Kind() == reflect.Struct && implementsText(t) && !implementsText(t.Elem()) {
			return true
		}
	}
	for _, c := range f.children {
		if hasTextCollection(c) {
			return true
		}
	}
	return false
}

// hasDurKeyMap: t contains a map whose key type is time.Duration.
func hasDurKeyMap(t reflect.Type, depth int) bool {
	if t == nil || depth > 6 {
		return false
	}
	switch t.Kind() {
	case reflect.Map:
		return t.Key() == durationT || hasDurKeyMap(t.Elem(), depth+1)
	case reflect.Pointer, reflect.Slice, reflect.Array:
		return hasDurKeyMap(t.Elem(), depth+1)
	}
	return false
}

func runC10(c Case) vrt.Verdict {
	_, t0, err := pointerified(c.Shape)
	if err != nil {
		return vrt.Discardf("shape does not build: %v", err)
	}
	nw := map[string][]string{}
	collectNameWords(c.Shape.Fields, nw)
	md, err := buildModel(t0, c.Chain, nw, c.TagWords, c.NamedCast)
	if err != nil {
		if _, pre := err.(errPre); pre {
			return vrt.Discardf("precondition: %v", err)
		}
		return vrt.Discardf("model: %v", err)
	}
	r := &runner{c: c, md: md, t0: t0, plain: c.Chain.has("stringcast") || c.Chain.has("textunm")}

	// the real chain, stage by stage
	cur := t0
	for si, st := range c.Chain.Stages {
		var ms []transform.Mangler
		for _, sp := range st {
			m, err := sp.build()
			if err != nil {
				return vrt.Discardf("chain: %v", err)
			}
			ms = append(ms, m)
		}
		tf := transform.NewTransformer(cur, ms...)
		var tt reflect.Type
		err, panicked := guarded(func() error {
			var e error
			tt, e = tf.TranslateType()
			return e
		})
		if err != nil {
			if panicked && strings.Contains(err.Error(), "duplicate field") && r.aliasedEmbedded() {
				return vrt.KeyedViolationf(keyAliasEmbedded, "stage %d: TranslateType panicked on a type with an aliased embedded struct: %v", si, err)
			}
			return vrt.KeyedViolationf("translate", "stage %d: TranslateType failed on a chain whose documented preconditions hold: %v", si, err)
		}
		r.tfs = append(r.tfs, tf)
		cur = tt
	}
	r.tt = cur

	if v := r.matchStruct(r.tt, md.final, ""); v != nil {
		return *v
	}

	labels := []string{"chain:" + c.Chain.Name, fmt.Sprintf("chainlen=%d", len(c.Chain.all())), fmt.Sprintf("stages=%d", len(c.Chain.Stages))}
	for _, sp := range c.Chain.all() {
		labels = append(labels, "mangler:"+sp.Kind)
	}

	// an empty translated value reverses to an entirely unset original
	if v := r.roundTrip(nil, "all-empty translated value"); v != nil {
		return *v
	}
	if len(c.Fill) > 0 {
		if v := r.roundTrip(c.Fill, "filled translated value"); v != nil {
			return *v
		}
	}
	if len(c.Fill2) > 0 {
		if v := r.roundTrip(c.Fill2, "second filled translated value"); v != nil {
			return *v
		}
		labels = append(labels, "second-fill")
		if len(c.Fill) > 0 {
			labels = append(labels, "two-successive-fills")
		}
	}

	// classification
	nesting, aliasBeforeNested, embedded, sliceStruct := false, false, false, false
	var scan func(fs []*mfield)
	scan = func(fs []*mfield) {
		seenAlias := false
		for _, f := range fs {
			if f.kind == kPStruct || f.kind == kSliceStruct {
				nesting = true
				if seenAlias {
					aliasBeforeNested = true
				}
				if f.anon {
					embedded = true
				}
				if f.kind == kSliceStruct {
					sliceStruct = true
				}
				scan(f.children)
			}
			if len(f.choices) > 0 {
				seenAlias = true
			}
		}
	}
	// scan T0 annotated with the alias groups of this chain
	groups := map[string]bool{}
	for _, tl := range md.tleaves {
		for _, ch := range tl.choices {
			groups[ch.group] = true
		}
	}
	var mark func(fs []*mfield)
	mark = func(fs []*mfield) {
		for _, f := range fs {
			if groups[strings.Join(f.origin, ".")] {
				f.choices = []choice{{group: strings.Join(f.origin, ".")}}
			}
			if f.kind == kPStruct {
				mark(f.children)
			}
		}
	}
	mark(md.t0)
	scan(md.t0)
	// embedded structs with several nested struct members; maps of a named
	// empty struct; elements with embedded structs
	multiEmb := map[string][]string{} // origin path of the embedded field -> origin paths of its nested struct members
	namedUnitMap, elemEmbedded := false, false
	var scan2 func(fs []*mfield)
	scan2 = func(fs []*mfield) {
		for _, f := range fs {
			switch f.kind {
			case kPStruct:
				if f.anon {
					var members []string
					for _, ch := range f.children {
						if ch.kind == kPStruct {
							members = append(members, strings.Join(ch.origin, "."))
						}
					}
					if len(members) >= 2 {
						multiEmb[strings.Join(f.origin, ".")] = members
					}
				}
				scan2(f.children)
			case kSliceStruct:
				for _, ch := range f.children {
					if ch.kind == kStruct && ch.anon {
						elemEmbedded = true
					}
				}
			case kLeaf:
				t := f.otype
				for t.Kind() == reflect.Pointer {
					t = t.Elem()
				}
				if t.Kind() == reflect.Map && t.Elem() != emptyT && t.Elem().Kind() == reflect.Struct && t.Elem().NumField() == 0 {
					namedUnitMap = true
				}
			}
		}
	}
	scan2(md.t0)
	if len(multiEmb) > 0 {
		labels = append(labels, "embedded-with-several-nested-structs")
		if c.Chain.has("anonflatten") {
			labels = append(labels, "anonflatten:several-struct-outputs")
			for _, members := range multiEmb {
				hit := map[int]bool{}
				for _, fe := range c.Fill {
					for i, mpath := range members {
						if strings.HasPrefix(fe.Path, mpath+".") {
							hit[i] = true
						}
					}
				}
				last := len(members) - 1
				switch {
				case len(hit) == 0:
					labels = append(labels, "anonflatten:struct-outputs-none-filled")
				case len(hit) == len(members):
					labels = append(labels, "anonflatten:struct-outputs-all-filled")
				case !hit[last]:
					labels = append(labels, "anonflatten:struct-outputs-only-nonlast-filled")
				default:
					labels = append(labels, "anonflatten:struct-outputs-some-filled")
				}
			}
		}
	}
	// depth of embedding (an embedded struct inside an embedded struct ...)
	embDepth := 0
	var scan3 func(fs []*mfield, d int)
	scan3 = func(fs []*mfield, d int) {
		for _, f := range fs {
			if f.kind != kPStruct {
				continue
			}
			nd := 0
			if f.anon {
				nd = d + 1
				if nd > embDepth {
					embDepth = nd
				}
			}
			scan3(f.children, nd)
		}
	}
	scan3(md.t0, 0)
	if embDepth >= 2 {
		labels = append(labels, fmt.Sprintf("embedding-levels=%d", embDepth))
		if c.Chain.has("anonflatten") {
			labels = append(labels, fmt.Sprintf("anonflatten:embedding-levels=%d", embDepth))
			inner := false
			for _, fe := range append(append([]FillEntry{}, c.Fill...), c.Fill2...) {
				if tl, ok := md.pick(fe.Path, c.Sides); ok && len(tl.f.origin) >= 3 {
					inner = true
				}
			}
			if inner {
				labels = append(labels, "anonflatten:filled-inside-inner-embedded")
			}
		}
	}
	for _, fe := range append(append([]FillEntry{}, c.Fill...), c.Fill2...) {
		tl, ok := md.pick(fe.Path, c.Sides)
		if !ok {
			continue
		}
		if fe.Pad > 0 && hasTextConv(tl.f) {
			labels = append(labels, "filled:text-with-surrounding-whitespace")
			if fe.Pad == 3 {
				labels = append(labels, "filled:whitespace-only-text")
			}
		}
		if fe.ZeroMember && !hasConv(tl.f, "strcast") && hasSet(tl.f.otype, 0) {
			labels = append(labels, "filled:set-with-zero-member")
			if hasConv(tl.f, "set2slice") || tl.f.kind == kSliceStruct && c.Chain.has("setslice") {
				labels = append(labels, "filled:set-with-zero-member-through-set2slice")
				if fe.Empty && tl.f.kind == kLeaf {
					labels = append(labels, "filled:set-of-only-zero-through-set2slice")
				}
			}
		}
	}
	for _, fe := range append(append([]FillEntry{}, c.Fill...), c.Fill2...) {
		if tl, ok := md.pick(fe.Path, c.Sides); ok {
			if hasTextCollection(tl.f) {
				labels = append(labels, "filled:named-text-collection-of-structs")
				if c.Chain.has("textunm") {
					labels = append(labels, "filled:named-text-collection-of-structs-as-text")
				}
			}
		}
	}
	if r.expectedErrors > 0 {
		labels = append(labels, "expected-error:padded-text-rejected-by-its-type")
	}
	arrInElem := false
	for _, fe := range append(append([]FillEntry{}, c.Fill...), c.Fill2...) {
		if tl, ok := md.pick(fe.Path, c.Sides); ok && tl.f.kind == kSliceStruct && !fe.Empty {
			for _, ch := range tl.f.children {
				if ch.kind == kArrayStruct && makeLeaf(tl.f.otype, fe.Seed, r.plain, false).Len() >= 1 {
					arrInElem = true
				}
			}
		}
	}
	if arrInElem {
		labels = append(labels, "filled:array-of-structs-inside-elements")
	}
	if namedUnitMap {
		labels = append(labels, "map-of-named-empty-struct")
		if c.Chain.has("setslice") {
			labels = append(labels, "setslice:map-of-named-empty-struct-left-alone")
		}
	}
	if elemEmbedded {
		labels = append(labels, "slice-element-with-embedded-struct")
	}
	if nesting {
		labels = append(labels, "nested")
	}
	if aliasBeforeNested {
		labels = append(labels, "alias-before-nested")
	}
	if embedded {
		labels = append(labels, "embedded")
	}
	if sliceStruct {
		labels = append(labels, "slice-of-struct")
	}
	if len(groups) > 0 {
		labels = append(labels, "aliased-fields")
	}
	switch n := len(c.Fill); {
	case n == 0:
		labels = append(labels, "filled=0")
	case n == 1:
		labels = append(labels, "filled=1")
	case n <= 5:
		labels = append(labels, "filled=2-5")
	default:
		labels = append(labels, "filled=6+")
	}
	convs := map[string]bool{}
	deep := false
	for _, fe := range c.Fill {
		if tl, ok := md.pick(fe.Path, c.Sides); ok {
			if fe.Empty {
				if ev, ok := emptyValue(tl.f); ok {
					what := "empty-collection"
					if ev.Kind() == reflect.Pointer && ev.Elem().Kind() == reflect.String {
						what = "empty-string"
					}
					convs[what] = true
					if hasConv(tl.f, "strcast") {
						convs[what+"-through-strcast"] = true
					}
				}
			}
			for _, cv := range tl.f.convs {
				convs[cv] = true
			}
			if tl.f.kind == kSliceStruct {
				convs["slice-of-struct"] = true
			}
			if hasDurKeyMap(tl.f.otype, 0) {
				convs["map-keyed-by-duration"] = true
				if hasConv(tl.f, "dursub") {
					convs["dursub-map-key"] = true
				}
			}
			if c.SpareCap > 0 && containsSlice(tl.f.rtype, 0) {
				convs["slice-with-spare-capacity"] = true
				if hasConv(tl.f, "dursub") {
					convs["dursub-slice-with-spare-capacity"] = true
				}
				if tl.f.rtype.Kind() != reflect.Slice || tl.f.kind == kSliceStruct {
					convs["nested-slice-with-spare-capacity"] = true
				}
			}
			for _, ch := range tl.choices {
				if ch.alias {
					convs["via-alias"] = true
				} else {
					convs["via-primary-of-aliased"] = true
				}
			}
			if len(tl.f.origin) >= 3 {
				deep = true
			}
		}
	}
	for _, fe := range append(append([]FillEntry{}, c.Fill...), c.Fill2...) {
		if tl, ok := md.pick(fe.Path, c.Sides); ok && tl.f.kind == kSliceStruct && !fe.Empty {
			ptrMember := false
			for _, ch := range tl.f.children {
				if ch.kind == kPStruct {
					ptrMember = true
				}
			}
			if ptrMember && makeLeaf(tl.f.otype, fe.Seed, r.plain, false).Len() >= 2 {
				convs["slice-of-structs-with-pointer-members>=2-elements"] = true
			}
		}
	}
	for cv := range convs {
		labels = append(labels, "filled:"+cv)
	}
	if deep {
		labels = append(labels, "filled:depth>=3")
	}
	nt := len(c.Chain.all()) >= 2 && (nesting || aliasBeforeNested)
	seenLabel := map[string]bool{}
	uniq := labels[:0]
	for _, l := range labels {
		if !seenLabel[l] {
			seenLabel[l] = true
			uniq = append(uniq, l)
		}
	}
	return vrt.OK(nt, uniq...)
}

const c10Rule = "a config struct type from the full shape grammar (scalars, durations, text-unmarshalable and named types, slices, arrays, maps, sets, user pointers, nested / pointer / embedded structs incl. embedded types with tagged and aliased fields, slices of structs, skipped fields; depth<=3, <=8 fields per struct) with generated dials / alias / source-specific / format tags whose words are known by construction; T0 = Pointerify(T); " +
	"%s; embeddable types include structs with 2..3 differently typed nested struct members by value and by pointer between scalar leaves (hoisting them gives one input field several struct-typed outputs; leaves are filled in none / only non-last / some / all of them) and structs with unexported fields in first, middle and last position; slices of structs include elements that embed structs by value with unexported fields in first and middle position and with nested struct members (elements are not pointerified; the element with an unexported field in LAST position is generated only with VERIF_C10_TRAILING_UNEXPORTED=1 while finding anonflatten-trailing-unexported is open); leaf types include maps of a NAMED empty struct (map[string]Unit, map[int]Unit, *map[string]Unit), which are not sets: the set->slice mangler leaves them alone and they reverse unchanged; leaf types include maps whose KEY type is time.Duration (map[Duration]string, map[Duration][]int, map[Duration]Duration, map[Duration][]Duration, map[Duration]map[string]Duration, []map[Duration]int, *map[Duration]string, map[string]map[Duration]int), always filled with 1..3 entries, so that the Duration substitution has to translate and reverse map keys alone and together with values; embeddable types also nest: two and three levels of embedding, by value and by pointer at each level, with leaves at every level (anonymous-flatten hoists ONE level per struct: the inner embedded struct stays an embedded field of the level it was hoisted to, and its own embedded structs are hoisted into it); elements of slices of structs also have ARRAYS of structs not behind a pointer ([2]NestA, [3]Leafy with a set and a duration, different values per slot), which every recursing mangler is applied to slot by slot; slices of structs also have elements with pointer-to-struct members and a nested value struct holding one ([]Node, 0..3 elements with different values; one sub-transformer serves all elements); TWO independent fills are reverse-translated one after the other by the same transformers (after the all-empty value), each judged on its own, then every earlier result is judged again against a freshly built expectation (a later ReverseTranslate must not change a value returned earlier: key earlier-result-mutated) and must be address-disjoint from the new result including the returned struct itself (key results-share-memory); leaf types include NAMED slices / arrays of structs that are text leaves because UnmarshalText sits on the collection type while the element struct has none (PeerList []Peer at any level, PeerPair [2]Peer not behind a pointer inside slice elements): no mangler may recurse into them -- the translated field keeps the named type (or is the *string text form under the text-unmarshaler mangler) and a value written comes back verbatim; leaf types include a string-like text type whose UnmarshalText keeps any text verbatim (Label; also inside slice elements) and integer-keyed sets; with probability 1/2 the text written for text-unmarshalable leaves (top level, nested, inside slice elements) gets surrounding whitespace (trailing blank / leading tab + trailing newline / whitespace only): the expected value is what the type's OWN UnmarshalText makes of exactly that text (kept verbatim for string-like types), and if the type itself rejects it (time.Time, net.IP, a missing prefix) ReverseTranslate must return an error, never a value (key rejected-text-accepted); with probability 1/2 every set in a written value (the leaf, sets inside elements and nested structs, string and integer keys) also holds the key type's zero value, combined with the empty value the set is exactly {zero}; a subset of the original leaves is written THROUGH their translated counterparts (values from seeds, converted forward by the model: set->slice, Duration->ParsingDuration, own text rendering for string casts, the type's own MarshalText for text-unmarshalers), for every aliased field through either the primary or the alias copy; in 3 of 4 cases every slice written into the translated value (top level, inside maps / pointers / arrays, inside elements of slices of structs) carries 1..3 elements of spare capacity holding junk, as append-grown decoder output does; with probability 3/8 a written leaf takes its EMPTY value instead of the seeded one -- the empty string for string leaves (through a string cast: a translated *string pointing to \"\", which must reverse to a non-nil pointer to \"\", not to an unset leaf) and a non-nil empty slice / map / set for collections (text \"\" through a string cast). " +
	"Oracle: a descriptor-level model of each mangler gives every translated field its documented key (flattened dials / dialsenv / dialsflag / dialspflag tag, json / yaml / toml tag or Go name per nesting level, alias value for alias copies), type and conversion; translated fields are located by that key only; required: TranslateType yields exactly the model's key set and leaf types at every level, the reverse-translated value has type T0, each written leaf holds the value converted back, every other leaf is nil, parent pointers are allocated iff a leaf below is set, and an all-empty translated value reverses to an all-nil T0. " +
	"non-trivial = chain length >= 2 and the shape has nesting (or an aliased field before a nested one); distinct = distinct case JSON"

var c10Assumptions = []string{
	"manglers run on Pointerify(T, zero defaults), as dials hands the type to sources",
	"tag spellings are limited to snake / kebab / lowerCamel / UpperCamel renderings of lower-case vocabulary words, which every tag decoder used by the chain documents to accept",
	"an aliased field is supplied under at most one of its names (both is C14's error case)",
	"source-specific and format tags are not placed on fields below an aliased struct (both copies would legitimately share the key)",
	"named scalar leaves are not filled through string-casting chains unless VERIF_C10_NAMED_STRCAST=1 (known defect, property C16)",
	"interface-typed fields are outside the quantifier",
}

func TestC10Shipped(t *testing.T) {
	vrt.Check(t, vrt.Prop[Case]{
		ID: "C10", Name: "shipped",
		Rule:        fmt.Sprintf(c10Rule, "a chain exactly as a shipped source or decoder builds it: env, flag and pflag (default and snake name configs), json, cue, yaml with and without anonymous-flatten, toml, and the ez file chains (alias [, tag reformat] [, set->slice] stacked as a separate transformer on each decoder's own)"),
		Assumptions: c10Assumptions,
		Gen:         func(t *rapid.T) Case { return genCase(t, false) },
		Run:         runC10,
	})
}

func TestC10Random(t *testing.T) {
	vrt.Check(t, vrt.Prop[Case]{
		ID: "C10", Name: "random",
		Rule:        fmt.Sprintf(c10Rule, "a random chain of 2..6 distinct manglers out of alias, anonymous-flatten, flatten, set->slice, Duration substitution, text-unmarshaler, string-cast, tag copy and tag reformat, in random order, optionally split over two stacked transformers, respecting documented preconditions (leaves that a string cast cannot express are left unset)"),
		Assumptions: c10Assumptions,
		Gen:         func(t *rapid.T) Case { return genCase(t, true) },
		Run:         runC10,
	})
}
