package pxform

import (
	"encoding/json"
	"fmt"
	"reflect"
	"strings"
	"sync"
	"sync/atomic"
	"testing"
	"time"

	"github.com/vimeo/dials"
	dcue "github.com/vimeo/dials/decoders/cue"
	djson "github.com/vimeo/dials/decoders/json"
	"github.com/vimeo/dials/decoders/json/jsontypes"
	"github.com/vimeo/dials/ptrify"
	"github.com/vimeo/dials/transform"
	"pgregory.net/rapid"

	"verifharness/internal/shape"
	"verifharness/internal/vrt"
)

// ---- C10 under overlapping calls: the shipped JSON and Cue decoders share ONE
// package-level Duration-substitution mangler, and a program may share one
// mangler between its own transformers; translate / fill / reverse of
// different config types from several goroutines must each behave exactly as
// they do alone. ----

// ConcType describes one fresh config type holding durations.
type ConcType struct {
	// Mask: which optional fields the type has (bit 0: []Duration, 1: nested
	// struct with a Duration and an array of Durations, 2: slice of structs
	// with a Duration, 3: map[string]Duration, 4: *Duration declared by the
	// user, 5: map[string][]Duration).
	Mask uint8 `json:"mask"`
	// ArrLen: length of the Duration array in the nested struct (2..9).
	ArrLen int `json:"arr_len"`
	// Fill: which fields the document sets (bit 0 is the plain Duration, then
	// as in Mask; bit 7: durations are spelled as integer nanoseconds).
	Fill uint8  `json:"fill"`
	Seed uint64 `json:"seed"`
	// Cue: also decode through the Cue decoder (slower).
	Cue bool `json:"cue,omitempty"`
}

// ConcCase is one input of TestC10Concurrent.
type ConcCase struct {
	Types      []ConcType `json:"types"`
	Goroutines int        `json:"goroutines"`
}

// freshID makes the field names (hence the reflect types) of every case new to
// the process: the property does not depend on the names, and a cache inside a
// shared mangler can only be exercised by types it has not seen.
var freshID atomic.Uint64

type concBuilt struct {
	spec  ConcType
	t0    reflect.Type
	names map[string]string // role -> Go field name
	doc   []byte            // JSON (also valid Cue) document
	want  reflect.Value     // expected value of type t0
	// for the direct transformer path: role -> value to write (original type)
	vals map[string]reflect.Value
}

type durGen struct{ s uint64 }

func (g *durGen) next() time.Duration {
	g.s = g.s*6364136223846793005 + 1442695040888963407
	// whole milliseconds up to ~11 days: exact in text and as integers
	return time.Duration((g.s>>33)%1000000000) * time.Millisecond
}

func spell(d time.Duration, ints bool) any {
	if ints {
		return int64(d)
	}
	return d.String()
}

func buildConcType(sp ConcType) (*concBuilt, error) {
	id := freshID.Add(1)
	n := func(role string) string { return fmt.Sprintf("%s%d", role, id) }
	b := &concBuilt{spec: sp, names: map[string]string{}, vals: map[string]reflect.Value{}}
	durT := durationT
	arrLen := sp.ArrLen
	if arrLen < 1 {
		arrLen = 2
	}
	innerT := reflect.StructOf([]reflect.StructField{
		{Name: n("InDur"), Type: durT},
		{Name: n("InArr"), Type: reflect.ArrayOf(arrLen, durT)},
	})
	elemT := reflect.StructOf([]reflect.StructField{
		{Name: n("ElDur"), Type: durT},
		{Name: n("ElName"), Type: reflect.TypeOf("")},
	})
	fields := []reflect.StructField{{Name: n("Plain"), Type: durT}}
	b.names["Plain"] = n("Plain")
	opt := []struct {
		role string
		t    reflect.Type
	}{
		{"List", reflect.SliceOf(durT)},
		{"Inner", innerT},
		{"Elems", reflect.SliceOf(elemT)},
		{"ByName", reflect.MapOf(reflect.TypeOf(""), durT)},
		{"Ptr", reflect.PointerTo(durT)},
		{"Lists", reflect.MapOf(reflect.TypeOf(""), reflect.SliceOf(durT))},
	}
	for i, o := range opt {
		if sp.Mask&(1<<i) != 0 {
			fields = append(fields, reflect.StructField{Name: n(o.role), Type: o.t})
			b.names[o.role] = n(o.role)
		}
	}
	fields = append(fields, reflect.StructField{Name: n("Text"), Type: reflect.TypeOf("")})
	b.names["Text"] = n("Text")
	T := reflect.StructOf(fields)
	b.t0 = ptrify.Pointerify(T, reflect.New(T).Elem())

	// document and expected value, by field name
	g := &durGen{s: sp.Seed | 1}
	ints := sp.Fill&0x80 != 0
	doc := map[string]any{}
	want := reflect.New(b.t0).Elem()
	set := func(role string, v reflect.Value) error {
		f := want.FieldByName(b.names[role])
		if !f.IsValid() {
			return fmt.Errorf("pointerified type has no field %s", b.names[role])
		}
		if f.Type() == v.Type() {
			f.Set(v)
		} else if f.Type() == reflect.PointerTo(v.Type()) {
			p := reflect.New(v.Type())
			p.Elem().Set(v)
			f.Set(p)
		} else {
			return fmt.Errorf("field %s has type %s, cannot hold %s", b.names[role], f.Type(), v.Type())
		}
		b.vals[role] = f
		return nil
	}
	filled := func(bit int, role string) bool {
		_, has := b.names[role]
		return has && sp.Fill&(1<<bit) != 0
	}
	if filled(0, "Plain") {
		d := g.next()
		doc[b.names["Plain"]] = spell(d, ints)
		if err := set("Plain", reflect.ValueOf(d)); err != nil {
			return nil, err
		}
	}
	if filled(1, "List") {
		k := int(g.next()/time.Millisecond) % 4
		ds := make([]time.Duration, k)
		js := make([]any, k)
		for i := range ds {
			ds[i] = g.next()
			js[i] = spell(ds[i], ints)
		}
		doc[b.names["List"]] = js
		if err := set("List", reflect.ValueOf(ds)); err != nil {
			return nil, err
		}
	}
	if filled(2, "Inner") {
		// the nested struct is pointerified: *struct{ InDur *Duration; InArr *[N]Duration }
		f := want.FieldByName(b.names["Inner"])
		if f.Kind() != reflect.Pointer || f.Type().Elem().Kind() != reflect.Struct {
			return nil, fmt.Errorf("nested field has type %s", f.Type())
		}
		in := reflect.New(f.Type().Elem())
		d := g.next()
		arr := reflect.New(reflect.ArrayOf(arrLen, durT))
		ja := make([]any, arrLen)
		for i := 0; i < arrLen; i++ {
			x := g.next()
			arr.Elem().Index(i).SetInt(int64(x))
			ja[i] = spell(x, ints)
		}
		dp := reflect.New(durT)
		dp.Elem().SetInt(int64(d))
		fd, fa := in.Elem().FieldByName(n("InDur")), in.Elem().FieldByName(n("InArr"))
		if !fd.IsValid() || !fa.IsValid() || fd.Type() != dp.Type() || fa.Type() != arr.Type() {
			return nil, fmt.Errorf("nested struct %s lacks the expected pointerified fields", in.Type())
		}
		fd.Set(dp)
		fa.Set(arr)
		f.Set(in)
		b.vals["Inner"] = f
		doc[b.names["Inner"]] = map[string]any{n("InDur"): spell(d, ints), n("InArr"): ja}
	}
	if filled(3, "Elems") {
		k := int(g.next()/time.Millisecond)%3 + 1
		f := want.FieldByName(b.names["Elems"])
		sl := reflect.MakeSlice(f.Type(), k, k)
		js := make([]any, k)
		for i := 0; i < k; i++ {
			d := g.next()
			sl.Index(i).FieldByName(n("ElDur")).SetInt(int64(d))
			nm := fmt.Sprintf("e%d_%d", i, int64(d)%997)
			sl.Index(i).FieldByName(n("ElName")).SetString(nm)
			js[i] = map[string]any{n("ElDur"): spell(d, ints), n("ElName"): nm}
		}
		f.Set(sl)
		b.vals["Elems"] = f
		doc[b.names["Elems"]] = js
	}
	if filled(4, "ByName") {
		k := int(g.next()/time.Millisecond) % 3
		m := map[string]time.Duration{}
		jm := map[string]any{}
		for i := 0; i < k; i++ {
			d := g.next()
			key := fmt.Sprintf("k%d", i)
			m[key] = d
			jm[key] = spell(d, ints)
		}
		doc[b.names["ByName"]] = jm
		if err := set("ByName", reflect.ValueOf(m)); err != nil {
			return nil, err
		}
	}
	if filled(5, "Ptr") {
		d := g.next()
		doc[b.names["Ptr"]] = spell(d, ints)
		if err := set("Ptr", reflect.ValueOf(&d)); err != nil {
			return nil, err
		}
	}
	if filled(6, "Lists") {
		m := map[string][]time.Duration{}
		jm := map[string]any{}
		for i := 0; i < 2; i++ {
			ds := []time.Duration{g.next(), g.next()}
			key := fmt.Sprintf("l%d", i)
			m[key] = ds
			jm[key] = []any{spell(ds[0], ints), spell(ds[1], ints)}
		}
		doc[b.names["Lists"]] = jm
		if err := set("Lists", reflect.ValueOf(m)); err != nil {
			return nil, err
		}
	}
	if sp.Fill&1 != 0 {
		s := fmt.Sprintf("t%d", sp.Seed%1000)
		doc[b.names["Text"]] = s
		if err := set("Text", reflect.ValueOf(s)); err != nil {
			return nil, err
		}
	}
	var err error
	b.doc, err = json.Marshal(doc)
	b.want = want
	return b, err
}

func (b *concBuilt) check(got reflect.Value, via string) error {
	if got.Kind() == reflect.Pointer {
		got = got.Elem()
	}
	if got.Type() != b.t0 {
		return fmt.Errorf("%s: result has type %s, want %s", via, got.Type(), b.t0)
	}
	if d := shape.Diff(b.want, got); d != "" {
		return fmt.Errorf("%s: result differs from the expected value at %s (expected vs got); document %s", via, d, b.doc)
	}
	return nil
}

// viaTransformer: translate with a transformer over the package's shared
// mangler instance, fill the translated fields (located by name) with
// converted copies of the expected values, reverse.
func (b *concBuilt) viaTransformer() error {
	tf := transform.NewTransformer(b.t0, durSub)
	tt, err := tf.TranslateType()
	if err != nil {
		return fmt.Errorf("transformer: TranslateType: %v", err)
	}
	tv := reflect.New(tt).Elem()
	for i := 0; i < b.t0.NumField(); i++ {
		name := b.t0.Field(i).Name
		src := b.want.Field(i)
		dst := tv.FieldByName(name)
		if !dst.IsValid() {
			return fmt.Errorf("transformer: translated type %s has no field %s", tt, name)
		}
		wantT, _ := subDurDeep(src.Type())
		if dst.Type() != wantT {
			return fmt.Errorf("transformer: translated field %s has type %s, documented %s", name, dst.Type(), wantT)
		}
		dst.Set(convertDeep(src, wantT))
	}
	got, err := tf.ReverseTranslate(tv)
	if err != nil {
		return fmt.Errorf("transformer: ReverseTranslate: %v", err)
	}
	return b.check(got, "transformer over the shared mangler")
}

// subDurDeep: the documented translated type: Duration replaced under
// pointers, slices, arrays, maps, and in the fields of nested structs.
func subDurDeep(t reflect.Type) (reflect.Type, bool) {
	if nt, ok := subDur(t); ok {
		return nt, true
	}
	switch t.Kind() {
	case reflect.Pointer:
		if e, ok := subDurDeep(t.Elem()); ok {
			return reflect.PointerTo(e), true
		}
	case reflect.Slice:
		if e, ok := subDurDeep(t.Elem()); ok {
			return reflect.SliceOf(e), true
		}
	case reflect.Struct:
		fs := make([]reflect.StructField, t.NumField())
		changed := false
		for i := range fs {
			fs[i] = t.Field(i)
			fs[i].Index, fs[i].Offset = nil, 0
			if nt, ok := subDurDeep(fs[i].Type); ok {
				fs[i].Type, changed = nt, true
			}
		}
		if changed {
			return reflect.StructOf(fs), true
		}
	}
	return t, false
}

func convertDeep(v reflect.Value, tt reflect.Type) reflect.Value {
	if v.Type() == tt {
		return v
	}
	switch tt.Kind() {
	case reflect.Pointer:
		if v.IsNil() {
			return reflect.Zero(tt)
		}
		p := reflect.New(tt.Elem())
		p.Elem().Set(convertDeep(v.Elem(), tt.Elem()))
		return p
	case reflect.Slice:
		if v.IsNil() {
			return reflect.Zero(tt)
		}
		if tt.Elem().Kind() == reflect.Struct {
			s := reflect.MakeSlice(tt, v.Len(), v.Len())
			for i := 0; i < v.Len(); i++ {
				s.Index(i).Set(convertDeep(v.Index(i), tt.Elem()))
			}
			return s
		}
	case reflect.Struct:
		out := reflect.New(tt).Elem()
		for i := 0; i < tt.NumField(); i++ {
			out.Field(i).Set(convertDeep(v.FieldByName(tt.Field(i).Name), tt.Field(i).Type))
		}
		return out
	}
	return deepConvert(v, tt)
}

var _ = jsontypes.ParsingDuration(0)

func (b *concBuilt) run(cue bool) error {
	got, err := (&djson.Decoder{}).Decode(strings.NewReader(string(b.doc)), dials.NewType(b.t0))
	if err != nil {
		return fmt.Errorf("json decoder: %v; document %s", err, b.doc)
	}
	if err := b.check(got, "json decoder"); err != nil {
		return err
	}
	if err := b.viaTransformer(); err != nil {
		return err
	}
	if cue {
		got, err := (&dcue.Decoder{}).Decode(strings.NewReader(string(b.doc)), dials.NewType(b.t0))
		if err != nil {
			return fmt.Errorf("cue decoder: %v; document %s", err, b.doc)
		}
		if err := b.check(got, "cue decoder"); err != nil {
			return err
		}
	}
	return nil
}

func genConc(t *rapid.T) ConcCase {
	c := ConcCase{Goroutines: rapid.IntRange(4, 8).Draw(t, "goroutines")}
	n := rapid.IntRange(8, 32).Draw(t, "ntypes")
	for i := 0; i < n; i++ {
		c.Types = append(c.Types, ConcType{
			Mask:   uint8(rapid.IntRange(0, 63).Draw(t, "mask")),
			ArrLen: rapid.IntRange(2, 9).Draw(t, "arr_len"),
			Fill:   uint8(rapid.IntRange(0, 255).Draw(t, "fill")),
			Seed:   rapid.Uint64Range(1, 1<<40).Draw(t, "seed"),
			Cue:    rapid.IntRange(0, 7).Draw(t, "cue") == 7,
		})
	}
	return c
}

func runConc(c ConcCase) vrt.Verdict {
	if c.Goroutines < 1 || len(c.Types) == 0 {
		return vrt.Discardf("empty case")
	}
	built := make([]*concBuilt, len(c.Types))
	for i, sp := range c.Types {
		b, err := buildConcType(sp)
		if err != nil {
			return vrt.Discardf("harness cannot build type %d: %v", i, err)
		}
		built[i] = b
	}
	// every type is handled by two goroutines (its own and the next one), all
	// goroutines are released together
	start := make(chan struct{})
	errs := make([]error, c.Goroutines)
	var wg sync.WaitGroup
	for g := 0; g < c.Goroutines; g++ {
		wg.Add(1)
		go func(g int) {
			defer wg.Done()
			defer func() {
				if r := recover(); r != nil && errs[g] == nil {
					errs[g] = fmt.Errorf("panic: %v", r)
				}
			}()
			<-start
			for i, b := range built {
				if i%c.Goroutines != g && (i+1)%c.Goroutines != g {
					continue
				}
				if err := b.run(b.spec.Cue && i%c.Goroutines == g); err != nil {
					errs[g] = fmt.Errorf("goroutine %d, type %d (%s): %w", g, i, b.t0, err)
					return
				}
			}
		}(g)
	}
	close(start)
	wg.Wait()
	for _, err := range errs {
		if err != nil {
			return vrt.KeyedViolationf("overlapping-calls", "with %d goroutines over %d fresh config types: %v", c.Goroutines, len(c.Types), err)
		}
	}
	nCue, nested, elems := 0, 0, 0
	for _, sp := range c.Types {
		if sp.Cue {
			nCue++
		}
		if sp.Mask&2 != 0 && sp.Fill&4 != 0 {
			nested++
		}
		if sp.Mask&4 != 0 && sp.Fill&8 != 0 {
			elems++
		}
	}
	labels := []string{fmt.Sprintf("goroutines=%d", c.Goroutines)}
	switch {
	case len(c.Types) >= 24:
		labels = append(labels, "types>=24")
	case len(c.Types) >= 16:
		labels = append(labels, "types=16-23")
	default:
		labels = append(labels, "types=8-15")
	}
	if nCue > 0 {
		labels = append(labels, "cue-decoder")
	}
	if nested > 0 {
		labels = append(labels, "filled-nested-struct")
	}
	if elems > 0 {
		labels = append(labels, "filled-slice-of-structs")
	}
	return vrt.OK(len(c.Types) >= 8 && c.Goroutines >= 4 && nested+elems > 0, labels...)
}

func TestC10Concurrent(t *testing.T) {
	vrt.Check(t, vrt.Prop[ConcCase]{
		ID: "C10", Name: "concurrent",
		Rule: "8..32 FRESH config struct types per case (reflect.StructOf with field names new to the process; each holds time.Duration at top level and, per a mask, in a slice, in a nested struct with an array, in a slice of structs, in maps, behind a user pointer), pointerified; 4..8 goroutines released together, every type handled by two of them: decode a JSON document (durations as strings or integer nanoseconds, any subset of fields) with the REAL json decoder and (1 type in 8) the real cue decoder -- both share one package-level Duration-substitution mangler -- and translate / fill by field name / reverse with a Transformer over one mangler instance shared by the whole package. " +
			"Oracle: per goroutine exactly the sequential one: result type == the pointerified type, every set leaf holds the value by construction, every other leaf nil, translated field types as documented. The schedule is SAMPLED by the Go scheduler, not enumerated. A fatal runtime error (concurrent map access) cannot be recovered: it kills the test process and the driver reports the dead process as a violation with the journaled case; a recovered panic or a wrong value is an ordinary violation (key overlapping-calls). " +
			"non-trivial = >= 8 types, >= 4 goroutines and a nested struct or slice of structs filled; distinct = distinct case JSON",
		Assumptions: []string{
			"field names (hence type identities) come from a process-wide counter so that every case meets the manglers with types they have not seen; the property does not depend on the names, so a journaled case replays with other names",
			"GOMAXPROCS > 1; the race tier adds the data-race detector to the sampled schedules",
		},
		Gen: genConc, Run: runConc,
	})
}
