package pxform

import (
	"encoding"
	"fmt"
	"reflect"
	"sort"
	"strings"

	"github.com/vimeo/dials/decoders/json/jsontypes"
)

// This file is the descriptor-level reference model of the manglers: it maps a
// description of the pointerified config type to a description of the
// translated type (documented key, type and value conversion of every field),
// following the documentation of each mangler.  It never looks at the
// translated type the library produced and keeps no positional bookkeeping.

type tagVal struct {
	val   string   // full tag value (name[,options])
	known bool     // val is known exactly
	words []string // the words the value is made of
	wk    bool     // words are known
}

const (
	kLeaf = iota
	kPStruct
	kSliceStruct
	kArrayStruct // an array of structs not behind a pointer: only inside elements of slices of structs
	kStruct      // a struct by value: only inside elements of slices of structs (T0 itself is pointerified)
)

type choice struct {
	group string // origin path of the aliased field
	alias bool   // true: the alias copy, false: the primary
}

type mfield struct {
	name       string
	nameKnown  bool
	words      []string
	wordsKnown bool
	anon       bool
	tags       map[string]tagVal
	kind       int
	children   []*mfield
	rtype      reflect.Type // leaf: type in the translated struct
	otype      reflect.Type // type of the origin field in T0 (or in the element struct)
	convs      []string     // value conversions, original -> translated, in order
	origin     []string     // Go names from the root of T0 (element children: name inside the element)
	choices    []choice
	dead       bool // translated field cannot carry a value (struct cast to *string, uncastable leaf)
}

func (f *mfield) clone() *mfield {
	c := *f
	c.words = append([]string(nil), f.words...)
	c.tags = make(map[string]tagVal, len(f.tags))
	for k, v := range f.tags {
		c.tags[k] = v
	}
	c.convs = append([]string(nil), f.convs...)
	c.origin = append([]string(nil), f.origin...)
	c.choices = append([]choice(nil), f.choices...)
	c.children = make([]*mfield, len(f.children))
	for i, ch := range f.children {
		c.children[i] = ch.clone()
	}
	return &c
}

type modeler struct {
	nameWords map[string][]string // Go field name -> words (by construction)
	tagWords  map[string][]string // generated tag value -> words (by construction)
	keyTags   []string
	named     bool // named scalars are considered string-castable
}

// errPre marks a chain whose documented precondition the shape does not meet
// (a generator mistake, never a library defect).
type errPre struct{ msg string }

func (e errPre) Error() string { return e.msg }

// parseStructTag is the conventional `key:"value"` parser (same grammar as
// reflect.StructTag), returning every pair.
func parseStructTag(tag string) map[string]string {
	out := map[string]string{}
	for tag != "" {
		i := 0
		for i < len(tag) && tag[i] == ' ' {
			i++
		}
		tag = tag[i:]
		if tag == "" {
			break
		}
		i = 0
		for i < len(tag) && tag[i] > ' ' && tag[i] != ':' && tag[i] != '"' && tag[i] != 0x7f {
			i++
		}
		if i == 0 || i+1 >= len(tag) || tag[i] != ':' || tag[i+1] != '"' {
			break
		}
		name := tag[:i]
		tag = tag[i+1:]
		i = 1
		for i < len(tag) && tag[i] != '"' {
			if tag[i] == '\\' {
				i++
			}
			i++
		}
		if i >= len(tag) {
			break
		}
		q := tag[:i+1]
		tag = tag[i+1:]
		// generated values never need unquoting beyond stripping the quotes
		if _, dup := out[name]; !dup {
			out[name] = q[1 : len(q)-1]
		}
	}
	return out
}

var textUnmarshalerT = reflect.TypeOf((*encoding.TextUnmarshaler)(nil)).Elem()

func implementsText(t reflect.Type) bool {
	return t.Implements(textUnmarshalerT) || reflect.PointerTo(t).Implements(textUnmarshalerT)
}

func isPlainStruct(t reflect.Type) bool {
	return t.Kind() == reflect.Struct && !implementsText(t)
}

func (m *modeler) wordsOfTag(v string) ([]string, bool) {
	if w, ok := m.tagWords[v]; ok {
		return w, true
	}
	if w, ok := staticTagWords[v]; ok {
		return w, true
	}
	return nil, false
}

func (m *modeler) wordsOfName(n string) ([]string, bool) {
	if w, ok := m.nameWords[n]; ok {
		return w, true
	}
	if w, ok := staticWords[n]; ok {
		return w, true
	}
	return nil, false
}

// fromStruct describes the fields of a struct type of the pointerified config
// type (or of an element struct of a slice).
func (m *modeler) fromStruct(t reflect.Type, prefix []string) []*mfield {
	var out []*mfield
	for i := 0; i < t.NumField(); i++ {
		sf := t.Field(i)
		if !sf.IsExported() {
			continue // the transformer does not carry unexported fields
		}
		f := &mfield{name: sf.Name, nameKnown: true, anon: sf.Anonymous, tags: map[string]tagVal{}}
		f.words, f.wordsKnown = m.wordsOfName(sf.Name)
		for k, v := range parseStructTag(string(sf.Tag)) {
			tv := tagVal{val: v, known: true}
			tv.words, tv.wk = m.wordsOfTag(namePart(v))
			f.tags[k] = tv
		}
		f.origin = append(append([]string{}, prefix...), sf.Name)
		ft := sf.Type
		f.otype = ft
		switch {
		case ft.Kind() == reflect.Pointer && isPlainStruct(ft.Elem()):
			f.kind = kPStruct
			f.children = m.fromStruct(ft.Elem(), f.origin)
		case (ft.Kind() == reflect.Slice || ft.Kind() == reflect.Array) && implementsText(ft):
			// a named collection type that is itself a TextUnmarshaler is a
			// text leaf, whatever its elements are: not recursed into
			f.kind = kLeaf
			f.rtype = ft
		case ft.Kind() == reflect.Slice && isPlainStruct(ft.Elem()):
			// documented: the transformer recurses into slices of structs,
			// but not into TextUnmarshaler types
			f.kind = kSliceStruct
			f.rtype = ft
			f.children = m.fromStruct(ft.Elem(), nil)
		case ft.Kind() == reflect.Array && isPlainStruct(ft.Elem()):
			// (T0 itself never has one: Pointerify turns [N]S into *[N]S,
			// which the transformer does not recurse into)
			f.kind = kArrayStruct
			f.rtype = ft
			f.children = m.fromStruct(ft.Elem(), nil)
		case isPlainStruct(ft):
			f.kind = kStruct
			f.children = m.fromStruct(ft, f.origin)
		default:
			f.kind = kLeaf
			f.rtype = ft
		}
		out = append(out, f)
	}
	return out
}

func namePart(v string) string {
	if i := strings.IndexByte(v, ','); i >= 0 {
		return v[:i]
	}
	return v
}

func recurses(kind string) bool { return kind != "flatten" }

// apply models one mangler over the fields of one struct level; recursing
// manglers are then applied, alone, to the fields of every struct-typed output
// field (pointer to struct, slice of structs).
func (m *modeler) apply(sp ManglerSpec, fs []*mfield, top bool) ([]*mfield, error) {
	var out []*mfield
	for _, f := range fs {
		outs, err := m.mangleOne(sp, f, top)
		if err != nil {
			return nil, err
		}
		for _, o := range outs {
			if recurses(sp.Kind) && (o.kind == kPStruct || o.kind == kSliceStruct || o.kind == kStruct || o.kind == kArrayStruct) {
				ch, err := m.apply(sp, o.children, false)
				if err != nil {
					return nil, err
				}
				o.children = ch
			}
		}
		out = append(out, outs...)
	}
	return out, nil
}

const aliasSuffixMarker = "\x00alias" // the library's suffix is internal; the model only needs distinctness

func (m *modeler) mangleOne(sp ManglerSpec, f *mfield, top bool) ([]*mfield, error) {
	switch sp.Kind {
	case "alias":
		aliasVals := map[string]tagVal{}
		for _, tag := range sp.Tags {
			if av, ok := f.tags[tag+"alias"]; ok {
				aliasVals[tag] = av
			}
		}
		if len(aliasVals) == 0 {
			return []*mfield{f}, nil
		}
		if f.kind == kLeaf && !nilable(f.rtype) {
			return nil, errPre{"alias on a field that cannot be nil"}
		}
		for tag := range aliasVals {
			delete(f.tags, tag+"alias")
		}
		cp := f.clone()
		cp.name += aliasSuffixMarker
		cp.nameKnown, cp.wordsKnown, cp.words = false, false, nil
		// the copy is a field of its own under the alias name, not an
		// embedded field
		cp.anon = false
		// source-specific tags (every tag of the mangler after the first)
		// that have no alias of their own are not inherited by the copy:
		// its name then derives from the aliased generic tag
		if len(sp.Tags) > 1 {
			for _, tag := range sp.Tags[1:] {
				if _, ok := aliasVals[tag]; !ok {
					delete(cp.tags, tag)
				}
			}
		}
		// nor is any other tag that names the field for some consumer (a
		// json / yaml / toml tag next to the dials tag, hand-written or
		// copied there by an earlier mangler): both fields would answer to
		// one key.  Only the mangler's own tags, their alias tags and
		// dialsdesc survive on the copy (/repo d229351).
		managed := map[string]bool{"dialsdesc": true}
		for _, tag := range sp.Tags {
			managed[tag] = true
			managed[tag+"alias"] = true
		}
		for key, tv := range cp.tags {
			if managed[key] {
				continue
			}
			if tv.known && (namePart(tv.val) == "" || namePart(tv.val) == "-") {
				continue
			}
			delete(cp.tags, key)
		}
		for tag, av := range aliasVals {
			cp.tags[tag] = tagVal{val: namePart(av.val), known: av.known, words: av.words, wk: av.wk}
		}
		cp.tags["dialsdesc"] = tagVal{}
		group := strings.Join(f.origin, ".")
		f.choices = append(f.choices, choice{group, false})
		cp.choices = append(cp.choices, choice{group, true})
		return []*mfield{f, cp}, nil

	case "flatten":
		if !top {
			return nil, fmt.Errorf("model: flatten below the top level")
		}
		if f.kind != kPStruct {
			if !nilable(f.rtype) {
				return nil, errPre{"flatten needs nil-able fields"}
			}
			nf := f
			nf.tags[sp.Tag] = encodeComps(sp.Enc, m.tagComps(sp.Tag, f))
			nf.anon = false
			nf.nameKnown = false
			nf.tags["dialsfieldpath"] = tagVal{}
			return []*mfield{nf}, nil
		}
		var names []nameComp
		if !f.anon {
			names = append(names, nameComp{f.name, f.nameKnown})
		}
		return m.flattenStruct(sp, names, m.tagComps(sp.Tag, f), f.children, f.choices), nil

	case "anonflatten":
		if f.anon && (f.kind == kPStruct || f.kind == kStruct) {
			for _, c := range f.children {
				c.choices = append(append([]choice{}, f.choices...), c.choices...)
			}
			return f.children, nil
		}
		return []*mfield{f}, nil

	case "setslice":
		if f.kind == kLeaf && f.rtype.Kind() == reflect.Map && f.rtype.Elem() == emptyT {
			f.rtype = reflect.SliceOf(f.rtype.Key())
			f.convs = append(f.convs, "set2slice")
		}
		return []*mfield{f}, nil

	case "dursub":
		if f.kind == kLeaf {
			if nt, ok := subDur(f.rtype); ok {
				f.rtype = nt
				f.convs = append(f.convs, "dursub")
			}
		}
		return []*mfield{f}, nil

	case "stringcast":
		if f.kind != kLeaf || !castable(f.rtype, m.named) || hasConv(f, "dursub") {
			f.dead = true
		}
		f.kind = kLeaf
		f.children = nil
		f.rtype = strPtrT
		f.convs = append(f.convs, "strcast")
		return []*mfield{f}, nil

	case "textunm":
		if f.kind == kLeaf && implementsText(f.rtype) {
			f.rtype = strPtrT
			f.convs = append(f.convs, "textunm")
		}
		return []*mfield{f}, nil

	case "tagcopy":
		src, ok := f.tags[sp.Tag]
		if ok && (!src.known || src.val != "") {
			if cur, ok := f.tags[sp.NewTag]; !ok || (cur.known && cur.val == "") {
				f.tags[sp.NewTag] = src
			}
		}
		return []*mfield{f}, nil

	case "reformat":
		var words []string
		var wk bool
		if tv, ok := f.tags[sp.Tag]; ok && (!tv.known || tv.val != "") {
			words, wk = tv.words, tv.wk
		} else {
			words, wk = f.words, f.wordsKnown
		}
		if !wk {
			f.tags[sp.Tag] = tagVal{}
		} else {
			f.tags[sp.Tag] = tagVal{val: encodeWords(sp.Enc, words), known: true, words: words, wk: true}
		}
		return []*mfield{f}, nil
	}
	return nil, fmt.Errorf("model: unknown mangler kind %q", sp.Kind)
}

func hasConv(f *mfield, c string) bool {
	for _, x := range f.convs {
		if x == c {
			return true
		}
	}
	return false
}

func nilable(t reflect.Type) bool {
	switch t.Kind() {
	case reflect.Pointer, reflect.Map, reflect.Slice, reflect.Interface:
		return true
	}
	return false
}

// comp is one component of a flattened tag: a tag taken verbatim, or one word
// of a field name.
type comp struct {
	val   string
	known bool
	words []string
	wk    bool
}

type nameComp struct {
	name  string
	known bool
}

// tagComps: documented naming rule of the flatten mangler -- a field with the
// tag contributes the tag verbatim, an untagged named field the words of its
// Go name, an untagged embedded field nothing.
func (m *modeler) tagComps(tag string, f *mfield) []comp {
	if tv, ok := f.tags[tag]; ok {
		return []comp{{val: tv.val, known: tv.known, words: tv.words, wk: tv.wk}}
	}
	if f.anon {
		return nil
	}
	if !f.wordsKnown {
		return []comp{{}}
	}
	var out []comp
	for _, w := range f.words {
		out = append(out, comp{val: w, known: true, words: []string{w}, wk: true})
	}
	return out
}

func (m *modeler) flattenStruct(sp ManglerSpec, names []nameComp, comps []comp, children []*mfield, choices []choice) []*mfield {
	var out []*mfield
	for _, c := range children {
		cn := names
		if !c.anon {
			cn = append(append([]nameComp{}, names...), nameComp{c.name, c.nameKnown})
		}
		cc := append(append([]comp{}, comps...), m.tagComps(sp.Tag, c)...)
		cch := append(append([]choice{}, choices...), c.choices...)
		if c.kind == kPStruct {
			out = append(out, m.flattenStruct(sp, cn, cc, c.children, cch)...)
			continue
		}
		nf := c
		nf.choices = cch
		var b strings.Builder
		nf.nameKnown = true
		for _, n := range cn {
			b.WriteString(n.name)
			nf.nameKnown = nf.nameKnown && n.known
		}
		nf.name = b.String() // only used to detect colliding names (a precondition)
		nf.nameKnown = false // the flattened Go name is the library's business; the key is the tag
		nf.wordsKnown, nf.words = false, nil
		nf.tags[sp.Tag] = encodeComps(sp.Enc, cc)
		nf.tags["dialsfieldpath"] = tagVal{}
		nf.anon = false
		out = append(out, nf)
	}
	return out
}

func title(w string) string {
	if w == "" {
		return w
	}
	return strings.ToUpper(w[:1]) + w[1:]
}

func encodeComps(enc string, cs []comp) tagVal {
	tv := tagVal{known: true, wk: true}
	var vals []string
	for _, c := range cs {
		tv.known = tv.known && c.known
		tv.wk = tv.wk && c.wk
		vals = append(vals, c.val)
		tv.words = append(tv.words, c.words...)
	}
	if !tv.wk {
		tv.words = nil
	}
	switch enc {
	case "kebab":
		tv.val = strings.Join(vals, "-")
	case "casesnake":
		tv.val = strings.Join(vals, "_")
	case "lowersnake":
		tv.val = strings.ToLower(strings.Join(vals, "_"))
	case "uppersnake":
		tv.val = strings.ToUpper(strings.Join(vals, "_"))
	default:
		// camel encoders over verbatim tags: the exact spelling is not
		// documented (only the words are); not usable as a key
		tv.known = false
	}
	if !tv.known {
		tv.val = ""
	}
	return tv
}

func encodeWords(enc string, ws []string) string {
	switch enc {
	case "kebab":
		return strings.Join(ws, "-")
	case "casesnake", "lowersnake":
		return strings.Join(ws, "_")
	case "uppersnake":
		return strings.ToUpper(strings.Join(ws, "_"))
	case "uppercamel":
		var b strings.Builder
		for _, w := range ws {
			b.WriteString(title(w))
		}
		return b.String()
	case "lowercamel":
		var b strings.Builder
		for i, w := range ws {
			if i == 0 {
				b.WriteString(w)
			} else {
				b.WriteString(title(w))
			}
		}
		return b.String()
	}
	return "?unknown-encoder?"
}

var parsingDurT = reflect.TypeOf(jsontypes.ParsingDuration(0))

// subDur: documented substitution -- time.Duration is replaced wherever it
// appears under pointers, slices, arrays and maps.
func subDur(t reflect.Type) (reflect.Type, bool) {
	if t == durationT {
		return parsingDurT, true
	}
	switch t.Kind() {
	case reflect.Pointer:
		if e, ok := subDur(t.Elem()); ok {
			return reflect.PointerTo(e), true
		}
	case reflect.Slice:
		if e, ok := subDur(t.Elem()); ok {
			return reflect.SliceOf(e), true
		}
	case reflect.Array:
		if e, ok := subDur(t.Elem()); ok {
			return reflect.ArrayOf(t.Len(), e), true
		}
	case reflect.Map:
		k, ok1 := subDur(t.Key())
		e, ok2 := subDur(t.Elem())
		if ok1 || ok2 {
			return reflect.MapOf(k, e), true
		}
	}
	return t, false
}

func scalarCastable(e reflect.Type, named bool) bool {
	switch e.Kind() {
	case reflect.String, reflect.Bool,
		reflect.Int, reflect.Int8, reflect.Int16, reflect.Int32, reflect.Int64,
		reflect.Uint, reflect.Uint8, reflect.Uint16, reflect.Uint32, reflect.Uint64,
		reflect.Float32, reflect.Float64, reflect.Complex64, reflect.Complex128:
	default:
		return false
	}
	if e.PkgPath() != "" && e != durationT {
		return named
	}
	return true
}

// castable: the types the string-casting mangler documents / parse.String
// supports: scalars, time.Duration, slices of them, maps of scalars,
// map[string][]string and map[string]struct{}.
func castable(t reflect.Type, named bool) bool {
	switch t.Kind() {
	case reflect.Pointer:
		// a user-declared pointer to a slice or map is cast like the
		// collection and re-wrapped
		if k := t.Elem().Kind(); (k == reflect.Slice || k == reflect.Map) && !implementsText(t.Elem()) {
			return castable(t.Elem(), named)
		}
		return scalarCastable(t.Elem(), named)
	case reflect.Slice:
		if implementsText(t) {
			return false
		}
		return scalarCastable(t.Elem(), named)
	case reflect.Map:
		if t == reflect.TypeOf(map[string][]string{}) || t == reflect.TypeOf(map[string]struct{}{}) {
			return true
		}
		return scalarCastable(t.Key(), named) && scalarCastable(t.Elem(), named)
	}
	return false
}

// key is the documented key of a translated field under the chain's key tags.
func (m *modeler) key(f *mfield) (string, bool) {
	for _, t := range m.keyTags {
		tv, ok := f.tags[t]
		if !ok {
			continue
		}
		if !tv.known {
			return "", false
		}
		if n := namePart(tv.val); n != "" {
			return n, true
		}
	}
	if !f.nameKnown {
		return "", false
	}
	return f.name, true
}

// tleaf is one leaf of the translated type as the model sees it.
type tleaf struct {
	keyPath []string
	f       *mfield
	choices []choice
}

func (m *modeler) leaves(fs []*mfield, keyPath []string, choices []choice, out *[]tleaf) error {
	seen := map[string]bool{}
	names := map[string]bool{}
	for _, f := range fs {
		if names[f.name] {
			return errPre{fmt.Sprintf("Go field name %q occurs twice below %v", f.name, keyPath)}
		}
		names[f.name] = true
		k, ok := m.key(f)
		if !ok {
			return errPre{fmt.Sprintf("field %s below %v has no documented key under key tags %v", strings.Join(f.origin, "."), keyPath, m.keyTags)}
		}
		if seen[k] {
			return errPre{fmt.Sprintf("key %q occurs twice below %v", k, keyPath)}
		}
		seen[k] = true
		kp := append(append([]string{}, keyPath...), k)
		ch := append(append([]choice{}, choices...), f.choices...)
		if f.kind == kPStruct || f.kind == kStruct {
			if err := m.leaves(f.children, kp, ch, out); err != nil {
				return err
			}
			continue
		}
		if f.kind == kSliceStruct || f.kind == kArrayStruct {
			// element fields are located by key as well
			var sub []tleaf
			if err := m.leaves(f.children, kp, ch, &sub); err != nil {
				return err
			}
		}
		*out = append(*out, tleaf{keyPath: kp, f: f, choices: ch})
	}
	return nil
}

// model is the result of running the chain on the description of T0.
type model struct {
	m       *modeler
	t0      []*mfield // description of T0
	final   []*mfield
	tleaves []tleaf
	origins []originLeaf
}

type originLeaf struct {
	path  string
	otype reflect.Type
	// aliased ancestors-or-self in T0 order (group ids) under this chain
	groups   []string
	fillable bool
}

func buildModel(t0 reflect.Type, chain ChainSpec, nameWords, tagWords map[string][]string, named bool) (*model, error) {
	m := &modeler{nameWords: nameWords, tagWords: tagWords, keyTags: chain.KeyTags, named: named}
	md := &model{m: m}
	md.t0 = m.fromStruct(t0, nil)
	cur := m.fromStruct(t0, nil)
	for _, st := range chain.Stages {
		for _, sp := range st {
			var err error
			cur, err = m.apply(sp, cur, true)
			if err != nil {
				return nil, err
			}
		}
	}
	md.final = cur
	if err := m.leaves(cur, nil, nil, &md.tleaves); err != nil {
		return nil, err
	}
	// origin leaves, in T0 order
	byOrigin := map[string][]tleaf{}
	for _, tl := range md.tleaves {
		p := strings.Join(tl.f.origin, ".")
		byOrigin[p] = append(byOrigin[p], tl)
	}
	var walk func(fs []*mfield)
	walk = func(fs []*mfield) {
		for _, f := range fs {
			if f.kind == kPStruct {
				walk(f.children)
				continue
			}
			p := strings.Join(f.origin, ".")
			ol := originLeaf{path: p, otype: f.otype}
			tls := byOrigin[p]
			if len(tls) > 0 {
				ol.fillable = !tls[0].f.dead
				gs := map[string]bool{}
				for _, tl := range tls {
					for _, c := range tl.choices {
						gs[c.group] = true
					}
				}
				for g := range gs {
					ol.groups = append(ol.groups, g)
				}
				sort.Strings(ol.groups)
			}
			md.origins = append(md.origins, ol)
		}
	}
	walk(md.t0)
	return md, nil
}

// pick returns the translated leaf that stands for origin path p under the
// given alias sides (group -> true means the alias copy).
func (md *model) pick(p string, sides map[string]bool) (tleaf, bool) {
	for _, tl := range md.tleaves {
		if strings.Join(tl.f.origin, ".") != p {
			continue
		}
		ok := true
		for _, c := range tl.choices {
			if sides[c.group] != c.alias {
				ok = false
				break
			}
		}
		if ok {
			return tl, true
		}
	}
	return tleaf{}, false
}
