package pxform

import (
	"encoding/json"
	"fmt"
	"testing"

	"pgregory.net/rapid"
	"verifharness/internal/vrt"
)

func TestDbgDiscards(t *testing.T) {
	n := 0
	for seed := 0; seed < 4000 && n < 3; seed++ {
		c := rapid.Custom(func(t *rapid.T) Case { return genCase(t, false) }).Example(seed)
		v := runC10(c)
		if v.Status == vrt.StatusDiscard {
			n++
			js, _ := json.Marshal(c)
			fmt.Println(v.Msg, string(js))
		}
	}
}
