package pxform

import (
	"encoding"
	"fmt"
	"reflect"
	"sort"
	"strconv"
	"strings"
	"time"

	"verifharness/internal/shape"
)

// deepConvert converts v to the structurally parallel type tt (pointers,
// slices, arrays, maps walked; scalars converted with Go's conversion).
func deepConvert(v reflect.Value, tt reflect.Type) reflect.Value {
	if v.Type() == tt {
		return v
	}
	switch tt.Kind() {
	case reflect.Pointer:
		if v.IsNil() {
			return reflect.Zero(tt)
		}
		p := reflect.New(tt.Elem())
		p.Elem().Set(deepConvert(v.Elem(), tt.Elem()))
		return p
	case reflect.Slice:
		if v.IsNil() {
			return reflect.Zero(tt)
		}
		s := reflect.MakeSlice(tt, v.Len(), v.Len())
		for i := 0; i < v.Len(); i++ {
			s.Index(i).Set(deepConvert(v.Index(i), tt.Elem()))
		}
		return s
	case reflect.Array:
		a := reflect.New(tt).Elem()
		for i := 0; i < v.Len(); i++ {
			a.Index(i).Set(deepConvert(v.Index(i), tt.Elem()))
		}
		return a
	case reflect.Map:
		if v.IsNil() {
			return reflect.Zero(tt)
		}
		mp := reflect.MakeMapWithSize(tt, v.Len())
		it := v.MapRange()
		for it.Next() {
			mp.SetMapIndex(deepConvert(it.Key(), tt.Key()), deepConvert(it.Value(), tt.Elem()))
		}
		return mp
	}
	return v.Convert(tt)
}

// renderScalar is the harness's own text rendering of a scalar (not the
// library's flag helpers).
func renderScalar(v reflect.Value) (string, error) {
	if v.Type() == durationT {
		return time.Duration(v.Int()).String(), nil
	}
	switch v.Kind() {
	case reflect.String:
		return v.String(), nil
	case reflect.Bool:
		return strconv.FormatBool(v.Bool()), nil
	case reflect.Int, reflect.Int8, reflect.Int16, reflect.Int32, reflect.Int64:
		return strconv.FormatInt(v.Int(), 10), nil
	case reflect.Uint, reflect.Uint8, reflect.Uint16, reflect.Uint32, reflect.Uint64:
		return strconv.FormatUint(v.Uint(), 10), nil
	case reflect.Float32:
		return strconv.FormatFloat(v.Float(), 'g', -1, 32), nil
	case reflect.Float64:
		return strconv.FormatFloat(v.Float(), 'g', -1, 64), nil
	case reflect.Complex64:
		return strconv.FormatComplex(v.Complex(), 'g', -1, 64), nil
	case reflect.Complex128:
		return strconv.FormatComplex(v.Complex(), 'g', -1, 128), nil
	}
	return "", fmt.Errorf("no text rendering for %s", v.Type())
}

func sortedKeys(m reflect.Value) []reflect.Value {
	ks := m.MapKeys()
	sort.Slice(ks, func(i, j int) bool { return fmt.Sprint(ks[i].Interface()) < fmt.Sprint(ks[j].Interface()) })
	return ks
}

// renderText renders a value of a string-castable type in the documented text
// forms: scalars as literals, slices and sets comma separated, maps as
// key:value pairs comma separated (map[string][]string repeats the key).
func renderText(v reflect.Value) (string, error) {
	switch v.Kind() {
	case reflect.Pointer:
		if k := v.Elem().Kind(); k == reflect.Slice || k == reflect.Map {
			return renderText(v.Elem())
		}
		return renderScalar(v.Elem())
	case reflect.Slice:
		var parts []string
		for i := 0; i < v.Len(); i++ {
			s, err := renderScalar(v.Index(i))
			if err != nil {
				return "", err
			}
			parts = append(parts, s)
		}
		return strings.Join(parts, ","), nil
	case reflect.Map:
		var parts []string
		for _, k := range sortedKeys(v) {
			ks, err := renderScalar(k)
			if err != nil {
				return "", err
			}
			e := v.MapIndex(k)
			switch {
			case e.Type() == emptyT:
				parts = append(parts, ks)
			case e.Kind() == reflect.Slice:
				for i := 0; i < e.Len(); i++ {
					es, err := renderScalar(e.Index(i))
					if err != nil {
						return "", err
					}
					parts = append(parts, ks+":"+es)
				}
			default:
				es, err := renderScalar(e)
				if err != nil {
					return "", err
				}
				parts = append(parts, ks+":"+es)
			}
		}
		return strings.Join(parts, ","), nil
	}
	return "", fmt.Errorf("no text rendering for %s", v.Type())
}

// spellable removes what the text form cannot spell (entries of a
// map[string][]string whose slice is empty) so that the value "written" is
// exactly the value the text denotes.
func spellable(v reflect.Value) reflect.Value {
	if v.Kind() == reflect.Map && v.Type().Elem().Kind() == reflect.Slice && !v.IsNil() {
		out := reflect.MakeMap(v.Type())
		it := v.MapRange()
		for it.Next() {
			if it.Value().Len() > 0 {
				out.SetMapIndex(it.Key(), it.Value())
			}
		}
		return out
	}
	return v
}

// marshalText renders a text-unmarshalable value with the type's own
// MarshalText and parses it back with the type's own UnmarshalText (the
// documented conversion); the parsed-back value is what the original leaf is
// expected to hold.
func marshalText(v reflect.Value, pad int) (text string, back reflect.Value, rejected bool, err error) {
	ptr := v.Kind() == reflect.Pointer && v.Type().Elem().Kind() != reflect.Pointer && implementsText(v.Type().Elem())
	base := v
	if ptr {
		base = v.Elem()
	}
	tm, ok := base.Interface().(encoding.TextMarshaler)
	if !ok {
		return "", reflect.Value{}, false, fmt.Errorf("%s has no MarshalText", base.Type())
	}
	b, err := tm.MarshalText()
	if err != nil {
		return "", reflect.Value{}, false, err
	}
	text = padText(string(b), pad)
	nv := reflect.New(base.Type())
	tu, ok := nv.Interface().(encoding.TextUnmarshaler)
	if !ok {
		return "", reflect.Value{}, false, fmt.Errorf("*%s has no UnmarshalText", base.Type())
	}
	if err := tu.UnmarshalText([]byte(text)); err != nil {
		if pad == 0 {
			return "", reflect.Value{}, false, err
		}
		// the type itself rejects the padded text: reverse translation must
		// report an error
		return text, reflect.Value{}, true, nil
	}
	if ptr {
		return text, nv, false, nil
	}
	return text, nv.Elem(), false, nil
}

// padText puts whitespace around a text (pad 1: trailing blank; 2: leading tab
// and trailing newline; 3: whitespace only).  What the text then means is up
// to the type's own UnmarshalText: kept verbatim, or rejected.
func padText(s string, pad int) string {
	switch pad {
	case 1:
		return s + " "
	case 2:
		return "\t" + s + "\n"
	case 3:
		return " \t "
	}
	return s
}

// forwardLeaf converts an original leaf value to the value to write into the
// translated leaf, following the model's conversion list.  It also returns the
// value the original leaf is expected to hold after the reverse translation.
func forwardLeaf(v reflect.Value, f *mfield, dupSet bool, pad int) (tv, want reflect.Value, rejected bool, err error) {
	cur, want := v, v
	for _, c := range f.convs {
		switch c {
		case "dursub":
			nt, _ := subDur(cur.Type())
			cur = deepConvert(cur, nt)
		case "set2slice":
			ks := sortedKeys(cur)
			s := reflect.MakeSlice(reflect.SliceOf(cur.Type().Key()), 0, len(ks)+1)
			for _, k := range ks {
				s = reflect.Append(s, k)
			}
			if dupSet && len(ks) > 0 {
				s = reflect.Append(s, ks[0]) // documented: duplicates are removed
			}
			cur = s
		case "textunm":
			s, back, rej, err := marshalText(cur, pad)
			if err != nil {
				return tv, want, false, err
			}
			if rej {
				rejected = true
			} else if cur.Type() == v.Type() {
				want = back
			}
			cur = reflect.ValueOf(&s)
		case "strcast":
			s, err := renderText(cur)
			if err != nil {
				return tv, want, false, err
			}
			cur = reflect.ValueOf(&s)
		default:
			return tv, want, false, fmt.Errorf("unknown conversion %q", c)
		}
	}
	if cur.Type() != f.rtype {
		return tv, want, false, fmt.Errorf("forward conversion of %s yields %s, the model says %s", v.Type(), cur.Type(), f.rtype)
	}
	return cur, want, rejected, nil
}

// makeLeaf builds the non-nil original value of a T0 leaf from a seed.
func makeLeaf(t reflect.Type, seed uint64, plain, strcast bool) reflect.Value {
	if seed == 0 {
		seed = 1
	}
	// one non-text leaf in three has nil elements / map values where the
	// element type is nil-able (an entry written as nil must stay an entry)
	v := makeValue(t, seed, shape.ValueOpts{Plain: plain, NilElems: !strcast && seed%3 == 2})
	if strcast {
		v = spellable(v)
	}
	return v
}

// withSpare rebuilds v so that every slice in it -- at every level: behind
// pointers, inside arrays and maps, in fields of structs and in elements of
// slices of structs -- has `extra` elements of spare capacity beyond its
// length, the spare region holding copies of the first element (non-zero
// junk) rather than zeros.  Decoders that grow slices by appending hand such
// values to ReverseTranslate; nothing beyond Len may show up in the result.
// The length and the visible elements are unchanged.
func withSpare(v reflect.Value, extra int) reflect.Value {
	if extra <= 0 || !v.IsValid() {
		return v
	}
	return rebuild(v, extra)
}

// cloneDeep is a deep copy (pointees, slices, maps, exported struct fields).
func cloneDeep(v reflect.Value) reflect.Value {
	if !v.IsValid() {
		return v
	}
	return rebuild(v, 0)
}

func rebuild(v reflect.Value, extra int) reflect.Value {
	t := v.Type()
	switch t.Kind() {
	case reflect.Pointer:
		if v.IsNil() {
			return v
		}
		p := reflect.New(t.Elem())
		p.Elem().Set(rebuild(v.Elem(), extra))
		return p
	case reflect.Slice:
		if v.IsNil() {
			return v
		}
		n := v.Len()
		s := reflect.MakeSlice(t, n+extra, n+extra)
		for i := 0; i < n; i++ {
			s.Index(i).Set(rebuild(v.Index(i), extra))
		}
		for i := n; i < n+extra; i++ {
			if n > 0 {
				s.Index(i).Set(rebuild(v.Index(0), extra))
			} else {
				s.Index(i).Set(junk(t.Elem()))
			}
		}
		return s.Slice3(0, n, n+extra)
	case reflect.Array:
		a := reflect.New(t).Elem()
		for i := 0; i < v.Len(); i++ {
			a.Index(i).Set(rebuild(v.Index(i), extra))
		}
		return a
	case reflect.Map:
		if v.IsNil() {
			return v
		}
		m := reflect.MakeMapWithSize(t, v.Len())
		it := v.MapRange()
		for it.Next() {
			m.SetMapIndex(it.Key(), rebuild(it.Value(), extra))
		}
		return m
	case reflect.Struct:
		out := reflect.New(t).Elem()
		out.Set(v)
		for i := 0; i < t.NumField(); i++ {
			if t.Field(i).IsExported() {
				out.Field(i).Set(rebuild(v.Field(i), extra))
			}
		}
		return out
	}
	return v
}

// junk is a non-zero value for the spare region of an empty slice (zero where
// the type has no cheap non-zero value).
func junk(t reflect.Type) reflect.Value {
	v := reflect.New(t).Elem()
	switch t.Kind() {
	case reflect.Int, reflect.Int8, reflect.Int16, reflect.Int32, reflect.Int64:
		v.SetInt(77)
	case reflect.Uint, reflect.Uint8, reflect.Uint16, reflect.Uint32, reflect.Uint64, reflect.Uintptr:
		v.SetUint(77)
	case reflect.Float32, reflect.Float64:
		v.SetFloat(7.5)
	case reflect.String:
		v.SetString("junk")
	case reflect.Bool:
		v.SetBool(true)
	}
	return v
}

// emptyValue is the non-nil "empty" original value of a leaf, for leaves whose
// conversions can carry it: a pointer to "" for string leaves (the text of a
// string cast is then the empty string, which parse.String documents as the
// string itself), a non-nil empty slice / map / set for collections (text "",
// which the slice / map / set parsers accept as the empty collection).  Leaves
// that go through a text-unmarshaler are excluded (their types reject "").
func emptyValue(f *mfield) (reflect.Value, bool) {
	if f.kind != kLeaf {
		return reflect.Value{}, false
	}
	for _, c := range f.convs {
		if c == "textunm" {
			return reflect.Value{}, false
		}
	}
	t := f.otype
	if implementsText(t) {
		return reflect.Value{}, false
	}
	switch t.Kind() {
	case reflect.Pointer:
		if t.Elem().Kind() == reflect.String && !implementsText(t.Elem()) {
			return reflect.New(t.Elem()), true
		}
		if e := t.Elem(); !implementsText(e) {
			switch e.Kind() {
			case reflect.Slice:
				p := reflect.New(e)
				p.Elem().Set(reflect.MakeSlice(e, 0, 0))
				return p, true
			case reflect.Map:
				p := reflect.New(e)
				p.Elem().Set(reflect.MakeMap(e))
				return p, true
			}
		}
	case reflect.Slice:
		return reflect.MakeSlice(t, 0, 0), true
	case reflect.Map:
		return reflect.MakeMap(t), true
	}
	return reflect.Value{}, false
}

// hasOtherKeyMap: t contains a map whose key is not a string (shape.MakeValue
// only builds string-keyed maps).
func hasOtherKeyMap(t reflect.Type, depth int) bool {
	if depth > 6 {
		return false
	}
	switch t.Kind() {
	case reflect.Map:
		return t.Key().Kind() != reflect.String || hasOtherKeyMap(t.Elem(), depth+1)
	case reflect.Pointer, reflect.Slice, reflect.Array:
		return hasOtherKeyMap(t.Elem(), depth+1)
	}
	return false
}

// makeValue is shape.MakeValue extended to maps with non-string keys; such
// maps always get 1..3 entries with distinct keys (keys and values from
// sub-seeds, so the value is a pure function of (t, seed, opts)).
func makeValue(t reflect.Type, seed uint64, o shape.ValueOpts) reflect.Value {
	if !hasOtherKeyMap(t, 0) {
		// nil entries are made only here, in maps with non-string keys
		// (the substitution mangler rebuilds those entry by entry)
		o.NilElems = false
		return shape.MakeValue(t, seed, o)
	}
	sub := func(i uint64) uint64 { return seed*0x9e3779b97f4a7c15 + i*0xbf58476d1ce4e5b9 | 1 }
	switch t.Kind() {
	case reflect.Pointer:
		p := reflect.New(t.Elem())
		p.Elem().Set(makeValue(t.Elem(), sub(1), o))
		return p
	case reflect.Slice:
		n := int(seed%3) + 1
		s := reflect.MakeSlice(t, n, n)
		for i := 0; i < n; i++ {
			s.Index(i).Set(makeValue(t.Elem(), sub(uint64(i)+2), o))
		}
		return s
	case reflect.Array:
		a := reflect.New(t).Elem()
		for i := 0; i < t.Len(); i++ {
			a.Index(i).Set(makeValue(t.Elem(), sub(uint64(i)+2), o))
		}
		return a
	case reflect.Map:
		n := int(seed%3) + 1
		m := reflect.MakeMapWithSize(t, n)
		for i := 0; m.Len() < n && i < 50; i++ {
			k := makeValue(t.Key(), sub(uint64(2*i)+10), o)
			if m.MapIndex(k).IsValid() {
				continue
			}
			if o.NilElems && i%2 == 1 {
				switch t.Elem().Kind() {
				case reflect.Pointer, reflect.Slice, reflect.Map:
					m.SetMapIndex(k, reflect.Zero(t.Elem()))
					continue
				}
			}
			m.SetMapIndex(k, makeValue(t.Elem(), sub(uint64(2*i)+11), o))
		}
		return m
	}
	return shape.MakeValue(t, seed, o)
}

// addZeroSetMembers returns a deep copy of v in which every non-nil set
// (map[K]struct{}) at any level -- the leaf itself, sets in elements of slices
// and arrays of structs, in nested structs -- also has K's zero value ("" / 0)
// as a member.
func addZeroSetMembers(v reflect.Value) reflect.Value {
	c := cloneDeep(v)
	var walk func(x reflect.Value)
	walk = func(x reflect.Value) {
		switch x.Kind() {
		case reflect.Pointer:
			if !x.IsNil() {
				walk(x.Elem())
			}
		case reflect.Map:
			if x.IsNil() {
				return
			}
			if x.Type().Elem() == emptyT {
				x.SetMapIndex(reflect.Zero(x.Type().Key()), reflect.ValueOf(struct{}{}))
				return
			}
			if x.Type().Elem().Kind() == reflect.Map {
				it := x.MapRange()
				for it.Next() {
					walk(it.Value())
				}
			}
		case reflect.Slice, reflect.Array:
			for i := 0; i < x.Len(); i++ {
				walk(x.Index(i))
			}
		case reflect.Struct:
			for i := 0; i < x.NumField(); i++ {
				if x.Type().Field(i).IsExported() {
					walk(x.Field(i))
				}
			}
		}
	}
	walk(c)
	return c
}

// hasSet: a value of type t can hold a set at some level.
func hasSet(t reflect.Type, depth int) bool {
	if depth > 6 {
		return false
	}
	switch t.Kind() {
	case reflect.Map:
		return t.Elem() == emptyT || hasSet(t.Elem(), depth+1)
	case reflect.Pointer, reflect.Slice, reflect.Array:
		return hasSet(t.Elem(), depth+1)
	case reflect.Struct:
		if implementsText(t) {
			return false
		}
		for i := 0; i < t.NumField(); i++ {
			if t.Field(i).IsExported() && hasSet(t.Field(i).Type, depth+1) {
				return true
			}
		}
	}
	return false
}
