package pxform

import (
	"fmt"
	"os"
	"reflect"
	"strings"
	"sync"

	"github.com/vimeo/dials/ptrify"
	"pgregory.net/rapid"

	"verifharness/internal/shape"
	"verifharness/internal/vrt"
)

// FillEntry sets one original leaf (through its translated counterpart).
type FillEntry struct {
	Path string `json:"path"` // dotted Go names of the leaf in the config type
	Seed uint64 `json:"seed"`
	// Empty: write the empty value instead of the seeded one where the leaf
	// has one that its text form can spell: "" for a (pointer to a) string,
	// a non-nil empty slice / map / set (text "") for collections.
	Empty bool `json:"empty,omitempty"`
}

// Case is one input of the C10 checks.
type Case struct {
	Shape shape.Shape `json:"shape"`
	// TagWords: the words every generated tag value was built from.
	TagWords map[string][]string `json:"tag_words,omitempty"`
	Chain    ChainSpec           `json:"chain"`
	Fill     []FillEntry         `json:"fill,omitempty"`
	// Sides: for every aliased field (dotted path) whether its value is
	// supplied under the alias (true) or the primary name (false).
	Sides map[string]bool `json:"sides,omitempty"`
	// DupSets: slices written for sets carry a duplicate element.
	DupSets bool `json:"dup_sets,omitempty"`
	// SpareCap: every slice written into the translated value (at any level:
	// inside maps, pointers, arrays, elements of slices of structs) has this
	// many elements of spare capacity beyond its length, holding junk.
	SpareCap int `json:"spare_cap,omitempty"`
	// NamedCast: named scalar leaves are filled through the string-casting
	// mangler (off by default: C16's known defect).
	NamedCast bool `json:"named_cast,omitempty"`
}

// Known-defect switches.  A class listed as known (VERIF_KNOWN) is excluded
// from generation by construction so that the search continues behind it.
const (
	keyTypesubAddr   = "typesub-unaddressable"
	keyTextSliceRec  = "textstruct-slice-recursed"
	keyTextunmUnset  = "textunm-unset-pointer"
	keyNamedCast     = "named-strcast"
	keyAliasEmbedded = "alias-embedded-struct"
	keyAnonPtr       = "anonflatten-pointer-to-nonstruct"
)

var (
	knownOnce sync.Once
	knownSet  map[string]bool
)

func known(key string) bool {
	knownOnce.Do(func() {
		knownSet = map[string]bool{}
		for _, k := range []string{keyTypesubAddr, keyTextSliceRec, keyTextunmUnset, keyNamedCast, keyAliasEmbedded, keyAnonPtr} {
			knownSet[k] = vrt.IsKnown("C10", k)
		}
		// embedded NON-struct named types (type Level uint8, embedded) are
		// outside the quantifier ("embedded structs"): always excluded
		knownSet[keyAnonPtr] = true
		for _, k := range strings.Split(os.Getenv("VERIF_C10_EXCLUDE"), ",") {
			if k != "" {
				knownSet[k] = true
			}
		}
	})
	return knownSet[key]
}

// namedThroughStringCast: fill named scalar leaves through string-casting
// chains (C16's known defect: parse.String returns the underlying kind).
var namedThroughStringCast = os.Getenv("VERIF_C10_NAMED_STRCAST") == "1"

var vocab = []string{"alpha", "bravo", "cache", "delta", "echo", "flush", "gamma", "host", "index", "jitter", "key", "limit", "mode", "node", "offset", "port", "queue", "retry", "size", "token", "user", "value", "window", "zone", "path", "file", "name", "rate", "depth", "count", "api", "cpu", "dns", "http", "id", "ip", "json", "sql", "tls", "url"}

func c10Profile(plan chainPlan) shape.Profile {
	p := shape.FullProfile()
	var lt []string // SampledFrom favours the front of the list: the types the manglers act on come first
	for _, w := range []struct {
		ty string
		n  int
	}{
		{"map[string]struct{}", 3}, {"time.Duration", 3}, {"net.IP", 2}, {"[]Job", 2}, {"time.Time", 2}, {"int", 2}, {"TagSet", 1},
		{"[]time.Duration", 2}, {"string", 2}, {"map[string][]time.Duration", 1}, {"map[string]time.Duration", 1}, {"[][]time.Duration", 1}, {"[]string", 1}, {"Stamp", 1}, {"Color", 1}, {"bool", 1},
		{"[2]time.Duration", 1}, {"*time.Duration", 1}, {"float64", 1}, {"map[string]string", 1},
	} {
		for i := 0; i < w.n; i++ {
			lt = append(lt, w.ty)
		}
	}
	// maps whose KEY is the substituted type: alone, with a substituted
	// value, nested, inside slices / pointers / maps
	durKey := []string{"DurKeyStr", "DurKeyInts", "DurKeyDur", "DurKeyDurs", "DurKeyStrDur", "[]DurKeyInt", "*DurKeyStr", "map[string]DurKeyInt", "DurKeyInt"}
	if plan.spec.has("dursub") {
		// in front (with weight) for chains that substitute the type
		lt = append(append([]string{}, durKey[:5]...), lt...)
		lt = append(lt, durKey...)
	}
	lt = append(lt, shape.AllLeafTypes...)
	lt = append(lt, durKey...)
	if !known(keyTypesubAddr) {
		lt = append(lt, "*[]time.Duration", "**time.Duration", "*map[string]time.Duration")
	}
	if !known(keyTextSliceRec) {
		lt = append(lt, "[]time.Time", "[]Stamp")
	}
	if known(keyTextunmUnset) && plan.spec.has("textunm") {
		// leaves that pointerify to a pointer to a text-unmarshalable type
		var keep []string
		for _, ty := range lt {
			switch ty {
			case "time.Time", "Stamp", "Color", "*time.Time", "*Stamp":
				continue
			}
			keep = append(keep, ty)
		}
		lt = keep
	}
	p.LeafTypes = lt
	p.EmbedTypes = []string{"EmbA", "EmbB", "EmbC", "EmbTag", "EmbDeep"}
	if !known(keyAnonPtr) {
		// an embedded named non-struct type
		p.EmbedTypes = append(p.EmbedTypes, "Level")
	}
	p.MinFields = 2
	return p
}

// chainPlan is a chain plus what the tag generator needs to know about it.
type chainPlan struct {
	spec       ChainSpec
	styles     []string // spellings allowed for dials tags (the chain's tag decoder must accept them)
	aliasDials bool
	srcTag     string // source-specific name tag consulted by the chain ("" if none)
	aliasSrc   bool
	formatTag  string // json / yaml / toml when the chain ends in a decoder
	keyCands   [][]string
}

func genShippedChain(t *rapid.T) chainPlan {
	kind := rapid.SampledFrom([]string{"env", "env", "flag", "flag", "pflag", "json", "cue", "yaml", "yamlanon", "toml",
		"ez-json", "ez-json", "ez-cue", "ez-yaml", "ez-yamlanon", "ez-toml"}).Draw(t, "chain")
	flagEnc := func() string {
		return rapid.SampledFrom([]string{"kebab", "kebab", "kebab", "lowersnake", "casesnake"}).Draw(t, "flag_tag_enc")
	}
	switch kind {
	case "env":
		return chainPlan{spec: envChain(), styles: allStyles, aliasDials: true, srcTag: "dialsenv", aliasSrc: true}
	case "flag":
		return chainPlan{spec: flagChain(flagEnc()), styles: allStyles, aliasDials: true, srcTag: "dialsflag", aliasSrc: true}
	case "pflag":
		return chainPlan{spec: pflagChain(flagEnc()), styles: allStyles, aliasDials: true, srcTag: "dialspflag", aliasSrc: true}
	case "json", "cue", "yaml", "yamlanon", "toml":
		c := decoderChain(kind)
		return chainPlan{spec: c, styles: allStyles, formatTag: c.KeyTags[0]}
	}
	format := strings.TrimPrefix(kind, "ez-")
	type rf struct{ dec, enc string }
	r := rapid.SampledFrom([]rf{{"", ""}, {"", ""}, {"gocamel", "kebab"}, {"gocamel", "lowersnake"}, {"gotags", "lowercamel"},
		{"lowersnake", "kebab"}, {"casesnake", "uppercamel"}, {"gocamel", "uppersnake"}}).Draw(t, "ez_reformat")
	c := ezChain(format, r.dec, r.enc, rapid.IntRange(0, 3).Draw(t, "ez_setslice") != 0)
	styles := allStyles
	if r.dec != "" {
		styles = decoderStyles[r.dec]
	}
	return chainPlan{spec: c, styles: styles, aliasDials: true, formatTag: c.KeyTags[0]}
}

func genRandomChain(t *rapid.T) chainPlan {
	pool := []string{"alias", "anonflatten", "flatten", "setslice", "dursub", "textunm", "stringcast", "tagcopy", "reformat"}
	perm := rapid.Permutation(pool).Draw(t, "mangler_order")
	n := rapid.IntRange(2, 6).Draw(t, "chain_len")
	kinds := append([]string{}, perm[:n]...)
	if known(keyAnonPtr) {
		// keep anonymous-flatten in front of the string cast (an embedded
		// field cast to *string is an embedded pointer to a non-struct)
		ai, si := -1, -1
		for i, k := range kinds {
			switch k {
			case "anonflatten":
				ai = i
			case "stringcast":
				si = i
			}
		}
		if ai >= 0 && si >= 0 && si < ai {
			kinds[ai], kinds[si] = kinds[si], kinds[ai]
		}
	}
	pos := map[string]int{}
	for i, k := range kinds {
		pos[k] = i
	}
	_, hasReformat := pos["reformat"]
	plan := chainPlan{styles: allStyles}
	var src string
	if rapid.IntRange(0, 2).Draw(t, "with_src_tag") == 0 {
		src = rapid.SampledFrom([]string{"dialsenv", "dialsflag"}).Draw(t, "src_tag")
	}
	var newTag string
	var ms []ManglerSpec
	for _, k := range kinds {
		sp := ManglerSpec{Kind: k}
		switch k {
		case "alias":
			sp.Tags = []string{"dials"}
			plan.aliasDials = true
			if src != "" {
				sp.Tags = append(sp.Tags, src)
				plan.aliasSrc = true
			}
		case "flatten":
			sp.Tag, sp.NameEnc = "dials", "uppercamel"
			encs := []string{"kebab", "casesnake", "lowersnake", "uppersnake"}
			if hasReformat && pos["reformat"] > pos["flatten"] {
				// a later reformat decodes the flattened tag: only spellings
				// whose words survive (see decoderStyles)
				encs = []string{"kebab", "casesnake", "uppercamel"}
			}
			sp.Enc = rapid.SampledFrom(encs).Draw(t, "flatten_tag_enc")
		case "tagcopy":
			sp.Tag = "dials"
			cands := []string{"json", "yaml", "toml"}
			if src != "" {
				cands = append(cands, src, src)
			}
			sp.NewTag = rapid.SampledFrom(cands).Draw(t, "copy_to")
			newTag = sp.NewTag
		case "reformat":
			sp.Tag, sp.Dec = "dials", "gotags"
			sp.Enc = rapid.SampledFrom([]string{"kebab", "lowersnake", "uppersnake", "lowercamel", "uppercamel"}).Draw(t, "reformat_enc")
		}
		ms = append(ms, sp)
	}
	plan.srcTag = src
	if newTag == "json" || newTag == "yaml" || newTag == "toml" {
		plan.formatTag = newTag
	}
	split := rapid.IntRange(0, n).Draw(t, "stage_split")
	spec := ChainSpec{Name: "random"}
	if split == 0 || split == n {
		spec.Stages = [][]ManglerSpec{ms}
	} else {
		spec.Stages = [][]ManglerSpec{ms[:split], ms[split:]}
	}
	var c1, c2 []string
	if newTag != "" {
		c1 = append(c1, newTag)
	}
	if src != "" && src != newTag {
		c1 = append(c1, src)
		c2 = append(c2, src)
	}
	c1 = append(c1, "dials")
	c2 = append(c2, "dials")
	plan.keyCands = [][]string{c1, c2, {"dials"}, {}}
	plan.spec = spec
	return plan
}

type decorator struct {
	t        *rapid.T
	plan     chainPlan
	tagWords map[string][]string
	n        int
}

func (d *decorator) tagValue(label string) string {
	nw := rapid.SampledFrom([]int{1, 1, 2, 2, 2, 3}).Draw(d.t, label+"_nwords")
	var ws []string
	for i := 0; i < nw; i++ {
		ws = append(ws, rapid.SampledFrom(vocab).Draw(d.t, label+"_word"))
	}
	style := rapid.SampledFrom(d.plan.styles).Draw(d.t, label+"_style")
	var v string
	switch style {
	case "snake":
		v = strings.Join(ws, "_")
	case "kebab":
		v = strings.Join(ws, "-")
	case "lcamel":
		v = encodeWords("lowercamel", ws)
	default:
		v = encodeWords("uppercamel", ws)
	}
	if old, ok := d.tagWords[v]; ok && strings.Join(old, " ") != strings.Join(ws, " ") {
		// same spelling from different words cannot happen with lower-case
		// vocabulary words; keep the first to stay a function
		return v
	}
	d.tagWords[v] = ws
	return v
}

func (d *decorator) unique(label string) string {
	d.n++
	w := rapid.SampledFrom(vocab).Draw(d.t, label+"_word")
	if d.plan.srcTag == "dialsenv" {
		return fmt.Sprintf("VX_%s_%d", strings.ToUpper(w), d.n)
	}
	return fmt.Sprintf("vx-%s-%d", w, d.n)
}

// chance is true with probability eighths/8.  rapid's integer generators are
// biased towards small values, so three fair bools are combined instead; all
// false (what shrinking aims for) means "no".
func chance(t *rapid.T, label string, eighths int) bool {
	v := 0
	for i := 0; i < 3; i++ {
		if rapid.Bool().Draw(t, label) {
			v |= 1 << i
		}
	}
	return v >= 8-eighths
}

func (d *decorator) pct(label string, p int) bool {
	return chance(d.t, label, (p+6)/12)
}

func (d *decorator) fields(fs []shape.Field, underAlias bool) {
	for i := range fs {
		f := &fs[i]
		if f.Kind == "skip" {
			continue
		}
		var tags []string
		aliased := false
		if d.pct("has_dials", 35) {
			tags = append(tags, fmt.Sprintf(`dials:"%s"`, d.tagValue("dials")))
		}
		embedded := f.Kind == "embed" || f.Kind == "pembed"
		noAlias := embedded && d.plan.aliasDials && known(keyAliasEmbedded) && (d.plan.spec.has("flatten") || d.plan.spec.has("anonflatten"))
		if d.pct("has_alias", 22) && !noAlias {
			tags = append(tags, fmt.Sprintf(`dialsalias:"%s"`, d.tagValue("alias")))
			aliased = d.plan.aliasDials
		}
		if f.Kind == "leaf" && d.plan.srcTag != "" && !underAlias {
			switch {
			case d.pct("has_src", 12):
				tags = append(tags, fmt.Sprintf(`%s:"%s"`, d.plan.srcTag, d.unique("src")))
				if d.pct("has_src_alias", 35) {
					tags = append(tags, fmt.Sprintf(`%salias:"%s"`, d.plan.srcTag, d.unique("srcalias")))
				}
			case d.pct("has_only_src_alias", 8):
				tags = append(tags, fmt.Sprintf(`%salias:"%s"`, d.plan.srcTag, d.unique("srcalias")))
			}
		}
		if d.plan.formatTag != "" && !aliased && !underAlias && d.pct("has_format", 10) {
			d.n++
			opt := ""
			if d.pct("format_opt", 50) {
				opt = ",omitempty"
			}
			tags = append(tags, fmt.Sprintf(`%s:"fx_%s_%d%s"`, d.plan.formatTag, rapid.SampledFrom(vocab).Draw(d.t, "format_word"), d.n, opt))
		}
		if d.pct("has_desc", 10) {
			tags = append(tags, `dialsdesc:"some help text"`)
		}
		if d.pct("has_inert_alias", 12) {
			tags = append(tags, `dialsyamlalias:"inert"`)
		}
		f.Tag = strings.Join(tags, " ")
		if f.Kind == "struct" || f.Kind == "pstruct" {
			d.fields(f.Fields, underAlias || aliased)
		}
	}
}

func collectNameWords(fs []shape.Field, out map[string][]string) {
	for _, f := range fs {
		if len(f.Words) > 0 {
			out[f.Name] = f.Words
		}
		collectNameWords(f.Fields, out)
	}
}

func pointerified(s shape.Shape) (reflect.Type, reflect.Type, error) {
	T, err := s.Build()
	if err != nil {
		return nil, nil, err
	}
	var t0 reflect.Type
	func() {
		defer func() {
			if r := recover(); r != nil {
				err = fmt.Errorf("Pointerify: %v", r)
			}
		}()
		t0 = ptrify.Pointerify(T, reflect.New(T).Elem())
	}()
	return T, t0, err
}

func genCase(t *rapid.T, random bool) Case {
	var plan chainPlan
	if random {
		plan = genRandomChain(t)
	} else {
		plan = genShippedChain(t)
	}
	if plan.keyCands == nil {
		plan.keyCands = [][]string{plan.spec.KeyTags}
	}
	named := namedThroughStringCast && !known(keyNamedCast)
	prof := c10Profile(plan)
	var c Case
	var md *model
	for attempt := 0; attempt < 8 && md == nil; attempt++ {
		s := shape.Gen(t, prof)
		d := &decorator{t: t, plan: plan, tagWords: map[string][]string{}}
		if attempt < 6 {
			d.fields(s.Fields, false)
		}
		_, t0, err := pointerified(s)
		if err != nil {
			t.Fatalf("generated shape does not build: %v", err)
		}
		nw := map[string][]string{}
		collectNameWords(s.Fields, nw)
		for _, kt := range plan.keyCands {
			spec := plan.spec
			spec.KeyTags = kt
			m, err := buildModel(t0, spec, nw, d.tagWords, named)
			if err == nil {
				md = m
				c = Case{Shape: s, TagWords: d.tagWords, Chain: spec, NamedCast: named}
				break
			}
			if _, pre := err.(errPre); !pre {
				t.Fatalf("model: %v", err)
			}
		}
	}
	if md == nil {
		// give up on collisions: a one-field shape always has distinct keys
		c = Case{Shape: shape.Shape{Fields: []shape.Field{{Name: "Alpha", Words: []string{"alpha"}, Kind: "leaf", Type: "int"}}}, Chain: plan.spec, NamedCast: named}
		c.Chain.KeyTags = plan.keyCands[0]
		_, t0, _ := pointerified(c.Shape)
		m, err := buildModel(t0, c.Chain, map[string][]string{"Alpha": {"alpha"}}, nil, named)
		if err != nil {
			t.Fatalf("fallback shape: %v", err)
		}
		md = m
	}
	// alias sides
	groups := map[string]bool{}
	for _, ol := range md.origins {
		for _, g := range ol.groups {
			groups[g] = true
		}
	}
	if len(groups) > 0 {
		c.Sides = map[string]bool{}
		for _, g := range shape.SortedKeys(groups) {
			c.Sides[g] = rapid.Bool().Draw(t, "alias_side")
		}
	}
	// fills
	pct := []int{0, 2, 3, 5, 7, 8, -1, -1}[rapid.IntRange(0, 7).Draw(t, "fill_density")]
	var fillable []originLeaf
	for _, ol := range md.origins {
		// the translated counterpart under the drawn alias sides must exist
		// and be able to carry a value (the alias copy of an embedded struct
		// is a named field: a chain may hoist one side and cast the other)
		if tl, ok := md.pick(ol.path, c.Sides); ok && !tl.f.dead {
			fillable = append(fillable, ol)
		}
	}
	if pct != 0 {
		// at least one leaf is written
		if len(fillable) > 0 {
			ol := fillable[rapid.IntRange(0, len(fillable)-1).Draw(t, "single_fill")]
			c.Fill = append(c.Fill, FillEntry{Path: ol.path, Seed: rapid.Uint64Range(1, 1<<40).Draw(t, "seed"), Empty: chance(t, "empty_value", 3)})
		}
		if pct == -1 {
			pct = 0
		}
	}
	single := ""
	if len(c.Fill) == 1 {
		single = c.Fill[0].Path
	}
	for _, ol := range fillable {
		if ol.path == single {
			continue
		}
		if chance(t, "fill", pct) {
			c.Fill = append(c.Fill, FillEntry{Path: ol.path, Seed: rapid.Uint64Range(1, 1<<40).Draw(t, "seed"), Empty: chance(t, "empty_value", 3)})
		}
	}
	c.DupSets = rapid.Bool().Draw(t, "dup_sets")
	// 0..3 uniformly from two fair bools (rapid's integers favour 0)
	if rapid.Bool().Draw(t, "spare_cap_lo") {
		c.SpareCap |= 1
	}
	if rapid.Bool().Draw(t, "spare_cap_hi") {
		c.SpareCap |= 2
	}
	return c
}

func isPtrText(t reflect.Type) bool {
	return t.Kind() == reflect.Pointer && implementsText(t)
}
