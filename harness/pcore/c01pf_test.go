package pcore

import (
	"context"
	"fmt"
	"reflect"
	"testing"
	"time"

	"github.com/vimeo/dials"
	"pgregory.net/rapid"

	"verifharness/internal/fake"
	"verifharness/internal/vrt"
)

// PFCfg has user-declared POINTERS to a func and to a channel between
// ordinary leaves.  They are pointers, not channels or functions: nothing may
// shift a neighbour's value because of them, and without a source that sets
// them they keep their default.
type PFCfg struct {
	Name     string
	OnReload *func() int
	Port     int
	Notify   *chan int
	Limit    int
	Timeout  time.Duration
	Tail     []string
}

type PFLayer struct {
	Name    *string  `json:"name,omitempty"`
	Port    *int     `json:"port,omitempty"`
	Limit   *int     `json:"limit,omitempty"`
	Timeout *int64   `json:"timeout,omitempty"`
	Tail    []string `json:"tail,omitempty"`
}

type C01PFCase struct {
	DefFunc bool      `json:"def_func,omitempty"`
	DefChan bool      `json:"def_chan,omitempty"`
	Layers  []PFLayer `json:"layers"`
	Watch   bool      `json:"watch,omitempty"` // the last layer arrives as a watcher update
}

func genC01PF(t *rapid.T) C01PFCase {
	c := C01PFCase{DefFunc: rapid.Bool().Draw(t, "def_func"), DefChan: rapid.Bool().Draw(t, "def_chan"), Watch: rapid.Bool().Draw(t, "watch")}
	for i, n := 0, rapid.IntRange(1, 3).Draw(t, "layers"); i < n; i++ {
		l := PFLayer{}
		if rapid.Bool().Draw(t, "name") {
			s := fmt.Sprintf("name%d", i)
			l.Name = &s
		}
		if rapid.Bool().Draw(t, "port") {
			v := 1000 + i
			l.Port = &v
		}
		if rapid.Bool().Draw(t, "limit") {
			v := 2000 + i
			l.Limit = &v
		}
		if rapid.Bool().Draw(t, "timeout") {
			v := int64(3000 + i)
			l.Timeout = &v
		}
		if rapid.Bool().Draw(t, "tail") {
			l.Tail = []string{fmt.Sprintf("t%d", i)}
		}
		c.Layers = append(c.Layers, l)
	}
	return c
}

func pfLayerValue(pt reflect.Type, l PFLayer) reflect.Value {
	v := reflect.New(pt).Elem()
	set := func(name string, val reflect.Value) {
		f := v.FieldByName(name)
		if !f.IsValid() {
			panic("the type handed to the source has no field " + name)
		}
		if f.Kind() == reflect.Pointer && val.Kind() != reflect.Pointer {
			p := reflect.New(f.Type().Elem())
			p.Elem().Set(val.Convert(f.Type().Elem()))
			f.Set(p)
		} else {
			f.Set(val)
		}
	}
	if l.Name != nil {
		set("Name", reflect.ValueOf(*l.Name))
	}
	if l.Port != nil {
		set("Port", reflect.ValueOf(*l.Port))
	}
	if l.Limit != nil {
		set("Limit", reflect.ValueOf(*l.Limit))
	}
	if l.Timeout != nil {
		set("Timeout", reflect.ValueOf(time.Duration(*l.Timeout)))
	}
	if l.Tail != nil {
		set("Tail", reflect.ValueOf(l.Tail))
	}
	return v
}

func runC01PF(c C01PFCase) (verdict vrt.Verdict) {
	if len(c.Layers) == 0 || len(c.Layers) > 4 {
		return vrt.Discardf("bad case")
	}
	defer func() {
		if p := recover(); p != nil {
			verdict = vrt.KeyedViolationf("panic", "panic while stacking a config with pointer-to-func / pointer-to-chan fields: %v", p)
		}
	}()
	fn := func() int { return 4711 }
	ch := make(chan int, 1)
	def := &PFCfg{Name: "default", Port: 1, Limit: 2, Timeout: 3, Tail: []string{"d"}}
	if c.DefFunc {
		def.OnReload = &fn
	}
	if c.DefChan {
		def.Notify = &ch
	}
	ctx, cancel := context.WithCancel(context.Background())
	defer cancel()
	want := PFCfg{Name: def.Name, Port: def.Port, Limit: def.Limit, Timeout: def.Timeout, Tail: def.Tail}
	apply := func(l PFLayer) {
		if l.Name != nil {
			want.Name = *l.Name
		}
		if l.Port != nil {
			want.Port = *l.Port
		}
		if l.Limit != nil {
			want.Limit = *l.Limit
		}
		if l.Timeout != nil {
			want.Timeout = time.Duration(*l.Timeout)
		}
		if l.Tail != nil {
			want.Tail = l.Tail
		}
	}
	var srcs []dials.Source
	nStatic := len(c.Layers)
	var w *fake.Watcher
	if c.Watch {
		nStatic--
		w = &fake.Watcher{}
	}
	for i := 0; i < nStatic; i++ {
		l := c.Layers[i]
		srcs = append(srcs, &fake.Static{Mk: func(t *dials.Type) reflect.Value { return pfLayerValue(t.Type(), l) }})
		apply(l)
	}
	if w != nil {
		srcs = append(srcs, w)
	}
	d, err := dials.Config(ctx, def, srcs...)
	if err != nil {
		return vrt.KeyedViolationf("config-error", "Config over a type with *func / *chan fields failed: %v", err)
	}
	if w != nil {
		l := c.Layers[len(c.Layers)-1]
		if err := w.Args.BlockingReportNewValue(ctx, pfLayerValue(w.Type.Type(), l)); err != nil {
			return vrt.KeyedViolationf("report-error", "a watcher update over a type with *func / *chan fields failed: %v", err)
		}
		apply(l)
	}
	got := d.View()
	if got.Name != want.Name || got.Port != want.Port || got.Limit != want.Limit || got.Timeout != want.Timeout || !reflect.DeepEqual(got.Tail, want.Tail) {
		return vrt.KeyedViolationf("shifted", "stacked config {Name:%q Port:%d Limit:%d Timeout:%d Tail:%v}, want {Name:%q Port:%d Limit:%d Timeout:%d Tail:%v} (last layer that sets a leaf wins; the pointer fields in between must not shift anything)",
			got.Name, got.Port, got.Limit, int64(got.Timeout), got.Tail, want.Name, want.Port, want.Limit, int64(want.Timeout), want.Tail)
	}
	if (got.OnReload != nil) != c.DefFunc || (got.OnReload != nil && (*got.OnReload)() != 4711) {
		return vrt.KeyedViolationf("func-default", "the *func field: default set=%v, result %v", c.DefFunc, got.OnReload)
	}
	if (got.Notify != nil) != c.DefChan || (got.Notify != nil && *got.Notify != ch) {
		return vrt.KeyedViolationf("chan-default", "the *chan field: default set=%v, result %v", c.DefChan, got.Notify)
	}
	return vrt.OK(c.DefFunc || c.DefChan, fmt.Sprintf("layers=%d", len(c.Layers)), fmt.Sprintf("watch=%v", c.Watch), fmt.Sprintf("def_func=%v,def_chan=%v", c.DefFunc, c.DefChan))
}

func TestC01PtrFunc(t *testing.T) {
	vrt.Check(t, vrt.Prop[C01PFCase]{
		ID: "C01", Name: "ptrfunc",
		Rule: "a compiled config type with a user-declared *func() int and a *chan int between ordinary leaves (defaults nil or set), 1..3 layers that set any subset of the ordinary leaves by field name (the last one optionally as a watcher update); " +
			"oracle: every ordinary leaf holds the value of the last layer that set it, else the default - nothing is shifted into a neighbouring field and stacking neither fails nor panics; the pointer fields, which no layer sets, keep their default (same func, same channel); " +
			"non-trivial = at least one of the two pointer defaults is set; distinct = distinct case JSON",
		NoJournal: true,
		Gen:       genC01PF, Run: runC01PF,
	})
}
