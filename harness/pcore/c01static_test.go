package pcore

import (
	"context"
	"fmt"
	"net"
	"reflect"
	"testing"
	"time"

	"github.com/vimeo/dials"
	"pgregory.net/rapid"

	"verifharness/internal/fake"
	"verifharness/internal/shape"
	"verifharness/internal/vrt"
)

// ---- compiler-made config types (the public path Config[T] -> View) ----

type ST1Inner struct {
	Deep   uint16
	hidden string
	Label  string
	Fn     func() int
	Rates  map[string]float64
}

type ST1 struct {
	Port     int
	secret   int
	HostName string
	Ch       chan int
	Timeout  time.Duration
	Skip     []string `dials:"-"`
	Tags     []string
	In       ST1Inner
	PIn      *ST1Inner
	Ptr      *int
	PP       **int
	When     time.Time
	PWhen    *time.Time
	IP       net.IP
	Arr      [2]int8
	Level    shape.Level
	Names    shape.Names
	Color    shape.Color
}

type ST2 struct {
	shape.EmbA
	First int32
	*shape.EmbB
	hidden  map[string]int
	Middle  shape.Stamp
	PMiddle *shape.Stamp
	shape.EmbC
	Last   complex64
	Limits shape.Limits
	Set    map[string]struct{}
	MSS    map[string][]string
}

type ST3Leaf struct {
	A bool
	B *string
	C []shape.Rec
}

type ST3Mid struct {
	X    float32
	Leaf ST3Leaf
	PL   *ST3Leaf
	Fn   func() int `dials:"-"`
	Y    uint8
}

type ST3 struct {
	Top  string
	Mid  ST3Mid
	PMid *ST3Mid
	M    map[string]shape.Pt
	Z    uintptr
}

type staticType struct {
	name string
	t    reflect.Type
	run  func(c C01StaticCase) vrt.Verdict
}

var staticTypes []staticType

func init() {
	staticTypes = []staticType{
		{"ST1", reflect.TypeOf(ST1{}), runStatic[ST1]},
		{"ST2", reflect.TypeOf(ST2{}), runStatic[ST2]},
		{"ST3", reflect.TypeOf(ST3{}), runStatic[ST3]},
	}
}

// C01StaticCase: a compiled type by index, defaults and layers; layers are
// served by static sources (and the last ones optionally by a watcher as
// later updates of one slot).
type C01StaticCase struct {
	Type     int        `json:"type"`
	Data     shape.Data `json:"data"`
	Restacks int        `json:"restacks"` // how many of the last layers arrive as watcher updates of the last slot
}

func genC01Static(t *rapid.T) C01StaticCase {
	c := C01StaticCase{Type: rapid.IntRange(0, len(staticTypes)-1).Draw(t, "type")}
	nodes := shape.Walk(staticTypes[c.Type].t)
	c.Data = shape.GenData(t, nodes, 5, 35)
	for i := range c.Data.Layers {
		c.Data.Layers[i].ByPtr = rapid.Bool().Draw(t, "by_ptr")
	}
	if len(c.Data.Layers) > 0 {
		c.Restacks = rapid.IntRange(0, len(c.Data.Layers)-1).Draw(t, "restacks")
	}
	return c
}

func runStatic[T any](c C01StaticCase) vrt.Verdict {
	var zero T
	T0 := reflect.TypeOf(zero)
	b := shape.NewBuilder(T0, shape.ValueOpts{})
	d := c.Data
	nl := len(d.Layers)
	if c.Restacks < 0 || c.Restacks > nl {
		return vrt.Discardf("bad restacks")
	}
	nStatic := nl - c.Restacks
	defaults := b.Defaults(d)
	ctx, cancel := context.WithCancel(context.Background())
	defer cancel()
	mk := func(l shape.Layer) func(t *dials.Type) reflect.Value {
		return func(t *dials.Type) reflect.Value {
			lv, err := b.Layer(t.Type(), l)
			if err != nil {
				panic(fmt.Sprintf("pointerified type cannot hold the layer: %v", err))
			}
			if l.ByPtr {
				return lv.Addr()
			}
			return lv
		}
	}
	var srcs []dials.Source
	for i := 0; i < nStatic; i++ {
		srcs = append(srcs, &fake.Static{Mk: mk(d.Layers[i])})
	}
	var w *fake.Watcher
	if c.Restacks > 0 {
		w = &fake.Watcher{}
		srcs = append(srcs, w)
	}
	dl, err := dials.Config(ctx, defaults.Interface().(*T), srcs...)
	if err != nil {
		return vrt.Violationf("Config failed: %v", err)
	}
	check := func(layers []shape.Layer, what string) string {
		md := d
		md.Layers = layers
		want := b.Expected(md)
		got := reflect.ValueOf(dl.View())
		if df := shape.Diff(want.Elem(), got.Elem()); df != "" {
			return fmt.Sprintf("%s: view differs from the reference model at %s (want vs got)", what, df)
		}
		return ""
	}
	if msg := check(d.Layers[:nStatic], "initial stack"); msg != "" {
		return vrt.Violationf("%s", msg)
	}
	for i := nStatic; i < nl; i++ {
		if err := w.Args.BlockingReportNewValue(ctx, mk(d.Layers[i])(w.Type)); err != nil {
			return vrt.Violationf("re-stack %d failed: %v", i-nStatic, err)
		}
		// the watcher's slot now holds layer i (it replaces the slot's previous value)
		layers := append(append([]shape.Layer{}, d.Layers[:nStatic]...), d.Layers[i])
		if msg := check(layers, fmt.Sprintf("after re-stack %d", i-nStatic)); msg != "" {
			return vrt.Violationf("%s", msg)
		}
	}
	if df := shape.Diff(b.Defaults(d).Elem(), defaults.Elem()); df != "" {
		return vrt.Violationf("the caller's defaults were modified at %s", df)
	}
	setCount := map[string]int{}
	for _, l := range d.Layers[:nStatic] {
		for k := range l.Set {
			setCount[k]++
		}
	}
	multi := false
	for _, n := range setCount {
		if n >= 2 {
			multi = true
		}
	}
	return vrt.OK(nStatic >= 2 && multi, "type="+staticTypes[c.Type].name, fmt.Sprintf("static-layers=%d", nStatic), fmt.Sprintf("restacks=%d", c.Restacks))
}

func TestC01Static(t *testing.T) {
	vrt.Check(t, vrt.Prop[C01StaticCase]{
		ID: "C01", Name: "static",
		Rule: "three compiler-made config types (scalars, durations, time.Time and pointer to it, net.IP, arrays, named scalar / slice / map / text types, user pointers incl. **int, sets, nested / pointer / embedded structs incl. an embedded pointer, and unexported / dials:\"-\" / chan / func fields between retained ones) stacked through the public path Config[T] -> View from 0..5 static sources and, optionally, later watcher updates; defaults and layers from per-(layer,leaf) seeds; " +
			"oracle: the same pure reference model as C01/reflect, leaf by leaf by field name; non-trivial = >=2 static layers with a leaf set by >=2 of them; distinct = distinct case JSON",
		Assumptions: []string{"a watcher update replaces that source's whole slot (documented re-stack semantics)"},
		Gen:         genC01Static,
		Run: func(c C01StaticCase) vrt.Verdict {
			if c.Type < 0 || c.Type >= len(staticTypes) {
				return vrt.Discardf("bad type index")
			}
			return staticTypes[c.Type].run(c)
		},
	})
}
