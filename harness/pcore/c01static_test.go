package pcore

import (
	"context"
	"fmt"
	"net"
	"reflect"
	"testing"
	"time"

	"github.com/vimeo/dials"
	"pgregory.net/rapid"

	"verifharness/internal/fake"
	"verifharness/internal/shape"
	"verifharness/internal/vrt"
)

// ---- compiler-made config types (the public path Config[T] -> View) ----

type ST1Inner struct {
	Deep   uint16
	hidden string
	Label  string
	Fn     func() int
	Rates  map[string]float64
}

type ST1 struct {
	Port     int
	secret   int
	HostName string
	Ch       chan int
	Timeout  time.Duration
	Skip     []string `dials:"-"`
	Tags     []string
	In       ST1Inner
	PIn      *ST1Inner
	Ptr      *int
	PP       **int
	When     time.Time
	PWhen    *time.Time
	IP       net.IP
	Arr      [2]int8
	Level    shape.Level
	Names    shape.Names
	Color    shape.Color
}

type ST2 struct {
	shape.EmbA
	First int32
	*shape.EmbB
	hidden  map[string]int
	Middle  shape.Stamp
	PMiddle *shape.Stamp
	shape.EmbC
	Last   complex64
	Limits shape.Limits
	Set    map[string]struct{}
	MSS    map[string][]string
}

type ST3Leaf struct {
	A bool
	B *string
	C []shape.Rec
}

type ST3Mid struct {
	X    float32
	Leaf ST3Leaf
	PL   *ST3Leaf
	Fn   func() int `dials:"-"`
	Y    uint8
}

type ST3 struct {
	Top  string
	PPL  **ST3Leaf // a user-declared pointer to a pointer to a struct: a leaf, replaced as a whole
	Mid  ST3Mid
	PMid *ST3Mid
	M    map[string]shape.Pt
	Z    uintptr
}

// ST4 embeds text-unmarshalable structs (atomic leaves that happen to be
// embedded) by value and by pointer; only the compiler can make such a type.
type ST4 struct {
	Before int
	shape.Stamp
	Mid []string
	*shape.Tagged
	After string
}

// Window (package level) is text-unmarshalable: an atomic leaf.  The init
// function below declares a function-local PLAIN struct that is also called
// Window - a distinct Go type with the same printed name (pcore.Window) - which
// must be merged field by field.  Both are stacked in the same process.
type Window struct {
	From, To int
	Note     string
}

func (w *Window) UnmarshalText(b []byte) error {
	_, err := fmt.Sscanf(string(b), "%d-%d", &w.From, &w.To)
	return err
}

type ST5 struct {
	Name  string
	Win   Window
	PWin  *Window
	After int
}

// ST7: collections whose elements / map values are nil-able; values leave some
// of them nil (a nil element is a value like any other: arrays, slices and maps
// are replaced as a whole, and a key whose value is nil stays a key).
type ST7 struct {
	Name    string
	Weights [2]*int
	Groups  [3][]string
	ByKey   map[string]*int
	Lists   map[string][]string
	Rows    [][]string
	PArr    *[2]*int
	After   int
}

type staticType struct {
	name string
	t    reflect.Type
	run  func(c C01StaticCase) vrt.Verdict
}

var staticTypes []staticType

func init() {
	staticTypes = []staticType{
		{"ST1", reflect.TypeOf(ST1{}), runStatic[ST1]},
		{"ST2", reflect.TypeOf(ST2{}), runStatic[ST2]},
		{"ST3", reflect.TypeOf(ST3{}), runStatic[ST3]},
		{"ST4", reflect.TypeOf(ST4{}), runStatic[ST4]},
		{"ST5", reflect.TypeOf(ST5{}), runStatic[ST5]},
		{"ST7", reflect.TypeOf(ST7{}), runStatic[ST7]},
	}
	type Window struct {
		From, To int
		Note     string
	}
	type ST6 struct {
		Name  string
		Win   Window
		PWin  *Window
		After int
	}
	staticTypes = append(staticTypes, staticType{"ST6", reflect.TypeOf(ST6{}), runStatic[ST6]})
}

// C01StaticCase: a compiled type by index, defaults and layers.  The first
// len(Layers)-Restacks layers are the initial values of as many sources, in
// argument order; Watch says which of those sources are watchers (static and
// watching sources interleave freely).  The remaining layers arrive later as
// updates of the watcher named by Targets (an update replaces that source's
// whole slot).
type C01StaticCase struct {
	Type     int        `json:"type"`
	Data     shape.Data `json:"data"`
	Restacks int        `json:"restacks"`
	Watch    []bool     `json:"watch,omitempty"`
	Targets  []int      `json:"targets,omitempty"`
	// InPlace: every watcher keeps ONE long-lived value; for an update it
	// rewrites that value in place (same pointers, maps and backing arrays,
	// new contents) and reports it again.
	InPlace bool `json:"in_place,omitempty"`
	// DoneEarly: a watcher calls Done right after its last update while other
	// watchers still have updates to come; its last value stays in the stack.
	DoneEarly bool `json:"done_early,omitempty"`
	// OverwriteDefaults: right after Config returned, the caller overwrites its
	// own defaults struct in place (maps gain and lose keys, slices and pointees
	// are rewritten); "the caller's default" stays what it was at Config time
	OverwriteDefaults bool `json:"overwrite_defaults,omitempty"`
	// RepeatStatic: the first static source OBJECT is listed a second time as
	// the last argument (Config(ctx, def, a, b, a)): it is a layer at both
	// positions, so what it sets wins over everything in between.
	RepeatStatic bool `json:"repeat_static,omitempty"`
}

// assignInPlace makes dst deeply equal to src while keeping dst's own
// pointers, maps and slice backing arrays wherever the shapes allow it.
func assignInPlace(dst, src reflect.Value) {
	switch dst.Kind() {
	case reflect.Pointer:
		if !dst.IsNil() && !src.IsNil() {
			assignInPlace(dst.Elem(), src.Elem())
			return
		}
	case reflect.Map:
		if !dst.IsNil() && !src.IsNil() {
			dst.Clear()
			it := src.MapRange()
			for it.Next() {
				dst.SetMapIndex(it.Key(), it.Value())
			}
			return
		}
	case reflect.Slice:
		if !dst.IsNil() && !src.IsNil() && dst.Len() == src.Len() {
			for i := 0; i < dst.Len(); i++ {
				assignInPlace(dst.Index(i), src.Index(i))
			}
			return
		}
	case reflect.Struct:
		if dst.Type() != timeType {
			for i := 0; i < dst.NumField(); i++ {
				if dst.Field(i).CanSet() {
					assignInPlace(dst.Field(i), src.Field(i))
				}
			}
			return
		}
	case reflect.Array:
		for i := 0; i < dst.Len(); i++ {
			assignInPlace(dst.Index(i), src.Index(i))
		}
		return
	}
	dst.Set(src)
}

var timeType = reflect.TypeOf(time.Time{})

func genC01Static(t *rapid.T) C01StaticCase {
	c := C01StaticCase{Type: rapid.IntRange(0, len(staticTypes)-1).Draw(t, "type")}
	nodes := shape.Walk(staticTypes[c.Type].t)
	c.Data = shape.GenData(t, nodes, 6, 35)
	for i := range c.Data.Layers {
		c.Data.Layers[i].ByPtr = rapid.Bool().Draw(t, "by_ptr")
	}
	nl := len(c.Data.Layers)
	if nl > 0 {
		c.Restacks = rapid.IntRange(0, nl-1).Draw(t, "restacks")
	}
	nInit := nl - c.Restacks
	c.Watch = make([]bool, nInit)
	for i := range c.Watch {
		c.Watch[i] = rapid.IntRange(0, 2).Draw(t, "watching") == 0
	}
	c.InPlace = rapid.IntRange(0, 2).Draw(t, "in_place") == 0
	c.DoneEarly = rapid.IntRange(0, 2).Draw(t, "done_early") == 0
	c.OverwriteDefaults = rapid.IntRange(0, 2).Draw(t, "overwrite_defaults") == 0
	if c.Restacks > 0 {
		any := false
		for _, w := range c.Watch {
			any = any || w
		}
		if !any {
			c.Watch[rapid.IntRange(0, nInit-1).Draw(t, "forced_watcher")] = true
		}
		for i := 0; i < c.Restacks; i++ {
			c.Targets = append(c.Targets, rapid.IntRange(0, nInit-1).Draw(t, "target"))
		}
	}
	c.RepeatStatic = rapid.IntRange(0, 3).Draw(t, "repeat_static") == 0
	return c
}

func runStatic[T any](c C01StaticCase) vrt.Verdict {
	var zero T
	T0 := reflect.TypeOf(zero)
	b := shape.NewBuilder(T0, shape.ValueOpts{NilElems: true})
	d := c.Data
	nl := len(d.Layers)
	if c.Restacks < 0 || c.Restacks > nl {
		return vrt.Discardf("bad restacks")
	}
	nInit := nl - c.Restacks
	watch := c.Watch
	if len(watch) != nInit {
		// older saved cases: all static, one trailing watcher for the updates
		watch = make([]bool, nInit)
	}
	defaults := b.Defaults(d)
	ctx, cancel := context.WithCancel(context.Background())
	defer cancel()
	mk := func(l shape.Layer) func(t *dials.Type) reflect.Value {
		return func(t *dials.Type) reflect.Value {
			lv, err := b.Layer(t.Type(), l)
			if err != nil {
				panic(fmt.Sprintf("pointerified type cannot hold the layer: %v", err))
			}
			if l.ByPtr {
				return lv.Addr()
			}
			return lv
		}
	}
	var srcs []dials.Source
	watchers := map[int]*fake.Watcher{}
	var watcherIdx []int
	for i := 0; i < nInit; i++ {
		if watch[i] {
			w := &fake.Watcher{Mk: mk(d.Layers[i])}
			watchers[i] = w
			watcherIdx = append(watcherIdx, i)
			srcs = append(srcs, w)
		} else {
			srcs = append(srcs, &fake.Static{Mk: mk(d.Layers[i])})
		}
	}
	var tail *fake.Watcher
	if c.Restacks > 0 && len(watcherIdx) == 0 {
		tail = &fake.Watcher{}
		srcs = append(srcs, tail)
	}
	repeated := -1
	if c.RepeatStatic && tail == nil {
		for i := 0; i < nInit-1; i++ {
			if !watch[i] {
				repeated = i
				srcs = append(srcs, srcs[i])
				break
			}
		}
	}
	earlyDone, inPlaceReports := 0, 0
	dl, err := dials.Config(ctx, defaults.Interface().(*T), srcs...)
	if err != nil {
		return vrt.Violationf("Config failed: %v", err)
	}
	slots := append([]shape.Layer{}, d.Layers[:nInit]...)
	if tail != nil {
		slots = append(slots, shape.Layer{})
	}
	if repeated >= 0 {
		slots = append(slots, d.Layers[repeated])
	}
	check := func(what string) string {
		md := d
		md.Layers = slots
		want := b.Expected(md)
		got := reflect.ValueOf(dl.View())
		if df := shape.Diff(want.Elem(), got.Elem()); df != "" {
			return fmt.Sprintf("%s: view differs from the reference model at %s (want vs got)", what, df)
		}
		return ""
	}
	if msg := check("initial stack"); msg != "" {
		return vrt.Violationf("%s", msg)
	}
	if c.OverwriteDefaults {
		shape.Scribble(defaults.Elem())
		if msg := check("after the caller overwrote its own defaults struct in place (no source set these leaves; the default is what Config was given)"); msg != "" {
			return vrt.KeyedViolationf("defaults-overwritten", "%s", msg)
		}
	}
	staticAfterWatcher := false
	persist := map[*fake.Watcher]reflect.Value{}
	// the slot every update goes to, so that "last update of a watcher" is known
	slotOf := func(i int) (*fake.Watcher, int) {
		if tail != nil {
			return tail, len(slots) - 1
		}
		tgt := 0
		if k := i - nInit; k < len(c.Targets) {
			tgt = c.Targets[k]
		}
		slot := watcherIdx[0]
		for _, wi := range watcherIdx {
			if wi >= tgt%nInit {
				slot = wi
				break
			}
		}
		return watchers[slot], slot
	}
	lastUpdate := map[*fake.Watcher]int{}
	for i := nInit; i < nl; i++ {
		w, _ := slotOf(i)
		lastUpdate[w] = i
	}
	doneCalled := map[*fake.Watcher]bool{}
	finishIdle := func(after int) {
		if !c.DoneEarly {
			return
		}
		// watchers with nothing more to report finish, as long as one with pending updates remains
		pending := 0
		for w, lu := range lastUpdate {
			if lu > after && !doneCalled[w] {
				pending++
			}
		}
		if pending == 0 {
			return
		}
		all := []*fake.Watcher{}
		for _, wi := range watcherIdx {
			all = append(all, watchers[wi])
		}
		for _, w := range all {
			if lu, has := lastUpdate[w]; (!has || lu <= after) && !doneCalled[w] {
				w.Args.Done(ctx)
				doneCalled[w] = true
				earlyDone++
			}
		}
	}
	finishIdle(nInit - 1)
	for i := nInit; i < nl; i++ {
		w, slot := tail, len(slots)-1
		if tail == nil {
			tgt := 0
			if k := i - nInit; k < len(c.Targets) {
				tgt = c.Targets[k]
			}
			// the nearest watcher at or after the drawn position (wrapping)
			slot = watcherIdx[0]
			for _, wi := range watcherIdx {
				if wi >= tgt%nInit {
					slot = wi
					break
				}
			}
			w = watchers[slot]
			for j := slot + 1; j < nInit; j++ {
				if !watch[j] {
					staticAfterWatcher = true
				}
			}
		}
		val := mk(d.Layers[i])(w.Type)
		if c.InPlace {
			fresh := val
			if fresh.Kind() == reflect.Pointer {
				fresh = fresh.Elem()
			}
			pv, ok := persist[w]
			if !ok {
				pv = reflect.New(fresh.Type()).Elem()
				pv.Set(fresh)
				persist[w] = pv
			} else {
				assignInPlace(pv, fresh)
				inPlaceReports++
			}
			val = pv
			if d.Layers[i].ByPtr {
				val = pv.Addr()
			}
		}
		if err := w.Args.BlockingReportNewValue(ctx, val); err != nil {
			return vrt.Violationf("re-stack %d failed: %v", i-nInit, err)
		}
		slots[slot] = d.Layers[i]
		if msg := check(fmt.Sprintf("after update %d (source %d of %d; in place=%v, watchers finished early=%d)", i-nInit, slot, len(slots), c.InPlace, earlyDone)); msg != "" {
			return vrt.Violationf("%s", msg)
		}
		finishIdle(i)
	}
	if df := shape.Diff(b.Defaults(d).Elem(), defaults.Elem()); df != "" && !c.OverwriteDefaults {
		return vrt.Violationf("the caller's defaults were modified at %s", df)
	}
	setCount := map[string]int{}
	for _, l := range d.Layers[:nInit] {
		for k := range l.Set {
			setCount[k]++
		}
	}
	multi := false
	for _, n := range setCount {
		if n >= 2 {
			multi = true
		}
	}
	labels := []string{"type=" + staticTypes[c.Type].name, fmt.Sprintf("sources=%d", nInit), fmt.Sprintf("watchers=%d", len(watcherIdx)), fmt.Sprintf("restacks=%d", c.Restacks)}
	if repeated >= 0 {
		labels = append(labels, "repeated-source")
	}
	if staticAfterWatcher {
		labels = append(labels, "update-below-a-static-source")
	}
	if inPlaceReports > 0 {
		labels = append(labels, "value-rewritten-in-place-and-re-reported")
	}
	if earlyDone > 0 {
		labels = append(labels, "watcher-finished-before-later-updates")
	}
	return vrt.OK(nInit >= 2 && multi, labels...)
}

func TestC01Static(t *testing.T) {
	vrt.Check(t, vrt.Prop[C01StaticCase]{
		ID: "C01", Name: "static",
		Rule: "seven compiler-made config types (one with arrays, slices and maps of nil-able elements in which values leave some elements / map values nil; two of them differ only in a nested struct type called Window: a package-level text-unmarshalable one and a function-local plain one with the same printed name; scalars, durations, time.Time and pointer to it, net.IP, arrays, named scalar / slice / map / text types, user pointers incl. **int, sets, nested / pointer / embedded structs incl. an embedded pointer, and unexported / dials:\"-\" / chan / func fields between retained ones) stacked through the public path Config[T] -> View from 0..6 sources, static and watching ones interleaved in any argument order, followed by later updates of any of the watchers (in a third of the cases every watcher rewrites ONE long-lived value in place and re-reports it; in a third, watchers call Done after their last update while others still report; in a third, the caller overwrites its own defaults struct in place right after Config); defaults and layers from per-(layer,leaf) seeds; " +
			"oracle: the same pure reference model as C01/reflect, leaf by leaf by field name; non-trivial = >=2 static layers with a leaf set by >=2 of them; distinct = distinct case JSON",
		Assumptions: []string{"a watcher update replaces that source's whole slot (documented re-stack semantics)"},
		Gen:         genC01Static,
		Run: func(c C01StaticCase) vrt.Verdict {
			if c.Type < 0 || c.Type >= len(staticTypes) {
				return vrt.Discardf("bad type index")
			}
			return staticTypes[c.Type].run(c)
		},
	})
}
