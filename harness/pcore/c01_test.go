package pcore

import (
	"fmt"
	"reflect"
	"strings"
	"testing"

	"github.com/vimeo/dials"
	"github.com/vimeo/dials/ptrify"
	"pgregory.net/rapid"

	"verifharness/internal/shape"
	"verifharness/internal/vrt"
)

// C01Case is a generated config type with defaults and layers.
type C01Case struct {
	Shape shape.Shape `json:"shape"`
	Data  shape.Data  `json:"data"`
	// InsertEmptyAt / SplitLayer drive the two metamorphic relations.
	InsertEmptyAt int `json:"insert_empty_at"`
	SplitLayer    int `json:"split_layer"`
}

func genC01(t *rapid.T) C01Case {
	prof := shape.FullProfile()
	prof.AllowEmptyStructs = true
	prof.LeafTypes = append(append([]string{}, prof.LeafTypes...), "Tagged", "*Tagged", "[]Tagged", "map[string]Tagged")
	s := shape.Gen(t, prof)
	T, err := s.Build()
	if err != nil {
		t.Fatalf("generated shape does not build: %v", err)
	}
	nodes := shape.Walk(T)
	d := shape.GenData(t, nodes, 5, 35)
	c := C01Case{Shape: s, Data: d}
	c.InsertEmptyAt = rapid.IntRange(0, len(d.Layers)).Draw(t, "insert_empty_at")
	c.SplitLayer = rapid.IntRange(0, 5).Draw(t, "split_layer")
	return c
}

func composeWith(b *shape.Builder, d shape.Data) (reflect.Value, reflect.Value, error) {
	defaults := b.Defaults(d)
	pt := ptrify.Pointerify(b.T, defaults.Elem())
	layers := make([]reflect.Value, 0, len(d.Layers))
	for i, l := range d.Layers {
		lv, err := b.Layer(pt, l)
		if err != nil {
			return defaults, reflect.Value{}, fmt.Errorf("harness: layer %d: %w", i, err)
		}
		if l.ByPtr {
			lv = lv.Addr()
		}
		layers = append(layers, lv)
	}
	got, err := dials.VerifCompose(defaults.Interface(), layers)
	if err != nil {
		return defaults, reflect.Value{}, err
	}
	return defaults, reflect.ValueOf(got), nil
}

func runC01(c C01Case) vrt.Verdict {
	T, err := c.Shape.Build()
	if err != nil {
		return vrt.Discardf("shape does not build")
	}
	nodes := shape.Walk(T)
	b := shape.NewBuilder(T, shape.ValueOpts{})
	d := c.Data

	defaults, got, err := composeWith(b, d)
	if err != nil {
		if strings.HasPrefix(err.Error(), "harness:") {
			return vrt.Violationf("pointerified type cannot hold the layer: %v", err)
		}
		return vrt.Violationf("stacking failed: %v", err)
	}
	if got.Type() != reflect.PointerTo(T) {
		return vrt.Violationf("stacked value has type %s, want %s", got.Type(), reflect.PointerTo(T))
	}
	want := b.Expected(d)
	if df := shape.Diff(want.Elem(), got.Elem()); df != "" {
		return vrt.Violationf("stacked config differs from the reference model at %s (want vs got)", df)
	}
	// the caller's defaults are not modified
	if df := shape.Diff(b.Defaults(d).Elem(), defaults.Elem()); df != "" {
		return vrt.Violationf("defaults were modified by stacking at %s (fresh vs after)", df)
	}

	// metamorphic 1: an all-unset layer anywhere changes nothing
	d2 := d
	d2.Layers = append(append(append([]shape.Layer{}, d.Layers[:min(c.InsertEmptyAt, len(d.Layers))]...), shape.Layer{}), d.Layers[min(c.InsertEmptyAt, len(d.Layers)):]...)
	_, got2, err := composeWith(b, d2)
	if err != nil {
		return vrt.Violationf("stacking with an extra empty layer failed: %v", err)
	}
	if df := shape.Diff(got.Elem(), got2.Elem()); df != "" {
		return vrt.Violationf("inserting an all-unset layer at %d changed the result at %s", c.InsertEmptyAt, df)
	}
	// metamorphic 2: splitting a layer into two adjacent layers with disjoint leaves changes nothing
	if len(d.Layers) > 0 {
		k := c.SplitLayer % len(d.Layers)
		l := d.Layers[k]
		a := shape.Layer{Set: map[string]uint64{}, Present: l.Present, ByPtr: l.ByPtr}
		bb := shape.Layer{Set: map[string]uint64{}, Present: l.Present, ByPtr: !l.ByPtr}
		for i, key := range shape.SortedKeys(l.Set) {
			if i%2 == 0 {
				a.Set[key] = l.Set[key]
			} else {
				bb.Set[key] = l.Set[key]
			}
		}
		d3 := d
		d3.Layers = append(append(append([]shape.Layer{}, d.Layers[:k]...), a, bb), d.Layers[k+1:]...)
		_, got3, err := composeWith(b, d3)
		if err != nil {
			return vrt.Violationf("stacking with layer %d split in two failed: %v", k, err)
		}
		if df := shape.Diff(got.Elem(), got3.Elem()); df != "" {
			return vrt.Violationf("splitting layer %d into two disjoint layers changed the result at %s", k, df)
		}
	}

	// classification
	setCount := map[string]int{}
	for _, l := range d.Layers {
		for k := range l.Set {
			setCount[k]++
		}
	}
	multi, skipAdj, ptrOver := false, false, false
	labels := []string{fmt.Sprintf("layers=%d", len(d.Layers))}
	kinds := map[string]bool{}
	for i, n := range nodes {
		if setCount[n.Path] >= 2 {
			multi = true
		}
		if n.Class == shape.ClassSkip {
			kinds["skip"] = true
			for _, j := range []int{i - 1, i + 1} {
				if j >= 0 && j < len(nodes) && nodes[j].Parent == n.Parent && setCount[nodes[j].Path] > 0 {
					skipAdj = true
				}
			}
		}
		if n.Class == shape.ClassLeaf && n.Type.Kind() == reflect.Pointer && setCount[n.Path] > 0 && d.Defaults[n.Path] != 0 {
			ptrOver = true
		}
		switch n.Class {
		case shape.ClassPStruct:
			kinds["pstruct"] = true
			if d.DefNil[n.Path] {
				kinds["pstruct-nil-default"] = true
			}
		case shape.ClassStruct:
			kinds["struct"] = true
		}
		if n.SF.Anonymous {
			kinds["embedded"] = true
		}
		if n.Class == shape.ClassLeaf {
			kinds["leaf:"+n.Type.Kind().String()] = true
		}
	}
	for k := range kinds {
		labels = append(labels, k)
	}
	if multi {
		labels = append(labels, "leaf-set-by>=2-layers")
	}
	if skipAdj {
		labels = append(labels, "skip-adjacent-to-set")
	}
	if ptrOver {
		labels = append(labels, "user-pointer-over-non-nil")
	}
	return vrt.OK(len(d.Layers) >= 2 && (multi || skipAdj || ptrOver), labels...)
}

func TestC01Reflect(t *testing.T) {
	vrt.Check(t, vrt.Prop[C01Case]{
		ID: "C01", Name: "reflect",
		Rule: "config struct types drawn from the full shape grammar (scalars, strings, durations, text-unmarshalable types, slices, arrays, maps, user pointers, named types, nested / pointer / embedded structs, skipped fields in any position; depth<=3, <=8 fields per struct) built with reflect.StructOf; " +
			"defaults and 0..5 layers with independent set/unset per leaf, values from per-(layer,leaf) seeds; stacked through compose and compared leaf by leaf (by field name) with a pure reference model, plus two metamorphic relations (insert an all-unset layer; split a layer); " +
			"non-trivial = >=2 layers and (a leaf set by >=2 layers, or a skipped field adjacent to a set field, or a user-declared pointer set over a non-nil default); distinct = distinct case JSON",
		Assumptions: []string{
			"layers are values of the pointerified type Pointerify(T, defaults), as every shipped source produces",
			"interface-typed fields are outside the property's quantifier",
			"compose is reached through the verif-tagged export VerifCompose because reflect-built types cannot be type arguments of Config",
		},
		Gen: genC01, Run: runC01,
	})
}
