package pcore

import (
	"fmt"
	"reflect"
	"sync"
	"testing"

	"github.com/vimeo/dials"
	"github.com/vimeo/dials/ptrify"
	"pgregory.net/rapid"

	"verifharness/internal/shape"
	"verifharness/internal/vrt"
)

// C02ConcCase: a config type whose collections have elements of a struct type
// that (almost surely) no earlier case has used - field names are drawn - and
// several goroutines stacking the same inputs at the same moment, as happens
// when a program builds more than one Dials for a type at start-up.  Whatever
// the library caches per type must be correct from the very first use.
type C02ConcCase struct {
	ElemFields []ElemField `json:"elem_fields"`
	Seed       uint64      `json:"seed"`
	LayerSeed  uint64      `json:"layer_seed"`
	Workers    int         `json:"workers"`
	Pad        int         `json:"pad,omitempty"` // scalar fields in front of the drawn ones (a wide, mostly flat element type)
	Stagger    []int       `json:"stagger"`       // spin iterations before each worker starts
}

type ElemField struct {
	Name string `json:"name"`
	Type string `json:"type"`
}

var elemFieldTypes = []string{"int", "string", "float64", "[2]int", "*int", "[]int", "map[string]int", "[2]*int", "[]string", "Pt", "Rec"}

func genC02Conc(t *rapid.T) C02ConcCase {
	c := C02ConcCase{Seed: rapid.Uint64Range(1, 1<<40).Draw(t, "seed"), LayerSeed: rapid.Uint64Range(1, 1<<40).Draw(t, "layer_seed"), Workers: rapid.IntRange(2, 8).Draw(t, "workers")}
	n := rapid.IntRange(2, 6).Draw(t, "fields")
	refAt := rapid.IntRange(0, n-1).Draw(t, "ref_at")
	for i := 0; i < n; i++ {
		ty := rapid.SampledFrom(elemFieldTypes).Draw(t, "ftype")
		if i == refAt {
			// at least one reference, at any position (also last)
			ty = rapid.SampledFrom([]string{"*int", "[]int", "map[string]int", "[2]*int", "Rec"}).Draw(t, "reftype")
		}
		c.ElemFields = append(c.ElemFields, ElemField{Name: fmt.Sprintf("F%d%s", i, rapid.StringMatching("[A-Z][a-z0-9]{4,8}").Draw(t, "fname")), Type: ty})
	}
	if rapid.IntRange(0, 2).Draw(t, "padded") == 0 {
		c.Pad = rapid.IntRange(50, 1500).Draw(t, "pad")
	}
	for i := 0; i < c.Workers; i++ {
		c.Stagger = append(c.Stagger, rapid.IntRange(0, 60000).Draw(t, "stagger"))
	}
	return c
}

func runC02Conc(c C02ConcCase) (verdict vrt.Verdict) {
	if len(c.ElemFields) == 0 || c.Workers < 1 || c.Workers > 32 || len(c.Stagger) != c.Workers || c.Pad < 0 || c.Pad > 5000 {
		return vrt.Discardf("bad case")
	}
	defer func() {
		if p := recover(); p != nil {
			verdict = vrt.KeyedViolationf("panic", "panic while stacking concurrently: %v", p)
		}
	}()
	var efs []reflect.StructField
	for i := 0; i < c.Pad; i++ {
		efs = append(efs, reflect.StructField{Name: fmt.Sprintf("P%d", i), Type: reflect.TypeOf(0)})
	}
	for _, f := range c.ElemFields {
		ft, err := shape.ParseType(f.Type)
		if err != nil {
			return vrt.Discardf("bad type")
		}
		efs = append(efs, reflect.StructField{Name: f.Name, Type: ft})
	}
	elem := reflect.StructOf(efs)
	T := reflect.StructOf([]reflect.StructField{
		{Name: "List", Type: reflect.SliceOf(elem)},
		{Name: "Arr", Type: reflect.ArrayOf(2, elem)},
		{Name: "ByKey", Type: reflect.MapOf(reflect.TypeOf(""), elem)},
		{Name: "N", Type: reflect.TypeOf(0)},
	})
	mkDefaults := func() reflect.Value {
		d := reflect.New(T)
		d.Elem().Field(0).Set(shape.MakeValue(T.Field(0).Type, c.Seed, shape.ValueOpts{}))
		d.Elem().Field(1).Set(shape.MakeValue(T.Field(1).Type, c.Seed+1, shape.ValueOpts{}))
		d.Elem().Field(2).Set(shape.MakeValue(T.Field(2).Type, c.Seed+2, shape.ValueOpts{}))
		return d
	}
	defaults := mkDefaults()
	pt := ptrify.Pointerify(T, defaults.Elem())
	mkLayer := func() reflect.Value {
		l := reflect.New(pt).Elem()
		// the layer replaces the list, the defaults' array and map show through
		l.FieldByName("List").Set(shape.MakeValue(T.Field(0).Type, c.LayerSeed, shape.ValueOpts{}))
		return l
	}
	layer := mkLayer()
	want := mkDefaults()
	want.Elem().Field(0).Set(shape.MakeValue(T.Field(0).Type, c.LayerSeed, shape.ValueOpts{}))

	results := make([]reflect.Value, c.Workers)
	errs := make([]error, c.Workers)
	panics := make([]any, c.Workers)
	var start, done sync.WaitGroup
	start.Add(1)
	for w := 0; w < c.Workers; w++ {
		done.Add(1)
		go func(w int) {
			defer done.Done()
			defer func() { panics[w] = recover() }()
			start.Wait()
			x := 0
			for i := 0; i < c.Stagger[w]; i++ {
				x += i
			}
			_ = x
			got, err := dials.VerifCompose(defaults.Interface(), []reflect.Value{layer})
			if err != nil {
				errs[w] = err
				return
			}
			results[w] = reflect.ValueOf(got)
		}(w)
	}
	start.Done()
	done.Wait()
	inRegions := append(shape.Regions(defaults), shape.Regions(layer)...)
	for w := range results {
		if panics[w] != nil {
			return vrt.KeyedViolationf("panic", "worker %d: stacking panicked: %v", w, panics[w])
		}
		if errs[w] != nil {
			return vrt.Violationf("worker %d: stacking failed: %v", w, errs[w])
		}
		if df := shape.Diff(want.Elem(), results[w].Elem()); df != "" {
			return vrt.Violationf("worker %d of %d concurrent stackings: result differs from the model at %s (want vs got)", w, c.Workers, df)
		}
		rw := shape.Regions(results[w])
		if o := shape.Overlap(rw, inRegions); o != "" {
			return vrt.Violationf("worker %d of %d concurrent stackings of a type used for the first time: the stacked config shares memory with the inputs: (config) %s", w, c.Workers, o)
		}
		for v := 0; v < w; v++ {
			if o := shape.Overlap(rw, shape.Regions(results[v])); o != "" {
				return vrt.Violationf("concurrent stackings %d and %d share memory: %s", v, w, o)
			}
		}
	}
	if df := shape.Diff(mkDefaults().Elem(), defaults.Elem()); df != "" {
		return vrt.Violationf("the defaults were modified at %s", df)
	}
	if df := shape.Diff(mkLayer(), layer); df != "" {
		return vrt.Violationf("the source value was modified at %s", df)
	}
	nonEmpty := defaults.Elem().Field(0).Len() > 0 || layer.FieldByName("List").Len() > 0
	return vrt.OK(c.Workers >= 2 && nonEmpty, fmt.Sprintf("workers=%d", c.Workers), fmt.Sprintf("elem-fields=%d", len(c.ElemFields)), fmt.Sprintf("wide-element=%v", c.Pad > 0))
}

func TestC02Concurrent(t *testing.T) {
	vrt.Check(t, vrt.Prop[C02ConcCase]{
		ID: "C02", Name: "concurrent", NoJournal: true,
		Rule: "a config type with a slice, an array and a map whose element is a reflect-built struct type with drawn field names (2..6 fields, in a third of the cases behind 50..1500 scalar fields - a wide generated config -, at least one reference field at a drawn position: pointer, slice, map, array of pointers, struct with references) - so the type is new to the process - stacked by 2..8 goroutines released together with drawn start offsets (real cores); " +
			"oracle: every result equals the model, is address-disjoint from the defaults, the source value and every other result, and the inputs are unmodified; " +
			"non-trivial = >=2 workers and a non-empty list; distinct = distinct case JSON",
		Assumptions: []string{"scheduling is the operating system's: a per-type first-use window is hit only with some probability per case, the thorough tier adds -race"},
		Gen:         genC02Conc, Run: runC02Conc,
	})
}
