package pcore

import (
	"context"
	"fmt"
	"reflect"
	"runtime/debug"
	"sort"
	"sync"
	"testing"
	"time"

	"github.com/vimeo/dials"
	"pgregory.net/rapid"

	"verifharness/internal/fake"
	"verifharness/internal/vrt"
)

// ---- the fixed family of recursive node types ----

// GEdge sits BY VALUE in slices and arrays and holds a reference.
type GEdge struct {
	To *GNode
	W  int
}

// NodeIndex is a NAMED map type: the same map object may sit in a field of
// this type and in one of the unnamed type map[string]*GNode.
type NodeIndex map[string]*GNode

type GNode struct {
	seq    int // unexported and FIRST: the exported references after it are still the copier's business
	ID     int
	Edges  []GEdge
	Duo    [2]GEdge
	Grid   [2][1]*GNode
	Next   *GNode
	Kids   []*GNode
	Pair   [2]*GNode
	ByName map[string]*GNode
	Idx    NodeIndex // may be the very map ByName (here or in another node) holds
	Any    interface{}
	Attrs  map[string]interface{}
	Leaf   *GLeaf
	// pointers whose pointee is itself a reference (shared between nodes)
	PS *[]*GNode
	PM *map[string]int
	PP **GNode
	// maps whose VALUES are slices / maps that other fields share
	Groups  map[string][]*GNode
	Buckets map[string]map[string]int
	// an exported reference field the stacker skips: still part of the graph
	// the deep copier has to reproduce
	Skip *GNode `dials:"-"`
	// a node type that implements encoding.TextUnmarshaler and still has
	// exported references: stacking treats it as a leaf, the copier may not
	T *TNode
}

// TNode is a text-unmarshalable struct with exported reference fields: the
// only struct shape that can refer to itself through a plain pointer field in a
// config type.
type TNode struct {
	Name string
	Peer *TNode
	To   *GNode
	Tags map[string]int
	List []*TNode
}

func (t *TNode) UnmarshalText(b []byte) error { t.Name = string(b); return nil }

// PEdge is held BY VALUE in interfaces; its unexported fields are part of the value.
type PEdge struct {
	To  *GNode
	w   int
	tag string
}

type TDesc struct {
	Peer int   `json:"peer"` // tnode index, -1 = nil
	To   int   `json:"to"`   // node index, -1 = nil
	Tags int   `json:"tags"` // tag map pool index, -1 = nil
	List []int `json:"list,omitempty"`
}

type GLeaf struct {
	gen  int
	Back *GNode
	Tags map[string]int
	N    *int
}

// GRoot is a config root: it reaches GNode only through slices, maps, arrays
// and nil-default interfaces (a config *type* that contains itself through
// struct-field pointers cannot be pointerified with reflect.StructOf at all).
type GRoot struct {
	All   []*GNode
	Index map[string]*GNode
	Pair  [2]*GNode
	Any   interface{}
	// user-declared pointers that may alias one another (shared *int)
	Count *int
	Other *int
	// back-references to the config root itself (through a slice: a config
	// type cannot contain itself through a struct-field pointer)
	Self []*GRoot
	// a text-unmarshalable struct with references at the root: a leaf for stacking
	T *TNode
}

// ---- descriptors ----

type AnyDesc struct {
	Kind  string `json:"kind"` // nil node nodemap nodeslice nodearray attrs nodeval int string islice
	Node  int    `json:"node,omitempty"`
	Nodes []int  `json:"nodes,omitempty"`
	Pool  int    `json:"pool,omitempty"`
	Num   int    `json:"num,omitempty"`
}

type LeafDesc struct {
	Back int `json:"back"`
	Tags int `json:"tags"`
	N    int `json:"n"`
}

type NodeDesc struct {
	Next     int                `json:"next"`
	Edges    []int              `json:"edges,omitempty"`
	Duo      [2]int             `json:"duo"`
	Grid     [2]int             `json:"grid"`
	KidsOf   int                `json:"kids_of"`  // >= 0: Kids is a prefix view (same backing array) of that node's Kids
	KidsLen  int                `json:"kids_len"` // length of the prefix view
	Kids     []int              `json:"kids,omitempty"`
	Pair     [2]int             `json:"pair"`
	ByName   int                `json:"by_name"`
	IdxP1    int                `json:"idx_p1,omitempty"` // node-map pool index + 1 held in the NAMED map type field
	Any      AnyDesc            `json:"any"`
	HasAttrs bool               `json:"has_attrs,omitempty"`
	Attrs    map[string]AnyDesc `json:"attrs,omitempty"`
	Leaf     *LeafDesc          `json:"leaf,omitempty"`
	SkipP1   int                `json:"skip_p1,omitempty"` // node index + 1 for the dials:"-" field, 0 = nil
	PSP1     int                `json:"ps_p1,omitempty"`   // pool index + 1 of a shared *[]*GNode
	PMP1     int                `json:"pm_p1,omitempty"`   // pool index + 1 of a shared *map[string]int
	PPP1     int                `json:"pp_p1,omitempty"`   // pool index + 1 of a shared **GNode
	Groups   map[string]int     `json:"groups,omitempty"`  // key -> node whose Kids slice is the (shared) value
	Buckets  map[string]int     `json:"buckets,omitempty"` // key -> tag map pool index (shared with leaves)
	TP1      int                `json:"t_p1,omitempty"`    // tnode index + 1
}

type GraphDesc struct {
	Nodes    []NodeDesc       `json:"nodes"`
	NodeMaps []map[string]int `json:"node_maps,omitempty"`
	TagMaps  []map[string]int `json:"tag_maps,omitempty"`
	Ints     []int            `json:"ints,omitempty"`
	PSlices  [][]int          `json:"p_slices,omitempty"` // pool of *[]*GNode (node indices)
	PMaps    []int            `json:"p_maps,omitempty"`   // pool of *map[string]int (tag map indices)
	PPtrs    []int            `json:"p_ptrs,omitempty"`   // pool of **GNode (node indices)
	TNodes   []TDesc          `json:"t_nodes,omitempty"`
	// Ring > 0: that many further nodes chained through Next into a ring that
	// closes on itself (any number of nodes: hundreds, not just a handful)
	Ring int `json:"ring,omitempty"`
}

type RootDesc struct {
	All     []int   `json:"all,omitempty"`
	HasAll  bool    `json:"has_all,omitempty"`
	Index   int     `json:"index"`
	Pair    [2]int  `json:"pair"`
	HasPair bool    `json:"has_pair,omitempty"`
	Any     AnyDesc `json:"any"`
	Count   int     `json:"count"` // index into the shared *int pool, -1 = nil
	Other   int     `json:"other"`
	SelfRef bool    `json:"self_ref,omitempty"` // Self holds a pointer to this very root
	TP1     int     `json:"t_p1,omitempty"`     // tnode index + 1
}

type C03Case struct {
	Graph GraphDesc `json:"graph"`
	Mode  string    `json:"mode"` // copy-node | copy-root | config | restack
	Start int       `json:"start"`
	Def   RootDesc  `json:"def"`
	Layer RootDesc  `json:"layer"`
	// Layer2: a second source stacked above Layer (mode config only): both may
	// set the same interface-typed field
	Layer2 *RootDesc `json:"layer2,omitempty"`
}

// ---- generator ----

func genNodeRef(t *rapid.T, n int, label string) int {
	if n == 0 {
		return -1
	}
	return rapid.IntRange(-1, n-1).Draw(t, label)
}

func genAny(t *rapid.T, n, pools int, selfNode int, label string) AnyDesc {
	// typed nils: an interface that holds a nil map / slice / pointer is not a nil interface
	// intptr: a *int from the shared pool (the one Count / Other / Leaf.N use),
	// so an interface and ordinary pointer fields can hold the same scalar pointer
	kinds := []string{"nil", "nil", "int", "string", "nilmap", "nilslice", "nilptr", "intptr"}
	if n > 0 {
		kinds = append(kinds, "node", "node", "nodeslice", "nodearray", "nodeval", "attrs", "islice", "selfslice", "edgeval", "time")
		if pools > 0 {
			kinds = append(kinds, "nodemap")
		}
	}
	k := rapid.SampledFrom(kinds).Draw(t, label+"_kind")
	a := AnyDesc{Kind: k}
	switch k {
	case "node", "nodearray", "nodeval", "attrs", "selfslice":
		a.Node = rapid.IntRange(0, n-1).Draw(t, label+"_node")
	case "edgeval":
		a.Node = rapid.IntRange(-1, n-1).Draw(t, label+"_node")
		a.Num = rapid.IntRange(1, 99).Draw(t, label+"_num")
	case "time":
		a.Num = rapid.IntRange(1, 99).Draw(t, label+"_num")
	case "nodeslice", "islice":
		m := rapid.IntRange(0, 3).Draw(t, label+"_len")
		lo := 0
		if k == "islice" {
			lo = -1 // no node: a nil interface or a typed nil element
			a.Num = rapid.IntRange(0, 2).Draw(t, label+"_nilkind")
		}
		for i := 0; i < m; i++ {
			a.Nodes = append(a.Nodes, rapid.IntRange(lo, n-1).Draw(t, label+"_el"))
		}
	case "nodemap":
		a.Pool = rapid.IntRange(0, pools-1).Draw(t, label+"_pool")
	case "int", "string", "intptr":
		a.Num = rapid.IntRange(0, 99).Draw(t, label+"_num")
	}
	return a
}

func genGraph(t *rapid.T) GraphDesc {
	n := rapid.IntRange(0, 8).Draw(t, "nodes")
	g := GraphDesc{}
	nm := rapid.IntRange(0, 3).Draw(t, "nodemaps")
	if n == 0 {
		nm = 0
	}
	for i := 0; i < nm; i++ {
		m := map[string]int{}
		for j, k := 0, rapid.IntRange(0, 3).Draw(t, "nm_len"); j < k; j++ {
			m[fmt.Sprintf("n%d", j)] = rapid.IntRange(-1, n-1).Draw(t, "nm_node")
		}
		g.NodeMaps = append(g.NodeMaps, m)
	}
	for i, k := 0, rapid.IntRange(0, 2).Draw(t, "tagmaps"); i < k; i++ {
		m := map[string]int{}
		for j, l := 0, rapid.IntRange(0, 3).Draw(t, "tm_len"); j < l; j++ {
			m[fmt.Sprintf("t%d", j)] = rapid.IntRange(0, 9).Draw(t, "tm_val")
		}
		g.TagMaps = append(g.TagMaps, m)
	}
	for i, k := 0, rapid.IntRange(0, 2).Draw(t, "ints"); i < k; i++ {
		g.Ints = append(g.Ints, rapid.IntRange(0, 99).Draw(t, "int"))
	}
	if n > 0 {
		for i, k := 0, rapid.IntRange(0, 2).Draw(t, "pslices"); i < k; i++ {
			var idx []int
			for j, l := 0, rapid.IntRange(0, 3).Draw(t, "ps_len"); j < l; j++ {
				idx = append(idx, genNodeRef(t, n, "ps_el"))
			}
			g.PSlices = append(g.PSlices, idx)
		}
		for i, k := 0, rapid.IntRange(0, 2).Draw(t, "pptrs"); i < k; i++ {
			g.PPtrs = append(g.PPtrs, genNodeRef(t, n, "pp_el"))
		}
	}
	for i, k := 0, rapid.IntRange(0, 2).Draw(t, "pmaps"); i < k && len(g.TagMaps) > 0; i++ {
		g.PMaps = append(g.PMaps, rapid.IntRange(0, len(g.TagMaps)-1).Draw(t, "pm_el"))
	}
	nt := 0
	if n > 0 {
		nt = rapid.IntRange(0, 3).Draw(t, "tnodes")
	}
	for i := 0; i < nt; i++ {
		td := TDesc{Peer: rapid.IntRange(-1, nt-1).Draw(t, "t_peer"), To: genNodeRef(t, n, "t_to"), Tags: -1}
		if len(g.TagMaps) > 0 {
			td.Tags = rapid.IntRange(-1, len(g.TagMaps)-1).Draw(t, "t_tags")
		}
		for j, k := 0, rapid.IntRange(0, 2).Draw(t, "t_list"); j < k; j++ {
			td.List = append(td.List, rapid.IntRange(-1, nt-1).Draw(t, "t_el"))
		}
		g.TNodes = append(g.TNodes, td)
	}
	for i := 0; i < n; i++ {
		nd := NodeDesc{Next: genNodeRef(t, n, "next"), Pair: [2]int{genNodeRef(t, n, "pair0"), genNodeRef(t, n, "pair1")}, ByName: -1, KidsOf: -1}
		nd.Duo = [2]int{genNodeRef(t, n, "duo0"), genNodeRef(t, n, "duo1")}
		nd.Grid = [2]int{genNodeRef(t, n, "grid0"), genNodeRef(t, n, "grid1")}
		for j, k := 0, rapid.IntRange(0, 3).Draw(t, "edges"); j < k; j++ {
			nd.Edges = append(nd.Edges, genNodeRef(t, n, "edge"))
		}
		if i > 0 && rapid.IntRange(0, 3).Draw(t, "kids_view") == 0 {
			// a prefix view of an earlier node's Kids: same backing array, shorter length
			nd.KidsOf = rapid.IntRange(0, i-1).Draw(t, "kids_of")
			nd.KidsLen = rapid.IntRange(0, 3).Draw(t, "kids_len")
		}
		for j, k := 0, rapid.IntRange(0, 3).Draw(t, "kids"); j < k; j++ {
			nd.Kids = append(nd.Kids, genNodeRef(t, n, "kid"))
		}
		if nm > 0 && rapid.Bool().Draw(t, "has_byname") {
			nd.ByName = rapid.IntRange(0, nm-1).Draw(t, "byname")
		}
		if nm > 0 && rapid.Bool().Draw(t, "has_idx") {
			nd.IdxP1 = rapid.IntRange(0, nm-1).Draw(t, "idx") + 1
		}
		nd.Any = genAny(t, n, nm, i, "any")
		if len(g.PSlices) > 0 && rapid.Bool().Draw(t, "has_ps") {
			nd.PSP1 = rapid.IntRange(0, len(g.PSlices)-1).Draw(t, "ps") + 1
		}
		if len(g.PMaps) > 0 && rapid.Bool().Draw(t, "has_pm") {
			nd.PMP1 = rapid.IntRange(0, len(g.PMaps)-1).Draw(t, "pm") + 1
		}
		if len(g.PPtrs) > 0 && rapid.Bool().Draw(t, "has_pp") {
			nd.PPP1 = rapid.IntRange(0, len(g.PPtrs)-1).Draw(t, "pp") + 1
		}
		if rapid.IntRange(0, 3).Draw(t, "has_groups") == 0 {
			nd.Groups = map[string]int{}
			for j, k := 0, rapid.IntRange(1, 3).Draw(t, "groups_len"); j < k; j++ {
				nd.Groups[fmt.Sprintf("g%d", j)] = rapid.IntRange(0, n-1).Draw(t, "group_of")
			}
		}
		if len(g.TagMaps) > 0 && rapid.IntRange(0, 3).Draw(t, "has_buckets") == 0 {
			nd.Buckets = map[string]int{}
			for j, k := 0, rapid.IntRange(1, 3).Draw(t, "buckets_len"); j < k; j++ {
				nd.Buckets[fmt.Sprintf("b%d", j)] = rapid.IntRange(0, len(g.TagMaps)-1).Draw(t, "bucket_of")
			}
		}
		if nt > 0 && rapid.Bool().Draw(t, "has_t") {
			nd.TP1 = rapid.IntRange(0, nt-1).Draw(t, "t") + 1
		}
		if rapid.IntRange(0, 2).Draw(t, "has_skip") == 0 {
			nd.SkipP1 = genNodeRef(t, n, "skip") + 1
		}
		if rapid.IntRange(0, 2).Draw(t, "has_attrs") == 0 {
			nd.HasAttrs = true
			nd.Attrs = map[string]AnyDesc{}
			for j, k := 0, rapid.IntRange(0, 3).Draw(t, "attrs_len"); j < k; j++ {
				nd.Attrs[fmt.Sprintf("a%d", j)] = genAny(t, n, nm, i, "attr")
			}
		}
		if rapid.IntRange(0, 2).Draw(t, "has_leaf") == 0 {
			nd.Leaf = &LeafDesc{Back: genNodeRef(t, n, "back"), Tags: -1, N: -1}
			if len(g.TagMaps) > 0 {
				nd.Leaf.Tags = rapid.IntRange(-1, len(g.TagMaps)-1).Draw(t, "leaf_tags")
			}
			if len(g.Ints) > 0 {
				nd.Leaf.N = rapid.IntRange(-1, len(g.Ints)-1).Draw(t, "leaf_n")
			}
		}
		g.Nodes = append(g.Nodes, nd)
	}
	if rapid.IntRange(0, 19).Draw(t, "has_ring") == 0 {
		g.Ring = rapid.SampledFrom([]int{40, 350, 600, 1100}).Draw(t, "ring")
	}
	return g
}

func genRoot(t *rapid.T, g GraphDesc, label string, allowAny bool) RootDesc {
	n := len(g.Nodes)
	r := RootDesc{Index: -1, Pair: [2]int{-1, -1}, Any: AnyDesc{Kind: "nil"}, Count: -1, Other: -1}
	if len(g.Ints) > 0 {
		// small pool: Count and Other often alias the same *int
		r.Count = rapid.IntRange(-1, len(g.Ints)-1).Draw(t, label+"_count")
		r.Other = rapid.IntRange(-1, len(g.Ints)-1).Draw(t, label+"_other")
	}
	r.SelfRef = rapid.IntRange(0, 2).Draw(t, label+"_self") == 0
	if len(g.TNodes) > 0 && rapid.IntRange(0, 2).Draw(t, label+"_has_t") == 0 {
		r.TP1 = rapid.IntRange(0, len(g.TNodes)-1).Draw(t, label+"_t") + 1
	}
	if rapid.Bool().Draw(t, label+"_has_all") {
		r.HasAll = true
		for j, k := 0, rapid.IntRange(0, 4).Draw(t, label+"_all_len"); j < k; j++ {
			r.All = append(r.All, genNodeRef(t, n, label+"_all"))
		}
	}
	if len(g.NodeMaps) > 0 && rapid.Bool().Draw(t, label+"_has_index") {
		r.Index = rapid.IntRange(0, len(g.NodeMaps)-1).Draw(t, label+"_index")
	}
	if rapid.Bool().Draw(t, label+"_has_pair") {
		r.HasPair = true
		r.Pair = [2]int{genNodeRef(t, n, label+"_p0"), genNodeRef(t, n, label+"_p1")}
	}
	if allowAny {
		r.Any = genAny(t, n, len(g.NodeMaps), -1, label+"_any")
		switch r.Any.Kind {
		case "nilmap", "nilslice", "nilptr":
			// at the ROOT a typed nil in an interface-typed config field reads as
			// "this layer does not set the field" (nil means unset); whether it is
			// kept is not promised.  Typed nils stay inside the node graph.
			r.Any = AnyDesc{Kind: "nil"}
		}
	}
	return r
}

func genC03(t *rapid.T) C03Case {
	g := genGraph(t)
	c := C03Case{Graph: g}
	c.Mode = rapid.SampledFrom([]string{"copy-node", "copy-root", "config", "config", "restack"}).Draw(t, "mode")
	if len(g.Nodes) == 0 && c.Mode == "copy-node" {
		c.Mode = "copy-root"
	}
	if len(g.Nodes) > 0 {
		c.Start = rapid.IntRange(0, len(g.Nodes)-1).Draw(t, "start")
	}
	c.Def = genRoot(t, g, "def", false)
	c.Layer = genRoot(t, g, "layer", true)
	if c.Mode == "config" && rapid.Bool().Draw(t, "has_layer2") {
		l2 := genRoot(t, g, "layer2", true)
		if rapid.Bool().Draw(t, "same_any") {
			l2.Any.Kind = c.Layer.Any.Kind // the same payload type in both layers
			if l2.Any.Kind == "nodemap" {
				l2.Any.Pool = c.Layer.Any.Pool
			}
		}
		c.Layer2 = &l2
	}
	return c
}

// ---- instantiate a graph ----

type graphInst struct {
	pslices  []*[]*GNode
	pmaps    []*map[string]int
	pptrs    []**GNode
	nodes    []*GNode
	nodeMaps []map[string]*GNode
	tagMaps  []map[string]int
	ints     []*int
	tnodes   []*TNode
	ringHead *GNode
}

func (gi *graphInst) node(i int) *GNode {
	if i < 0 || i >= len(gi.nodes) {
		return nil
	}
	return gi.nodes[i]
}

func (gi *graphInst) any(a AnyDesc) interface{} {
	switch a.Kind {
	case "node":
		if n := gi.node(a.Node); n != nil {
			return n
		}
	case "nodeval":
		if n := gi.node(a.Node); n != nil {
			return *n // filled in a second pass, see instantiate
		}
	case "nodemap":
		if a.Pool >= 0 && a.Pool < len(gi.nodeMaps) {
			return gi.nodeMaps[a.Pool]
		}
	case "nodeslice":
		s := make([]*GNode, 0, len(a.Nodes)+1)
		for _, i := range a.Nodes {
			s = append(s, gi.node(i))
		}
		return s
	case "islice":
		s := make([]interface{}, 0, len(a.Nodes))
		for k, i := range a.Nodes {
			if n := gi.node(i); n != nil {
				s = append(s, n)
			} else {
				// no node: alternate between a nil interface and typed nils
				switch (k + a.Num) % 3 {
				case 0:
					s = append(s, nil)
				case 1:
					s = append(s, map[string]int(nil))
				default:
					s = append(s, []int(nil))
				}
			}
		}
		return s
	case "selfslice":
		// a []interface{} that contains itself
		s := make([]interface{}, 2)
		s[0] = s
		s[1] = gi.node(a.Node)
		return s
	case "nodearray":
		return [1]*GNode{gi.node(a.Node)}
	case "attrs":
		if n := gi.node(a.Node); n != nil && n.Attrs != nil {
			return n.Attrs
		}
	case "edgeval":
		return PEdge{To: gi.node(a.Node), w: a.Num, tag: fmt.Sprintf("edge%d", a.Num)}
	case "time":
		return time.Unix(1700000000+int64(a.Num), 5).In(c03Zone)
	case "nilmap":
		return map[string]*GNode(nil)
	case "nilslice":
		return []*GNode(nil)
	case "nilptr":
		return (*GNode)(nil)
	case "int":
		return a.Num
	case "intptr":
		if len(gi.ints) > 0 && a.Num >= 0 {
			return gi.ints[a.Num%len(gi.ints)]
		}
	case "string":
		return fmt.Sprintf("str%d", a.Num)
	}
	return nil
}

var c03Zone = time.FixedZone("C03", 3600)

func (gi *graphInst) tnode(i int) *TNode {
	if i < 0 || i >= len(gi.tnodes) {
		return nil
	}
	return gi.tnodes[i]
}

func instantiate(g GraphDesc) *graphInst {
	gi := &graphInst{}
	for i := range g.Nodes {
		gi.nodes = append(gi.nodes, &GNode{ID: i})
	}
	for _, m := range g.NodeMaps {
		nm := map[string]*GNode{}
		for _, k := range sortedKeys(m) {
			nm[k] = gi.node(m[k])
		}
		gi.nodeMaps = append(gi.nodeMaps, nm)
	}
	for _, m := range g.TagMaps {
		tm := map[string]int{}
		for k, v := range m {
			tm[k] = v
		}
		gi.tagMaps = append(gi.tagMaps, tm)
	}
	for _, v := range g.Ints {
		v := v
		gi.ints = append(gi.ints, &v)
	}
	for i := range g.TNodes {
		gi.tnodes = append(gi.tnodes, &TNode{Name: fmt.Sprintf("t%d", i)})
	}
	for i, td := range g.TNodes {
		tn := gi.tnodes[i]
		tn.Peer, tn.To = gi.tnode(td.Peer), gi.node(td.To)
		if td.Tags >= 0 && td.Tags < len(gi.tagMaps) {
			tn.Tags = gi.tagMaps[td.Tags]
		}
		if td.List != nil {
			tn.List = make([]*TNode, 0, len(td.List))
			for _, k := range td.List {
				tn.List = append(tn.List, gi.tnode(k))
			}
		}
	}
	// pass 1: plain edges and the Attrs maps (so "attrs" payloads can refer to them)
	for i, nd := range g.Nodes {
		n := gi.nodes[i]
		n.T = gi.tnode(nd.TP1 - 1)
		n.Next = gi.node(nd.Next)
		n.Skip = gi.node(nd.SkipP1 - 1)
		if nd.Kids != nil {
			n.Kids = make([]*GNode, 0, len(nd.Kids))
			for _, k := range nd.Kids {
				n.Kids = append(n.Kids, gi.node(k))
			}
		}
		n.Pair = [2]*GNode{gi.node(nd.Pair[0]), gi.node(nd.Pair[1])}
		n.Duo = [2]GEdge{{To: gi.node(nd.Duo[0]), W: 1}, {To: gi.node(nd.Duo[1]), W: 2}}
		n.Grid = [2][1]*GNode{{gi.node(nd.Grid[0])}, {gi.node(nd.Grid[1])}}
		if nd.Edges != nil {
			n.Edges = make([]GEdge, 0, len(nd.Edges)+1)
			for w, e := range nd.Edges {
				n.Edges = append(n.Edges, GEdge{To: gi.node(e), W: w})
			}
		}
		if nd.ByName >= 0 && nd.ByName < len(gi.nodeMaps) {
			n.ByName = gi.nodeMaps[nd.ByName]
		}
		if k := nd.IdxP1 - 1; k >= 0 && k < len(gi.nodeMaps) {
			n.Idx = NodeIndex(gi.nodeMaps[k]) // the same map object under a named type
		}
		n.seq = i + 100
		if nd.HasAttrs {
			n.Attrs = map[string]interface{}{}
		}
		if nd.Leaf != nil {
			l := &GLeaf{Back: gi.node(nd.Leaf.Back), gen: i + 7}
			if nd.Leaf.Tags >= 0 && nd.Leaf.Tags < len(gi.tagMaps) {
				l.Tags = gi.tagMaps[nd.Leaf.Tags]
			}
			if nd.Leaf.N >= 0 && nd.Leaf.N < len(gi.ints) {
				l.N = gi.ints[nd.Leaf.N]
			}
			n.Leaf = l
		}
	}
	// pass 1b: Kids that are prefix views of another node's Kids
	for i, nd := range g.Nodes {
		if nd.KidsOf >= 0 && nd.KidsOf < len(gi.nodes) && nd.KidsOf != i {
			src := gi.nodes[nd.KidsOf].Kids
			if src != nil && g.Nodes[nd.KidsOf].KidsOf < 0 {
				k := nd.KidsLen
				if k > len(src) {
					k = len(src)
				}
				gi.nodes[i].Kids = src[:k]
			}
		}
	}
	// pass 1c-0: pools of pointers to references, shared between nodes
	for _, idx := range g.PSlices {
		sl := make([]*GNode, 0, len(idx))
		for _, k := range idx {
			sl = append(sl, gi.node(k))
		}
		gi.pslices = append(gi.pslices, &sl)
	}
	for _, k := range g.PMaps {
		if k >= 0 && k < len(gi.tagMaps) {
			m := gi.tagMaps[k]
			gi.pmaps = append(gi.pmaps, &m)
		} else {
			gi.pmaps = append(gi.pmaps, nil)
		}
	}
	for _, k := range g.PPtrs {
		np := gi.node(k)
		gi.pptrs = append(gi.pptrs, &np)
	}
	for i, nd := range g.Nodes {
		if k := nd.PSP1 - 1; k >= 0 && k < len(gi.pslices) {
			gi.nodes[i].PS = gi.pslices[k]
		}
		if k := nd.PMP1 - 1; k >= 0 && k < len(gi.pmaps) {
			gi.nodes[i].PM = gi.pmaps[k]
		}
		if k := nd.PPP1 - 1; k >= 0 && k < len(gi.pptrs) {
			gi.nodes[i].PP = gi.pptrs[k]
		}
	}
	// pass 1c: maps whose values are other nodes' Kids slices / pooled tag maps
	for i, nd := range g.Nodes {
		if nd.Groups != nil {
			gi.nodes[i].Groups = map[string][]*GNode{}
			for _, k := range sortedKeys(nd.Groups) {
				gi.nodes[i].Groups[k] = gi.node(nd.Groups[k]).kidsOrNil()
			}
		}
		if nd.Buckets != nil {
			gi.nodes[i].Buckets = map[string]map[string]int{}
			for _, k := range sortedKeys(nd.Buckets) {
				if b := nd.Buckets[k]; b >= 0 && b < len(gi.tagMaps) {
					gi.nodes[i].Buckets[k] = gi.tagMaps[b]
				}
			}
		}
	}
	// a long ring of plain nodes
	if g.Ring > 0 && g.Ring <= 5000 {
		ring := make([]*GNode, g.Ring)
		for i := range ring {
			ring[i] = &GNode{ID: 10000 + i, seq: i}
		}
		for i := range ring {
			ring[i].Next = ring[(i+1)%len(ring)]
		}
		if len(gi.nodes) > 0 {
			ring[len(ring)/2].Pair[0] = gi.nodes[0] // and a link back into the small graph
		}
		gi.ringHead = ring[0]
	}
	// pass 2: interface payloads
	for i, nd := range g.Nodes {
		n := gi.nodes[i]
		n.Any = gi.any(nd.Any)
		for _, k := range sortedAnyKeys(nd.Attrs) {
			n.Attrs[k] = gi.any(nd.Attrs[k])
		}
	}
	return gi
}

func (n *GNode) kidsOrNil() []*GNode {
	if n == nil {
		return nil
	}
	return n.Kids
}

func sortedKeys(m map[string]int) []string {
	ks := make([]string, 0, len(m))
	for k := range m {
		ks = append(ks, k)
	}
	sort.Strings(ks)
	return ks
}

func sortedAnyKeys(m map[string]AnyDesc) []string {
	ks := make([]string, 0, len(m))
	for k := range m {
		ks = append(ks, k)
	}
	sort.Strings(ks)
	return ks
}

func (gi *graphInst) root(r RootDesc) *GRoot {
	out := &GRoot{}
	if r.HasAll {
		out.All = make([]*GNode, 0, len(r.All))
		for _, i := range r.All {
			out.All = append(out.All, gi.node(i))
		}
	}
	if r.Index >= 0 && r.Index < len(gi.nodeMaps) {
		out.Index = gi.nodeMaps[r.Index]
	}
	if r.HasPair {
		out.Pair = [2]*GNode{gi.node(r.Pair[0]), gi.node(r.Pair[1])}
	}
	out.Any = gi.any(r.Any)
	if r.Count >= 0 && r.Count < len(gi.ints) {
		out.Count = gi.ints[r.Count]
	}
	if r.Other >= 0 && r.Other < len(gi.ints) {
		out.Other = gi.ints[r.Other]
	}
	if r.SelfRef {
		out.Self = []*GRoot{out, out}
	}
	out.T = gi.tnode(r.TP1 - 1)
	if gi.ringHead != nil && r.HasAll {
		out.All = append(out.All, gi.ringHead)
	}
	return out
}

// ---- topology oracle ----

type topo struct {
	m                                    map[uintptr]uintptr // in reference -> out reference (pointers and maps)
	visited                              map[[2]uintptr]bool
	inAddrs                              map[uintptr]bool
	err                                  string
	cycle                                bool
	shared                               bool
	indeg                                map[uintptr]int
	viaIface, viaMap, viaSlice, viaArray bool
}

func (tp *topo) pair(in, out reflect.Value, path string, underIface bool, via string) {
	if tp.err != "" {
		return
	}
	if len(path) > 400 {
		path = "(...)" + path[len(path)-300:] // long chains: keep the tail of the path
	}
	if in.Kind() != out.Kind() {
		tp.err = fmt.Sprintf("%s: kind %s vs %s", path, in.Kind(), out.Kind())
		return
	}
	switch in.Kind() {
	case reflect.Pointer, reflect.Map:
		if in.IsNil() || out.IsNil() {
			if in.IsNil() != out.IsNil() {
				tp.err = fmt.Sprintf("%s: nil mismatch", path)
			}
			return
		}
		ip, op := in.Pointer(), out.Pointer()
		if !underIface {
			tp.indeg[ip]++
			if tp.indeg[ip] >= 2 {
				tp.shared = true
				switch via {
				case "iface":
					tp.viaIface = true
				case "map":
					tp.viaMap = true
				case "slice":
					tp.viaSlice = true
				case "array":
					tp.viaArray = true
				}
			}
			if prev, ok := tp.m[ip]; ok {
				if prev != op {
					tp.err = fmt.Sprintf("%s: input reference %#x was copied to %#x here but to %#x elsewhere: sharing / cycle not preserved", path, ip, op, prev)
					return
				}
			} else {
				tp.m[ip] = op
			}
			if ip == op {
				tp.err = fmt.Sprintf("%s: output reference is the input object itself (%#x)", path, ip)
				return
			}
		}
		k := [2]uintptr{ip, op}
		if tp.visited[k] {
			return
		}
		tp.visited[k] = true
		if in.Kind() == reflect.Pointer {
			tp.pair(in.Elem(), out.Elem(), path+"*", false, "field")
			return
		}
		keys := in.MapKeys()
		sort.Slice(keys, func(i, j int) bool { return keys[i].String() < keys[j].String() })
		for _, key := range keys {
			ov := out.MapIndex(key)
			if !ov.IsValid() {
				tp.err = fmt.Sprintf("%s: key %v missing in copy", path, key)
				return
			}
			tp.pair(in.MapIndex(key), ov, fmt.Sprintf("%s[%v]", path, key), false, "map")
		}
	case reflect.Interface:
		if in.IsNil() || out.IsNil() {
			if in.IsNil() != out.IsNil() {
				tp.err = fmt.Sprintf("%s: nil interface mismatch", path)
			}
			return
		}
		// the payload reference itself is only required to be deep-equal;
		// references below it are struct fields / elements again
		tp.pair(in.Elem(), out.Elem(), path+"(iface)", true, "iface")
	case reflect.Slice:
		if in.Len() != out.Len() {
			tp.err = fmt.Sprintf("%s: len mismatch", path)
			return
		}
		if in.Len() > 0 {
			// slices can contain themselves through interface elements
			k := [2]uintptr{in.Pointer() ^ uintptr(in.Len())<<48, out.Pointer()}
			if tp.visited[k] {
				return
			}
			tp.visited[k] = true
		}
		for i := 0; i < in.Len(); i++ {
			tp.pair(in.Index(i), out.Index(i), fmt.Sprintf("%s[%d]", path, i), false, "slice")
		}
	case reflect.Array:
		for i := 0; i < in.Len(); i++ {
			tp.pair(in.Index(i), out.Index(i), fmt.Sprintf("%s[%d]", path, i), false, "array")
		}
	case reflect.Struct:
		for i := 0; i < in.NumField(); i++ {
			if !in.Type().Field(i).IsExported() {
				continue // unexported fields travel with the struct assignment; reflect.DeepEqual compares them
			}
			tp.pair(in.Field(i), out.Field(i), path+"."+in.Type().Field(i).Name, false, "field")
		}
	}
}

func checkTopology(in, out reflect.Value) (*topo, string) {
	tp := &topo{m: map[uintptr]uintptr{}, visited: map[[2]uintptr]bool{}, indeg: map[uintptr]int{}}
	tp.pair(in, out, "", false, "field")
	if tp.err != "" {
		return tp, tp.err
	}
	// fresh: no output reference is an input object
	for _, o := range tp.m {
		if _, isInput := tp.m[o]; isInput {
			return tp, fmt.Sprintf("output reference %#x is one of the input's objects: not fresh", o)
		}
	}
	return tp, ""
}

// hasCycle reports whether the descriptor graph (edges between nodes through
// any container) has a directed cycle.
func hasCycle(g GraphDesc) (cycle, viaIface bool) {
	nn := len(g.Nodes)
	n := nn + len(g.TNodes) // text-unmarshalable nodes are vertices nn..n-1
	adj := make([][]int, n)
	ifaceEdge := map[[2]int]bool{}
	add := func(i, j int, iface bool) {
		if j >= 0 && j < nn || j >= nn && j < n && i >= 0 {
			adj[i] = append(adj[i], j)
			if iface {
				ifaceEdge[[2]int{i, j}] = true
			}
		}
	}
	var anyTargets func(a AnyDesc) []int
	anyTargets = func(a AnyDesc) []int {
		switch a.Kind {
		case "node", "nodearray", "nodeval", "attrs", "selfslice", "edgeval":
			return []int{a.Node}
		case "nodeslice", "islice":
			return a.Nodes
		case "nodemap":
			if a.Pool >= 0 && a.Pool < len(g.NodeMaps) {
				var out []int
				for _, v := range g.NodeMaps[a.Pool] {
					out = append(out, v)
				}
				return out
			}
		}
		return nil
	}
	for k, td := range g.TNodes {
		if td.Peer >= 0 && td.Peer < len(g.TNodes) {
			add(nn+k, nn+td.Peer, false)
		}
		if td.To < nn {
			add(nn+k, td.To, false)
		}
		for _, l := range td.List {
			if l >= 0 && l < len(g.TNodes) {
				add(nn+k, nn+l, false)
			}
		}
	}
	for i, nd := range g.Nodes {
		if nd.TP1 > 0 && nd.TP1 <= len(g.TNodes) {
			add(i, nn+nd.TP1-1, false)
		}
		add(i, nd.Next, false)
		for _, k := range nd.Kids {
			add(i, k, false)
		}
		add(i, nd.Pair[0], false)
		add(i, nd.Pair[1], false)
		add(i, nd.Duo[0], false)
		add(i, nd.Duo[1], false)
		add(i, nd.Grid[0], false)
		add(i, nd.Grid[1], false)
		for _, e := range nd.Edges {
			add(i, e, false)
		}
		if nd.ByName >= 0 && nd.ByName < len(g.NodeMaps) {
			for _, v := range g.NodeMaps[nd.ByName] {
				add(i, v, false)
			}
		}
		if nd.Leaf != nil {
			add(i, nd.Leaf.Back, false)
		}
		if k := nd.IdxP1 - 1; k >= 0 && k < len(g.NodeMaps) {
			for _, v := range g.NodeMaps[k] {
				add(i, v, false)
			}
		}
		for _, j := range anyTargets(nd.Any) {
			add(i, j, true)
		}
		for _, a := range nd.Attrs {
			for _, j := range anyTargets(a) {
				add(i, j, true)
			}
		}
	}
	color := make([]int, n)
	var dfs func(u int) bool
	var stack []int
	dfs = func(u int) bool {
		color[u] = 1
		stack = append(stack, u)
		for _, v := range adj[u] {
			if color[v] == 1 {
				cycle = true
				// is any edge on the cycle an interface edge?
				idx := 0
				for k, s := range stack {
					if s == v {
						idx = k
					}
				}
				cyc := append(append([]int{}, stack[idx:]...), v)
				for k := 0; k+1 < len(cyc); k++ {
					if ifaceEdge[[2]int{cyc[k], cyc[k+1]}] {
						viaIface = true
					}
				}
			} else if color[v] == 0 {
				dfs(v)
			}
		}
		stack = stack[:len(stack)-1]
		color[u] = 2
		return false
	}
	for i := 0; i < n; i++ {
		if color[i] == 0 {
			dfs(i)
		}
	}
	return
}

// primeSameNamedTypes copies, once per process and before any graph, values of
// function-local REFERENCE-FREE struct types that print exactly like the
// graph's node types (pcore.GNode, ...): whatever the copier learns about a
// type must be keyed by the type, not by its printed name.
var primeOnce sync.Once

func primeSameNamedTypes() {
	primeOnce.Do(func() {
		type GNode struct{ ID, W int }
		type GLeaf struct{ N int }
		type GEdge struct{ W int }
		type TNode struct{ Name string }
		type PEdge struct{ w int }
		type GRoot struct {
			N    GNode
			L    GLeaf
			E    GEdge
			T    TNode
			P    PEdge
			Name string
		}
		in := &GRoot{N: GNode{ID: 1, W: 2}, L: GLeaf{N: 3}, E: GEdge{W: 4}, T: TNode{Name: "t"}, Name: "plain"}
		out := dials.VerifDeepCopy(reflect.ValueOf(in))
		if !reflect.DeepEqual(in, out.Interface()) {
			panic("priming copy of plain same-named types is not deeply equal")
		}
	})
}

func runC03(c C03Case) vrt.Verdict {
	debug.SetMaxStack(48 << 20) // runaway recursion dies in milliseconds, not gigabytes
	primeSameNamedTypes()
	cyc, cycIface := hasCycle(c.Graph)
	if c.Graph.Ring > 0 {
		cyc = true
	}
	labels := []string{"mode=" + c.Mode, fmt.Sprintf("nodes=%d", len(c.Graph.Nodes))}
	if c.Graph.Ring > 0 {
		labels = append(labels, fmt.Sprintf("ring>=%d", c.Graph.Ring/300*300))
	}
	if cyc {
		labels = append(labels, "cycle")
	}
	if cycIface {
		labels = append(labels, "cycle-through-interface")
	}
	var tp *topo
	var msg string
	switch c.Mode {
	case "copy-node":
		gi := instantiate(c.Graph)
		start := gi.node(c.Start)
		if start == nil {
			return vrt.Discardf("no start node")
		}
		in := reflect.ValueOf(start)
		out := dials.VerifDeepCopy(in)
		if !reflect.DeepEqual(in.Interface(), out.Interface()) {
			return vrt.Violationf("deep copy of the node graph is not deeply equal to the input")
		}
		tp, msg = checkTopology(in, out)
	case "copy-root":
		gi := instantiate(c.Graph)
		in := reflect.ValueOf(gi.root(c.Layer))
		out := dials.VerifDeepCopy(in)
		if !reflect.DeepEqual(in.Interface(), out.Interface()) {
			return vrt.Violationf("deep copy of the root is not deeply equal to the input")
		}
		tp, msg = checkTopology(in, out)
	case "config", "restack":
		giD, giL := instantiate(c.Graph), instantiate(c.Graph)
		def := giD.root(c.Def)
		lay := giL.root(c.Layer)
		// the pointerified layer: located by field name
		ctx, cancel := context.WithCancel(context.Background())
		defer cancel()
		mkLayerOf := func(t *dials.Type, ld RootDesc, lay *GRoot) reflect.Value {
			lv := reflect.New(t.Type()).Elem()
			if ld.HasAll {
				lv.FieldByName("All").Set(reflect.ValueOf(lay.All))
			}
			if lay.Index != nil {
				lv.FieldByName("Index").Set(reflect.ValueOf(lay.Index))
			}
			if ld.HasPair {
				p := lay.Pair
				lv.FieldByName("Pair").Set(reflect.ValueOf(&p))
			}
			if lay.Any != nil {
				lv.FieldByName("Any").Set(reflect.ValueOf(lay.Any))
			}
			if lay.Count != nil {
				lv.FieldByName("Count").Set(reflect.ValueOf(lay.Count))
			}
			if lay.Other != nil {
				lv.FieldByName("Other").Set(reflect.ValueOf(lay.Other))
			}
			if lay.T != nil {
				lv.FieldByName("T").Set(reflect.ValueOf(lay.T))
			}
			return lv
		}
		mkLayer := func(t *dials.Type) reflect.Value { return mkLayerOf(t, c.Layer, lay) }
		want := &GRoot{All: def.All, Index: def.Index, Pair: def.Pair, Count: def.Count, Other: def.Other}
		if c.Def.SelfRef {
			want.Self = []*GRoot{want, want} // the defaults point back at themselves; so must the result
		}
		if lay.Count != nil {
			want.Count = lay.Count
		}
		if lay.Other != nil {
			want.Other = lay.Other
		}
		want.T = def.T
		if lay.T != nil {
			want.T = lay.T // a text-unmarshalable struct is replaced as a whole
		}
		if c.Layer.HasAll {
			want.All = lay.All
		}
		if lay.Index != nil {
			want.Index = lay.Index
		}
		if c.Layer.HasPair {
			want.Pair = lay.Pair
		}
		if lay.Any != nil {
			want.Any = lay.Any
		}
		srcs := []dials.Source{&lazySource{mk: mkLayer}}
		if c.Layer2 != nil && c.Mode == "config" {
			// the last source that sets a field wins; an interface value is replaced as a whole
			lay2 := instantiate(c.Graph).root(*c.Layer2)
			srcs = append(srcs, &lazySource{mk: func(t *dials.Type) reflect.Value { return mkLayerOf(t, *c.Layer2, lay2) }})
			if lay2.Count != nil {
				want.Count = lay2.Count
			}
			if lay2.Other != nil {
				want.Other = lay2.Other
			}
			if c.Layer2.HasAll {
				want.All = lay2.All
			}
			if lay2.Index != nil {
				want.Index = lay2.Index
			}
			if c.Layer2.HasPair {
				want.Pair = lay2.Pair
			}
			if lay2.Any != nil {
				want.Any = lay2.Any
				if lay.Any != nil {
					labels = append(labels, "interface-set-by-two-layers")
					if reflect.TypeOf(lay.Any) == reflect.TypeOf(lay2.Any) {
						labels = append(labels, "same-payload-type:"+reflect.TypeOf(lay.Any).String())
					}
				}
			}
			if lay2.T != nil {
				want.T = lay2.T
			}
		}
		var got *GRoot
		if c.Mode == "config" {
			d, err := dials.Config(ctx, def, srcs...)
			if err != nil {
				return vrt.Violationf("Config failed: %v", err)
			}
			got = d.View()
		} else {
			w := &fake.Watcher{}
			d, err := dials.Config(ctx, def, w)
			if err != nil {
				return vrt.Violationf("Config failed: %v", err)
			}
			if err := w.Args.BlockingReportNewValue(ctx, mkLayer(w.Type)); err != nil {
				return vrt.Violationf("blocking report failed: %v", err)
			}
			got = d.View()
		}
		if !reflect.DeepEqual(want, got) {
			return vrt.Violationf("stacked config is not deeply equal to what was supplied")
		}
		tp, msg = checkTopology(reflect.ValueOf(want), reflect.ValueOf(got))
	default:
		return vrt.Discardf("unknown mode")
	}
	if msg != "" {
		return vrt.KeyedViolationf("topology", "%s", msg)
	}
	if tp.shared {
		labels = append(labels, "shared-reference")
	}
	if tp.viaMap {
		labels = append(labels, "shared-via-map")
	}
	if tp.viaSlice {
		labels = append(labels, "shared-via-slice")
	}
	if tp.viaArray {
		labels = append(labels, "shared-via-array")
	}
	return vrt.OK(cyc || tp.shared, labels...)
}

type lazySource struct {
	mk func(*dials.Type) reflect.Value
}

func (l *lazySource) Value(_ context.Context, t *dials.Type) (reflect.Value, error) {
	return l.mk(t), nil
}

func TestC03Graphs(t *testing.T) {
	vrt.Check(t, vrt.Prop[C03Case]{
		ID: "C03", Name: "graphs",
		Rule: "object graphs of 0..8 nodes (in one case of twenty plus a ring of 40..1100 further nodes chained through Next) over the fixed family GNode/GLeaf/GRoot/TNode (TNode implements encoding.TextUnmarshaler and has exported pointer / map / slice fields, so it can point at itself) with arbitrary edges through struct-field pointers (one of them an exported field tagged dials:\"-\", which stacking skips but the copy must still reproduce), slices, arrays, maps, maps whose values are slices / maps shared with other fields, shared maps (also one map object held under a named and an unnamed map type) / *int, unexported fields declared before the exported references, pointers to slices / maps / pointers shared between nodes, back-references to the config root itself, and interface payloads (typed nil map / slice / pointer, *GNode, GNode by value, a struct by value with unexported fields, a time.Time, map[string]*GNode, []*GNode, [1]*GNode, []interface{}, a node's own Attrs map, a *int from the shared pool); " +
			"copied directly by the deep copier (root *GNode or *GRoot), by Config with the graph in defaults and in one or two source values (both may set the same interface-typed field, with payloads of the same or different types), and by a watcher re-stack; oracle: terminates, reflect.DeepEqual, and the in->out map of pointer/map references in fields, elements and map values is a function with a fresh range; " +
			"non-trivial = the graph has a cycle or a reference with in-degree >= 2; distinct = distinct case JSON",
		Assumptions: []string{
			"before the first graph, each process copies reference-free function-local struct types that print exactly like the node types (pcore.GNode ...): per-type knowledge of the copier must not leak between distinct types with one printed name",
			"the reference held directly in an interface value is only required to be deeply equal (the statement does not require its identity to be preserved); references below it are checked again",
			"config roots reach the recursive node type only through slices, maps, arrays and nil-default interfaces: a config type containing itself through struct-field pointers cannot be pointerified by reflect.StructOf at all, which limits config types, not value graphs",
			"defaults and the source value are built from two separate instantiations of the graph, so identity across inputs is not asserted",
		},
		Gen: genC03, Run: runC03,
	})
}
