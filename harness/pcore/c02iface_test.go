package pcore

import (
	"context"
	"fmt"
	"reflect"
	"strings"
	"testing"

	"github.com/vimeo/dials"
	"pgregory.net/rapid"

	"verifharness/internal/fake"
	"verifharness/internal/shape"
	"verifharness/internal/vrt"
)

// Implementations of fmt.Stringer that are, or hold, references.
type SHost struct {
	Hosts []string
	Ports map[string]int
	N     *int
}

func (h *SHost) String() string { return strings.Join(h.Hosts, ",") }

type SList []string

func (l SList) String() string { return strings.Join(l, ",") }

type SMap map[string]int

func (m SMap) String() string { return fmt.Sprint(len(m)) }

// IfCfg holds references in slots whose static type is an interface WITH
// methods (unlike interface{} / any).
type IfCfg struct {
	Backend fmt.Stringer
	Backs   []fmt.Stringer
	ByName  map[string]fmt.Stringer
	Pair    [2]fmt.Stringer
	Name    string
}

// IfSlots says what each slot holds: 0 nothing, 1 *SHost, 2 SList, 3 SMap
type IfSlots struct {
	Backend int    `json:"backend,omitempty"`
	Backs   []int  `json:"backs,omitempty"`
	ByName  []int  `json:"by_name,omitempty"`
	Pair    [2]int `json:"pair"`
	HasPair bool   `json:"has_pair,omitempty"`
}

type C02IfaceCase struct {
	Def    IfSlots   `json:"def"`
	Layers []IfSlots `json:"layers"`
	Watch  bool      `json:"watch,omitempty"` // layers arrive as watcher reports (re-stacks) instead of static sources
}

func genIfSlots(t *rapid.T, label string, allowBackend bool) IfSlots {
	s := IfSlots{}
	if allowBackend {
		s.Backend = rapid.IntRange(0, 3).Draw(t, label+"_backend")
	}
	for i, n := 0, rapid.IntRange(0, 3).Draw(t, label+"_backs"); i < n; i++ {
		s.Backs = append(s.Backs, rapid.IntRange(0, 3).Draw(t, label+"_back"))
	}
	for i, n := 0, rapid.IntRange(0, 2).Draw(t, label+"_byname"); i < n; i++ {
		s.ByName = append(s.ByName, rapid.IntRange(0, 3).Draw(t, label+"_named"))
	}
	if rapid.Bool().Draw(t, label+"_has_pair") {
		s.HasPair = true
		s.Pair = [2]int{rapid.IntRange(0, 3).Draw(t, label+"_p0"), rapid.IntRange(0, 3).Draw(t, label+"_p1")}
	}
	return s
}

func genC02Iface(t *rapid.T) C02IfaceCase {
	c := C02IfaceCase{Watch: rapid.Bool().Draw(t, "watch")}
	defBackend := rapid.Bool().Draw(t, "def_backend")
	c.Def = genIfSlots(t, "def", defBackend)
	for i, n := 0, rapid.IntRange(1, 3).Draw(t, "layers"); i < n; i++ {
		// an interface-typed field with a non-nil default cannot be set by a
		// source (see C04/unstackable); it is set either in the defaults or by layers
		c.Layers = append(c.Layers, genIfSlots(t, fmt.Sprintf("l%d", i), c.Def.Backend == 0))
	}
	return c
}

func mkStringer(kind, salt int) fmt.Stringer {
	switch kind {
	case 1:
		n := salt
		return &SHost{Hosts: append(make([]string, 0, 4), fmt.Sprintf("h%d", salt), "b"), Ports: map[string]int{"p": salt}, N: &n}
	case 2:
		return append(make(SList, 0, 4), fmt.Sprintf("s%d", salt), "x")
	case 3:
		return SMap{"k": salt, "j": 1}
	}
	return nil
}

func buildIf(s IfSlots, salt int) *IfCfg {
	c := &IfCfg{Name: fmt.Sprintf("cfg%d", salt)}
	c.Backend = mkStringer(s.Backend, salt)
	if s.Backs != nil {
		c.Backs = make([]fmt.Stringer, 0, len(s.Backs)+1)
		for i, k := range s.Backs {
			c.Backs = append(c.Backs, mkStringer(k, salt+10*(i+1)))
		}
	}
	if s.ByName != nil {
		c.ByName = map[string]fmt.Stringer{}
		for i, k := range s.ByName {
			c.ByName[fmt.Sprintf("n%d", i)] = mkStringer(k, salt+100*(i+1))
		}
	}
	if s.HasPair {
		c.Pair = [2]fmt.Stringer{mkStringer(s.Pair[0], salt+1000), mkStringer(s.Pair[1], salt+2000)}
	}
	return c
}

// ifLayer writes the set slots of cfg into a value of the pointerified type.
func ifLayer(pt reflect.Type, s IfSlots, cfg *IfCfg) reflect.Value {
	lv := reflect.New(pt).Elem()
	if cfg.Backend != nil {
		lv.FieldByName("Backend").Set(reflect.ValueOf(cfg.Backend))
	}
	if cfg.Backs != nil {
		lv.FieldByName("Backs").Set(reflect.ValueOf(cfg.Backs))
	}
	if cfg.ByName != nil {
		lv.FieldByName("ByName").Set(reflect.ValueOf(cfg.ByName))
	}
	if s.HasPair {
		p := cfg.Pair
		f := lv.FieldByName("Pair")
		if f.Kind() == reflect.Pointer {
			f.Set(reflect.ValueOf(&p))
		} else {
			f.Set(reflect.ValueOf(p))
		}
	}
	return lv
}

func refsIn(s IfSlots) int {
	n := 0
	for _, k := range append(append(append([]int{s.Backend}, s.Backs...), s.ByName...), s.Pair[0], s.Pair[1]) {
		if k != 0 {
			n++
		}
	}
	return n
}

func runC02Iface(c C02IfaceCase) vrt.Verdict {
	if len(c.Layers) == 0 || len(c.Layers) > 4 {
		return vrt.Discardf("bad case")
	}
	for _, l := range c.Layers {
		if l.Backend != 0 && c.Def.Backend != 0 {
			return vrt.Discardf("a source cannot set an interface field whose default is non-nil")
		}
	}
	ctx, cancel := context.WithCancel(context.Background())
	defer cancel()
	def := buildIf(c.Def, 1)
	layerCfgs := make([]*IfCfg, len(c.Layers))
	for i, l := range c.Layers {
		layerCfgs[i] = buildIf(l, 2+i)
	}
	type named struct {
		name string
		v    reflect.Value
	}
	inputs := []named{{"the caller's defaults", reflect.ValueOf(def)}}
	var versions []named
	var layerVals []reflect.Value
	if c.Watch {
		w := &fake.Watcher{}
		d, err := dials.Config(ctx, def, w)
		if err != nil {
			return vrt.Violationf("Config failed: %v", err)
		}
		versions = append(versions, named{"version 0", reflect.ValueOf(d.View())})
		for i, l := range c.Layers {
			lv := ifLayer(w.Type.Type(), l, layerCfgs[i])
			layerVals = append(layerVals, lv)
			if err := w.Args.BlockingReportNewValue(ctx, lv); err != nil {
				return vrt.Violationf("blocking report %d failed: %v", i, err)
			}
			versions = append(versions, named{fmt.Sprintf("version %d", i+1), reflect.ValueOf(d.View())})
		}
	} else {
		var srcs []dials.Source
		for i, l := range c.Layers {
			i, l := i, l
			srcs = append(srcs, &fake.Static{Mk: func(t *dials.Type) reflect.Value {
				lv := ifLayer(t.Type(), l, layerCfgs[i])
				layerVals = append(layerVals, lv)
				return lv
			}})
		}
		d, err := dials.Config(ctx, def, srcs...)
		if err != nil {
			return vrt.Violationf("Config failed: %v", err)
		}
		versions = append(versions, named{"the stacked config", reflect.ValueOf(d.View())})
	}
	for i, lv := range layerVals {
		inputs = append(inputs, named{fmt.Sprintf("the value of source/report %d", i), lv})
	}
	// content: the last version holds, per slot, the last layer that set it, else the default
	// (static sources stack; reports of the one watcher supersede one another)
	want := *def
	for i, l := range c.Layers {
		if c.Watch && i != len(c.Layers)-1 {
			continue // successive reports of ONE watcher replace one another
		}
		lc := layerCfgs[i]
		if lc.Backend != nil {
			want.Backend = lc.Backend
		}
		if lc.Backs != nil {
			want.Backs = lc.Backs
		}
		if lc.ByName != nil {
			want.ByName = lc.ByName
		}
		if l.HasPair {
			want.Pair = lc.Pair
		}
	}
	last := versions[len(versions)-1].v.Interface().(*IfCfg)
	if !reflect.DeepEqual(&want, last) {
		return vrt.KeyedViolationf("content", "the stacked config differs from the defaults overlaid with the layers: got %+v want %+v", *last, want)
	}
	// address level: no version shares mutable memory with an input or with another version
	regs := func(n named) []shape.Region { return shape.Regions(n.v) }
	for i, v := range versions {
		rv := regs(v)
		for _, in := range inputs {
			if o := shape.Overlap(rv, regs(in)); o != "" {
				return vrt.KeyedViolationf("shared", "%s shares memory with %s through a slot of an interface type with methods: %s", v.name, in.name, o)
			}
		}
		for _, v2 := range versions[i+1:] {
			if o := shape.Overlap(rv, regs(v2)); o != "" {
				return vrt.KeyedViolationf("shared-versions", "%s shares memory with %s: %s", v.name, v2.name, o)
			}
		}
	}
	refs := refsIn(c.Def)
	for _, l := range c.Layers {
		refs += refsIn(l)
	}
	return vrt.OK(refs >= 1, fmt.Sprintf("watch=%v", c.Watch), fmt.Sprintf("refs=%d", min(refs, 4)), fmt.Sprintf("def-refs=%d", min(refsIn(c.Def), 2)))
}

func TestC02Iface(t *testing.T) {
	vrt.Check(t, vrt.Prop[C02IfaceCase]{
		ID: "C02", Name: "iface",
		Rule: "a fixed config type whose field, slice elements, map values and array elements have the static type fmt.Stringer (an interface WITH methods), each slot holding nothing, a pointer to a struct with slice / map / pointer fields, a named slice or a named map, in the defaults and in 1..3 layers (static sources of one Config, or successive watcher reports); " +
			"oracle: the final config deep-equals defaults overlaid with the layers, and the mutable memory (pointees, map headers, slice backing arrays up to capacity) reachable from every version is disjoint from that of the defaults, of every source value and of every other version; " +
			"non-trivial = at least one slot holds a reference implementation; distinct = distinct case JSON",
		Assumptions: []string{"a source sets the interface-typed FIELD only when its default is nil (a non-nil interface default is devirtualised by Pointerify, see C04/unstackable); slices, maps and arrays of interfaces are set freely"},
		Gen:         genC02Iface, Run: runC02Iface,
	})
}
