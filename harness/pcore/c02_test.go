package pcore

import (
	"context"
	"errors"
	"fmt"
	"net"
	"reflect"
	"sort"
	"strings"
	"testing"
	"time"

	"github.com/vimeo/dials"
	"github.com/vimeo/dials/ptrify"
	"pgregory.net/rapid"

	"verifharness/internal/fake"
	"verifharness/internal/shape"
	"verifharness/internal/vrt"
)

// ShareD makes a layer's leaf the very same Go object (map / slice / pointer)
// as the defaults' leaf at the same path.
type ShareD struct {
	Layer int    `json:"layer"`
	Path  string `json:"path"`
}

// ShareL makes layer To's leaf the same Go object as layer From's leaf.
type ShareL struct {
	From int    `json:"from"`
	To   int    `json:"to"`
	Path string `json:"path"`
}

// SharePair makes two different leaves of the defaults (same reference type)
// the very same Go object.
type SharePair struct {
	A string `json:"a"`
	B string `json:"b"`
}

// C02Case is a C01 case plus aliasing directives.
type C02Case struct {
	Shape        shape.Shape `json:"shape"`
	Data         shape.Data  `json:"data"`
	ShareDefault []ShareD    `json:"share_default,omitempty"`
	ShareLayers  []ShareL    `json:"share_layers,omitempty"`
	ShareWithin  []SharePair `json:"share_within,omitempty"`
	// ShareInMaps makes the entries of every map whose values are slices or
	// maps share ONE value object (m[k2] = m[k1] ...), in defaults, layers and
	// the expected value alike.
	ShareInMaps bool `json:"share_in_maps,omitempty"`
}

// shareInMaps rewrites v in place: in every map (reached through exported
// fields, pointers, slices, arrays) whose element kind is slice or map and
// that has >= 2 entries, every entry gets the value object of the first key
// in sorted order.  Deterministic, so expected values get the same contents.
func shareInMaps(v reflect.Value) int {
	n := 0
	switch v.Kind() {
	case reflect.Pointer, reflect.Interface:
		if !v.IsNil() {
			n += shareInMaps(v.Elem())
		}
	case reflect.Struct:
		for i := 0; i < v.NumField(); i++ {
			if v.Type().Field(i).IsExported() {
				n += shareInMaps(v.Field(i))
			}
		}
	case reflect.Slice, reflect.Array:
		for i := 0; i < v.Len(); i++ {
			n += shareInMaps(v.Index(i))
		}
	case reflect.Map:
		if v.IsNil() || v.Type().Key().Kind() != reflect.String {
			return 0
		}
		ek := v.Type().Elem().Kind()
		if (ek == reflect.Slice || ek == reflect.Map) && v.Len() >= 2 {
			keys := v.MapKeys()
			sort.Slice(keys, func(i, j int) bool { return keys[i].String() < keys[j].String() })
			first := v.MapIndex(keys[0])
			if !first.IsNil() {
				for _, k := range keys[1:] {
					v.SetMapIndex(k, first)
				}
				n++
			}
		}
	}
	return n
}

// genShareWithin aliases pairs of default leaves of identical reference type.
func genShareWithin(t *rapid.T, nodes []shape.Node, d *shape.Data) []SharePair {
	byType := map[reflect.Type][]string{}
	var order []reflect.Type
	for _, n := range nodes {
		if n.Class != shape.ClassLeaf || !isRefKind(n.Type.Kind()) || d.Defaults[n.Path] == 0 {
			continue
		}
		nilParent := false
		for p := range d.DefNil {
			if strings.HasPrefix(n.Path, p+".") {
				nilParent = true
			}
		}
		if nilParent {
			continue
		}
		if _, ok := byType[n.Type]; !ok {
			order = append(order, n.Type)
		}
		byType[n.Type] = append(byType[n.Type], n.Path)
	}
	var out []SharePair
	for _, ty := range order {
		ps := byType[ty]
		for i := 1; i < len(ps); i++ {
			if rapid.Bool().Draw(t, "share_within") {
				d.Defaults[ps[i]] = d.Defaults[ps[0]]
				out = append(out, SharePair{A: ps[0], B: ps[i]})
			}
		}
	}
	return out
}

var aliasLeafTypes = []string{
	"[]string", "[]int", "[][]int", "[]Rec", "[]*int", "[]map[string]int", "[2]*int", "[2][]int", "[1]Rec", "[2][2]*int", "[2][1]map[string]int", "*[2][1][]int", "[][1][2]*int",
	"map[string]int", "map[string][]string", "map[string][]int", "map[string]Rec", "map[string]*int", "map[string]map[string]int", "map[string]struct{}",
	"*int", "*string", "**int", "*[]int", "*map[string]int", "*[2]int", "*Stamp", "*time.Time", "net.IP", "Names", "Limits",
	"Tagged", "*Tagged", "[]Tagged", "map[string]Tagged", "[1]Tagged",
	"[]Tree", "map[string]Tree", "*Tree",
	"PKeyMap", "ArrKeyMap", "*PKeyMap",
	"int", "string", "Stamp",
}

func aliasProfile() shape.Profile {
	p := shape.FullProfile()
	p.AllowEmptyStructs = true
	p.LeafTypes = aliasLeafTypes
	return p
}

func isRefKind(k reflect.Kind) bool {
	return k == reflect.Map || k == reflect.Slice || k == reflect.Pointer
}

func genShares(t *rapid.T, nodes []shape.Node, d *shape.Data) ([]ShareD, []ShareL) {
	var sd []ShareD
	var sl []ShareL
	for _, n := range nodes {
		if n.Class != shape.ClassLeaf || !isRefKind(n.Type.Kind()) {
			continue
		}
		if d.Defaults[n.Path] != 0 && len(d.Layers) > 0 && rapid.IntRange(0, 3).Draw(t, "share_default") == 0 {
			li := rapid.IntRange(0, len(d.Layers)-1).Draw(t, "share_default_layer")
			if d.Layers[li].Set == nil {
				d.Layers[li].Set = map[string]uint64{}
			}
			d.Layers[li].Set[n.Path] = d.Defaults[n.Path]
			sd = append(sd, ShareD{Layer: li, Path: n.Path})
			continue
		}
		if len(d.Layers) >= 2 && rapid.IntRange(0, 3).Draw(t, "share_layers") == 0 {
			from := rapid.IntRange(0, len(d.Layers)-2).Draw(t, "share_from")
			to := rapid.IntRange(from+1, len(d.Layers)-1).Draw(t, "share_to")
			if s := d.Layers[from].Set[n.Path]; s != 0 {
				if d.Layers[to].Set == nil {
					d.Layers[to].Set = map[string]uint64{}
				}
				d.Layers[to].Set[n.Path] = s
				sl = append(sl, ShareL{From: from, To: to, Path: n.Path})
			}
		}
	}
	return sd, sl
}

func genC02(t *rapid.T) C02Case {
	s := shape.Gen(t, aliasProfile())
	T, err := s.Build()
	if err != nil {
		t.Fatalf("generated shape does not build: %v", err)
	}
	nodes := shape.Walk(T)
	d := shape.GenData(t, nodes, 4, 45)
	sw := genShareWithin(t, nodes, &d)
	sd, sl := genShares(t, nodes, &d)
	return C02Case{Shape: s, Data: d, ShareDefault: sd, ShareLayers: sl, ShareWithin: sw, ShareInMaps: rapid.Bool().Draw(t, "share_in_maps")}
}

// applyShares physically aliases the leaves named by the directives.
func applyShares(defaults reflect.Value, layers []reflect.Value, sd []ShareD, sl []ShareL) int {
	n := 0
	leafOf := func(v reflect.Value, path string) reflect.Value {
		f := shape.FieldByPath(v, path)
		return f
	}
	for _, s := range sd {
		if s.Layer >= len(layers) {
			continue
		}
		src := leafOf(defaults, s.Path)
		dst := leafOf(layers[s.Layer], s.Path)
		if src.IsValid() && dst.IsValid() && dst.CanSet() && src.Type() == dst.Type() && isRefKind(src.Kind()) && !src.IsNil() {
			dst.Set(src)
			n++
		}
	}
	for _, s := range sl {
		if s.From >= len(layers) || s.To >= len(layers) {
			continue
		}
		src := leafOf(layers[s.From], s.Path)
		dst := leafOf(layers[s.To], s.Path)
		if src.IsValid() && dst.IsValid() && dst.CanSet() && src.Type() == dst.Type() && isRefKind(src.Kind()) && !src.IsNil() {
			dst.Set(src)
			n++
		}
	}
	return n
}

type builtInputs struct {
	defaults reflect.Value   // *T
	layers   []reflect.Value // addressable PT values
	args     []reflect.Value // what is handed to the stacker (value or pointer)
	shared   int
}

func buildInputs(b *shape.Builder, c C02Case) (*builtInputs, error) {
	in := &builtInputs{defaults: b.Defaults(c.Data)}
	pt := ptrify.Pointerify(b.T, in.defaults.Elem())
	for i, l := range c.Data.Layers {
		lv, err := b.Layer(pt, l)
		if err != nil {
			return nil, fmt.Errorf("layer %d: %w", i, err)
		}
		in.layers = append(in.layers, lv)
	}
	if c.ShareInMaps {
		in.shared += shareInMaps(in.defaults)
		for _, l := range in.layers {
			in.shared += shareInMaps(l)
		}
	}
	for _, sp := range c.ShareWithin {
		a, b := shape.FieldByPath(in.defaults, sp.A), shape.FieldByPath(in.defaults, sp.B)
		if a.IsValid() && b.IsValid() && b.CanSet() && a.Type() == b.Type() && isRefKind(a.Kind()) && !a.IsNil() {
			b.Set(a)
			in.shared++
		}
	}
	in.shared += applyShares(in.defaults, in.layers, c.ShareDefault, c.ShareLayers)
	for i, l := range c.Data.Layers {
		if l.ByPtr {
			in.args = append(in.args, in.layers[i].Addr())
		} else {
			in.args = append(in.args, in.layers[i])
		}
	}
	return in, nil
}

// checkInputsPristine compares the inputs with freshly rebuilt ones.
func checkInputsPristine(b *shape.Builder, c C02Case, in *builtInputs, when string) string {
	fresh, err := buildInputs(b, c)
	if err != nil {
		return "harness: " + err.Error()
	}
	if df := shape.Diff(fresh.defaults.Elem(), in.defaults.Elem()); df != "" {
		return fmt.Sprintf("%s: the caller's defaults changed at %s (fresh vs now)", when, df)
	}
	for i := range in.layers {
		if df := shape.Diff(fresh.layers[i], in.layers[i]); df != "" {
			return fmt.Sprintf("%s: source value %d changed at %s (fresh vs now)", when, i, df)
		}
	}
	return ""
}

func runC02(c C02Case) vrt.Verdict {
	T, err := c.Shape.Build()
	if err != nil {
		return vrt.Discardf("shape does not build")
	}
	b := shape.NewBuilder(T, shape.ValueOpts{})
	in, err := buildInputs(b, c)
	if err != nil {
		return vrt.Violationf("pointerified type cannot hold the layer: %v", err)
	}
	want := b.Expected(c.Data)
	if c.ShareInMaps {
		shareInMaps(want)
	}
	stack := func() (reflect.Value, error) {
		got, err := dials.VerifCompose(in.defaults.Interface(), in.args)
		if err != nil {
			return reflect.Value{}, err
		}
		return reflect.ValueOf(got), nil
	}
	r1, err := stack()
	if err != nil {
		return vrt.Violationf("stacking failed: %v", err)
	}
	r2, err := stack()
	if err != nil {
		return vrt.Violationf("second stacking failed: %v", err)
	}
	if df := shape.Diff(want.Elem(), r1.Elem()); df != "" {
		return vrt.Violationf("stacked config differs from the model at %s", df)
	}
	if df := shape.Diff(r1.Elem(), r2.Elem()); df != "" {
		return vrt.Violationf("stacking the same inputs twice gave different results at %s", df)
	}
	if msg := checkInputsPristine(b, c, in, "after stacking"); msg != "" {
		return vrt.Violationf("%s", msg)
	}
	// 1. address disjointness
	rr1, rr2 := shape.Regions(r1), shape.Regions(r2)
	if o := shape.Overlap(rr1, rr2); o != "" {
		return vrt.Violationf("two stacks of the same inputs share memory: %s", o)
	}
	if o := shape.Overlap(rr1, shape.Regions(in.defaults)); o != "" {
		return vrt.Violationf("stacked config shares memory with the defaults: (config) %s", o)
	}
	for i, l := range in.layers {
		if o := shape.Overlap(rr1, shape.Regions(l)); o != "" {
			return vrt.Violationf("stacked config shares memory with source value %d: (config) %s", i, o)
		}
	}
	// 2. scribble the first result: nothing else may change
	shape.Scribble(r1.Elem())
	if msg := checkInputsPristine(b, c, in, "after scribbling over a stacked config"); msg != "" {
		return vrt.Violationf("%s", msg)
	}
	if df := shape.Diff(want.Elem(), r2.Elem()); df != "" {
		return vrt.Violationf("scribbling over one stacked config changed another at %s", df)
	}
	r3, err := stack()
	if err != nil {
		return vrt.Violationf("third stacking failed: %v", err)
	}
	if df := shape.Diff(want.Elem(), r3.Elem()); df != "" {
		return vrt.Violationf("re-stacking after scribbling over an earlier config differs from the model at %s", df)
	}
	// 3. scribble the inputs: existing versions may not change
	shape.Scribble(in.defaults.Elem())
	for _, l := range in.layers {
		shape.Scribble(l)
	}
	if df := shape.Diff(want.Elem(), r3.Elem()); df != "" {
		return vrt.Violationf("scribbling over the inputs changed an already stacked config at %s", df)
	}

	refSet := 0
	for _, n := range shape.Walk(T) {
		if n.Class == shape.ClassLeaf && isRefKind(n.Type.Kind()) {
			for _, l := range c.Data.Layers {
				if l.Set[n.Path] != 0 {
					refSet++
				}
			}
		}
	}
	labels := []string{fmt.Sprintf("layers=%d", len(c.Data.Layers))}
	if in.shared > 0 {
		labels = append(labels, "aliased-inputs")
	}
	if refSet > 0 {
		labels = append(labels, "reference-leaf-set")
	}
	return vrt.OK(refSet >= 1 && len(c.Data.Layers) >= 1 && (in.shared > 0 || refSet >= 3), labels...)
}

func TestC02Compose(t *testing.T) {
	vrt.Check(t, vrt.Prop[C02Case]{
		ID: "C02", Name: "compose",
		Rule: "reflect-built config types biased to aliasable leaves (maps, slices with spare capacity, pointers, nested pointer structs, recursive element values nested up to ~120 levels deep, maps whose KEYS hold pointers), defaults and 0..4 layers, with some leaves physically shared between the defaults and a layer or between two layers; " +
			"oracles: address-range disjointness of the stacked config from defaults, every source value and a second stack; scribbling over a stacked config leaves inputs and other stacks unchanged; scribbling over inputs leaves stacks unchanged; two stacks are equal; " +
			"non-trivial = a layer sets a map/slice/pointer leaf and (inputs are aliased or >=3 reference leaves are set); distinct = distinct case JSON",
		Assumptions: []string{"memory behind unexported fields (time.Time's location pointer) is not examined: the statement says reachable through exported fields", "chan and func values are shared by identity as documented"},
		Gen:         genC02, Run: runC02,
	})
}

// ------------------------------------------------------------------------
// C02 through the public API: a real Dials with fake watchers.

type C02Deep struct {
	M map[string][]string
	Q **int
}

type C02Inner struct {
	Tags map[string]string
	Nums []int
	P    *int
	Deep *C02Deep
}

type C02Cfg struct {
	Name  string
	Vals  []int
	Table map[string]int
	Ptr   *int
	PP    **int
	PSl   *[]int
	Recs  []shape.Rec
	RecM  map[string]shape.Rec
	PtrM  map[string]*int
	Arr   [2]*int
	In    C02Inner
	PIn   *C02Inner
	shape.EmbB
	When   time.Time
	IP     net.IP
	Tg     shape.Tagged
	PTg    *shape.Tagged
	hidden int
	Ch     chan int
	Skip   []int `dials:"-"`
	// exported fields whose names start with a non-ASCII upper-case letter
	Ünits map[string]int
	Ärgs  []int
	Ωmega *int
}

var errC02Rejected = errors.New("C02Cfg: the stack does not verify")

// Verify rejects about a quarter of the stacks (a pure function of exported
// leaves), so that histories contain rejected configs: those are handed to
// OnWatchedError and are configs "obtained from a callback" too.
func (c *C02Cfg) Verify() error {
	if len(c.Vals)%4 == 3 || (c.Ptr != nil && *c.Ptr%5 == 0) {
		return errC02Rejected
	}
	return nil
}

// C02DialsCase: Data.Layers[i] is reported by source Src[i]; the first
// report of each source is its initial Value.
type C02DialsCase struct {
	Data         shape.Data  `json:"data"`
	Sources      int         `json:"sources"`
	Src          []int       `json:"src"`
	ShareDefault []ShareD    `json:"share_default,omitempty"`
	ShareLayers  []ShareL    `json:"share_layers,omitempty"`
	ShareWithin  []SharePair `json:"share_within,omitempty"`
	ShareInMaps  bool        `json:"share_in_maps,omitempty"`
	// ScribbleDefaultsAt: after that many reports the CALLER overwrites its own
	// defaults struct in place (0 = right after Config, negative = never); the
	// library's versions must keep following the defaults as they were when
	// Config was called
	ScribbleDefaultsAt int `json:"scribble_defaults_at,omitempty"`
	ScribbleAt         int `json:"scribble_at"` // scribble over the version current after this many reports
}

func genC02Dials(t *rapid.T) C02DialsCase {
	T := reflect.TypeOf(C02Cfg{})
	nodes := shape.Walk(T)
	d := shape.GenData(t, nodes, 8, 40)
	if len(d.Layers) == 0 {
		d.Layers = []shape.Layer{{}}
	}
	for i := range d.Layers {
		d.Layers[i].ByPtr = false
	}
	ns := rapid.IntRange(1, min(3, len(d.Layers))).Draw(t, "sources")
	src := make([]int, len(d.Layers))
	for i := range src {
		if i < ns {
			src[i] = i
		} else {
			src[i] = rapid.IntRange(0, ns-1).Draw(t, "src")
		}
	}
	sw := genShareWithin(t, nodes, &d)
	sd, sl := genShares(t, nodes, &d)
	return C02DialsCase{Data: d, Sources: ns, Src: src, ShareDefault: sd, ShareLayers: sl, ShareWithin: sw, ShareInMaps: rapid.Bool().Draw(t, "share_in_maps"), ScribbleAt: rapid.IntRange(0, len(d.Layers)).Draw(t, "scribble_at"),
		ScribbleDefaultsAt: rapid.IntRange(-2, len(d.Layers)).Draw(t, "scribble_defaults_at") + 1}
}

func runC02Dials(c C02DialsCase) vrt.Verdict {
	if c.Sources < 1 || len(c.Data.Layers) < c.Sources || len(c.Src) != len(c.Data.Layers) {
		return vrt.Discardf("malformed case")
	}
	for i := 0; i < c.Sources; i++ {
		if c.Src[i] != i {
			return vrt.Discardf("malformed case")
		}
	}
	T := reflect.TypeOf(C02Cfg{})
	b := shape.NewBuilder(T, shape.ValueOpts{})
	cc := C02Case{Data: c.Data, ShareDefault: c.ShareDefault, ShareLayers: c.ShareLayers, ShareWithin: c.ShareWithin, ShareInMaps: c.ShareInMaps}
	in, err := buildInputs(b, cc)
	if err != nil {
		return vrt.Violationf("pointerified type cannot hold the layer: %v", err)
	}
	ctx, cancel := context.WithCancel(context.Background())
	defer cancel()
	ws := make([]*fake.Watcher, c.Sources)
	srcs := make([]dials.Source, c.Sources)
	for i := range ws {
		ws[i] = &fake.Watcher{V: in.layers[i]}
		srcs[i] = ws[i]
	}
	// configs handed to OnWatchedError (rejected stacks) with what they must hold
	type rejectedCfg struct {
		cfg *C02Cfg
		err error
	}
	rejCh := make(chan rejectedCfg, 64)
	params := dials.Params[C02Cfg]{OnWatchedError: func(_ context.Context, err error, _, n *C02Cfg) {
		select {
		case rejCh <- rejectedCfg{n, err}:
		default:
		}
	}}
	// model: slot per source
	slot := make([]int, c.Sources)
	for i := range slot {
		slot[i] = i
	}
	initialInvalid := false
	{
		md := c.Data
		md.Layers = append([]shape.Layer{}, c.Data.Layers[:c.Sources]...)
		w0 := b.Expected(md)
		if c.ShareInMaps {
			shareInMaps(w0)
		}
		initialInvalid = w0.Interface().(*C02Cfg).Verify() != nil
	}
	d, err := params.Config(ctx, in.defaults.Interface().(*C02Cfg), srcs...)
	if initialInvalid {
		if err == nil || !errors.Is(err, errC02Rejected) {
			return vrt.Violationf("Config over an initial stack that does not verify returned %v", err)
		}
		return vrt.OK(false, "initial-stack-rejected")
	}
	if err != nil {
		return vrt.Violationf("Config failed: %v", err)
	}
	expected := func() reflect.Value {
		md := c.Data
		md.Layers = nil
		for _, li := range slot {
			md.Layers = append(md.Layers, c.Data.Layers[li])
		}
		w := b.Expected(md)
		if c.ShareInMaps {
			shareInMaps(w)
		}
		return w
	}
	type version struct {
		cfg  *C02Cfg
		want reflect.Value
	}
	var versions []version
	var rejects []version // configs handed to OnWatchedError: never installed, never touched again
	scribbled := -1
	defaultsScribbled, defaultsScribbledAtStep := false, 0
	observe := func(step int) string {
		v := d.View()
		w := expected()
		if df := shape.Diff(w.Elem(), reflect.ValueOf(v).Elem()); df != "" {
			return fmt.Sprintf("after %d reports the view differs from the model at %s", step, df)
		}
		versions = append(versions, version{v, w})
		if step == c.ScribbleAt {
			shape.Scribble(reflect.ValueOf(v).Elem())
			scribbled = len(versions) - 1
		}
		if c.ScribbleDefaultsAt > 0 && step == c.ScribbleDefaultsAt-1 && !defaultsScribbled && len(c.ShareDefault) == 0 {
			// (not when the harness made a source's value share objects with the
			// defaults: overwriting the defaults would then also overwrite a value the
			// source still owns and the library is entitled to re-read)
			// the caller reuses / overwrites its defaults struct in place
			shape.Scribble(in.defaults.Elem())
			defaultsScribbled = true
			defaultsScribbledAtStep = step
		}
		return ""
	}
	if msg := observe(0); msg != "" {
		return vrt.Violationf("%s", msg)
	}
	for i := c.Sources; i < len(c.Data.Layers); i++ {
		s := c.Src[i]
		if s < 0 || s >= c.Sources {
			return vrt.Discardf("malformed case")
		}
		rerr := ws[s].Args.BlockingReportNewValue(ctx, in.layers[i])
		prevSlot := slot[s]
		slot[s] = i // a rejected value stays in its source's slot
		if wantV := expected(); wantV.Interface().(*C02Cfg).Verify() != nil {
			if rerr == nil || !errors.Is(rerr, errC02Rejected) {
				return vrt.Violationf("blocking report %d of a stack that does not verify returned %v", i, rerr)
			}
			select {
			case rj := <-rejCh:
				if rj.cfg == nil {
					return vrt.Violationf("OnWatchedError for a rejected stack got a nil config")
				}
				if df := shape.Diff(wantV.Elem(), reflect.ValueOf(rj.cfg).Elem()); df != "" {
					return vrt.Violationf("the rejected config handed to OnWatchedError differs from the model at %s", df)
				}
				rejects = append(rejects, version{rj.cfg, wantV})
			case <-time.After(30 * time.Second):
				return vrt.Discardf("OnWatchedError was not called within 30 s of a rejected report (C04's business; inconclusive here)")
			}
			// the view stays at the last version that verified
			if v := d.View(); len(versions) > 0 && v != versions[len(versions)-1].cfg {
				return vrt.Violationf("a rejected report changed the view")
			}
			_ = prevSlot
			continue
		}
		if rerr != nil {
			return vrt.Violationf("blocking report %d failed: %v", i, rerr)
		}
		if msg := observe(i - c.Sources + 1); msg != "" {
			return vrt.Violationf("%s", msg)
		}
	}
	// every unscribbled version still equals what it was, inputs are pristine
	for i, v := range versions {
		if i == scribbled {
			continue
		}
		if df := shape.Diff(v.want.Elem(), reflect.ValueOf(v.cfg).Elem()); df != "" {
			return vrt.Violationf("version %d changed after it was published (another version was scribbled over / re-stacked) at %s", i, df)
		}
	}
	for i, rj := range rejects {
		for j, v := range versions {
			if v.cfg == rj.cfg {
				return vrt.Violationf("rejected config %d (handed to OnWatchedError) is the very object installed as version %d", i, j)
			}
		}
		if df := shape.Diff(rj.want.Elem(), reflect.ValueOf(rj.cfg).Elem()); df != "" {
			return vrt.Violationf("rejected config %d (handed to OnWatchedError) changed after the callback got it, at %s", i, df)
		}
	}
	if !defaultsScribbled {
		if msg := checkInputsPristine(b, cc, in, "after the history"); msg != "" {
			return vrt.Violationf("%s", msg)
		}
	}
	// pairwise disjointness of versions, defaults and reported values
	type named struct {
		name string
		r    []shape.Region
	}
	var all []named
	for i, v := range versions {
		all = append(all, named{fmt.Sprintf("version %d", i), shape.Regions(reflect.ValueOf(v.cfg))})
	}
	for i, rj := range rejects {
		all = append(all, named{fmt.Sprintf("rejected config %d (from OnWatchedError)", i), shape.Regions(reflect.ValueOf(rj.cfg))})
	}
	nv := len(all)
	all = append(all, named{"the caller's defaults", shape.Regions(in.defaults)})
	for i, l := range in.layers {
		all = append(all, named{fmt.Sprintf("value %d reported by source %d", i, c.Src[i]), shape.Regions(l)})
	}
	for i := 0; i < nv; i++ {
		for j := i + 1; j < len(all); j++ {
			if o := shape.Overlap(all[i].r, all[j].r); o != "" {
				return vrt.Violationf("%s shares memory with %s: %s", all[i].name, all[j].name, o)
			}
		}
	}
	refSet := 0
	for _, l := range c.Data.Layers {
		for k := range l.Set {
			f, _ := T.FieldByName(strings.Split(k, ".")[0])
			_ = f
			refSet++
		}
	}
	restacks := len(c.Data.Layers) - c.Sources
	labels := []string{fmt.Sprintf("sources=%d", c.Sources), fmt.Sprintf("restacks=%d", restacks)}
	if in.shared > 0 {
		labels = append(labels, "aliased-inputs")
	}
	labels = append(labels, fmt.Sprintf("rejected=%d", min(len(rejects), 2)))
	if scribbled >= 0 && scribbled < len(versions)-1 {
		labels = append(labels, "scribbled-before-a-restack")
	}
	if defaultsScribbled && defaultsScribbledAtStep < restacks {
		labels = append(labels, "defaults-overwritten-before-a-restack")
	}
	return vrt.OK(restacks >= 1 && refSet >= 1, labels...)
}

func TestC02Dials(t *testing.T) {
	vrt.Check(t, vrt.Prop[C02DialsCase]{
		ID: "C02", Name: "dials",
		Rule: "a compiled config type with maps, slices, pointers, pointer-to-pointer, nested and pointer structs, embedded struct and skipped fields, stacked by a real Dials (the type has a Verify that rejects about a quarter of the stacks; rejected configs are collected from OnWatchedError) from 1..3 fake watching sources; histories of 0..7 blocking re-stacks with aliased inputs; " +
			"one published version is scribbled over in the middle of the history, and in most histories the caller overwrites its own defaults struct in place at some point after Config; oracles: every view equals the reference model, all versions / defaults / reported values are pairwise address-disjoint, unscribbled versions and inputs never change; " +
			"non-trivial = at least one re-stack and a leaf set by a layer; distinct = distinct case JSON",
		Assumptions: []string{"updates are delivered with BlockingReportNewValue so that the history is deterministic without owning the scheduler"},
		Gen:         genC02Dials, Run: runC02Dials,
	})
}
