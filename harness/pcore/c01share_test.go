package pcore

import (
	"fmt"
	"reflect"
	"sort"
	"testing"

	"github.com/vimeo/dials"
	"github.com/vimeo/dials/ptrify"
	"pgregory.net/rapid"

	"verifharness/internal/shape"
	"verifharness/internal/vrt"
)

// Link makes leaf B of one input value (the defaults when Where is -1, else
// layer Where) share storage with leaf A of the same value: the very same
// pointer / map / slice (Window 0) or, for slices, a shorter window onto the
// same backing array (B = A[:len(A)-Window]).  Stacking is by value: what the
// inputs share must not couple the leaves of the result.
type Link struct {
	Where  int    `json:"where"`
	A      string `json:"a"`
	B      string `json:"b"`
	Window int    `json:"window,omitempty"`
	// Entry: A is a map whose VALUES have B's type (map[string][]int and a
	// []int leaf): B is the very slice / map stored under A's Key-th key
	Entry bool `json:"entry,omitempty"`
	Key   int  `json:"key,omitempty"`
}

type C01ShareCase struct {
	Shape shape.Shape `json:"shape"`
	Data  shape.Data  `json:"data"`
	Links []Link      `json:"links"`
}

var shareLeafTypes = []string{"*int", "*int", "*string", "**int", "*[]int", "[]string", "[]string", "[]int", "[]int", "Names", "map[string]int", "map[string]int", "map[string][]int", "map[string]map[string]int", "*Stamp", "int", "string"}

func genC01Share(t *rapid.T) C01ShareCase {
	prof := shape.FullProfile()
	prof.LeafTypes = shareLeafTypes
	prof.SkipClasses = nil
	prof.MaxDepth = 2
	prof.MinFields = 3
	s := shape.Gen(t, prof)
	T, err := s.Build()
	if err != nil {
		t.Fatalf("generated shape does not build: %v", err)
	}
	nodes := shape.Walk(T)
	d := shape.GenData(t, nodes, 4, 60)
	c := C01ShareCase{Shape: s, Data: d}
	isRef := func(k reflect.Kind) bool { return k == reflect.Pointer || k == reflect.Slice || k == reflect.Map }
	pairs := func(where int, isSet func(path string) bool) {
		byType := map[reflect.Type][]string{}
		var order []reflect.Type
		for _, n := range nodes {
			if n.Class != shape.ClassLeaf || !isRef(n.Type.Kind()) || !isSet(n.Path) {
				continue
			}
			if _, ok := byType[n.Type]; !ok {
				order = append(order, n.Type)
			}
			byType[n.Type] = append(byType[n.Type], n.Path)
		}
		for _, ty := range order {
			ps := byType[ty]
			for i := 1; i < len(ps); i++ {
				if rapid.IntRange(0, 2).Draw(t, "link") == 0 {
					continue
				}
				l := Link{Where: where, A: ps[0], B: ps[i]}
				if ty.Kind() == reflect.Slice && rapid.Bool().Draw(t, "window") {
					l.Window = rapid.IntRange(1, 3).Draw(t, "window_by")
				}
				c.Links = append(c.Links, l)
			}
		}
	}
	// entries of a map leaf shared with sibling leaves of the map's value type
	entries := func(where int, isSet func(path string) bool) {
		for _, m := range nodes {
			if m.Class != shape.ClassLeaf || m.Type.Kind() != reflect.Map || !isRef(m.Type.Elem().Kind()) || !isSet(m.Path) {
				continue
			}
			for _, n := range nodes {
				if n.Class != shape.ClassLeaf || n.Type != m.Type.Elem() || !isSet(n.Path) || rapid.IntRange(0, 2).Draw(t, "entry_link") == 0 {
					continue
				}
				c.Links = append(c.Links, Link{Where: where, A: m.Path, B: n.Path, Entry: true, Key: rapid.IntRange(0, 2).Draw(t, "entry_key")})
			}
		}
	}
	entries(-1, func(p string) bool { return d.Defaults[p] != 0 })
	for li, l := range d.Layers {
		l := l
		entries(li, func(p string) bool { return l.Set[p] != 0 })
	}
	pairs(-1, func(p string) bool { return d.Defaults[p] != 0 })
	for li, l := range d.Layers {
		l := l
		pairs(li, func(p string) bool { return l.Set[p] != 0 })
	}
	return c
}

// applyLinks aliases the leaves of one input value; it returns how many links
// took effect.
func applyLinks(v reflect.Value, where int, links []Link) int {
	n := 0
	for _, l := range links {
		if l.Where != where {
			continue
		}
		a, b := shape.FieldByPath(v, l.A), shape.FieldByPath(v, l.B)
		if l.Entry {
			if !a.IsValid() || !b.IsValid() || !b.CanSet() || a.Kind() != reflect.Map || a.Type().Elem() != b.Type() || a.Len() == 0 {
				continue
			}
			keys := a.MapKeys()
			sort.Slice(keys, func(i, j int) bool { return keys[i].String() < keys[j].String() })
			ev := a.MapIndex(keys[l.Key%len(keys)])
			if ev.IsNil() {
				continue
			}
			b.Set(ev)
			n++
			continue
		}
		if !a.IsValid() || !b.IsValid() || !b.CanSet() || a.Type() != b.Type() {
			continue
		}
		switch a.Kind() {
		case reflect.Pointer, reflect.Map:
			if a.IsNil() {
				continue
			}
			b.Set(a)
		case reflect.Slice:
			if a.IsNil() {
				continue
			}
			if l.Window > 0 {
				if a.Len() <= l.Window {
					continue
				}
				b.Set(a.Slice(0, a.Len()-l.Window))
			} else {
				b.Set(a)
			}
		default:
			continue
		}
		n++
	}
	return n
}

func runC01Share(c C01ShareCase) vrt.Verdict {
	T, err := c.Shape.Build()
	if err != nil {
		return vrt.Discardf("shape does not build")
	}
	b := shape.NewBuilder(T, shape.ValueOpts{})
	d := c.Data
	for _, l := range c.Links {
		if l.Where < -1 || l.Where >= len(d.Layers) {
			return vrt.Discardf("bad link")
		}
	}
	build := func() (reflect.Value, []reflect.Value, int, error) {
		defaults := b.Defaults(d)
		pt := ptrify.Pointerify(b.T, defaults.Elem())
		applied := applyLinks(defaults, -1, c.Links)
		var layers []reflect.Value
		for i, l := range d.Layers {
			lv, err := b.Layer(pt, l)
			if err != nil {
				return defaults, nil, 0, fmt.Errorf("layer %d: %w", i, err)
			}
			applied += applyLinks(lv, i, c.Links)
			layers = append(layers, lv)
		}
		return defaults, layers, applied, nil
	}
	defaults, layers, applied, err := build()
	if err != nil {
		return vrt.Violationf("pointerified type cannot hold the layer: %v", err)
	}
	args := make([]reflect.Value, len(layers))
	for i, lv := range layers {
		args[i] = lv
		if d.Layers[i].ByPtr {
			args[i] = lv.Addr()
		}
	}
	gotI, err := dials.VerifCompose(defaults.Interface(), args)
	if err != nil {
		return vrt.Violationf("stacking failed: %v", err)
	}
	got := reflect.ValueOf(gotI)
	// reference: the plain model, with every linked leaf B taking the value it
	// has in the input that is the LAST one to set B
	want := b.Expected(d)
	fDefaults, fLayers, _, _ := build()
	coupled := 0
	for _, l := range c.Links {
		last := -1
		for li, lay := range d.Layers {
			if lay.Set[l.B] != 0 {
				last = li
			}
		}
		if last != l.Where {
			continue
		}
		src := fDefaults
		if l.Where >= 0 {
			src = fLayers[l.Where]
		}
		sv := shape.FieldByPath(src, l.B)
		wv := shape.FieldByPath(want, l.B)
		if !sv.IsValid() || !wv.IsValid() || !wv.CanSet() {
			continue
		}
		if sv.Type() == wv.Type() {
			wv.Set(sv)
		}
	}
	for _, l := range c.Links {
		// the interesting situation: one leaf of a linked pair is overridden later, the other is not
		lastA, lastB := -1, -1
		for li, lay := range d.Layers {
			if lay.Set[l.A] != 0 {
				lastA = li
			}
			if lay.Set[l.B] != 0 {
				lastB = li
			}
		}
		if (lastA > l.Where) != (lastB > l.Where) || l.Window > 0 {
			coupled++
		}
	}
	if df := shape.Diff(want.Elem(), got.Elem()); df != "" {
		return vrt.Violationf("stacked config differs from the reference model at %s (want vs got); inputs share storage: %+v", df, c.Links)
	}
	if df := shape.Diff(fDefaults.Elem(), defaults.Elem()); df != "" {
		return vrt.Violationf("defaults were modified by stacking at %s (fresh vs after)", df)
	}
	for i := range layers {
		if df := shape.Diff(fLayers[i], layers[i]); df != "" {
			return vrt.Violationf("source value %d was modified by stacking at %s (fresh vs after)", i, df)
		}
	}
	labels := []string{fmt.Sprintf("layers=%d", len(d.Layers)), fmt.Sprintf("links=%d", min(applied, 4))}
	for _, l := range c.Links {
		if l.Window > 0 {
			labels = append(labels, "window-link")
			break
		}
	}
	for _, l := range c.Links {
		if l.Entry {
			labels = append(labels, "map-entry-link")
			break
		}
	}
	if coupled > 0 {
		labels = append(labels, "linked-leaf-overridden-alone")
	}
	return vrt.OK(applied >= 1 && coupled >= 1 && len(d.Layers) >= 1, labels...)
}

func TestC01Shared(t *testing.T) {
	vrt.Check(t, vrt.Prop[C01ShareCase]{
		ID: "C01", Name: "shared",
		Rule: "config types rich in same-typed reference leaves (user pointers, slices, maps, named slices); defaults and 0..4 layers in which pairs of same-typed leaves of ONE input value share storage: the identical pointer / map / slice, or two windows of different length onto one backing array, or a slice / map leaf that IS one of the entries of a map leaf (map[string][]int next to []int leaves); " +
			"oracle: stacking is by value - every leaf equals the value of the last input that set it (the plain reference model; sharing inside an input must not couple leaves of the result), and no input is modified; " +
			"non-trivial = at least one applied link whose two leaves are overridden differently by later layers (or a window link), >=1 layer; distinct = distinct case JSON",
		Assumptions: []string{"layers are values of the pointerified type; sources are free to hand out values whose leaves share storage (decoders of anchors/aliases, hand-written sources)"},
		Gen:         genC01Share, Run: runC01Share,
	})
}
