package palias

// Slices of structs whose element fields carry alias tags.  The elements of a
// slice are not pointerified, so inside an element "not supplied" is the zero
// value (nil for pointer, slice and map fields): either name sets the element
// field, neither leaves it zero, both non-zero is an error naming the field.
// Only documents can spell a slice of structs (env, flag and pflag cannot), so
// these leaf types appear in the decoder checks and in the ez check only.

import (
	"fmt"
	"reflect"
	"strings"

	"verifharness/internal/shape"
)

// ElemSub is a struct-typed field of an element.
type ElemSub struct {
	Deep int    `dials:"deep" dialsalias:"old_deep"`
	Mark string `dials:"mark"`
}

// ElemItem is the element type of generated []ElemItem leaves.
type ElemItem struct {
	Name string   `dials:"name" dialsalias:"old_name"`
	Port int      `dials:"port"`
	Tags []string `dials:"tags" dialsalias:"labels"`
	Sub  ElemSub  `dials:"sub" dialsalias:"oldsub"`
	Opt  *ElemSub `dials:"opt" dialsalias:"oldopt"`
	Rate float64  `dialsalias:"speed"`
}

// EzItemSub / EzItem are the element types of the fixed ez config type.
type EzItemSub struct {
	Deep int `dials:"vfcitemdeep" dialsalias:"vfcolditemdeep"`
}

// EzItem is the element type of ezConfig.Items.
type EzItem struct {
	Name string    `dials:"vfcitemname" dialsalias:"vfcolditemname"`
	Port int       `dials:"vfcitemport"`
	Sub  EzItemSub `dials:"vfcitemsub" dialsalias:"vfcolditemsub"`
	Caps []string  `dials:"vfcitemcaps" dialsalias:"vfcolditemcaps"`
}

var elemRegistry = map[string]reflect.Type{
	"ElemItem": reflect.TypeOf(ElemItem{}),
	"EzItem":   reflect.TypeOf(EzItem{}),
}

// elemLeafTypes are added to the leaf grammar of the decoder checks.
var elemLeafTypes = []string{"[]ElemItem", "[]ElemItem"}

func init() {
	for n, t := range elemRegistry {
		shape.RegisterBase(n, t)
	}
}

// elemTypeOf returns the element struct type name of a slice-of-struct leaf
// type expression.
func elemTypeOf(typ string) (string, bool) {
	if !strings.HasPrefix(typ, "[]") {
		return "", false
	}
	_, ok := elemRegistry[typ[2:]]
	return typ[2:], ok
}

// elemModel is the model of one element of the leaf (same source and key
// options as the enclosing model).
func (m *model) elemModel(typeName string) (*model, error) {
	em, err := buildModel(shape.Shape{Fields: shapeOfType(elemRegistry[typeName])}, m.src)
	if err != nil {
		return nil, err
	}
	em.keyEnc, em.flattenAnon, em.recaseAll = m.keyEnc, m.flattenAnon, m.recaseAll
	return em, nil
}

// makeElemVal is makeVal restricted to values that count as supplied inside
// an element: non-zero scalars (collections are non-nil anyway).
func makeElemVal(typ string, seed uint64) reflect.Value {
	for i := uint64(0); ; i++ {
		v := makeVal(typ, seed+i*0x9e3779b97f4a7c15)
		if !isZeroScalar(v) {
			return v
		}
	}
}

// fillConcrete sets the leaves named by set in a value of the declared (not
// pointerified) struct type; pointer structs are allocated when something
// lands below them.
func fillConcrete(v reflect.Value, fs []*mfield, set map[string]string, valOf func(f *mfield, key string) reflect.Value) {
	for _, f := range fs {
		fv := v.FieldByName(f.name)
		if f.leaf {
			if key, ok := set[f.path]; ok {
				fv.Set(valOf(f, key))
			}
			continue
		}
		present := false
		for k := range set {
			if strings.HasPrefix(k, f.path+".") {
				present = true
			}
		}
		if fv.Kind() == reflect.Pointer {
			if !present {
				continue
			}
			fv.Set(reflect.New(fv.Type().Elem()))
			fv = fv.Elem()
		}
		fillConcrete(fv, f.kids, set, valOf)
	}
}

// elemLeaf evaluates a slice-of-struct leaf: elems[i] maps the expanded-leaf
// keys of element i (relative to the element type) to value seeds.  It returns
// the slice the field must hold, its spelling in a document, the element
// fields supplied under both names, and the patterns seen.
func (m *model) elemLeaf(f *mfield, elems []map[string]uint64, toml, nativeSet, upper bool) (val reflect.Value, doc string, both []*mfield, pats []patInst, err error) {
	tn, ok := elemTypeOf(f.typ)
	if !ok {
		return val, "", nil, nil, fmt.Errorf("%s is not a slice of a registered struct type", f.typ)
	}
	em, err := m.elemModel(tn)
	if err != nil {
		return val, "", nil, nil, err
	}
	byKey := map[string]xleaf{}
	for _, x := range em.expand() {
		byKey[x.key] = x
	}
	et := elemRegistry[tn]
	val = reflect.MakeSlice(reflect.SliceOf(et), len(elems), len(elems))
	var docs []string
	for i, el := range elems {
		node := &docNode{}
		for _, k := range shape.SortedKeys(el) {
			x, ok := byKey[k]
			if !ok {
				return val, "", nil, nil, fmt.Errorf("element key %q is not an expanded leaf of %s", k, tn)
			}
			path := append([]string{}, x.docPath...)
			if upper {
				for j := range path {
					path[j] = strings.ToUpper(path[j])
				}
			}
			node.put(path, docValue(makeElemVal(x.f.typ, el[k]), toml, nativeSet))
		}
		if toml {
			docs = append(docs, node.tomlInline())
		} else {
			docs = append(docs, node.json())
		}
		ev := em.eval(el)
		both = append(both, ev.both...)
		pats = append(pats, ev.pats...)
		fillConcrete(val.Index(i), em.fields, ev.set, func(lf *mfield, key string) reflect.Value { return makeElemVal(lf.typ, el[key]) })
	}
	return val, "[" + strings.Join(docs, ", ") + "]", both, pats, nil
}

// genElems draws the elements of a supplied slice-of-struct leaf.
func (g *supplyGen) genElems(f *mfield) ([]map[string]uint64, error) {
	tn, _ := elemTypeOf(f.typ)
	em, err := g.m.elemModel(tn)
	if err != nil {
		return nil, err
	}
	n := g.drawElemCount()
	out := make([]map[string]uint64, n)
	for i := range out {
		eg := &supplyGen{t: g.t, m: em, allowBoth: g.allowBoth, supply: map[string]uint64{}}
		eg.fill(em.fields, "")
		out[i] = eg.supply
	}
	return out, nil
}

// elemLabels classifies the aliased element-field instances.
func elemLabels(pats []patInst, lab map[string]bool) {
	for _, p := range pats {
		k := "leaf"
		if !p.f.leaf {
			k = "struct"
		}
		lab["slice-elem:"+k+":"+p.pat] = true
	}
}
