package palias

// Model of alias handling that is independent of the code under test: which
// names a field can be supplied under in each source (known by construction
// from the generated tags and the words of generated field names), which
// "expanded leaves" exist once aliased struct-typed fields duplicate their
// subtree, and what the source must return for a given set of supplied leaves.

import (
	"fmt"
	"reflect"
	"sort"
	"strconv"
	"strings"
	"time"

	"verifharness/internal/shape"
)

// aliasMark is appended to a field name in an expanded-leaf key when the
// value is supplied under the alias name of that field.
const aliasMark = "~a"

// envPrefix keeps generated environment variable names (PATH, HOST, USER ...
// are all in the field-name vocabulary) away from the real environment.
const envPrefix = "VFC14"

type srcKind struct {
	name    string
	flatten bool   // env / flag / pflag: nested names are joined into one flat name
	spTag   string // source-specific primary tag (flatten sources)
}

var sources = map[string]srcKind{
	"env":   {name: "env", flatten: true, spTag: "dialsenv"},
	"flag":  {name: "flag", flatten: true, spTag: "dialsflag"},
	"pflag": {name: "pflag", flatten: true, spTag: "dialspflag"},
	"json":  {name: "json"},
	"yaml":  {name: "yaml"},
	"toml":  {name: "toml"},
	"cue":   {name: "cue"},
}

// mfield is one field of the generated config type with its parsed tags.
type mfield struct {
	name  string
	words []string // words of the Go field name (by construction)
	path  string   // dotted Go path
	depth int
	leaf  bool
	typ   string // leaf type expression

	dials, alias   string // dials / dialsalias
	dialsOK        bool
	aliasOK        bool
	sp, sa         string // source-specific primary / alias tag of the source under test
	spOK, saOK     bool
	underAliased   bool // some enclosing struct field is aliased
	kids           []*mfield
	hasAlias       bool // has an alias name distinct from the primary one in this source
	classA         bool // generic alias + source-specific primary, no source-specific alias
	aliasFromSrc   bool // aliased only through the source-specific alias tag
	untaggedPrimay bool
	// decName: name given by a hand-written tag of the decoder under test
	// (json for JSON and Cue, yaml, toml); the decoder uses it for the
	// ORIGINAL field whatever the dials tag is turned into on the way.
	decName    string
	decOK      bool
	embed      bool // embedded (anonymous) struct field of a registered type
	pembed     bool // ... embedded by pointer
	inEmbedded bool // lives inside an embedded struct
}

type model struct {
	src    srcKind
	fields []*mfield
	all    []*mfield
	// keyEnc: a tag-reformatting mangler (ez with FileFieldNameEncoder set:
	// "upper_snake", "lower_snake" or "kebab") gives an untagged embedded
	// field a key derived from its type name, so it is no longer promoted.
	keyEnc string
	// recaseAll: the decoder below the alias wrapper re-cases EVERY dials tag
	// (and derives one from the name of untagged fields) with encoder keyEnc;
	// every document key is then the encoder's join of the words.
	recaseAll bool
	// flattenAnon: the YAML decoder hoists the fields of embedded structs
	// (ez Params.FlattenAnonymousFields; YAML only).
	flattenAnon bool
}

func buildModel(s shape.Shape, src srcKind) (*model, error) {
	m := &model{src: src}
	var rec func(fs []shape.Field, prefix string, depth int, under, inEmb bool) ([]*mfield, error)
	rec = func(fs []shape.Field, prefix string, depth int, under, inEmb bool) ([]*mfield, error) {
		var out []*mfield
		for i := range fs {
			f := &fs[i]
			mf := &mfield{name: f.Name, words: f.Words, depth: depth, underAliased: under, inEmbedded: inEmb}
			mf.path = f.Name
			if prefix != "" {
				mf.path = prefix + "." + f.Name
			}
			switch f.Kind {
			case "leaf":
				mf.leaf, mf.typ = true, f.Type
			case "struct", "pstruct":
			case "embed", "pembed":
				mf.embed, mf.pembed = true, f.Kind == "pembed"
				if f.Name != f.Type {
					return nil, fmt.Errorf("embedded field %s must be named after its type %s", f.Name, f.Type)
				}
			default:
				return nil, fmt.Errorf("field kind %q is outside this check's grammar", f.Kind)
			}
			tag := reflect.StructTag(f.Tag)
			mf.dials, mf.dialsOK = tag.Lookup("dials")
			mf.alias, mf.aliasOK = tag.Lookup("dialsalias")
			if dk, ok := map[string]string{"json": "json", "cue": "json", "yaml": "yaml", "toml": "toml"}[src.name]; ok {
				if v, has := tag.Lookup(dk); has {
					mf.decName, mf.decOK = strings.Split(v, ",")[0], true
					if mf.decName == "" || mf.decName == "-" {
						return nil, fmt.Errorf("unsupported decoder tag on %s", mf.path)
					}
				}
			}
			if src.flatten && mf.leaf {
				mf.sp, mf.spOK = tag.Lookup(src.spTag)
				mf.sa, mf.saOK = tag.Lookup(src.spTag + "alias")
			}
			if (mf.dialsOK && mf.dials == "") || (mf.aliasOK && mf.alias == "") || (mf.spOK && mf.sp == "") || (mf.saOK && mf.sa == "") {
				return nil, fmt.Errorf("empty tag value on %s", mf.path)
			}
			if !mf.dialsOK && len(mf.words) == 0 && !mf.embed {
				return nil, fmt.Errorf("untagged field %s without words", mf.path)
			}
			if src.flatten {
				mf.classA = mf.aliasOK && mf.spOK && !mf.saOK
				mf.hasAlias = mf.saOK || (mf.aliasOK && !mf.spOK)
				mf.aliasFromSrc = mf.saOK && !mf.aliasOK
			} else {
				mf.hasAlias = mf.aliasOK
			}
			mf.untaggedPrimay = !mf.dialsOK && !mf.spOK
			if !mf.leaf {
				kidFields := f.Fields
				if mf.embed {
					ks, ok := embedKids(f.Type)
					if !ok {
						return nil, fmt.Errorf("unknown embeddable type %q", f.Type)
					}
					kidFields = ks
				}
				kids, err := rec(kidFields, mf.path, depth+1, under || mf.aliasOK, inEmb || mf.embed)
				if err != nil {
					return nil, err
				}
				mf.kids = kids
			}
			out = append(out, mf)
			m.all = append(m.all, mf)
		}
		return out, nil
	}
	fs, err := rec(s.Fields, "", 0, false, false)
	if err != nil {
		return nil, err
	}
	m.fields = fs
	return m, nil
}

// splitTagWords splits a generated tag value (single word, camelCase,
// snake_case or kebab-case of lower-case words) into its words.  Own code; the
// library's case decoders are never consulted by the oracle.
func splitTagWords(s string) []string {
	var words []string
	cur := strings.Builder{}
	flush := func() {
		if cur.Len() > 0 {
			words = append(words, strings.ToLower(cur.String()))
			cur.Reset()
		}
	}
	for _, r := range s {
		switch {
		case r == '_' || r == '-':
			flush()
		case r >= 'A' && r <= 'Z':
			flush()
			cur.WriteRune(r)
		default:
			cur.WriteRune(r)
		}
	}
	flush()
	return words
}

// xleaf is one expanded leaf: a leaf field reached through a particular choice
// of primary / alias name at every aliased field on the way.
type xleaf struct {
	key     string // e.g. "Inner~a.Port"
	f       *mfield
	name    string   // env variable / flag name (flatten sources)
	docPath []string // document keys (decoders)
}

type edge struct {
	seg    string   // key segment
	words  []string // words contributed to an env name
	raw    string   // element contributed to a flag name
	docKey string   // key in a document
	abs    string   // absolute (source-specific) leaf name, "" if relative
}

func (m *model) edges(f *mfield) []edge {
	var prim edge
	prim.seg = f.name
	if f.dialsOK {
		prim.words, prim.raw, prim.docKey = splitTagWords(f.dials), f.dials, f.dials
	} else if f.embed {
		// An untagged embedded struct: the flatten sources and encoding/json
		// (hence Cue) promote its fields, i.e. it contributes no name
		// element; yaml.v2 (no ",inline") and go-toml treat it as a field
		// named after its type.  All four verified on the unmodified tree.
		switch {
		case m.flattenAnon && m.src.name == "yaml":
			// hoisted inside the YAML decoder, whatever tag the reformatting
			// mangler put on the embedded field
		case m.keyEnc != "":
			prim.docKey = encodeKey(m.keyEnc, embedTypeWords[f.name])
		case m.src.name == "yaml":
			prim.docKey = strings.ToLower(f.name)
		case m.src.name == "toml":
			prim.docKey = f.name
		}
	} else {
		prim.words, prim.raw = f.words, strings.Join(f.words, "-")
		switch m.src.name {
		case "yaml":
			// yaml.v2: "the field name lowercased as the default key"
			prim.docKey = strings.ToLower(f.name)
		default:
			// encoding/json, cue and go-toml use the Go field name
			prim.docKey = f.name
		}
	}
	if f.spOK {
		prim.abs = f.sp
	}
	if m.recaseAll && !(f.embed && m.flattenAnon && m.src.name == "yaml") {
		w := prim.words
		if f.embed && !f.dialsOK {
			w = embedTypeWords[f.name]
		}
		prim.docKey = encodeKey(m.keyEnc, w)
	}
	if f.decOK {
		// a hand-written json / yaml / toml tag is what the decoder goes by
		// for the original field (tag copying and re-casing leave it alone);
		// the alias copy does not inherit it
		prim.docKey = f.decName
	}
	out := []edge{prim}
	if f.hasAlias {
		al := prim
		al.seg = f.name + aliasMark
		al.abs = ""
		if f.aliasOK {
			al.words, al.raw, al.docKey = splitTagWords(f.alias), f.alias, f.alias
		}
		if f.saOK {
			al.abs = f.sa
		}
		if m.recaseAll && f.aliasOK {
			al.docKey = encodeKey(m.keyEnc, al.words)
		}
		out = append(out, al)
	}
	return out
}

func (m *model) expand() []xleaf {
	var out []xleaf
	var rec func(fs []*mfield, key string, words, raws, doc []string)
	rec = func(fs []*mfield, key string, words, raws, doc []string) {
		for _, f := range fs {
			for _, e := range m.edges(f) {
				k := e.seg
				if key != "" {
					k = key + "." + e.seg
				}
				w := append(append([]string{}, words...), e.words...)
				r := append([]string{}, raws...)
				if e.raw != "" {
					r = append(r, e.raw)
				}
				d := append([]string{}, doc...)
				if e.docKey != "" {
					d = append(d, e.docKey)
				}
				if !f.leaf {
					rec(f.kids, k, w, r, d)
					continue
				}
				x := xleaf{key: k, f: f, docPath: d}
				switch m.src.name {
				case "env":
					if e.abs != "" {
						x.name = envPrefix + "_" + e.abs
					} else {
						x.name = envPrefix + "_" + strings.ToUpper(strings.Join(w, "_"))
					}
				case "flag", "pflag":
					if e.abs != "" {
						x.name = e.abs
					} else {
						x.name = strings.Join(r, "-")
					}
				}
				out = append(out, x)
			}
		}
	}
	rec(m.fields, "", nil, nil, nil)
	return out
}

// ---- oracle ----

type patInst struct {
	f     *mfield
	pat   string // neither | primary | alias | both
	depth int
	// expanded-leaf keys of the two names (leaf fields only)
	pk, ak string
}

// embedLabels classifies the embedded structs of the type and the aliased
// field instances that live inside one.
func embedLabels(m *model, pats []patInst, lab map[string]bool) {
	for _, f := range m.all {
		if !f.embed {
			continue
		}
		where := "root"
		if f.depth > 0 {
			where = "nested"
		}
		how := "value"
		if f.pembed {
			how = "pointer"
		}
		lab["embedded:"+where] = true
		lab["embedded:by-"+how] = true
		if f.dialsOK {
			lab["embedded-field:dials-tag"] = true
		}
		if f.aliasOK {
			lab["embedded-field:aliased"] = true
		}
		if f.underAliased {
			lab["embedded:under-aliased-struct"] = true
		}
	}
	for _, p := range pats {
		if p.f.inEmbedded {
			lab["aliased-in-embedded:"+p.pat] = true
		}
		if p.f.decOK {
			lab["aliased-with-decoder-tags:"+p.pat] = true
			if p.f.depth > 0 {
				lab["aliased-with-decoder-tags:nested"] = true
			}
		}
	}
}

// emptyLabels classifies aliased collection leaves that were supplied with an
// explicitly empty value under the primary name, the alias name, or on at
// least one side of a "both" pattern.
func emptyLabels(pats []patInst, supply map[string]uint64, lab map[string]bool) {
	for _, p := range pats {
		if !p.f.leaf || p.pat == "neither" {
			continue
		}
		if _, isElem := elemTypeOf(p.f.typ); isElem {
			continue
		}
		emptyAt := func(k string) bool {
			seed, ok := supply[k]
			return ok && isEmptyCollection(makeVal(p.f.typ, seed))
		}
		switch p.pat {
		case "primary":
			if emptyAt(p.pk) {
				lab["empty-collection:primary"] = true
			}
		case "alias":
			if emptyAt(p.ak) {
				lab["empty-collection:alias"] = true
			}
		case "both":
			if emptyAt(p.pk) || emptyAt(p.ak) {
				lab["empty-collection:both"] = true
			}
		}
	}
}

type evalResult struct {
	set    map[string]string // Go leaf path -> expanded-leaf key whose value must land
	both   []*mfield         // fields supplied under both names
	nonNil bool
	pats   []patInst
	// classA fields that were supplied (only the primary name exists)
	classASupplied []*mfield
}

func (m *model) eval(supply map[string]uint64) evalResult {
	res := evalResult{set: map[string]string{}}
	var rec func(fs []*mfield, key string) (map[string]string, bool)
	rec = func(fs []*mfield, key string) (map[string]string, bool) {
		set := map[string]string{}
		any := false
		for _, f := range fs {
			pk := f.name
			if key != "" {
				pk = key + "." + f.name
			}
			ak := pk + aliasMark
			if f.leaf {
				_, pOK := supply[pk]
				aOK := false
				if f.hasAlias {
					_, aOK = supply[ak]
				}
				if f.classA && pOK {
					res.classASupplied = append(res.classASupplied, f)
				}
				pat := "neither"
				switch {
				case pOK && aOK:
					pat = "both"
					res.both = append(res.both, f)
					any = true
				case pOK:
					pat = "primary"
					set[f.path] = pk
					any = true
				case aOK:
					pat = "alias"
					set[f.path] = ak
					any = true
				}
				if f.hasAlias {
					res.pats = append(res.pats, patInst{f: f, pat: pat, depth: f.depth, pk: pk, ak: ak})
				}
				continue
			}
			pset, pAny := rec(f.kids, pk)
			var aset map[string]string
			aAny := false
			if f.hasAlias {
				aset, aAny = rec(f.kids, ak)
			}
			pat := "neither"
			switch {
			case pAny && aAny:
				pat = "both"
				res.both = append(res.both, f)
				any = true
			case pAny:
				pat = "primary"
				for k, v := range pset {
					set[k] = v
				}
				any = true
			case aAny:
				pat = "alias"
				for k, v := range aset {
					set[k] = v
				}
				any = true
			}
			if f.hasAlias {
				res.pats = append(res.pats, patInst{f: f, pat: pat, depth: f.depth})
			}
		}
		return set, any
	}
	res.set, res.nonNil = rec(m.fields, "")
	return res
}

// want builds the value of the pointerified type pt that the source must
// return when no field is supplied under both names.
func (m *model) want(pt reflect.Type, set map[string]string, valOf func(f *mfield, key string) reflect.Value) (reflect.Value, error) {
	v := reflect.New(pt).Elem()
	var rec func(v reflect.Value, fs []*mfield) error
	rec = func(v reflect.Value, fs []*mfield) error {
		for _, f := range fs {
			pf := v.FieldByName(f.name)
			if !pf.IsValid() {
				return fmt.Errorf("pointerified type has no field %s", f.path)
			}
			if f.leaf {
				key, ok := set[f.path]
				if !ok {
					continue
				}
				val := valOf(f, key)
				switch {
				case pf.Type() == val.Type():
					pf.Set(val)
				case pf.Type() == reflect.PointerTo(val.Type()):
					np := reflect.New(val.Type())
					np.Elem().Set(val)
					pf.Set(np)
				default:
					return fmt.Errorf("pointerified field %s has type %s, value type %s", f.path, pf.Type(), val.Type())
				}
				continue
			}
			present := false
			for k := range set {
				if strings.HasPrefix(k, f.path+".") {
					present = true
					break
				}
			}
			if !present {
				continue
			}
			if pf.Kind() != reflect.Pointer || pf.Type().Elem().Kind() != reflect.Struct {
				return fmt.Errorf("pointerified field %s has type %s, want pointer to struct", f.path, pf.Type())
			}
			np := reflect.New(pf.Type().Elem())
			if err := rec(np.Elem(), f.kids); err != nil {
				return err
			}
			pf.Set(np)
		}
		return nil
	}
	if err := rec(v, m.fields); err != nil {
		return reflect.Value{}, err
	}
	return v, nil
}

// ---- values: a pure function of (type expression, seed), and their spellings ----

type sm struct{ s uint64 }

func (r *sm) next() uint64 {
	r.s += 0x9e3779b97f4a7c15
	z := r.s
	z = (z ^ (z >> 30)) * 0xbf58476d1ce4e5b9
	z = (z ^ (z >> 27)) * 0x94d049bb133111eb
	return z ^ (z >> 31)
}

// leafTypes are the leaf types every targeted source can read.
var leafTypes = []string{
	"bool", "int", "int8", "int16", "int32", "int64", "uint", "uint8", "uint16", "uint32", "uint64",
	"float32", "float64", "string", "time.Duration",
	"[]string", "[]int", "map[string]string", "map[string]struct{}",
}

// makeVal builds the value for a supplied leaf.  One in five scalar values is
// the zero value of the type and one in four collection values is an
// explicitly empty, non-nil collection: a supplied zero / empty value must
// still count as "set".  (Spellings of the empty collection, verified against
// the unchanged tree for []string, []int, map[string]string and the string
// set: NAME="" in the environment, -name= / --name= for both flag sources,
// [] / {} in JSON, YAML, TOML and Cue; each yields a non-nil collection of
// length 0.)
func makeVal(typ string, seed uint64) reflect.Value {
	t := shape.MustType(typ)
	r := &sm{s: seed}
	zero := r.next()%5 == 0
	// one supplied collection value in four is explicitly empty (non-nil, no
	// elements): "set" is about nil-ness, not about length
	empty := r.next()%4 == 0
	v := reflect.New(t).Elem()
	if empty {
		switch t.Kind() {
		case reflect.Slice:
			return reflect.MakeSlice(t, 0, 0)
		case reflect.Map:
			return reflect.MakeMap(t)
		}
	}
	switch typ {
	case "complex128":
		if !zero {
			v.SetComplex(complex(float64(int64(r.next()%401)-200)/4, float64(int64(r.next()%401)-200)/4))
		}
		return v
	case "Color":
		// a TextUnmarshaler (text must start with '#', so never empty)
		v.SetString(fmt.Sprintf("#%06x", r.next()&0xffffff))
		return v
	case "time.Duration":
		if !zero {
			v.SetInt(int64(time.Duration(r.next()%100000) * time.Millisecond))
		}
		return v
	case "[]string":
		n := 1 + int(r.next()%3)
		s := make([]string, n)
		for i := range s {
			s[i] = fmt.Sprintf("e%x", r.next()&0xfff)
		}
		return reflect.ValueOf(s)
	case "[]int":
		n := 1 + int(r.next()%3)
		s := make([]int, n)
		for i := range s {
			s[i] = int(r.next()%201) - 100
		}
		return reflect.ValueOf(s)
	case "map[string]string":
		n := 1 + int(r.next()%2)
		mp := map[string]string{}
		for i := 0; i < n; i++ {
			mp[fmt.Sprintf("k%d%x", i, r.next()&0xff)] = fmt.Sprintf("w%x", r.next()&0xfff)
		}
		return reflect.ValueOf(mp)
	case "map[string]struct{}":
		n := 1 + int(r.next()%3)
		mp := map[string]struct{}{}
		for i := 0; i < n; i++ {
			mp[fmt.Sprintf("m%d%x", i, r.next()&0xff)] = struct{}{}
		}
		return reflect.ValueOf(mp)
	}
	switch t.Kind() {
	case reflect.Bool:
		v.SetBool(r.next()%2 == 0)
	case reflect.Int, reflect.Int8, reflect.Int16, reflect.Int32, reflect.Int64:
		if !zero {
			v.SetInt(int64(r.next()%201) - 100)
		}
	case reflect.Uint, reflect.Uint8, reflect.Uint16, reflect.Uint32, reflect.Uint64:
		if !zero {
			v.SetUint(r.next() % 201)
		}
	case reflect.Float32, reflect.Float64:
		if !zero {
			v.SetFloat(float64(int64(r.next()%401)-200) / 4)
		}
	case reflect.String:
		if !zero {
			v.SetString(fmt.Sprintf("v%x", r.next()&0xfffff))
		}
	default:
		panic("makeVal: unsupported type " + typ)
	}
	return v
}

func isEmptyCollection(v reflect.Value) bool {
	switch v.Kind() {
	case reflect.Slice, reflect.Map:
		return v.Len() == 0
	}
	return false
}

func isZeroScalar(v reflect.Value) bool {
	switch v.Kind() {
	case reflect.Slice, reflect.Map:
		return false
	}
	return v.IsZero()
}

func floatText(f float64) string {
	s := strconv.FormatFloat(f, 'f', -1, 64)
	if !strings.Contains(s, ".") {
		s += ".0"
	}
	return s
}

func sortedMapKeys(v reflect.Value) []string {
	ks := make([]string, 0, v.Len())
	for _, k := range v.MapKeys() {
		ks = append(ks, k.String())
	}
	sort.Strings(ks)
	return ks
}

// textOf spells a value for the environment and for flag arguments.
func textOf(v reflect.Value) string {
	if v.Type() == reflect.TypeOf(time.Duration(0)) {
		return time.Duration(v.Int()).String()
	}
	switch v.Kind() {
	case reflect.Bool:
		return strconv.FormatBool(v.Bool())
	case reflect.Int, reflect.Int8, reflect.Int16, reflect.Int32, reflect.Int64:
		return strconv.FormatInt(v.Int(), 10)
	case reflect.Uint, reflect.Uint8, reflect.Uint16, reflect.Uint32, reflect.Uint64:
		return strconv.FormatUint(v.Uint(), 10)
	case reflect.Float32, reflect.Float64:
		return floatText(v.Float())
	case reflect.Complex64, reflect.Complex128:
		return strconv.FormatComplex(v.Complex(), 'g', -1, 128)
	case reflect.String:
		return v.String()
	case reflect.Slice:
		parts := make([]string, v.Len())
		for i := range parts {
			parts[i] = textOf(v.Index(i))
		}
		return strings.Join(parts, ",")
	case reflect.Map:
		ks := sortedMapKeys(v)
		parts := make([]string, len(ks))
		for i, k := range ks {
			if v.Type().Elem().Kind() == reflect.Struct {
				parts[i] = k
			} else {
				parts[i] = k + ":" + v.MapIndex(reflect.ValueOf(k)).String()
			}
		}
		return strings.Join(parts, ",")
	}
	panic("textOf: unsupported kind " + v.Kind().String())
}

// encodeKey joins lower-case words the way the named ez file-field encoder
// does (own code, three trivial casings).
func encodeKey(enc string, words []string) string {
	switch enc {
	case "upper_snake":
		return strings.ToUpper(strings.Join(words, "_"))
	case "lower_snake":
		return strings.Join(words, "_")
	case "kebab":
		return strings.Join(words, "-")
	}
	panic("encodeKey: unknown encoder " + enc)
}

// docValue spells a leaf value inside a document. JSON syntax is shared by
// JSON, YAML (flow style) and Cue; TOML differs only for string maps.  A
// string set is written as a list when the set<->slice mangler is in the
// chain, else (nativeSet) as the format's map of empty maps.
func docValue(v reflect.Value, toml, nativeSet bool) string {
	if v.Type() == reflect.TypeOf(time.Duration(0)) {
		return strconv.Quote(time.Duration(v.Int()).String())
	}
	switch v.Kind() {
	case reflect.String:
		return strconv.Quote(v.String())
	case reflect.Slice:
		parts := make([]string, v.Len())
		for i := range parts {
			parts[i] = docValue(v.Index(i), toml, nativeSet)
		}
		return "[" + strings.Join(parts, ", ") + "]"
	case reflect.Map:
		ks := sortedMapKeys(v)
		parts := make([]string, len(ks))
		if v.Type().Elem().Kind() == reflect.Struct && nativeSet {
			sep := ": "
			if toml {
				sep = " = "
			}
			for i, k := range ks {
				parts[i] = strconv.Quote(k) + sep + "{}"
			}
			switch {
			case len(parts) == 0:
				return "{}"
			case toml:
				return "{ " + strings.Join(parts, ", ") + " }"
			}
			return "{" + strings.Join(parts, ", ") + "}"
		}
		if v.Type().Elem().Kind() == reflect.Struct {
			// a set is written as a list (ez adds the set<->slice mangler)
			for i, k := range ks {
				parts[i] = strconv.Quote(k)
			}
			return "[" + strings.Join(parts, ", ") + "]"
		}
		for i, k := range ks {
			sep := ": "
			if toml {
				sep = " = "
			}
			parts[i] = strconv.Quote(k) + sep + strconv.Quote(v.MapIndex(reflect.ValueOf(k)).String())
		}
		if len(parts) == 0 {
			return "{}"
		}
		if toml {
			return "{ " + strings.Join(parts, ", ") + " }"
		}
		return "{" + strings.Join(parts, ", ") + "}"
	}
	return textOf(v)
}

// docNode is a document under construction.
type docNode struct {
	kids map[string]*docNode
	leaf string // rendered value when kids == nil
}

func (n *docNode) put(path []string, rendered string) {
	if len(path) == 0 {
		n.leaf = rendered
		return
	}
	if n.kids == nil {
		n.kids = map[string]*docNode{}
	}
	k := n.kids[path[0]]
	if k == nil {
		k = &docNode{}
		n.kids[path[0]] = k
	}
	k.put(path[1:], rendered)
}

func (n *docNode) keys() []string {
	ks := make([]string, 0, len(n.kids))
	for k := range n.kids {
		ks = append(ks, k)
	}
	sort.Strings(ks)
	return ks
}

func (n *docNode) json() string {
	if n.kids == nil {
		if n.leaf == "" {
			return "{}"
		}
		return n.leaf
	}
	parts := []string{}
	for _, k := range n.keys() {
		parts = append(parts, strconv.Quote(k)+": "+n.kids[k].json())
	}
	return "{" + strings.Join(parts, ", ") + "}"
}

func (n *docNode) yaml(indent string, b *strings.Builder) {
	if n.kids == nil && indent == "" {
		b.WriteString("{}\n")
		return
	}
	for _, k := range n.keys() {
		c := n.kids[k]
		if c.kids == nil {
			fmt.Fprintf(b, "%s%s: %s\n", indent, strconv.Quote(k), c.leaf)
			continue
		}
		fmt.Fprintf(b, "%s%s:\n", indent, strconv.Quote(k))
		c.yaml(indent+"  ", b)
	}
}

func (n *docNode) tomlInline() string {
	if n.kids == nil {
		if n.leaf == "" {
			return "{}"
		}
		return n.leaf
	}
	parts := []string{}
	for _, k := range n.keys() {
		parts = append(parts, strconv.Quote(k)+" = "+n.kids[k].tomlInline())
	}
	return "{ " + strings.Join(parts, ", ") + " }"
}

func (n *docNode) toml() string {
	var b strings.Builder
	for _, k := range n.keys() {
		fmt.Fprintf(&b, "%s = %s\n", strconv.Quote(k), n.kids[k].tomlInline())
	}
	return b.String()
}
