package palias

// Embeddable struct types.  reflect.StructOf cannot mint named types, and an
// embedded field needs one, so the generator embeds these (by value or by
// pointer, in the root struct and in nested structs) instead of generating
// them.  Their field names and tag words are outside the field-name vocabulary
// and the synthetic tag-word families, and every field name is a single word,
// so the words of an untagged field are its lower-cased name.

import (
	"reflect"
	"strings"

	"verifharness/internal/shape"
)

// EmbTint has two aliased leaves (scalar and slice).
type EmbTint struct {
	Tint  string   `dials:"tint" dialsalias:"tone"`
	Gloss []string `dials:"gloss" dialsalias:"sheen"`
}

// EmbBurst has an aliased leaf with an untagged primary name, an aliased map
// and an unaliased leaf.
type EmbBurst struct {
	Burst   int               `dialsalias:"surge"`
	Quota   map[string]string `dials:"quota" dialsalias:"ration"`
	Plainly bool              `dials:"plainly"`
}

// EmbDeep has an aliased named struct with an aliased leaf below it.
type EmbDeep struct {
	Vault struct {
		Latch int  `dials:"latch" dialsalias:"clasp"`
		Hinge bool `dials:"hinge"`
	} `dials:"vault" dialsalias:"crypt"`
	Rivet int64 `dials:"rivet" dialsalias:"stud"`
}

// EmbSrc carries the source-specific tags of all three flatten sources: their
// values are absolute names, so the generator embeds it at most once per
// config type and never below an aliased field.
type EmbSrc struct {
	Knob  int     `dials:"knob" dialsenv:"KNOB_ENV" dialsenvalias:"KNOB_OLD" dialsflag:"knob-flag" dialsflagalias:"knob-old" dialspflag:"knob-pflag" dialspflagalias:"knob-pold"`
	Gear  float64 `dials:"gear" dialsenvalias:"GEAR_OLD" dialsflagalias:"gear-old" dialspflagalias:"gear-pold"`
	Gauge uint16  `dials:"gauge" dialsalias:"meter"`
}

// EzEmbTint and EzEmbBurst are embedded in the fixed ez config type; their
// tags start with vfc like every other tag of that type.
type EzEmbTint struct {
	Tint  string   `dials:"vfctint" dialsalias:"vfctone"`
	Gloss []string `dials:"vfcgloss" dialsalias:"vfcsheen"`
}

// EzEmbBurst is embedded by pointer in a nested struct of the ez config type.
type EzEmbBurst struct {
	Burst int               `dials:"vfcburst" dialsalias:"vfcsurge"`
	Quota map[string]string `dials:"vfcquota"`
}

var embedRegistry = map[string]reflect.Type{
	"EmbTint":    reflect.TypeOf(EmbTint{}),
	"EmbBurst":   reflect.TypeOf(EmbBurst{}),
	"EmbDeep":    reflect.TypeOf(EmbDeep{}),
	"EmbSrc":     reflect.TypeOf(EmbSrc{}),
	"EzEmbTint":  reflect.TypeOf(EzEmbTint{}),
	"EzEmbBurst": reflect.TypeOf(EzEmbBurst{}),
}

// embedTypeWords are the words of the embeddable type names (used only where
// a tag-reformatting mangler derives a key from the name of an untagged
// embedded field).
var embedTypeWords = map[string][]string{
	"EmbTint":    {"emb", "tint"},
	"EmbBurst":   {"emb", "burst"},
	"EmbDeep":    {"emb", "deep"},
	"EmbSrc":     {"emb", "src"},
	"EzEmbTint":  {"ez", "emb", "tint"},
	"EzEmbBurst": {"ez", "emb", "burst"},
}

// generatedEmbedTypes are the types shape.Gen may embed anywhere; EmbSrc is
// placed by the decorator.
var generatedEmbedTypes = []string{"EmbTint", "EmbBurst", "EmbDeep"}

func init() {
	for n, t := range embedRegistry {
		shape.RegisterBase(n, t)
	}
}

// shapeOfType describes the fields of a Go struct type as shape fields
// (anonymous fields of registered types become embed / pembed fields).
func shapeOfType(t reflect.Type) []shape.Field {
	var out []shape.Field
	for i := 0; i < t.NumField(); i++ {
		sf := t.Field(i)
		f := shape.Field{Name: sf.Name, Words: []string{strings.ToLower(sf.Name)}, Tag: string(sf.Tag)}
		switch {
		case sf.Anonymous && sf.Type.Kind() == reflect.Struct:
			f.Kind, f.Type, f.Words = "embed", sf.Type.Name(), nil
		case sf.Anonymous && sf.Type.Kind() == reflect.Pointer && sf.Type.Elem().Kind() == reflect.Struct:
			f.Kind, f.Type, f.Words = "pembed", sf.Type.Elem().Name(), nil
		case sf.Type.Kind() == reflect.Struct:
			f.Kind, f.Fields = "struct", shapeOfType(sf.Type)
		case sf.Type.Kind() == reflect.Pointer && sf.Type.Elem().Kind() == reflect.Struct:
			f.Kind, f.Fields = "pstruct", shapeOfType(sf.Type.Elem())
		case sf.Type.Kind() == reflect.Slice && sf.Type.Elem().Kind() == reflect.Struct && elemRegistry[sf.Type.Elem().Name()] == sf.Type.Elem():
			f.Kind, f.Type = "leaf", "[]"+sf.Type.Elem().Name()
		default:
			f.Kind, f.Type = "leaf", strings.ReplaceAll(sf.Type.String(), "struct {}", "struct{}")
		}
		out = append(out, f)
	}
	return out
}

// embedKids returns the fields of a registered embeddable type.
func embedKids(typeName string) ([]shape.Field, bool) {
	t, ok := embedRegistry[typeName]
	if !ok {
		return nil, false
	}
	return shapeOfType(t), true
}

func isEmbedKind(k string) bool { return k == "embed" || k == "pembed" }
