package palias

import (
	"context"
	"fmt"
	"os"
	"reflect"
	"strings"
	"testing"

	"github.com/vimeo/dials"
	dcue "github.com/vimeo/dials/decoders/cue"
	djson "github.com/vimeo/dials/decoders/json"
	dtoml "github.com/vimeo/dials/decoders/toml"
	dyaml "github.com/vimeo/dials/decoders/yaml"
	"github.com/vimeo/dials/ptrify"
	"github.com/vimeo/dials/sources/env"
	dflag "github.com/vimeo/dials/sources/flag"
	dpflag "github.com/vimeo/dials/sources/pflag"
)

type PTint struct {
	Tint string `dials:"tint" dialsalias:"tone"`
}
type PBurst struct {
	Burst int `dialsalias:"surge"`
}
type PSrv struct {
	*PBurst
	Port int `dials:"port"`
}
type pcfgA struct { // plain embed + pointer embed nested
	PTint
	Server PSrv `dials:"server" dialsalias:"oldserver"`
}
type pcfgB struct { // tagged embed, aliased embed
	PTint  `dials:"paint"`
	PBurst `dialsalias:"oldburstgrp"`
}
type pcfgC struct { // tagged+aliased pointer embed
	*PTint `dials:"paint" dialsalias:"oldpaint"`
}

func dumpAny(v reflect.Value, err error) string {
	if err != nil {
		return "ERR " + err.Error()
	}
	var b strings.Builder
	var rec func(v reflect.Value)
	rec = func(v reflect.Value) {
		for i := 0; i < v.NumField(); i++ {
			f := v.Field(i)
			n := v.Type().Field(i).Name
			if f.Kind() == reflect.Pointer && f.IsNil() {
				fmt.Fprintf(&b, "%s=nil ", n)
				continue
			}
			if f.Kind() == reflect.Pointer && f.Elem().Kind() == reflect.Struct {
				fmt.Fprintf(&b, "%s:{", n)
				rec(f.Elem())
				b.WriteString("} ")
				continue
			}
			fmt.Fprintf(&b, "%s=%v ", n, f.Elem().Interface())
		}
	}
	rec(v)
	return b.String()
}

func probeAll(name string, tmpl any, envs map[string]string, args []string, js, ym, tm string) {
	T := reflect.TypeOf(tmpl).Elem()
	pt := ptrify.Pointerify(T, reflect.New(T).Elem())
	typ := dials.NewType(pt)
	ctx := context.Background()
	run := func(label string, f func() (reflect.Value, error)) {
		defer func() {
			if r := recover(); r != nil {
				fmt.Println(name, label, "PANIC", r)
			}
		}()
		v, err := f()
		fmt.Println(name, label, dumpAny(v, err))
	}
	for k, v := range envs {
		os.Setenv("VFP_"+k, v)
	}
	run("env", func() (reflect.Value, error) { return (&env.Source{Prefix: "VFP"}).Value(ctx, typ) })
	for k := range envs {
		os.Unsetenv("VFP_" + k)
	}
	run("flag", func() (reflect.Value, error) {
		fs, err := dflag.NewSetWithArgs(dflag.DefaultFlagNameConfig(), reflect.New(T).Interface(), args)
		if err != nil {
			return reflect.Value{}, err
		}
		return fs.Value(ctx, typ)
	})
	run("pflag", func() (reflect.Value, error) {
		var a2 []string
		for _, a := range args {
			a2 = append(a2, "-"+a)
		}
		fs, err := dpflag.NewSetWithArgs(dpflag.DefaultFlagNameConfig(), reflect.New(T).Interface(), a2)
		if err != nil {
			return reflect.Value{}, err
		}
		return fs.Value(ctx, typ)
	})
	run("json", func() (reflect.Value, error) { return ezWrap(&djson.Decoder{}).Decode(strings.NewReader(js), typ) })
	run("cue", func() (reflect.Value, error) { return ezWrap(&dcue.Decoder{}).Decode(strings.NewReader(js), typ) })
	run("yaml", func() (reflect.Value, error) { return ezWrap(&dyaml.Decoder{}).Decode(strings.NewReader(ym), typ) })
	run("toml", func() (reflect.Value, error) { return ezWrap(&dtoml.Decoder{}).Decode(strings.NewReader(tm), typ) })
}

func TestProbeEmbed(t *testing.T) {
	probeAll("A1", &pcfgA{}, map[string]string{"TONE": "x", "OLDSERVER_SURGE": "3", "OLDSERVER_PORT": "1"},
		[]string{"-tone=x", "-oldserver-surge=3", "-oldserver-port=1"},
		`{"tone":"x","oldserver":{"surge":3,"port":1}}`,
		"ptint:\n  tone: x\noldserver:\n  pburst:\n    surge: 3\n  port: 1\n",
		"tone = \"x\"\noldserver = { surge = 3, port = 1 }\n")
	probeAll("A2-yaml-promoted?", &pcfgA{}, nil, nil, `{"tint":"x","server":{"Burst":3}}`, "tone: x\nserver:\n  burst: 3\n", "tint = \"x\"\nserver = { Burst = 3 }\n")
	probeAll("B", &pcfgB{}, map[string]string{"PAINT_TONE": "x", "OLDBURSTGRP_SURGE": "3"},
		[]string{"-paint-tone=x", "-oldburstgrp-surge=3"},
		`{"paint":{"tone":"x"},"oldburstgrp":{"surge":3}}`,
		"paint:\n  tone: x\noldburstgrp:\n  surge: 3\n",
		"paint = { tone = \"x\" }\noldburstgrp = { surge = 3 }\n")
	probeAll("B2", &pcfgB{}, map[string]string{"PAINT_TINT": "x", "BURST": "3"},
		[]string{"-paint-tint=x", "-burst=3"},
		`{"paint":{"tint":"x"},"Burst":3}`,
		"paint:\n  tint: x\npburst:\n  burst: 3\n",
		"paint = { tint = \"x\" }\nBurst = 3\n")
	probeAll("C", &pcfgC{}, map[string]string{"OLDPAINT_TONE": "x"},
		[]string{"-oldpaint-tone=x"},
		`{"oldpaint":{"tone":"x"}}`, "oldpaint:\n  tone: x\n", "oldpaint = { tone = \"x\" }\n")
	probeAll("C2", &pcfgC{}, map[string]string{"PAINT_TINT": "x"},
		[]string{"-paint-tint=x"},
		`{"paint":{"tint":"x"}}`, "paint:\n  tint: x\n", "paint = { tint = \"x\" }\n")
}

func TestProbeEmbedTOML(t *testing.T) {
	T := reflect.TypeOf(pcfgA{})
	pt := ptrify.Pointerify(T, reflect.New(T).Elem())
	typ := dials.NewType(pt)
	for _, tm := range []string{
		"PTint = { tone = \"x\" }\n[oldserver]\nPBurst = { surge = 3 }\n",
		"ptint = { tint = \"x\" }\n[server]\npburst = { Burst = 3 }\n",
		"[PTint]\ntint = \"x\"\ntone = \"y\"\n",
	} {
		fmt.Println("toml", strings.ReplaceAll(tm, "\n", "|"), dumpAny(ezWrap(&dtoml.Decoder{}).Decode(strings.NewReader(tm), typ)))
	}
}
