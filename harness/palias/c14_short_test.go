package palias

// C14 for the pflag source when the aliased field also carries a shorthand
// (dialspflagshort / dialspflagshortalias): pflag.go hands both tags to its
// alias mangler, so a shorthand is one more name the field can be supplied
// under.

import (
	"context"
	"fmt"
	"io"
	"reflect"
	"sort"
	"strings"
	"testing"

	"github.com/spf13/pflag"
	"github.com/vimeo/dials"
	"github.com/vimeo/dials/ptrify"
	dpflag "github.com/vimeo/dials/sources/pflag"
	"pgregory.net/rapid"

	"verifharness/internal/shape"
	"verifharness/internal/vrt"
)

// ShortField is one leaf field of a flat config struct.
type ShortField struct {
	Name       string `json:"name"`
	Type       string `json:"type"`
	Dials      string `json:"dials"`                 // dials tag (always present)
	Alias      string `json:"alias,omitempty"`       // dialsalias
	PAlias     string `json:"palias,omitempty"`      // dialspflagalias
	Short      string `json:"short,omitempty"`       // dialspflagshort
	ShortAlias string `json:"short_alias,omitempty"` // dialspflagshortalias
	// Supply lists the names the value is supplied under: "long", "short"
	// (primary names), "along", "ashort" (alias names).  At most one primary
	// and one alias spelling.
	Supply []string `json:"supply,omitempty"`
	Seeds  []uint64 `json:"seeds,omitempty"` // one per Supply entry
}

// ShortCase is a flat config struct for the pflag shorthand check.
type ShortCase struct {
	Fields []ShortField `json:"fields"`
}

func (f ShortField) tag() string {
	parts := []string{fmt.Sprintf(`dials:%q`, f.Dials)}
	for _, kv := range [][2]string{{"dialsalias", f.Alias}, {"dialspflagalias", f.PAlias}, {"dialspflagshort", f.Short}, {"dialspflagshortalias", f.ShortAlias}} {
		if kv[1] != "" {
			parts = append(parts, fmt.Sprintf(`%s:%q`, kv[0], kv[1]))
		}
	}
	return strings.Join(parts, " ")
}

// aliasLong is the long alias name: dialspflagalias wins over dialsalias.
func (f ShortField) aliasLong() string {
	if f.PAlias != "" {
		return f.PAlias
	}
	return f.Alias
}

func genShort(t *rapid.T) ShortCase {
	n := rapid.IntRange(1, 5).Draw(t, "nfields")
	used := map[string]bool{}
	d := &decorator{t: t, used: used}
	letters := []string{}
	for c := 'a'; c <= 'z'; c++ {
		if c != 'h' {
			letters = append(letters, string(c))
		}
	}
	letters = rapid.Permutation(letters).Draw(t, "letters")
	nextLetter := func() string {
		l := letters[0]
		letters = letters[1:]
		return l
	}
	// an aliased field with a shorthand but no shorthand alias in one case in five
	allowBareShort := rapid.IntRange(0, 4).Draw(t, "allow_bare_short") == 0
	var c ShortCase
	for i := 0; i < n; i++ {
		f := ShortField{Name: "F" + title(d.fresh(1)[0]), Type: rapid.SampledFrom(leafTypes).Draw(t, "type")}
		f.Dials = d.freshTag()
		switch rapid.IntRange(0, 4).Draw(t, "alias_kind") {
		case 0:
		case 1, 2:
			f.Alias = d.freshTag()
		case 3:
			f.PAlias = d.absName("dialspflag")
		case 4:
			f.Alias, f.PAlias = d.freshTag(), d.absName("dialspflag")
		}
		switch rapid.IntRange(0, 4).Draw(t, "short_kind") {
		case 0:
		case 1, 2:
			f.Short = nextLetter()
			if (f.Alias != "" || f.PAlias != "") && !allowBareShort {
				f.ShortAlias = nextLetter()
			}
		case 3:
			f.Short, f.ShortAlias = nextLetter(), nextLetter()
		case 4:
			f.ShortAlias = nextLetter()
		}
		if f.Alias == "" && f.PAlias == "" {
			// pflag cannot register a bare shorthand: a shorthand alias is
			// only meaningful next to a long alias name (see Assumptions)
			f.ShortAlias = ""
		}
		var prim, al []string
		prim = append(prim, "long")
		if f.Short != "" {
			prim = append(prim, "short")
		}
		if f.aliasLong() != "" {
			al = append(al, "along")
		}
		if f.ShortAlias != "" {
			al = append(al, "ashort")
		}
		pat := rapid.SampledFrom([]int{0, 1, 1, 2, 2, 3}).Draw(t, "pattern")
		if len(al) == 0 {
			pat &= 1
		}
		if pat&1 != 0 {
			f.Supply = append(f.Supply, rapid.SampledFrom(prim).Draw(t, "primary_spelling"))
		}
		if pat&2 != 0 {
			f.Supply = append(f.Supply, rapid.SampledFrom(al).Draw(t, "alias_spelling"))
		}
		for range f.Supply {
			f.Seeds = append(f.Seeds, rapid.Uint64().Draw(t, "value_seed"))
		}
		c.Fields = append(c.Fields, f)
	}
	return c
}

func runShort(c ShortCase) vrt.Verdict {
	for _, f := range c.Fields {
		if f.ShortAlias != "" && f.Alias == "" && f.PAlias == "" {
			return vrt.Discardf("shorthand alias without a long alias is outside the domain")
		}
	}
	if len(c.Fields) == 0 {
		return vrt.Discardf("no fields")
	}
	var sfs []reflect.StructField
	seenName := map[string]bool{}
	for _, f := range c.Fields {
		t, err := shape.ParseType(f.Type)
		if err != nil || f.Name == "" || f.Dials == "" || len(f.Seeds) != len(f.Supply) {
			return vrt.Discardf("malformed field")
		}
		for _, n := range []string{f.Name, f.Dials, f.Alias, f.PAlias, "-" + f.Short, "-" + f.ShortAlias} {
			if n == "" || n == "-" {
				continue
			}
			if seenName[n] {
				return vrt.Discardf("name collision")
			}
			seenName[n] = true
		}
		sfs = append(sfs, reflect.StructField{Name: f.Name, Type: t, Tag: reflect.StructTag(f.tag())})
	}
	T, err := func() (t reflect.Type, err error) {
		defer func() {
			if r := recover(); r != nil {
				err = fmt.Errorf("%v", r)
			}
		}()
		return reflect.StructOf(sfs), nil
	}()
	if err != nil {
		return vrt.Discardf("type does not build")
	}
	pt := ptrify.Pointerify(T, reflect.New(T).Elem())
	want := reflect.New(pt).Elem()
	var args, both []string
	shortWithAlias, shortAliasUsed, supplied := false, false, 0
	for _, f := range c.Fields {
		hasCopy := f.Alias != "" || f.PAlias != "" || f.ShortAlias != ""
		if f.Short != "" && hasCopy {
			shortWithAlias = true
		}
		prim, al := false, false
		var landed reflect.Value
		for i, how := range f.Supply {
			v := makeVal(f.Type, f.Seeds[i])
			var arg string
			switch how {
			case "long":
				arg, prim = "--"+f.Dials, true
			case "short":
				if f.Short == "" {
					return vrt.Discardf("no shorthand")
				}
				arg, prim = "-"+f.Short, true
			case "along":
				if f.aliasLong() == "" {
					return vrt.Discardf("no alias name")
				}
				arg, al = "--"+f.aliasLong(), true
			case "ashort":
				if f.ShortAlias == "" {
					return vrt.Discardf("no shorthand alias")
				}
				arg, al, shortAliasUsed = "-"+f.ShortAlias, true, true
			default:
				return vrt.Discardf("unknown spelling")
			}
			if strings.HasPrefix(arg, "--") || v.Kind() == reflect.Bool {
				args = append(args, arg+"="+textOf(v))
			} else {
				// pflag reads "-x=" as the value "=", so a shorthand gets
				// its value as the next argument (bools cannot: -x=false)
				args = append(args, arg, textOf(v))
			}
			landed = v
			supplied++
		}
		if len(f.Supply) > 2 || (len(f.Supply) == 2 && !(prim && al)) {
			return vrt.Discardf("more than one spelling of one name")
		}
		if prim && al {
			both = append(both, f.Name)
			continue
		}
		if landed.IsValid() {
			pf := want.FieldByName(f.Name)
			if pf.Type() == landed.Type() {
				pf.Set(landed)
			} else {
				np := reflect.New(landed.Type())
				np.Elem().Set(landed)
				pf.Set(np)
			}
		}
	}

	var got reflect.Value
	var gerr error
	var panicked any
	func() {
		defer func() { panicked = recover() }()
		// the caller-owned FlagSet form (as with cobra), so that pflag's
		// own complaints do not land on stderr
		fs := pflag.NewFlagSet("", pflag.ContinueOnError)
		fs.SetOutput(io.Discard)
		set, serr := dpflag.NewSetWithFlagSet(dpflag.DefaultFlagNameConfig(), reflect.New(T).Interface(), fs)
		if serr != nil {
			gerr = fmt.Errorf("NewSetWithFlagSet: %w", serr)
			return
		}
		if perr := fs.Parse(args); perr != nil {
			gerr = fmt.Errorf("failed to parse pflags: %w", perr)
			return
		}
		got, gerr = set.Value(context.Background(), dials.NewType(pt))
	}()
	desc := fmt.Sprintf("struct { %s }, args %q", func() string {
		var p []string
		for _, f := range c.Fields {
			p = append(p, fmt.Sprintf("%s %s `%s`", f.Name, f.Type, f.tag()))
		}
		return strings.Join(p, "; ")
	}(), args)
	if panicked != nil {
		if shortWithAlias && strings.Contains(fmt.Sprint(panicked), "shorthand") {
			return vrt.KeyedViolationf("pflag-shorthand-redefined", "pflag: registering an aliased field that has a dialspflagshort tag panics: %v; %s", panicked, desc)
		}
		return vrt.KeyedViolationf("panic-pflag", "pflag source panicked: %v; %s", panicked, desc)
	}
	if len(both) > 0 {
		if gerr == nil {
			return vrt.KeyedViolationf("both-accepted", "pflag: field(s) %v supplied under both names, no error; %s", both, desc)
		}
		named := false
		for _, n := range both {
			if namesField(gerr, n) {
				named = true
			}
		}
		if !named && shortAliasUsed && strings.Contains(gerr.Error(), "unknown shorthand flag") {
			return vrt.KeyedViolationf("pflag-shorthand-alias-unregistered", "pflag: the dialspflagshortalias shorthand is not registered: %v; %s", gerr, desc)
		}
		if !named {
			return vrt.KeyedViolationf("both-error-unnamed", "pflag: field(s) %v supplied under both names; the error names none of them: %v; %s", both, gerr, desc)
		}
	} else {
		if gerr != nil {
			if shortAliasUsed && strings.Contains(gerr.Error(), "unknown shorthand flag") {
				return vrt.KeyedViolationf("pflag-shorthand-alias-unregistered", "pflag: the dialspflagshortalias shorthand is not registered: %v; %s", gerr, desc)
			}
			return vrt.KeyedViolationf("spurious-error", "pflag: no field supplied under both names, but: %v; %s", gerr, desc)
		}
		if !got.IsValid() || got.Type() != pt {
			return vrt.Violationf("pflag: returned value has type %v, want %s", got, pt)
		}
		if df := shape.Diff(want, got); df != "" {
			return vrt.KeyedViolationf("wrong-value", "pflag: returned value differs from the model at %s (want vs got); %s", df, desc)
		}
	}
	lab := map[string]bool{}
	if len(both) > 0 {
		lab["expect:error"] = true
	} else {
		lab["expect:value"] = true
	}
	nt := false
	for _, f := range c.Fields {
		hasCopy := f.Alias != "" || f.PAlias != "" || f.ShortAlias != ""
		switch {
		case f.Short != "" && f.ShortAlias != "":
			lab["short+shortalias"] = true
		case f.Short != "" && hasCopy:
			lab["short-on-aliased-field"] = true
		case f.ShortAlias != "":
			lab["shortalias-only"] = true
		case f.Short != "":
			lab["short-unaliased"] = true
		}
		if hasCopy {
			anyEmpty := false
			for i := range f.Supply {
				anyEmpty = anyEmpty || isEmptyCollection(makeVal(f.Type, f.Seeds[i]))
			}
			switch {
			case anyEmpty && len(f.Supply) == 2:
				lab["empty-collection:both"] = true
			case anyEmpty && (f.Supply[0] == "long" || f.Supply[0] == "short"):
				lab["empty-collection:primary"] = true
			case anyEmpty:
				lab["empty-collection:alias"] = true
			}
		}
		for _, how := range f.Supply {
			lab["via:"+how] = true
			if hasCopy && (how == "short" || how == "ashort") {
				nt = true
			}
		}
	}
	labels := make([]string, 0, len(lab))
	for l := range lab {
		labels = append(labels, l)
	}
	sort.Strings(labels)
	return vrt.OK(nt && len(c.Fields) >= 2 && supplied >= 2, labels...)
}

func TestC14PFlagShorthand(t *testing.T) {
	vrt.Check(t, vrt.Prop[ShortCase]{
		ID: "C14", Name: "pflag-shorthand",
		Rule: "flat config structs of 1..5 leaf fields (leaf types as in the other C14 checks), each with a dials tag, optionally dialsalias and/or dialspflagalias, optionally dialspflagshort and/or dialspflagshortalias (distinct letters); per field neither / primary / alias / both, the primary spelled as --long or -s, the alias as --aliaslong or -a; " +
			"executed through pflag.NewSetWithFlagSet on a harness-owned FlagSet, FlagSet.Parse(args), Value; oracle as for the other C14 checks (both => error naming the field, else the value lands / nil); " +
			"non-trivial = >=2 fields, >=2 supplied values, and an aliased field supplied through a shorthand; distinct = distinct case JSON",
		Assumptions: []string{
			"pflag.go passes dialspflagshort to its alias mangler, so dialspflagshortalias is taken to be a supported alias spelling of the pflag source",
			"a dialspflagshortalias is only generated next to a long alias name (dialsalias / dialspflagalias): pflag cannot register a shorthand without a long flag name, so a bare shorthand alias has no flag to attach to",
			"explicit harness-owned FlagSet (NewSetWithFlagSet, output discarded), zero-valued template",
			"a shorthand is written -x value (-x=value for bools)",
		},
		Gen: genShort, Run: runShort,
	})
}
