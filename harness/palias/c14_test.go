// Package palias holds the C14 checks: for every field carrying an alias tag,
// in every source that supports aliases, either name sets the field, neither
// leaves it unset, and both together are an error naming the field.
package palias

import (
	"context"
	"errors"
	stdflag "flag"
	"fmt"
	"io"
	"os"
	"reflect"
	"sort"
	"strconv"
	"strings"
	"testing"

	"github.com/spf13/pflag"
	"github.com/vimeo/dials"
	"github.com/vimeo/dials/common"
	dcue "github.com/vimeo/dials/decoders/cue"
	djson "github.com/vimeo/dials/decoders/json"
	dtoml "github.com/vimeo/dials/decoders/toml"
	dyaml "github.com/vimeo/dials/decoders/yaml"
	"github.com/vimeo/dials/ptrify"
	"github.com/vimeo/dials/sources/env"
	dflag "github.com/vimeo/dials/sources/flag"
	dpflag "github.com/vimeo/dials/sources/pflag"
	"github.com/vimeo/dials/sourcewrap"
	"github.com/vimeo/dials/tagformat"
	"github.com/vimeo/dials/tagformat/caseconversion"
	"github.com/vimeo/dials/transform"
	"pgregory.net/rapid"

	"verifharness/internal/shape"
	"verifharness/internal/vrt"
)

// Case is a config struct type with alias tags plus the set of expanded leaves
// that are supplied to the source.
type Case struct {
	Shape shape.Shape `json:"shape"`
	// Supply maps an expanded-leaf key to the seed of the supplied value.  A
	// key is the dotted path of Go field names from the root; a segment
	// carries the suffix "~a" when the value is supplied under the alias name
	// of that field (for a struct-typed field: the whole subtree below it is
	// addressed through the alias name).
	Supply map[string]uint64 `json:"supply"`
	// Elems gives, for every supplied leaf that is a slice of structs (decoder
	// checks only), its elements: each element maps expanded-leaf keys relative
	// to the element type to value seeds, exactly like Supply does for the root.
	Elems map[string][]map[string]uint64 `json:"elems,omitempty"`
	// NoSetSlice (decoder checks only) models ez Params.DisableAutoSetToSlice:
	// the decoder is wrapped with the alias mangler alone and string sets are
	// written in the format's native map spelling.
	NoSetSlice bool `json:"no_set_slice,omitempty"`
	// InnerRecase (decoder checks only): "" or "lower_snake" / "upper_snake" /
	// "kebab".  When set, the decoder handed to the alias wrapper is itself a
	// sourcewrap.NewTransformingDecoder with a tag-reformatting mangler
	// (DecodeGoTags -> that casing), so every key of the file, primary or
	// alias, is the re-cased join of the words of its tag / field name.
	InnerRecase string `json:"inner_recase,omitempty"`
	// SetLiteral (flag and pflag checks only): the Set is declared as a struct
	// literal (&Set{Flags: fs, ParseFunc: ...}) that registers its flags on
	// the first Value() call, instead of being built by NewSetWithArgs.
	SetLiteral bool `json:"set_literal,omitempty"`
	// EnvCalls (env check only) lists the supplied leaves of further Value()
	// calls made, in order, on the SAME *env.Source with the SAME config type;
	// the environment is changed in between (the variables of one call are
	// removed before the next one is set up).
	EnvCalls []map[string]uint64 `json:"env_calls,omitempty"`
	// More (decoder checks only) lists further decodes made, in order, through
	// the SAME alias-wrapped decoder value as the first one: each has its own
	// config type, supplied leaves and elements (its NoSetSlice / More are
	// ignored) and is judged on its own.
	More []Case `json:"more,omitempty"`
}

// ---- generation ----

const (
	tagConsonants = "bdfgklmnprstvz"
	tagVowels     = "aeiou"
)

// tagWord returns the i-th synthetic tag word (consonant vowel 'x' vowel
// consonant): lower-case letters only, never a Go initialism, never a word of
// the field-name vocabulary.
func tagWord(i int) string {
	nc, nv := len(tagConsonants), len(tagVowels)
	a := i % nc
	i /= nc
	b := i % nv
	i /= nv
	c := i % nv
	i /= nv
	d := i % nc
	return string([]byte{tagConsonants[a], tagVowels[b], 'x', tagVowels[c], tagConsonants[d]})
}

const nTagWords = 14 * 5 * 5 * 14

type decorator struct {
	t    *rapid.T
	src  srcKind
	used map[string]bool // words already used by some name of the type
	// allowClassA permits a leaf with a source-specific primary tag, a generic
	// dialsalias tag and no source-specific alias tag (one case in six).
	allowClassA bool
	// names counts the expanded leaves produced so far; past nameBudget no
	// further alias tags are handed out (the cost of a case is linear in it).
	names int
	// embSrcUsed: EmbSrc (absolute source-specific names) is embedded at most
	// once per config type.
	embSrcUsed bool
	// forceAlias / noAlias name injected fields that must / must not get a
	// dialsalias tag (and no source-specific tags).
	forceAlias, noAlias map[string]bool
}

const nameBudget = 96

func (d *decorator) fresh(n int) []string {
	out := make([]string, 0, n)
	for len(out) < n {
		i := rapid.IntRange(0, nTagWords-1).Draw(d.t, "tagword")
		for d.used[tagWord(i)] {
			i = (i + 1) % nTagWords
		}
		w := tagWord(i)
		d.used[w] = true
		out = append(out, w)
	}
	return out
}

func title(w string) string { return strings.ToUpper(w[:1]) + w[1:] }

// styled joins words into a tag value: single word, camelCase, snake_case or
// kebab-case.
func (d *decorator) styled(words []string) string {
	if len(words) == 1 {
		return words[0]
	}
	switch rapid.IntRange(0, 2).Draw(d.t, "tagstyle") {
	case 0:
		s := words[0]
		for _, w := range words[1:] {
			s += title(w)
		}
		return s
	case 1:
		return strings.Join(words, "_")
	default:
		return strings.Join(words, "-")
	}
}

func (d *decorator) freshTag() string {
	return d.styled(d.fresh(rapid.IntRange(1, 2).Draw(d.t, "tagwords")))
}

// absName is a source-specific (dialsenv / dialsflag / dialspflag) name: it is
// used verbatim by the source, so it is written in that source's convention.
func (d *decorator) absName(kind string) string {
	ws := d.fresh(rapid.IntRange(1, 2).Draw(d.t, "abswords"))
	if kind == "dialsenv" {
		return strings.ToUpper(strings.Join(ws, "_"))
	}
	return strings.Join(ws, "-")
}

func (d *decorator) decorate(fs []shape.Field, aliasedAbove int) {
	underAliased := aliasedAbove > 0
	for i := range fs {
		f := &fs[i]
		if isEmbedKind(f.Kind) {
			d.decorateEmbed(f, aliasedAbove)
			continue
		}
		forced := false
		seen := map[string]bool{}
		for _, w := range f.Words {
			if d.used[w] || seen[w] {
				forced = true
			}
			seen[w] = true
		}
		var tags []string
		if forced || rapid.IntRange(0, 99).Draw(d.t, "has_dials_tag") < 55 {
			tags = append(tags, fmt.Sprintf(`dials:%q`, d.freshTag()))
		} else {
			for _, w := range f.Words {
				d.used[w] = true
			}
		}
		aliasPct := 50
		if f.Kind != "leaf" {
			// every aliased struct doubles the names below it: at most two
			// aliased structs on any path
			aliasPct = 40
			if aliasedAbove >= 2 {
				aliasPct = 0
			}
		}
		if d.names > nameBudget {
			aliasPct = 0
		}
		if d.noAlias[f.Name] {
			aliasPct = 0
		}
		aliased := rapid.IntRange(0, 99).Draw(d.t, "has_alias") < aliasPct || d.forceAlias[f.Name]
		if f.Kind == "leaf" {
			d.names += 1 << aliasedAbove
			if aliased {
				d.names += 1 << aliasedAbove
			}
		}
		if aliased {
			tags = append(tags, fmt.Sprintf(`dialsalias:%q`, d.freshTag()))
		}
		if dv, ok := reflect.StructTag(strings.Join(tags, " ")).Lookup("dials"); ok && !d.src.flatten {
			// hand-written tags of the file decoders next to the dials tag,
			// naming the field exactly as the dials tag does
			switch r := rapid.IntRange(0, 99).Draw(d.t, "decoder_tags"); {
			case r < 15:
				tags = append(tags, fmt.Sprintf(`json:%q`, dv), fmt.Sprintf(`yaml:%q`, dv), fmt.Sprintf(`toml:%q`, dv))
			case r < 25:
				tags = append(tags, fmt.Sprintf(`json:%q`, dv+",omitempty"), fmt.Sprintf(`yaml:%q`, dv+",omitempty"), fmt.Sprintf(`toml:%q`, dv+",omitempty"))
			}
		}
		if f.Kind == "leaf" && !underAliased && !d.forceAlias[f.Name] {
			kinds := []string{d.src.spTag}
			if !d.src.flatten {
				// tags of other sources are noise for a decoder
				kinds = []string{"dialsenv", "dialsflag", "dialspflag"}
			}
			for _, k := range kinds {
				switch r := rapid.IntRange(0, 99).Draw(d.t, "src_tags"); {
				case r < 10:
					tags = append(tags, fmt.Sprintf(`%s:%q`, k, d.absName(k)))
					if aliased && d.src.flatten && !d.allowClassA {
						tags = append(tags, fmt.Sprintf(`%salias:%q`, k, d.absName(k)))
					}
				case r < 22:
					tags = append(tags, fmt.Sprintf(`%salias:%q`, k, d.absName(k)))
				case r < 30:
					tags = append(tags, fmt.Sprintf(`%s:%q`, k, d.absName(k)), fmt.Sprintf(`%salias:%q`, k, d.absName(k)))
				}
			}
		}
		if len(tags) > 1 {
			tags = rapid.Permutation(tags).Draw(d.t, "tag_order")
		}
		f.Tag = strings.Join(tags, " ")
		if f.Kind != "leaf" {
			if aliased {
				d.decorate(f.Fields, aliasedAbove+1)
			} else {
				d.decorate(f.Fields, aliasedAbove)
			}
		}
	}
}

// countLeaves counts the leaves of a field list (an aliased leaf twice).
func countLeaves(fs []shape.Field) int {
	n := 0
	for i := range fs {
		switch f := &fs[i]; {
		case f.Kind == "leaf":
			n++
			if hasAnyAliasTag(f) {
				n++
			}
		case isEmbedKind(f.Kind):
			ks, _ := embedKids(f.Type)
			n += countLeaves(ks)
		default:
			n += countLeaves(f.Fields)
		}
	}
	return n
}

// decorateEmbed tags an embedded field.  The fields inside it are fixed by
// its Go type; the embedded field itself may get a dials tag (it then behaves
// like a named field) and / or a dialsalias tag (the primary copy stays
// promoted, the alias copy is a named field).  Once per config type, at a
// place with no aliased field above, the embedded type may be replaced by
// EmbSrc, whose leaves carry source-specific names.
func (d *decorator) decorateEmbed(f *shape.Field, aliasedAbove int) {
	isSrc := false
	if aliasedAbove == 0 && !d.embSrcUsed && rapid.IntRange(0, 3).Draw(d.t, "embed_src_type") == 0 {
		f.Type, f.Name = "EmbSrc", "EmbSrc"
		d.embSrcUsed, isSrc = true, true
	}
	var tags []string
	if rapid.IntRange(0, 99).Draw(d.t, "embed_has_dials_tag") < 25 {
		tags = append(tags, fmt.Sprintf(`dials:%q`, d.freshTag()))
	}
	aliasPct := 30
	if isSrc || aliasedAbove >= 2 || d.names > nameBudget {
		aliasPct = 0
	}
	aliased := rapid.IntRange(0, 99).Draw(d.t, "embed_has_alias") < aliasPct
	if aliased {
		tags = append(tags, fmt.Sprintf(`dialsalias:%q`, d.freshTag()))
	}
	ks, _ := embedKids(f.Type)
	n := countLeaves(ks) << aliasedAbove
	if aliased {
		n *= 2
	}
	d.names += n
	if len(tags) > 1 {
		tags = rapid.Permutation(tags).Draw(d.t, "tag_order")
	}
	f.Tag = strings.Join(tags, " ")
}

// varBackedFlagTypes are leaf types for which both flag sources register a
// flag.Value whose storage is a variable the source provides (maps, integral
// slices, sets, complex numbers, TextUnmarshalers).
var varBackedFlagTypes = []string{"map[string]string", "[]int", "map[string]struct{}", "complex128", "Color"}

func profile(src srcKind) shape.Profile {
	lt := leafTypes
	if src.name == "flag" || src.name == "pflag" {
		// more flag types whose storage is a Var the source hands to the FlagSet
		lt = append(append([]string{}, leafTypes...), "complex128", "Color")
	}
	if !src.flatten {
		// only documents can spell a slice of structs
		lt = append(append([]string{}, leafTypes...), elemLeafTypes...)
	}
	return shape.Profile{
		LeafTypes:  lt,
		Nested:     []string{"struct", "pstruct", "embed", "pembed"},
		EmbedTypes: generatedEmbedTypes,
		MaxDepth:   3, MaxFields: 4, MinFields: 1,
	}
}

type supplyGen struct {
	t         *rapid.T
	m         *model
	allowBoth bool
	supply    map[string]uint64
}

func (g *supplyGen) seed() uint64 { return rapid.Uint64().Draw(g.t, "value_seed") }

func (g *supplyGen) drawElemCount() int {
	if g.m.src.name == "toml" {
		// go-toml cannot type an empty array as an array of tables
		// ("Can't convert []([]interface {}) to a slice"), with or without
		// aliases: no empty slice of structs in TOML
		return rapid.SampledFrom([]int{1, 1, 2, 2, 3}).Draw(g.t, "elements")
	}
	return rapid.SampledFrom([]int{0, 1, 1, 2, 2, 3}).Draw(g.t, "elements")
}

// fillElems draws the elements of every supplied slice-of-struct leaf.
func (g *supplyGen) fillElems() map[string][]map[string]uint64 {
	byKey := map[string]xleaf{}
	for _, x := range g.m.expand() {
		byKey[x.key] = x
	}
	var out map[string][]map[string]uint64
	for _, k := range shape.SortedKeys(g.supply) {
		x := byKey[k]
		if _, ok := elemTypeOf(x.f.typ); !ok {
			continue
		}
		els, err := g.genElems(x.f)
		if err != nil {
			g.t.Fatalf("element model: %v", err)
		}
		if out == nil {
			out = map[string][]map[string]uint64{}
		}
		out[k] = els
	}
	return out
}

func (g *supplyGen) pattern() int {
	// 0 neither, 1 primary, 2 alias, 3 both
	if g.allowBoth {
		return rapid.SampledFrom([]int{0, 1, 1, 2, 2, 3}).Draw(g.t, "pattern")
	}
	return rapid.SampledFrom([]int{0, 1, 1, 2, 2}).Draw(g.t, "pattern")
}

// leavesBelow lists the expanded-leaf keys below a key prefix.
func (g *supplyGen) leavesBelow(fs []*mfield, key string, out *[]string) {
	for _, f := range fs {
		for _, e := range g.m.edges(f) {
			k := key + e.seg
			if f.leaf {
				*out = append(*out, k)
			} else {
				g.leavesBelow(f.kids, k+".", out)
			}
		}
	}
}

// fill draws the supplied leaves below key (which is "" or ends in "."); it
// returns how many leaves it supplied.
func (g *supplyGen) fill(fs []*mfield, key string) int {
	n := 0
	for _, f := range fs {
		pk, ak := key+f.name, key+f.name+aliasMark
		if f.leaf {
			if f.hasAlias {
				p := g.pattern()
				if p == 1 || p == 3 {
					g.supply[pk] = g.seed()
					n++
				}
				if p == 2 || p == 3 {
					g.supply[ak] = g.seed()
					n++
				}
			} else if rapid.Bool().Draw(g.t, "supplied") {
				g.supply[pk] = g.seed()
				n++
			}
			continue
		}
		if !f.hasAlias {
			n += g.fill(f.kids, pk+".")
			continue
		}
		p := g.pattern()
		for _, sub := range []struct {
			on  bool
			key string
		}{{p == 1 || p == 3, pk + "."}, {p == 2 || p == 3, ak + "."}} {
			if !sub.on {
				continue
			}
			k := g.fill(f.kids, sub.key)
			if k == 0 {
				// "supplied under this name" needs at least one leaf
				var ls []string
				g.leavesBelow(f.kids, sub.key, &ls)
				if len(ls) > 0 {
					g.supply[ls[rapid.IntRange(0, len(ls)-1).Draw(g.t, "forced_leaf")]] = g.seed()
					k = 1
				}
			}
			n += k
		}
	}
	return n
}

// flatSuffix stands for whatever the alias mangler appends to the Go name of
// an alias copy; all that matters here is that it cannot occur in a generated
// field name.
const flatSuffix = "\x01"

// hasAnyAliasTag reports whether some alias tag is present on the field (the
// field is then duplicated by every source whose alias mangler knows the tag).
func hasAnyAliasTag(f *shape.Field) bool {
	return strings.Contains(f.Tag, `alias:"`)
}

// uniquifyFlatNames renames leaves until the concatenation of Go field names
// along every expanded path is unique.  The flatten mangler names the fields
// of its flat struct by that concatenation, so A.BC and AB.C would otherwise
// meet (a flatten matter, outside this property).
func uniquifyFlatNames(fs []shape.Field) {
	extra := 0
	for round := 0; round < 1000; round++ {
		seen := map[string]bool{}
		var dup *shape.Field
		found := false
		// owner is the field to rename when a leaf of an embedded type (whose
		// names are fixed) is involved: the nearest generated struct above it.
		var rec func(fs []shape.Field, prefixes []string, owner *shape.Field, fixed bool)
		rec = func(fs []shape.Field, prefixes []string, owner *shape.Field, fixed bool) {
			for i := range fs {
				f := &fs[i]
				var next []string
				for _, p := range prefixes {
					if isEmbedKind(f.Kind) {
						// an embedded field adds nothing to the flat Go name;
						// its alias copy is a named field
						next = append(next, p)
					} else {
						next = append(next, p+f.Name)
					}
					if hasAnyAliasTag(f) {
						next = append(next, p+f.Name+flatSuffix)
					}
				}
				switch {
				case isEmbedKind(f.Kind):
					ks, _ := embedKids(f.Type)
					rec(ks, next, owner, true)
					continue
				case f.Kind != "leaf":
					if fixed {
						rec(f.Fields, next, owner, true)
					} else {
						rec(f.Fields, next, f, false)
					}
					continue
				}
				for _, n := range next {
					if seen[n] && !found {
						found = true
						dup = f
						if fixed {
							dup = owner
						}
					}
					seen[n] = true
				}
			}
		}
		rec(fs, []string{""}, nil, false)
		if !found || dup == nil {
			return
		}
		w := extraWord(extra)
		extra++
		dup.Name += title(w)
		dup.Words = append(dup.Words, w)
	}
}

// extraWord returns the i-th word of a second synthetic family (middle letter
// 'w'), disjoint from the tag words and from the field-name vocabulary.
func extraWord(i int) string {
	w := []byte(tagWord(i))
	w[2] = 'w'
	return string(w)
}

func genCase(src srcKind) func(*rapid.T) Case {
	step := genStep(src)
	return func(t *rapid.T) Case {
		c := step(t)
		if src.name == "flag" || src.name == "pflag" {
			c.SetLiteral = rapid.Bool().Draw(t, "set_literal")
		}
		if !src.flatten {
			c.NoSetSlice = rapid.Bool().Draw(t, "no_set_slice")
			c.InnerRecase = rapid.SampledFrom([]string{"", "", "", "lower_snake", "upper_snake", "kebab"}).Draw(t, "inner_recase")
			// decoder value reuse: up to two more config types through the
			// same wrapped decoder value
			for n := rapid.SampledFrom([]int{0, 0, 1, 1, 2}).Draw(t, "more_decodes"); n > 0; n-- {
				c.More = append(c.More, step(t))
			}
		}
		return c
	}
}

func genStep(src srcKind) func(*rapid.T) Case {
	return func(t *rapid.T) Case {
		s := shape.Gen(t, profile(src))
		d := &decorator{t: t, src: src, used: map[string]bool{}, forceAlias: map[string]bool{}, noAlias: map[string]bool{}}
		d.allowClassA = rapid.IntRange(0, 5).Draw(t, "allow_class_a") == 0
		var twinKeys []string
		twinType := ""
		if (src.name == "flag" || src.name == "pflag") && rapid.IntRange(0, 9).Draw(t, "twins") < 6 {
			// two aliased leaves of one Var-backed flag type, both supplied
			// under their alias names with different values
			twinType = rapid.SampledFrom(varBackedFlagTypes).Draw(t, "twin_type")
			wa, wb, wc := extraWord(3000), extraWord(3001), extraWord(3002)
			a := shape.Field{Name: title(wa), Words: []string{wa}, Kind: "leaf", Type: twinType}
			b := shape.Field{Name: title(wb), Words: []string{wb}, Kind: "leaf", Type: twinType}
			d.forceAlias[a.Name], d.forceAlias[b.Name] = true, true
			twinKeys = []string{a.Name, b.Name}
			s.Fields = append(s.Fields, a)
			if rapid.IntRange(0, 2).Draw(t, "twin_nested") == 0 {
				box := shape.Field{Name: title(wc), Words: []string{wc}, Kind: "struct", Fields: []shape.Field{b}}
				d.noAlias[box.Name] = true
				twinKeys[1] = box.Name + "." + b.Name
				s.Fields = append(s.Fields, box)
			} else {
				s.Fields = append(s.Fields, b)
			}
		}
		d.decorate(s.Fields, 0)
		uniquifyFlatNames(s.Fields)
		m, err := buildModel(s, src)
		if err != nil {
			t.Fatalf("generated shape has no model: %v", err)
		}
		g := &supplyGen{t: t, m: m, supply: map[string]uint64{}}
		g.allowBoth = rapid.Bool().Draw(t, "allow_both")
		g.fill(m.fields, "")
		if len(twinKeys) == 2 {
			sa, sb := g.seed(), g.seed()
			for textOf(makeVal(twinType, sa)) == textOf(makeVal(twinType, sb)) {
				sb++
			}
			for i, k := range twinKeys {
				delete(g.supply, k)
				g.supply[k+aliasMark] = []uint64{sa, sb}[i]
			}
		}
		c := Case{Shape: s, Supply: g.supply}
		if !src.flatten {
			c.Elems = g.fillElems()
		}
		if src.name == "env" {
			// further Value() calls on the same Source, each with its own
			// pattern per aliased field
			for n := rapid.SampledFrom([]int{0, 1, 1, 2}).Draw(t, "more_env_calls"); n > 0; n-- {
				eg := &supplyGen{t: t, m: m, supply: map[string]uint64{}}
				eg.allowBoth = rapid.Bool().Draw(t, "allow_both")
				eg.fill(m.fields, "")
				c.EnvCalls = append(c.EnvCalls, eg.supply)
			}
		}
		return c
	}
}

// ---- execution ----

// ezWrap wraps a decoder the way ez.ConfigFileEnvFlagDecoderFactoryParams does
// when no FileFieldNameEncoder is set: alias mangler on the dials tag first,
// then the set<->slice mangler unless Params.DisableAutoSetToSlice.
func ezWrap(d dials.Decoder, noSetSlice bool) dials.Decoder {
	manglers := []transform.Mangler{transform.NewAliasMangler(common.DialsTagName)}
	if !noSetSlice {
		manglers = append(manglers, &transform.SetSliceMangler{})
	}
	return sourcewrap.NewTransformingDecoder(d, manglers...)
}

// runOpts are the per-case options of the source / decoder construction.
type runOpts struct {
	envSrc     *env.Source // shared by all Value() calls of an env case
	noSetSlice bool
	recase     string
	setLiteral bool
}

// recaseEncoders maps the InnerRecase names to the library's encoders.
var recaseEncoders = map[string]caseconversion.EncodeCasingFunc{
	"lower_snake": caseconversion.EncodeLowerSnakeCase,
	"upper_snake": caseconversion.EncodeUpperSnakeCase,
	"kebab":       caseconversion.EncodeKebabCase,
}

// recasingDecoder wraps a decoder the way a user would to read files in
// another key convention: a transforming decoder with a tag-reformatting
// mangler.  The result is what gets handed to the alias wrapper.
func recasingDecoder(d dials.Decoder, recase string) dials.Decoder {
	if recase == "" {
		return d
	}
	return sourcewrap.NewTransformingDecoder(d, tagformat.NewTagReformattingMangler(common.DialsTagName, caseconversion.DecodeGoTags, recaseEncoders[recase]))
}

type supplied struct {
	x   xleaf
	val reflect.Value
	doc string // pre-rendered document spelling (slice-of-struct leaves)
}

func execute(src srcKind, T, pt reflect.Type, sup []supplied, opt runOpts, shared dials.Decoder) (val reflect.Value, err error, panicked any) {
	defer func() {
		if r := recover(); r != nil {
			panicked = r
		}
	}()
	ctx := context.Background()
	typ := dials.NewType(pt)
	switch src.name {
	case "env":
		type saved struct {
			name string
			val  string
			had  bool
		}
		var restore []saved
		defer func() {
			for _, s := range restore {
				if s.had {
					os.Setenv(s.name, s.val)
				} else {
					os.Unsetenv(s.name)
				}
			}
		}()
		for _, s := range sup {
			old, had := os.LookupEnv(s.x.name)
			restore = append(restore, saved{s.x.name, old, had})
			os.Setenv(s.x.name, textOf(s.val))
		}
		esrc := opt.envSrc
		if esrc == nil {
			esrc = &env.Source{Prefix: envPrefix}
		}
		val, err = esrc.Value(ctx, typ)
		return val, err, nil
	case "flag":
		args := make([]string, 0, len(sup))
		for _, s := range sup {
			args = append(args, "-"+s.x.name+"="+textOf(s.val))
		}
		if opt.setLiteral {
			// the lazily registering form the package's own tests use
			fs := stdflag.NewFlagSet("", stdflag.ContinueOnError)
			fs.SetOutput(io.Discard)
			set := &dflag.Set{Flags: fs, ParseFunc: func() error { return fs.Parse(args) }}
			val, err = set.Value(ctx, typ)
			return val, err, nil
		}
		set, serr := dflag.NewSetWithArgs(dflag.DefaultFlagNameConfig(), reflect.New(T).Interface(), args)
		if serr != nil {
			return reflect.Value{}, fmt.Errorf("NewSetWithArgs: %w", serr), nil
		}
		val, err = set.Value(ctx, typ)
		return val, err, nil
	case "pflag":
		args := make([]string, 0, len(sup))
		for _, s := range sup {
			args = append(args, "--"+s.x.name+"="+textOf(s.val))
		}
		if opt.setLiteral {
			fs := pflag.NewFlagSet("", pflag.ContinueOnError)
			fs.SetOutput(io.Discard)
			set := &dpflag.Set{Flags: fs, ParseFunc: func() error { return fs.Parse(args) }}
			val, err = set.Value(ctx, typ)
			return val, err, nil
		}
		set, serr := dpflag.NewSetWithArgs(dpflag.DefaultFlagNameConfig(), reflect.New(T).Interface(), args)
		if serr != nil {
			return reflect.Value{}, fmt.Errorf("NewSetWithArgs: %w", serr), nil
		}
		val, err = set.Value(ctx, typ)
		return val, err, nil
	}
	root := &docNode{}
	for _, s := range sup {
		if s.doc != "" {
			root.put(s.x.docPath, s.doc)
			continue
		}
		root.put(s.x.docPath, docValue(s.val, src.name == "toml", opt.noSetSlice))
	}
	var doc string
	var dec dials.Decoder
	switch src.name {
	case "json":
		doc, dec = root.json(), &djson.Decoder{}
	case "cue":
		doc, dec = root.json(), &dcue.Decoder{}
	case "yaml":
		var b strings.Builder
		root.yaml("", &b)
		doc, dec = b.String(), &dyaml.Decoder{}
	case "toml":
		doc, dec = root.toml(), &dtoml.Decoder{}
	default:
		return reflect.Value{}, fmt.Errorf("unknown source %q", src.name), nil
	}
	wrapped := shared
	if wrapped == nil {
		wrapped = ezWrap(recasingDecoder(dec, opt.recase), opt.noSetSlice)
	}
	val, err = wrapped.Decode(strings.NewReader(doc), typ)
	if err != nil {
		err = fmt.Errorf("%w (document: %s)", err, clip(doc, 600))
	}
	return val, err, nil
}

// rootCause unwraps an error to its innermost cause: the wrappers added on
// the way up quote the names of enclosing fields, which must not count as
// "naming the field".
func rootCause(err error) string {
	for {
		next := errors.Unwrap(err)
		if next == nil {
			return err.Error()
		}
		err = next
	}
}

// namesField reports whether an error names the field: the innermost cause
// of the chain quotes the Go field name (what AliasMangler.Unmangle prints),
// AND the message a caller actually sees, err.Error(), carries that quoted
// name somewhere other than in a wrapper's parenthesised `("Name")` (the
// outer layers quote the names of ENCLOSING fields that way; an enclosing
// field may well have the same Go name as the leaf).  On the unmodified tree
// every layer of every source formats its inner error into its own text, so
// the both-set sentence with the quoted leaf name is always in the message.
func namesField(err error, name string) bool {
	q := strconv.Quote(name)
	if !strings.Contains(rootCause(err), q) {
		return false
	}
	msg := err.Error()
	for i := 0; ; {
		j := strings.Index(msg[i:], q)
		if j < 0 {
			return false
		}
		j += i
		if j == 0 || msg[j-1] != '(' {
			return true
		}
		i = j + len(q)
	}
}

func clip(s string, n int) string {
	if len(s) > n {
		return s[:n] + "..."
	}
	return s
}

// innerDecoder returns a fresh decoder of the named format.
func innerDecoder(name string) dials.Decoder {
	switch name {
	case "json":
		return &djson.Decoder{}
	case "cue":
		return &dcue.Decoder{}
	case "yaml":
		return &dyaml.Decoder{}
	case "toml":
		return &dtoml.Decoder{}
	}
	return nil
}

func runCase(src srcKind) func(Case) vrt.Verdict {
	judge := judgeStep(src)
	return func(c Case) vrt.Verdict {
		opt := runOpts{noSetSlice: c.NoSetSlice, recase: c.InnerRecase, setLiteral: c.SetLiteral}
		if _, ok := recaseEncoders[opt.recase]; opt.recase != "" && !ok {
			return vrt.Discardf("unknown inner recase")
		}
		if src.flatten {
			if len(c.More) > 0 || opt.recase != "" || opt.noSetSlice || (opt.setLiteral && src.name == "env") {
				return vrt.Discardf("decoder option in a flatten source")
			}
			if src.name != "env" && len(c.EnvCalls) > 0 {
				return vrt.Discardf("env calls in a flag check")
			}
			if src.name == "env" {
				opt.envSrc = &env.Source{Prefix: envPrefix}
			}
			v := judge(c, opt, nil)
			if v.Status != vrt.StatusOK {
				return v
			}
			for i, sup := range c.EnvCalls {
				c2 := c
				c2.Supply = sup
				sv := judge(c2, opt, nil)
				switch sv.Status {
				case vrt.StatusViolation:
					sv.Msg = fmt.Sprintf("Value() call #%d of %d on one env.Source (same config type, environment changed in between): %s", i+2, len(c.EnvCalls)+1, sv.Msg)
					return sv
				case vrt.StatusDiscard:
					return sv
				}
				v.NonTrivial = v.NonTrivial || sv.NonTrivial
				v.Labels = append(v.Labels, sv.Labels...)
			}
			if src.name == "env" {
				v.Labels = append(v.Labels, fmt.Sprintf("value-calls-on-one-env-source:%d", len(c.EnvCalls)+1))
			} else {
				v.Labels = append(v.Labels, fmt.Sprintf("set-struct-literal:%v", opt.setLiteral))
			}
			seen := map[string]bool{}
			uniq := v.Labels[:0]
			for _, l := range v.Labels {
				if !seen[l] {
					seen[l] = true
					uniq = append(uniq, l)
				}
			}
			v.Labels = uniq
			return v
		}
		if opt.setLiteral {
			return vrt.Discardf("flag option in a decoder check")
		}
		// one alias-wrapped decoder value for every decode of the case
		shared := ezWrap(recasingDecoder(innerDecoder(src.name), opt.recase), opt.noSetSlice)
		v := judge(c, opt, shared)
		if v.Status != vrt.StatusOK {
			return v
		}
		for i, step := range c.More {
			sv := judge(step, opt, shared)
			switch sv.Status {
			case vrt.StatusViolation:
				sv.Msg = fmt.Sprintf("decode #%d of %d through one alias-wrapped decoder value (a different config type each time): %s", i+2, len(c.More)+1, sv.Msg)
				return sv
			case vrt.StatusDiscard:
				return sv
			}
			v.NonTrivial = v.NonTrivial || sv.NonTrivial
			v.Labels = append(v.Labels, sv.Labels...)
		}
		v.Labels = append(v.Labels, fmt.Sprintf("decodes-through-one-decoder-value:%d", len(c.More)+1))
		rc := opt.recase
		if rc == "" {
			rc = "none"
		}
		v.Labels = append(v.Labels, "inner-recasing-decoder:"+rc)
		seen := map[string]bool{}
		uniq := v.Labels[:0]
		for _, l := range v.Labels {
			if !seen[l] {
				seen[l] = true
				uniq = append(uniq, l)
			}
		}
		v.Labels = uniq
		return v
	}
}

func judgeStep(src srcKind) func(Case, runOpts, dials.Decoder) vrt.Verdict {
	return func(c Case, opt runOpts, shared dials.Decoder) vrt.Verdict {
		c.NoSetSlice = opt.noSetSlice
		T, err := c.Shape.Build()
		if err != nil {
			return vrt.Discardf("shape does not build")
		}
		m, err := buildModel(c.Shape, src)
		if err != nil {
			return vrt.Discardf("shape outside the grammar")
		}
		m.keyEnc, m.recaseAll = opt.recase, opt.recase != ""
		xs := m.expand()
		byKey := map[string]xleaf{}
		names := map[string]string{}
		for _, x := range xs {
			byKey[x.key] = x
			n := x.name
			if !src.flatten {
				n = strings.ToLower(strings.Join(x.docPath, "\x00"))
			}
			if other, dup := names[n]; dup {
				return vrt.Discardf("name collision between %s and %s", other, x.key)
			}
			names[n] = x.key
		}
		keys := shape.SortedKeys(c.Supply)
		sup := make([]supplied, 0, len(keys))
		zeroSupplied := false
		elemVals := map[string]reflect.Value{}
		var elemBoth []*mfield
		var elemPats []patInst
		elemSupplied := false
		for _, k := range keys {
			x, ok := byKey[k]
			if !ok {
				return vrt.Discardf("supply key is not an expanded leaf of the type")
			}
			if _, isElem := elemTypeOf(x.f.typ); isElem {
				if src.flatten {
					return vrt.Discardf("slice of structs in a flatten source")
				}
				v, doc, both, pats, err := m.elemLeaf(x.f, c.Elems[k], src.name == "toml", c.NoSetSlice, false)
				if err != nil {
					return vrt.Discardf("malformed elements")
				}
				if v.Len() == 0 && src.name == "toml" {
					return vrt.Discardf("TOML cannot spell an empty slice of structs")
				}
				elemVals[k], elemBoth, elemPats = v, append(elemBoth, both...), append(elemPats, pats...)
				elemSupplied = elemSupplied || v.Len() > 0
				sup = append(sup, supplied{x: x, val: v, doc: doc})
				continue
			}
			v := makeVal(x.f.typ, c.Supply[k])
			zeroSupplied = zeroSupplied || isZeroScalar(v)
			sup = append(sup, supplied{x: x, val: v})
		}
		ev := m.eval(c.Supply)
		ev.both = append(ev.both, elemBoth...)
		valOf := func(f *mfield, key string) reflect.Value {
			if v, ok := elemVals[key]; ok {
				return v
			}
			return makeVal(f.typ, c.Supply[key])
		}

		pt := ptrify.Pointerify(T, reflect.New(T).Elem())
		got, gerr, panicked := execute(src, T, pt, sup, opt, shared)

		describe := func() string {
			var parts []string
			for _, s := range sup {
				n := s.x.name
				if !src.flatten {
					n = strings.Join(s.x.docPath, "/")
				}
				if s.doc != "" {
					parts = append(parts, fmt.Sprintf("%s(%s)=%s", n, s.x.key, s.doc))
					continue
				}
				parts = append(parts, fmt.Sprintf("%s(%s)=%s", n, s.x.key, textOf(s.val)))
			}
			return strings.Join(parts, " ")
		}
		classAKey := func(msg string) (string, bool) {
			for _, f := range ev.classASupplied {
				if strings.Contains(msg, strconv.Quote(f.name)) {
					return f.path, true
				}
			}
			return "", false
		}

		if panicked != nil && elemSupplied && strings.Contains(fmt.Sprint(panicked), "reflect.Value.IsNil") {
			return vrt.KeyedViolationf("alias-in-slice-element", "%s: an alias tag on a field of a struct held in a slice makes the alias-wrapped decoder panic once the slice has an element: %v; supplied: %s", src.name, panicked, describe())
		}
		if panicked != nil {
			return vrt.KeyedViolationf("panic-"+src.name, "%s source panicked: %v; supplied: %s", src.name, panicked, describe())
		}
		if len(ev.both) > 0 {
			var bn []string
			for _, f := range ev.both {
				bn = append(bn, f.path)
			}
			if gerr == nil {
				return vrt.KeyedViolationf("both-accepted", "%s: field(s) %v supplied under both the primary and the alias name, but the source returned no error; supplied: %s", src.name, bn, describe())
			}
			named := false
			for _, f := range ev.both {
				if namesField(gerr, f.name) {
					named = true
				}
			}
			if p, ok := classAKey(rootCause(gerr)); !named && ok && strings.Contains(gerr.Error(), "both alias and original set") {
				return vrt.KeyedViolationf("generic-alias-inherits-source-tag", "%s: field %s has a %s tag and a dialsalias tag; supplying it under its only %s name is rejected: %v; supplied: %s", src.name, p, src.spTag, src.name, gerr, describe())
			}
			if !named {
				return vrt.KeyedViolationf("both-error-unnamed", "%s: field(s) %v supplied under both names; the error names none of them: %v; supplied: %s", src.name, bn, gerr, describe())
			}
		} else {
			if gerr != nil {
				if p, ok := classAKey(rootCause(gerr)); ok && strings.Contains(gerr.Error(), "both alias and original set") {
					return vrt.KeyedViolationf("generic-alias-inherits-source-tag", "%s: field %s has a %s tag and a dialsalias tag; supplying it under its only %s name is rejected: %v; supplied: %s", src.name, p, src.spTag, src.name, gerr, describe())
				}
				return vrt.KeyedViolationf("spurious-error", "%s: no field is supplied under both names, but the source failed: %v; supplied: %s", src.name, gerr, describe())
			}
			want, werr := m.want(pt, ev.set, valOf)
			if werr != nil {
				return vrt.Violationf("harness: %v", werr)
			}
			if !got.IsValid() || got.Type() != pt {
				return vrt.Violationf("%s: returned value has type %v, want %s", src.name, got, pt)
			}
			if df := shape.Diff(want, got); df != "" {
				return vrt.KeyedViolationf("wrong-value", "%s: returned value differs from the model at %s (want vs got); supplied: %s", src.name, df, describe())
			}
		}

		// ---- classification ----
		lab := map[string]bool{"src:" + src.name: true}
		if len(ev.both) > 0 {
			lab["expect:error"] = true
			if len(ev.both) > 1 {
				lab["both-on>=2-fields"] = true
			}
		} else {
			lab["expect:value"] = true
		}
		if zeroSupplied {
			lab["zero-value-supplied"] = true
		}
		if src.name == "flag" || src.name == "pflag" {
			byType := map[string]int{}
			for _, sp := range sup {
				if strings.HasSuffix(sp.x.key, aliasMark) {
					for _, vt := range varBackedFlagTypes {
						if sp.x.f.typ == vt {
							byType[vt]++
						}
					}
				}
			}
			for vt, n := range byType {
				if n >= 2 {
					lab["two-alias-flags-of-one-var-backed-type:"+vt] = true
				}
			}
		}
		emptyLabels(ev.pats, c.Supply, lab)
		embedLabels(m, ev.pats, lab)
		elemLabels(elemPats, lab)
		for k, v := range elemVals {
			lab[fmt.Sprintf("slice-of-struct:len=%d", v.Len())] = true
			if strings.HasSuffix(k, aliasMark) {
				lab["slice-of-struct:under-alias-name"] = true
			}
		}
		if !src.flatten {
			lab[fmt.Sprintf("set-slice-mangler:%v", !c.NoSetSlice)] = true
		}
		if len(ev.classASupplied) > 0 {
			lab["generic-alias+source-primary-supplied"] = true
		}
		nonTrivial := false
		for i, p := range ev.pats {
			k := "leaf"
			if !p.f.leaf {
				k = "struct"
				if p.f.underAliased {
					lab["aliased-struct-under-aliased-struct"] = true
				}
			} else {
				if p.f.underAliased {
					lab["aliased-leaf-under-aliased-struct"] = true
				}
				switch t := shape.MustType(p.f.typ); t.Kind() {
				case reflect.Slice:
					lab["aliased-kind:slice"] = true
				case reflect.Map:
					lab["aliased-kind:map"] = true
				default:
					lab["aliased-kind:scalar"] = true
				}
			}
			lab["pat:"+k+":"+p.pat] = true
			if p.f.aliasFromSrc {
				lab["alias-from-source-tag-only"] = true
			}
			if p.f.untaggedPrimay {
				lab["aliased-untagged-primary"] = true
			}
			if p.depth >= 2 {
				lab["aliased-depth>=2"] = true
			}
			for _, q := range ev.pats[:i] {
				if q.depth != p.depth && q.pat != p.pat {
					nonTrivial = true
				}
			}
		}
		if len(ev.pats) == 0 {
			lab["no-aliased-field"] = true
		}
		switch n := len(xs); {
		case n <= 10:
			lab["names<=10"] = true
		case n <= 50:
			lab["names<=50"] = true
		case n <= 200:
			lab["names<=200"] = true
		default:
			lab["names>200"] = true
		}
		labels := make([]string, 0, len(lab))
		for l := range lab {
			labels = append(labels, l)
		}
		sort.Strings(labels)
		return vrt.OK(nonTrivial, labels...)
	}
}

func rule(src string) string {
	return "config struct types from the shape grammar restricted to leaf types every alias-capable source reads (scalars of all integer widths, floats, bool, string, duration, []string, []int, map[string]string, string set), nested struct / pointer-struct fields to depth 3, <=4 fields per struct, and embedded (anonymous) structs, by value or by pointer, in the root struct and in nested structs: the embedded types are four named Go types of the test package (reflect cannot mint named types) with aliased leaves of scalar / slice / map type, an untagged aliased leaf, an aliased struct below the embedded one, and (EmbSrc, at most once per type and never below an aliased field) leaves carrying the source-specific primary / alias tags of all three flatten sources; the embedded field itself is untagged (3/4) or has a dials tag, and is aliased with probability 3/10; " +
		"for the decoder checks the leaf grammar also has []ElemItem, a slice of structs whose element fields carry alias tags (aliased string, []string, struct, pointer-struct and untagged float fields, an aliased leaf below the struct fields): a supplied slice has 0..3 elements (1..3 in TOML, which cannot spell an empty array of tables), each element with its own neither / primary / alias / both pattern per aliased element field and non-zero values (elements are not pointerified, so inside an element the zero value is 'not supplied'); env, flag and pflag cannot spell slices of structs and do not get them; " +
		"each field (leaf or struct-typed, any depth) independently gets an explicit dials tag (single word / camelCase / snake_case / kebab-case, globally unique words) or stays untagged, and a dialsalias tag with probability 1/2 (leaves) or 2/5 (struct-typed fields; at most two aliased structs on one path and no further aliases once the type has ~100 expanded names, because every aliased struct doubles the names below it); leaves not below an aliased struct may also get the source's own primary and/or alias tag (dialsenv[alias], dialsflag[alias], dialspflag[alias]; for decoders the tags of all three are noise); the combination 'source-specific primary + dialsalias, no source-specific alias' is allowed in one case in six; tag order is shuffled; Go field names are extended where needed so that flattened name concatenations stay unique. " +
		"In the decoder checks a quarter of the fields that have a dials tag (aliased or not, leaf or struct-typed, any depth) also carry hand-written json / yaml / toml tags with the same name (plain, or with the option ',omitempty'): the decoder goes by that tag for the original field, the alias copy must not inherit it. " +
		"Per aliased field one of neither / primary only / alias only / both (half of the cases exclude 'both'); an aliased struct-typed field duplicates its subtree, 'supplied under a name' = at least one leaf of that copy supplied; other leaves set or unset at random; one scalar value in five is the zero value of its type and one collection value in four is an explicitly empty non-nil collection (NAME=\"\", -name=, [] / {}), which must count as set exactly like any other value (nil vs empty is compared exactly). " +
		"The env check makes 1..3 Value() calls on ONE *env.Source with the same config type, each call with its own neither / primary / alias / both pattern per aliased field and the environment changed in between (the previous call's variables are removed), each call judged on its own. " +
		"In the flag and pflag checks the leaf grammar also has complex128 and a TextUnmarshaler (Color), and 3/5 of the types get two extra aliased leaves of ONE Var-backed flag type (map[string]string, []int, string set, complex128, Color; both at the root, or one in a nested struct) that are both supplied under their ALIAS names with different values on the one command line. " +
		"In the flag and pflag checks the Set is built by NewSetWithArgs or (1/2) declared as a struct literal &Set{Flags: fs, ParseFunc: ...} that registers lazily on the first Value(). " +
		"In the decoder checks the decoder below the alias wrapper is the plain format decoder or (1/2) itself a sourcewrap.NewTransformingDecoder with a tag-reformatting mangler (DecodeGoTags -> lower_snake | UPPER_SNAKE | kebab); the keys of the document, primary and alias alike, are then the re-cased join of the words of the tag / field name / embedded type name (as read off the unmodified tree: the alias copy is re-cased exactly like the original). " +
		"In the decoder checks one alias-wrapped decoder value is built per case and used for 1..3 decodes in a row (1: 2/5, 2: 2/5, 3: 1/5), each with a different generated config type, its own supplied leaves and its own document, each judged on its own by the same oracle (a wrapper must not carry anything from one config type to the next). " +
		"Executed against " + src + " with names known by construction (env: PREFIX + UPPER_SNAKE join of words; flags: '-' join of tags / field words; decoders: tag path, documents rendered by the harness; an untagged embedded struct contributes no name element in the flatten sources, JSON and Cue (promotion), the lower-cased type name in YAML and the type name in TOML; with a dials tag it is an ordinary named field; its alias copy is always a named field). " +
		"Oracle: some field supplied under both names => an error that names such a field: its innermost cause quotes the Go field name and the visible error text carries that quoted name too (not merely the parenthesised names of enclosing fields that the outer layers add), whatever the nesting depth of the field; otherwise no error and the returned value equals the model leaf by leaf (value under either name lands, neither => nil, nothing else set). " +
		"non-trivial = >=2 aliased field instances at different depths with different patterns; distinct = distinct case JSON"
}

var assumptions = []string{
	"Value/Decode is called with dials.NewType(ptrify.Pointerify(T, zero T)), as dials.Config does",
	"decoders are wrapped exactly as ez does without a FileFieldNameEncoder: sourcewrap.NewTransformingDecoder(dec, transform.NewAliasMangler(\"dials\") [, &transform.SetSliceMangler{} unless DisableAutoSetToSlice, drawn per case]); with the set<->slice mangler a string set is written as a list, without it as a map of empty maps (accepted by all four formats on the unmodified tree)",
	"the env source is used with Prefix " + envPrefix + " so generated names cannot meet real environment variables; touched variables are restored after every case",
	"flag sources get explicit FlagSets (never flag.CommandLine / os.Args): NewSetWithArgs with a zero-valued template, or a Set struct literal with Flags and ParseFunc (the lazily registering form the packages' own tests use; FlagSet output discarded)",
	"source-specific tags are generated only on leaf fields that are not below an aliased struct field: their names are absolute, so below an aliased struct both copies would share one name and 'which name was used' is undefined",
	"untagged fields are addressed by the documented default of each format (Go field name for JSON/Cue/TOML, lower-cased field name for YAML)",
	"untagged embedded structs: promoted by the flatten manglers and by encoding/json (Cue follows it); yaml.v2 does not inline without a yaml tag option and go-toml v1 does not promote a pointer-typed embedded field, so both address it by its type name (lower-cased for YAML); each checked on the unmodified tree",
	"inside the elements of a slice of structs nothing is pointerified: 'supplied' means non-zero (non-nil for pointer / slice / map fields), so the generator only writes non-zero values there; either name sets the element field, neither leaves it zero, both non-zero is an error naming the field; arrays of structs are left out (a *[N]T field is not recursed into by any mangler, so alias tags inside array elements are ignored - reported separately)",
	"'naming the field' = the innermost error of the returned chain (errors.Unwrap to the end) contains the Go field name in quotes, which is what AliasMangler.Unmangle prints, AND the visible message err.Error() contains that quoted name outside a wrapper's parenthesised (\"Name\") form - at every nesting depth; names of enclosing fields quoted by outer wrappers do not count",
}

func check(t *testing.T, src string) {
	sk := sources[src]
	vrt.Check(t, vrt.Prop[Case]{
		ID: "C14", Name: src,
		Rule:        rule(src),
		Assumptions: assumptions,
		Gen:         genCase(sk), Run: runCase(sk),
	})
}

func TestC14Env(t *testing.T)   { check(t, "env") }
func TestC14Flag(t *testing.T)  { check(t, "flag") }
func TestC14PFlag(t *testing.T) { check(t, "pflag") }
func TestC14JSON(t *testing.T)  { check(t, "json") }
func TestC14YAML(t *testing.T)  { check(t, "yaml") }
func TestC14TOML(t *testing.T)  { check(t, "toml") }
func TestC14Cue(t *testing.T)   { check(t, "cue") }
