package palias

// C14 through the real ez entry point: a fixed config struct type (ez needs a
// compile-time type) with aliases on a leaf, a struct, a pointer struct below
// it and leaves below those, read from a generated file in each of the four
// formats.  Unlike the decoder checks, which rebuild ez's decoder wrapping, this
// one runs ez's own mangler chain (alias mangler, optional tag reformatting,
// set<->slice).

import (
	"context"
	"fmt"
	"os"
	"reflect"
	"sort"
	"strings"
	"testing"

	"github.com/vimeo/dials"
	dcue "github.com/vimeo/dials/decoders/cue"
	djson "github.com/vimeo/dials/decoders/json"
	dtoml "github.com/vimeo/dials/decoders/toml"
	dyaml "github.com/vimeo/dials/decoders/yaml"
	"github.com/vimeo/dials/ez"
	dflag "github.com/vimeo/dials/sources/flag"
	"github.com/vimeo/dials/tagformat/caseconversion"
	"pgregory.net/rapid"

	"verifharness/internal/shape"
	"verifharness/internal/vrt"
)

type ezInner struct {
	Leaf []string `dials:"vfcleaf" dialsalias:"vfcoldleaf"`
	Flag bool     `dials:"vfcflag"`
	Wait int64    `dials:"vfcwait" dialsalias:"vfcoldwait"`
}

type ezOuter struct {
	*EzEmbBurst
	Count int      `dials:"vfccount" dialsalias:"vfclegacycount" json:"vfccount,omitempty" yaml:"vfccount,omitempty" toml:"vfccount,omitempty"`
	Mid   *ezInner `dials:"vfcmid" dialsalias:"vfcoldmid" json:"vfcmid" yaml:"vfcmid" toml:"vfcmid"`
	Ratio float64  `dials:"vfcratio"`
}

type ezConfig struct {
	EzEmbTint
	Path  string              `dials:"vfcpath"`
	Name  string              `dials:"vfcname" dialsalias:"vfcoldname" json:"vfcname" yaml:"vfcname" toml:"vfcname"`
	Outer ezOuter             `dials:"vfcouter" dialsalias:"vfcoldouter"`
	Tags  map[string]struct{} `dials:"vfctags" dialsalias:"vfcoldtags"`
	Plain ezInner             `dials:"vfcplain"`
	Caps  map[string]string   `dials:"vfccaps" dialsalias:"vfcoldcaps"`
	Items []EzItem            `dials:"vfcitems" dialsalias:"vfcolditems"`
	// the only multi-word tags of the type: their spelling differs between the
	// raw tag and every re-cased form
	LimitMax int `dials:"vfcLimitMax" dialsalias:"vfcOldLimitMax"`
}

// ConfigPath implements ez.ConfigWithConfigPath.
func (c *ezConfig) ConfigPath() (string, bool) { return c.Path, c.Path != "" }

// ezShape mirrors ezConfig (without Path) for the model; it is derived from
// the Go type by reflection so the two cannot drift apart.
func ezShape() shape.Shape {
	var out []shape.Field
	for _, f := range shapeOfType(reflect.TypeOf(ezConfig{})) {
		if f.Name != "Path" {
			out = append(out, f)
		}
	}
	return shape.Shape{Fields: out}
}

// EzCase is a file format, the ez options that shape the decoder wrapping,
// the ez entry point, and the supplied expanded leaves.
type EzCase struct {
	Decoder string `json:"decoder"` // json | yaml | toml | cue
	// UpperKeys is the older spelling of Encoder = "upper_snake".
	UpperKeys bool `json:"upper_keys"`
	// Encoder names Params.FileFieldNameEncoder: "" (nil), "upper_snake",
	// "lower_snake" or "kebab".  All but one of the dials tags of ezConfig are
	// one lower-case word (only upper_snake changes those); LimitMax has
	// camelCase tags, and untagged embedded structs get a key built from the
	// words of their type name.
	Encoder string `json:"encoder,omitempty"`
	// NoSetSlice is Params.DisableAutoSetToSlice (sets are then written as
	// maps of empty maps).
	NoSetSlice bool `json:"disable_auto_set_to_slice,omitempty"`
	// FlattenAnonymous is Params.FlattenAnonymousFields (reaches the YAML
	// decoder only).
	FlattenAnonymous bool `json:"flatten_anonymous,omitempty"`
	// Entry selects the ez entry point: "" / "ext" FileExtensionDecoderConfigEnvFlag,
	// "named" YAML/JSON/TOML/CueConfigEnvFlag, "factory" ConfigFileEnvFlag,
	// "factoryparams" ConfigFileEnvFlagDecoderFactoryParams.
	Entry string `json:"entry,omitempty"`
	// InnerRecase ("" | lower_snake | upper_snake | kebab; only with the two
	// factory entry points and no FileFieldNameEncoder): the decoder the
	// factory returns is itself a sourcewrap.NewTransformingDecoder with a
	// tag-reformatting mangler (DecodeGoTags -> that casing), around which ez
	// then puts its alias wrapper.
	InnerRecase string            `json:"inner_recase,omitempty"`
	Supply      map[string]uint64 `json:"supply"`
	// Elems gives the elements of the supplied Items leaf (per expanded key):
	// each element maps expanded-leaf keys of EzItem to value seeds.
	Elems map[string][]map[string]uint64 `json:"elems,omitempty"`
}

func (c EzCase) encoder() string {
	if c.Encoder == "" && c.UpperKeys {
		return "upper_snake"
	}
	return c.Encoder
}

// keyEncoder is the casing the keys of the file are in: ez's own encoder or
// that of the factory's recasing decoder.
func (c EzCase) keyEncoder() string {
	if e := c.encoder(); e != "" {
		return e
	}
	return c.InnerRecase
}

func (c EzCase) entry() string {
	if c.Entry == "" {
		return "ext"
	}
	return c.Entry
}

func ezModel(c EzCase) (*model, error) {
	m, err := buildModel(ezShape(), sources[c.Decoder])
	if err != nil {
		return nil, err
	}
	m.keyEnc, m.flattenAnon, m.recaseAll = c.keyEncoder(), c.FlattenAnonymous, c.keyEncoder() != ""
	return m, nil
}

func genEz(t *rapid.T) EzCase {
	c := EzCase{
		Decoder:          rapid.SampledFrom([]string{"json", "yaml", "toml", "cue"}).Draw(t, "decoder"),
		Encoder:          rapid.SampledFrom([]string{"", "", "upper_snake", "lower_snake", "kebab"}).Draw(t, "encoder"),
		NoSetSlice:       rapid.Bool().Draw(t, "disable_auto_set_to_slice"),
		FlattenAnonymous: rapid.Bool().Draw(t, "flatten_anonymous"),
		Entry:            rapid.SampledFrom([]string{"ext", "named", "factory", "factoryparams"}).Draw(t, "entry"),
	}
	if c.Encoder == "" && (c.Entry == "factory" || c.Entry == "factoryparams") {
		c.InnerRecase = rapid.SampledFrom([]string{"", "lower_snake", "upper_snake", "kebab"}).Draw(t, "inner_recase")
	}
	m, err := ezModel(c)
	if err != nil {
		t.Fatalf("ez shape has no model: %v", err)
	}
	g := &supplyGen{t: t, m: m, supply: map[string]uint64{}}
	g.allowBoth = rapid.Bool().Draw(t, "allow_both")
	g.fill(m.fields, "")
	c.Supply = g.supply
	c.Elems = g.fillElems()
	return c
}

// ezDecoder builds the decoder the way ez.DecoderFromExtensionWithParams does
// (used for the entry points that take a decoder factory).
func ezDecoder(format string, flattenAnonymous bool) dials.Decoder {
	switch format {
	case "yaml":
		return &dyaml.Decoder{FlattenAnonymous: flattenAnonymous}
	case "json":
		return &djson.Decoder{}
	case "toml":
		return &dtoml.Decoder{}
	case "cue":
		return &dcue.Decoder{}
	}
	return nil
}

func ezCall(ctx context.Context, c EzCase, cfg *ezConfig, params ez.Params[ezConfig]) (*dials.Dials[ezConfig], error) {
	switch c.entry() {
	case "ext":
		return ez.FileExtensionDecoderConfigEnvFlag(ctx, cfg, params)
	case "named":
		switch c.Decoder {
		case "yaml":
			return ez.YAMLConfigEnvFlag(ctx, cfg, params)
		case "json":
			return ez.JSONConfigEnvFlag(ctx, cfg, params)
		case "toml":
			return ez.TOMLConfigEnvFlag(ctx, cfg, params)
		case "cue":
			return ez.CueConfigEnvFlag(ctx, cfg, params)
		}
	case "factory":
		return ez.ConfigFileEnvFlag(ctx, cfg, func(string) dials.Decoder {
			return recasingDecoder(ezDecoder(c.Decoder, c.FlattenAnonymous), c.InnerRecase)
		}, params)
	case "factoryparams":
		return ez.ConfigFileEnvFlagDecoderFactoryParams(ctx, cfg, func(_ string, p ez.Params[ezConfig]) dials.Decoder {
			return recasingDecoder(ezDecoder(c.Decoder, p.FlattenAnonymousFields), c.InnerRecase)
		}, params)
	}
	return nil, fmt.Errorf("harness: unknown entry point %q", c.Entry)
}

func ezWant(path string, m *model, set map[string]string, valOf func(f *mfield, key string) reflect.Value) ezConfig {
	var cfg ezConfig
	cfg.Path = path
	fillConcrete(reflect.ValueOf(&cfg).Elem(), m.fields, set, valOf)
	return cfg
}

func runEz(c EzCase) vrt.Verdict {
	src, ok := sources[c.Decoder]
	if !ok || src.flatten {
		return vrt.Discardf("unknown decoder")
	}
	switch c.encoder() {
	case "", "upper_snake", "lower_snake", "kebab":
	default:
		return vrt.Discardf("unknown encoder")
	}
	switch c.entry() {
	case "ext", "named", "factory", "factoryparams":
	default:
		return vrt.Discardf("unknown entry point")
	}
	if c.InnerRecase != "" {
		if _, ok := recaseEncoders[c.InnerRecase]; !ok || c.encoder() != "" || (c.entry() != "factory" && c.entry() != "factoryparams") {
			return vrt.Discardf("inner recasing decoder needs a factory entry point and no FileFieldNameEncoder")
		}
	}
	m, err := ezModel(c)
	if err != nil {
		return vrt.Violationf("harness: %v", err)
	}
	byKey := map[string]xleaf{}
	for _, x := range m.expand() {
		byKey[x.key] = x
	}
	root := &docNode{}
	var parts []string
	elemVals := map[string]reflect.Value{}
	var elemBoth []*mfield
	var elemPats []patInst
	elemSupplied := false
	for _, k := range shape.SortedKeys(c.Supply) {
		x, ok := byKey[k]
		if !ok {
			return vrt.Discardf("supply key is not an expanded leaf of the type")
		}
		path := append([]string{}, x.docPath...)
		if _, isElem := elemTypeOf(x.f.typ); isElem {
			v, edoc, both, pats, err := m.elemLeaf(x.f, c.Elems[k], c.Decoder == "toml", c.NoSetSlice, false)
			if err != nil {
				return vrt.Discardf("malformed elements")
			}
			if v.Len() == 0 && c.Decoder == "toml" {
				return vrt.Discardf("TOML cannot spell an empty slice of structs")
			}
			elemVals[k], elemBoth, elemPats = v, append(elemBoth, both...), append(elemPats, pats...)
			elemSupplied = elemSupplied || v.Len() > 0
			root.put(path, edoc)
			parts = append(parts, fmt.Sprintf("%s(%s)=%s", strings.Join(path, "/"), k, edoc))
			continue
		}
		v := makeVal(x.f.typ, c.Supply[k])
		root.put(path, docValue(v, c.Decoder == "toml", c.NoSetSlice))
		parts = append(parts, fmt.Sprintf("%s(%s)=%s", strings.Join(path, "/"), k, textOf(v)))
	}
	valOf := func(f *mfield, key string) reflect.Value {
		if v, ok := elemVals[key]; ok {
			return v
		}
		return makeVal(f.typ, c.Supply[key])
	}
	var doc string
	switch c.Decoder {
	case "json", "cue":
		doc = root.json()
	case "yaml":
		var b strings.Builder
		root.yaml("", &b)
		doc = b.String()
	case "toml":
		doc = root.toml()
	}
	f, err := os.CreateTemp("", "vfc14ez-*."+c.Decoder)
	if err != nil {
		return vrt.Violationf("harness: %v", err)
	}
	defer os.Remove(f.Name())
	if _, err := f.WriteString(doc); err != nil {
		f.Close()
		return vrt.Violationf("harness: %v", err)
	}
	f.Close()

	ev := m.eval(c.Supply)
	ev.both = append(ev.both, elemBoth...)
	cfg := ezConfig{Path: f.Name()}
	fset, err := dflag.NewSetWithArgs(dflag.DefaultFlagNameConfig(), &cfg, nil)
	if err != nil {
		return vrt.Violationf("flag source for ez: %v", err)
	}
	params := ez.Params[ezConfig]{FlagSource: fset, DisableAutoSetToSlice: c.NoSetSlice, FlattenAnonymousFields: c.FlattenAnonymous}
	switch c.encoder() {
	case "upper_snake":
		params.FileFieldNameEncoder = caseconversion.EncodeUpperSnakeCase
	case "lower_snake":
		params.FileFieldNameEncoder = caseconversion.EncodeLowerSnakeCase
	case "kebab":
		params.FileFieldNameEncoder = caseconversion.EncodeKebabCase
	}
	ctx, cancel := context.WithCancel(context.Background())
	defer cancel()
	var d *dials.Dials[ezConfig]
	var gerr error
	var panicked any
	func() {
		defer func() { panicked = recover() }()
		d, gerr = ezCall(ctx, c, &cfg, params)
	}()
	desc := fmt.Sprintf("entry %s, factory's recasing decoder %q, encoder %q, DisableAutoSetToSlice %v, FlattenAnonymousFields %v, %s file %q; supplied: %s", c.entry(), c.InnerRecase, c.encoder(), c.NoSetSlice, c.FlattenAnonymous, c.Decoder, clip(doc, 500), strings.Join(parts, " "))

	if panicked != nil && elemSupplied && strings.Contains(fmt.Sprint(panicked), "reflect.Value.IsNil") {
		return vrt.KeyedViolationf("alias-in-slice-element", "ez: an alias tag on a field of a struct held in a slice makes the alias-wrapped decoder panic once the slice has an element: %v; %s", panicked, desc)
	}
	if panicked != nil {
		return vrt.KeyedViolationf("panic", "ez panicked: %v; %s", panicked, desc)
	}
	if len(ev.both) > 0 {
		var bn []string
		for _, f := range ev.both {
			bn = append(bn, f.path)
		}
		if gerr == nil {
			return vrt.KeyedViolationf("both-accepted", "ez: field(s) %v supplied under both names, no error; %s", bn, desc)
		}
		named := false
		for _, f := range ev.both {
			if namesField(gerr, f.name) {
				named = true
			}
		}
		if !named {
			return vrt.KeyedViolationf("both-error-unnamed", "ez: field(s) %v supplied under both names; the error names none of them: %v; %s", bn, gerr, desc)
		}
	} else {
		if gerr != nil {
			return vrt.KeyedViolationf("spurious-error", "ez: no field supplied under both names, but: %v; %s", gerr, desc)
		}
		want := ezWant(f.Name(), m, ev.set, valOf)
		if df := shape.Diff(reflect.ValueOf(want), reflect.ValueOf(*d.View())); df != "" {
			return vrt.KeyedViolationf("wrong-value", "ez: config differs from the model at %s (want vs got); %s", df, desc)
		}
	}
	enc := c.encoder()
	if enc == "" {
		enc = "nil"
	}
	lab := map[string]bool{"decoder:" + c.Decoder: true, "encoder:" + enc: true, "entry:" + c.entry(): true,
		fmt.Sprintf("disable-auto-set-to-slice:%v", c.NoSetSlice): true, fmt.Sprintf("flatten-anonymous:%v", c.FlattenAnonymous): true}
	if c.NoSetSlice && c.encoder() == "" {
		lab["alias-mangler-alone-in-chain"] = true
	}
	if c.InnerRecase != "" {
		lab["factory-returns-recasing-decoder:"+c.InnerRecase] = true
	}
	if len(ev.both) > 0 {
		lab["expect:error"] = true
	} else {
		lab["expect:value"] = true
	}
	emptyLabels(ev.pats, c.Supply, lab)
	embedLabels(m, ev.pats, lab)
	elemLabels(elemPats, lab)
	for k, v := range elemVals {
		lab[fmt.Sprintf("slice-of-struct:len=%d", v.Len())] = true
		if strings.HasSuffix(k, aliasMark) {
			lab["slice-of-struct:under-alias-name"] = true
		}
	}
	nonTrivial := false
	for i, p := range ev.pats {
		k := "leaf"
		if !p.f.leaf {
			k = "struct"
		}
		lab["pat:"+k+":"+p.pat] = true
		for _, q := range ev.pats[:i] {
			if q.depth != p.depth && q.pat != p.pat {
				nonTrivial = true
			}
		}
	}
	labels := make([]string, 0, len(lab))
	for l := range lab {
		labels = append(labels, l)
	}
	sort.Strings(labels)
	return vrt.OK(nonTrivial, labels...)
}

func TestC14Ez(t *testing.T) {
	vrt.Check(t, vrt.Prop[EzCase]{
		ID: "C14", Name: "ez",
		Rule: "fixed config type ezConfig (an embedded struct at the root and a pointer-embedded struct inside the aliased Outer struct, both with aliased leaves and no tag of their own; the aliased leaves Name and Outer.Count and the aliased pointer struct Outer.Mid also carry hand-written json / yaml / toml tags with the dials name (Count with ',omitempty'), which the alias copy must not inherit and which keep the original's key as written whatever the encoder; aliased string leaf, aliased struct holding an aliased int and an aliased pointer struct with aliased []string / int64 leaves, aliased string set, aliased string map, an unaliased struct with aliased leaves, and an aliased []EzItem whose element fields carry alias tags: 0..3 elements (1..3 in TOML), each with its own pattern per aliased element field and non-zero values, since inside an unpointerified element the zero value is 'not supplied'); per aliased field neither / primary / alias / both as in the other C14 checks; " +
			"drawn independently: format json|yaml|toml|cue; ez entry point FileExtensionDecoderConfigEnvFlag | YAML/JSON/TOML/CueConfigEnvFlag | ConfigFileEnvFlag (decoder factory) | ConfigFileEnvFlagDecoderFactoryParams; Params.FileFieldNameEncoder nil (2/5) | UPPER_SNAKE | lower_snake | kebab; Params.DisableAutoSetToSlice on/off (on: the set is written as a map of empty maps; on + nil encoder: the alias mangler is the only mangler of the chain); Params.FlattenAnonymousFields on/off (YAML decoder only); with the two factory entry points and a nil encoder the factory's decoder is, in 3/4 of the cases, itself a sourcewrap transforming decoder that re-cases the dials tags (DecodeGoTags -> lower_snake | UPPER_SNAKE | kebab), so ez's alias wrapper goes around another transforming decoder and every key of the file, primary or alias, is in that convention; " +
			"keys of the untagged embedded structs by construction: hoisted in YAML when FlattenAnonymousFields, else the encoder's join of the type-name words when an encoder is set, else promoted in JSON / Cue, lower-cased type name in YAML, type name in TOML; the file is written by the harness and read with an explicit, argument-less flag source; " +
			"oracle: both => error whose innermost cause quotes the field and whose visible text carries that quoted name too (outside the parenthesised names of enclosing fields), else View() equals defaults + supplied leaves; non-trivial = >=2 aliased field instances at different depths with different patterns; distinct = distinct case JSON",
		Assumptions: []string{
			"dials tags of ezConfig start with vfc, so neither the real environment nor the (empty) flag set supplies anything",
			"the file is a temporary file removed after the case; file watching is off; the context is cancelled after the case",
			"for the two factory entry points the harness's factory builds the decoder exactly as ez.DecoderFromExtensionWithParams does (yaml.Decoder{FlattenAnonymous: ...}, json, toml, cue)",
		},
		Gen: genEz, Run: runEz,
	})
}
