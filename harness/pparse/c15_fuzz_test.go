package pparse

// Native fuzzing entry points (thorough tier): the same generators and
// oracles, driven by go test -fuzz through rapid.MakeFuzz.

import (
	"sync"
	"testing"

	"pgregory.net/rapid"

	"verifharness/internal/vrt"
)

var (
	knownOnce sync.Once
	knownKeys map[string]bool
)

func isKnownKey(key string) bool {
	knownOnce.Do(func() {
		knownKeys = map[string]bool{}
		for _, k := range []string{"map-empty-key", "intslice-empty-text", "ident-trailing-space"} {
			if vrt.IsKnown(propID, k) {
				knownKeys[k] = true
			}
		}
	})
	return knownKeys[key]
}

func fuzzProp[C any](gen func(*rapid.T) C, run func(C) vrt.Verdict) func(*testing.T, []byte) {
	return rapid.MakeFuzz(func(rt *rapid.T) {
		c := gen(rt)
		v := vrt.SafeRun(run, c)
		if v.Status == vrt.StatusViolation && !(v.Key != "" && isKnownKey(v.Key)) {
			rt.Fatalf("VIOLATION %s: %s (key %q)\ncase: %+v", propID, v.Msg, v.Key, c)
		}
	})
}

func FuzzC15Scalars(f *testing.F)     { f.Fuzz(fuzzProp(genC15Scalar, runC15Scalar)) }
func FuzzC15Collections(f *testing.F) { f.Fuzz(fuzzProp(genC15Coll, runC15Coll)) }
func FuzzC15IntLiterals(f *testing.F) { f.Fuzz(fuzzProp(genC15Lit, runC15Lit)) }
func FuzzC15Ranges(f *testing.F)      { f.Fuzz(fuzzProp(genC15Range, runC15Range)) }
