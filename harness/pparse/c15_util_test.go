package pparse

import (
	"encoding/hex"
	"encoding/json"
	"fmt"
	"math"
	"math/big"
	"reflect"
	"strconv"
	"strings"
	"time"
	"unicode"
	"unicode/utf8"

	"github.com/vimeo/dials/parse"
	"github.com/vimeo/dials/sources/flag/flaghelper"
	"pgregory.net/rapid"
)

// ------------------------------------------------------------------ strings
//
// QS is a string that survives JSON: valid UTF-8 is written as a JSON string,
// anything else as {"hex":"..."} (encoding/json would replace invalid bytes).

type QS string

func (q QS) MarshalJSON() ([]byte, error) {
	if utf8.ValidString(string(q)) {
		return json.Marshal(string(q))
	}
	return json.Marshal(struct {
		Hex string `json:"hex"`
	}{hex.EncodeToString([]byte(q))})
}

func (q *QS) UnmarshalJSON(b []byte) error {
	if len(b) > 0 && b[0] == '{' {
		var h struct {
			Hex string `json:"hex"`
		}
		if err := json.Unmarshal(b, &h); err != nil {
			return err
		}
		raw, err := hex.DecodeString(h.Hex)
		if err != nil {
			return err
		}
		*q = QS(raw)
		return nil
	}
	var s string
	if err := json.Unmarshal(b, &s); err != nil {
		return err
	}
	*q = QS(s)
	return nil
}

// hostile strings: every character the splitters / quoting treat specially.
var hostileStrings = []string{
	"", ",", ":", "\"", "\\", "'", "`", "\x00", " ", "\t", "\n", "\r",
	"a,b", "k:v", "a\"b", "\\\"", "\\\\", "\\n", "\",\"", "\":\"", "a b", " a", "a ",
	"\xff", "\xc3\x28", "\xe2\x82", "\xed\xa0\x80", "a\xffb",
	"\u00e9", "\u65e5\u672c\u8a9e", "\U0001F600", "\u2028", "\ufeff", "\u0085", "\u00a0", "\u200b", "\x7f", "\x1b[0m",
	"//", "/*", "*/", "#", "-", "+", ".", "%", "$", "0", "-1", "0x1F", "1e9", "1.5", "true", "nil",
	"(", ")", "[", "]", "{", "}", "=", ";", "a=b", "a;b", "'a'", "`a`", "\"\"", "''", "``",
}

func genString(t *rapid.T, label string) string {
	switch rapid.IntRange(0, 11).Draw(t, label+"_kind") {
	case 10, 11:
		// blanks at the edges (only quoting protects them) or blanks only
		lead := genBlanks(t, edgeBlanks, label+"_padl")
		trail := genBlanks(t, edgeBlanks, label+"_padr")
		core := rapid.SampledFrom([]string{"", "a", "padded", "in side", "1", ",", ":"}).Draw(t, label+"_core")
		if lead+trail == "" {
			lead = " "
		}
		return lead + core + trail
	case 0, 1:
		return rapid.String().Draw(t, label+"_any")
	case 2:
		return rapid.StringMatching(`[a-zA-Z0-9_.\-/]{0,8}`).Draw(t, label+"_plain")
	case 3, 4:
		return rapid.SampledFrom(hostileStrings).Draw(t, label+"_hostile")
	case 5:
		return string(rapid.SliceOfN(rapid.Byte(), 0, 8).Draw(t, label+"_bytes"))
	case 6:
		// short strings over the special characters only
		return rapid.StringOfN(rapid.RuneFrom([]rune{',', ':', '"', '\\', '\'', '`', ' ', 0, 'a', '\n', 0xe9}), 0, 6, -1).Draw(t, label+"_special")
	default:
		n := rapid.IntRange(1, 4).Draw(t, label+"_pieces")
		var b strings.Builder
		for i := 0; i < n; i++ {
			if rapid.Bool().Draw(t, label+"_piecekind") {
				b.WriteString(rapid.SampledFrom(hostileStrings).Draw(t, label+"_piece"))
			} else {
				b.WriteString(rapid.StringN(0, 4, -1).Draw(t, label+"_rnd"))
			}
		}
		return b.String()
	}
}

// blanks used at the edges of generated strings: everything
// strings.TrimSpace would remove.
const edgeBlanks = " \t\n\r\v\f\u0085\u00a0\u2003\u3000"

func genBlanks(t *rapid.T, set string, label string) string {
	rs := []rune(set)
	n := rapid.IntRange(0, 3).Draw(t, label+"_n")
	var b strings.Builder
	for i := 0; i < n; i++ {
		b.WriteRune(rapid.SampledFrom(rs).Draw(t, label))
	}
	return b.String()
}

// needsQuoting: the string would not survive being written bare between
// commas / colons (it is empty or has a byte outside [A-Za-z0-9_]).
func needsQuoting(s string) bool {
	if s == "" {
		return true
	}
	for i := 0; i < len(s); i++ {
		c := s[i]
		if !(c >= 'a' && c <= 'z' || c >= 'A' && c <= 'Z' || c >= '0' && c <= '9' || c == '_') {
			return true
		}
	}
	return false
}

func stringLabels(set map[string]bool, s string) {
	if s == "" {
		set["str:empty"] = true
	}
	if !utf8.ValidString(s) {
		set["str:invalid-utf8"] = true
	}
	if s != "" {
		first, _ := utf8.DecodeRuneInString(s)
		last, _ := utf8.DecodeLastRuneInString(s)
		if unicode.IsSpace(first) || unicode.IsSpace(last) {
			set["str:edge-blank"] = true
		}
		if strings.TrimSpace(s) == "" {
			set["str:only-blanks"] = true
		}
	}
	for _, r := range s {
		switch {
		case r == ',':
			set["str:comma"] = true
		case r == ':':
			set["str:colon"] = true
		case r == '"':
			set["str:dquote"] = true
		case r == '\\':
			set["str:backslash"] = true
		case r == 0:
			set["str:nul"] = true
		case r == '\'' || r == '`':
			set["str:otherquote"] = true
		case unicode.IsSpace(r):
			set["str:space"] = true
		case r < ' ' || r == 0x7f:
			set["str:control"] = true
		case r >= 0x80 && r != utf8.RuneError:
			set["str:nonascii"] = true
		}
	}
}

func sortedLabels(set map[string]bool, first ...string) []string {
	out := append([]string{}, first...)
	keys := make([]string, 0, len(set))
	for k := range set {
		keys = append(keys, k)
	}
	// insertion sort: deterministic and tiny
	for i := 1; i < len(keys); i++ {
		for j := i; j > 0 && keys[j] < keys[j-1]; j-- {
			keys[j], keys[j-1] = keys[j-1], keys[j]
		}
	}
	return append(out, keys...)
}

// ------------------------------------------------------------------- values
//
// Val is one scalar of a named type.  Signed integers and durations live in
// I, unsigned integers and bool (0/1) in U, floats as IEEE bits in U,
// complex numbers as the bits of the real part in U and of the imaginary
// part in V (float32 bits for complex64), strings in S.

type Val struct {
	I int64  `json:"i,omitempty"`
	U uint64 `json:"u,omitempty"`
	V uint64 `json:"v,omitempty"`
	S QS     `json:"s,omitempty"`
}

type typeInfo struct {
	name  string
	rt    reflect.Type
	class string // int uint float complex bool duration string
	bits  int
	// only reachable through the integral-slice helpers (parse.String does
	// not know the kind)
	sliceOnly bool
}

var allTypes = []*typeInfo{
	{name: "int", rt: reflect.TypeOf(int(0)), class: "int", bits: strconv.IntSize},
	{name: "int8", rt: reflect.TypeOf(int8(0)), class: "int", bits: 8},
	{name: "int16", rt: reflect.TypeOf(int16(0)), class: "int", bits: 16},
	{name: "int32", rt: reflect.TypeOf(int32(0)), class: "int", bits: 32},
	{name: "int64", rt: reflect.TypeOf(int64(0)), class: "int", bits: 64},
	{name: "uint", rt: reflect.TypeOf(uint(0)), class: "uint", bits: strconv.IntSize},
	{name: "uint8", rt: reflect.TypeOf(uint8(0)), class: "uint", bits: 8},
	{name: "uint16", rt: reflect.TypeOf(uint16(0)), class: "uint", bits: 16},
	{name: "uint32", rt: reflect.TypeOf(uint32(0)), class: "uint", bits: 32},
	{name: "uint64", rt: reflect.TypeOf(uint64(0)), class: "uint", bits: 64},
	{name: "uintptr", rt: reflect.TypeOf(uintptr(0)), class: "uint", bits: int(reflect.TypeOf(uintptr(0)).Size()) * 8, sliceOnly: true},
	{name: "float32", rt: reflect.TypeOf(float32(0)), class: "float", bits: 32},
	{name: "float64", rt: reflect.TypeOf(float64(0)), class: "float", bits: 64},
	{name: "complex64", rt: reflect.TypeOf(complex64(0)), class: "complex", bits: 64},
	{name: "complex128", rt: reflect.TypeOf(complex128(0)), class: "complex", bits: 128},
	{name: "bool", rt: reflect.TypeOf(false), class: "bool"},
	{name: "duration", rt: reflect.TypeOf(time.Duration(0)), class: "duration", bits: 64},
	{name: "string", rt: reflect.TypeOf(""), class: "string"},
}

var typeByName = func() map[string]*typeInfo {
	m := map[string]*typeInfo{}
	for _, ti := range allTypes {
		m[ti.name] = ti
	}
	return m
}()

func typeNames(pred func(*typeInfo) bool) []string {
	var out []string
	for _, ti := range allTypes {
		if pred(ti) {
			out = append(out, ti.name)
		}
	}
	return out
}

func (ti *typeInfo) isInteger() bool { return ti.class == "int" || ti.class == "uint" }

func (ti *typeInfo) minInt() int64 { return -1 << (ti.bits - 1) }
func (ti *typeInfo) maxInt() int64 { return 1<<(ti.bits-1) - 1 }
func (ti *typeInfo) maxUint() uint64 {
	if ti.bits == 64 {
		return math.MaxUint64
	}
	return 1<<ti.bits - 1
}

// minBig / maxBig: the integer range of the type.
func (ti *typeInfo) minBig() *big.Int {
	if ti.class == "uint" {
		return new(big.Int)
	}
	return big.NewInt(ti.minInt())
}
func (ti *typeInfo) maxBig() *big.Int {
	if ti.class == "uint" {
		return new(big.Int).SetUint64(ti.maxUint())
	}
	return big.NewInt(ti.maxInt())
}

// valid reports whether v is a value of the type (guards replayed cases).
func (ti *typeInfo) valid(v Val) bool {
	switch ti.class {
	case "int":
		return v.I >= ti.minInt() && v.I <= ti.maxInt()
	case "uint":
		return v.U <= ti.maxUint()
	case "float":
		return ti.bits == 64 || v.U <= math.MaxUint32
	case "complex":
		return ti.bits == 128 || (v.U <= math.MaxUint32 && v.V <= math.MaxUint32)
	case "bool":
		return v.U <= 1
	}
	return true
}

// goValue builds the Go value (of ti.rt) a Val stands for.
func (ti *typeInfo) goValue(v Val) reflect.Value {
	out := reflect.New(ti.rt).Elem()
	switch ti.class {
	case "int", "duration":
		out.SetInt(v.I)
	case "uint":
		out.SetUint(v.U)
	case "float":
		if ti.bits == 32 {
			out.SetFloat(float64(math.Float32frombits(uint32(v.U))))
		} else {
			out.SetFloat(math.Float64frombits(v.U))
		}
	case "complex":
		if ti.bits == 64 {
			out.SetComplex(complex(float64(math.Float32frombits(uint32(v.U))), float64(math.Float32frombits(uint32(v.V)))))
		} else {
			out.SetComplex(complex(math.Float64frombits(v.U), math.Float64frombits(v.V)))
		}
	case "bool":
		out.SetBool(v.U == 1)
	case "string":
		out.SetString(string(v.S))
	}
	return out
}

// text is the canonical text of the value.  form selects between equally
// canonical spellings: "" (strconv shortest for the type's own width, what
// fmt %v prints), "flag64" (a float32 printed the way the flag package
// prints the float64 flag dials registers for it), "helper" (complex numbers
// printed by the flaghelper Complex64Var / Complex128Var String method).
func (ti *typeInfo) text(v Val, form string) string {
	switch ti.class {
	case "int":
		return strconv.FormatInt(v.I, 10)
	case "uint":
		return strconv.FormatUint(v.U, 10)
	case "duration":
		return time.Duration(v.I).String()
	case "bool":
		return strconv.FormatBool(v.U == 1)
	case "string":
		return string(v.S)
	case "float":
		if ti.bits == 32 {
			f := math.Float32frombits(uint32(v.U))
			if form == "flag64" {
				return strconv.FormatFloat(float64(f), 'g', -1, 64)
			}
			return strconv.FormatFloat(float64(f), 'g', -1, 32)
		}
		return strconv.FormatFloat(math.Float64frombits(v.U), 'g', -1, 64)
	case "complex":
		if ti.bits == 64 {
			c := complex(math.Float32frombits(uint32(v.U)), math.Float32frombits(uint32(v.V)))
			if form == "helper" {
				return flaghelper.NewComplex64Var(&c).String()
			}
			return strconv.FormatComplex(complex128(c), 'g', -1, 64)
		}
		c := complex(math.Float64frombits(v.U), math.Float64frombits(v.V))
		if form == "helper" {
			return flaghelper.NewComplex128Var(&c).String()
		}
		return strconv.FormatComplex(c, 'g', -1, 128)
	}
	panic("unknown class " + ti.class)
}

func sameF64(got, want float64) bool {
	if want != want {
		return got != got
	}
	return math.Float64bits(got) == math.Float64bits(want)
}

func sameF32(got, want float32) bool {
	if want != want {
		return got != got
	}
	return math.Float32bits(got) == math.Float32bits(want)
}

// diff compares a parsed Go value (of ti.rt) with the Val; "" when equal.
// NaN equals NaN (text has no NaN payloads); zeros are compared by sign.
func (ti *typeInfo) diff(got reflect.Value, v Val) string {
	if !got.IsValid() {
		return "invalid reflect.Value"
	}
	if got.Type() != ti.rt {
		return fmt.Sprintf("type %s, want %s", got.Type(), ti.rt)
	}
	ok := false
	switch ti.class {
	case "int", "duration":
		ok = got.Int() == v.I
	case "uint":
		ok = got.Uint() == v.U
	case "bool":
		ok = got.Bool() == (v.U == 1)
	case "string":
		ok = got.String() == string(v.S)
	case "float":
		if ti.bits == 32 {
			ok = sameF32(float32(got.Float()), math.Float32frombits(uint32(v.U)))
		} else {
			ok = sameF64(got.Float(), math.Float64frombits(v.U))
		}
	case "complex":
		c := got.Complex()
		if ti.bits == 64 {
			ok = sameF32(float32(real(c)), math.Float32frombits(uint32(v.U))) && sameF32(float32(imag(c)), math.Float32frombits(uint32(v.V)))
		} else {
			ok = sameF64(real(c), math.Float64frombits(v.U)) && sameF64(imag(c), math.Float64frombits(v.V))
		}
	}
	if ok {
		return ""
	}
	return fmt.Sprintf("%s, want %s", show(got), show(ti.goValue(v)))
}

func show(v reflect.Value) string {
	switch v.Kind() {
	case reflect.String:
		return strconv.QuoteToASCII(v.String())
	case reflect.Float32, reflect.Float64:
		f := v.Float()
		if f == 0 && math.Signbit(f) {
			return "-0"
		}
	}
	return fmt.Sprintf("%v", v.Interface())
}

// valClass names what is special about the value (label + non-triviality).
func (ti *typeInfo) valClass(v Val) string {
	fclass := func(f float64, bits int) string {
		switch {
		case f != f:
			return "nan"
		case math.IsInf(f, 0):
			return "inf"
		case f == 0 && math.Signbit(f):
			return "negzero"
		case f == 0:
			return "zero"
		case bits == 32 && math.Abs(f) < 0x1p-126, bits == 64 && math.Abs(f) < 0x1p-1022:
			return "denormal"
		case bits == 32 && math.Abs(f) == math.MaxFloat32, bits == 64 && math.Abs(f) == math.MaxFloat64:
			return "maxfloat"
		}
		return "finite"
	}
	switch ti.class {
	case "int", "duration":
		switch v.I {
		case ti.minInt():
			return "min"
		case ti.maxInt():
			return "max"
		case 0:
			return "zero"
		}
		return "interior"
	case "uint":
		switch v.U {
		case ti.maxUint():
			return "max"
		case 0:
			return "zero"
		}
		return "interior"
	case "float":
		if ti.bits == 32 {
			return fclass(float64(math.Float32frombits(uint32(v.U))), 32)
		}
		return fclass(math.Float64frombits(v.U), 64)
	case "complex":
		var a, b string
		if ti.bits == 64 {
			a, b = fclass(float64(math.Float32frombits(uint32(v.U))), 32), fclass(float64(math.Float32frombits(uint32(v.V))), 32)
		} else {
			a, b = fclass(math.Float64frombits(v.U), 64), fclass(math.Float64frombits(v.V), 64)
		}
		// report the rarer of the two parts
		for _, c := range []string{"nan", "inf", "denormal", "maxfloat", "negzero"} {
			if a == c || b == c {
				return c
			}
		}
		if a == "zero" && b == "zero" {
			return "zero"
		}
		return "finite"
	case "bool":
		return strconv.FormatBool(v.U == 1)
	case "string":
		if needsQuoting(string(v.S)) {
			return "special"
		}
		return "plain"
	}
	return "?"
}

func specialClass(c string) bool {
	switch c {
	case "min", "max", "nan", "inf", "negzero", "denormal", "maxfloat", "special":
		return true
	}
	return false
}

// ---------------------------------------------------------- value generators

// mix64 is a bijection on uint64 (splitmix64 finaliser): rapid's integer
// generators favour small magnitudes, mixing one draw gives a pattern that
// is uniform over all bits while still being a function of the draw.
func mix64(x uint64) uint64 {
	x += 0x9e3779b97f4a7c15
	x = (x ^ (x >> 30)) * 0xbf58476d1ce4e5b9
	x = (x ^ (x >> 27)) * 0x94d049bb133111eb
	return x ^ (x >> 31)
}

func genSignedBits(t *rapid.T, bits int, label string) int64 {
	min, max := int64(-1)<<(bits-1), int64(1)<<(bits-1)-1
	switch rapid.IntRange(0, 5).Draw(t, label+"_how") {
	case 0:
		return rapid.SampledFrom([]int64{min, max, min + 1, max - 1, 0, -1, 1}).Draw(t, label+"_edge")
	case 1:
		// +-2^k and neighbours
		k := rapid.IntRange(0, bits-2).Draw(t, label+"_pow")
		v := int64(1)<<k + int64(rapid.IntRange(-1, 1).Draw(t, label+"_off"))
		if rapid.Bool().Draw(t, label+"_neg") {
			v = -v
		}
		return v
	case 2:
		return int64(rapid.IntRange(-130, 130).Draw(t, label+"_small")) % (max/2 + 1)
	case 3:
		return rapid.Int64Range(min, max).Draw(t, label+"_any")
	default:
		// uniform over the width (arithmetic shift sign-extends)
		return int64(mix64(rapid.Uint64().Draw(t, label+"_mix"))) >> (64 - bits)
	}
}

func genUnsignedBits(t *rapid.T, bits int, label string) uint64 {
	max := uint64(math.MaxUint64)
	if bits < 64 {
		max = 1<<bits - 1
	}
	switch rapid.IntRange(0, 5).Draw(t, label+"_how") {
	case 0:
		return rapid.SampledFrom([]uint64{0, 1, max, max - 1, max/2 + 1, max / 2}).Draw(t, label+"_edge")
	case 1:
		k := rapid.IntRange(0, bits-1).Draw(t, label+"_pow")
		v := uint64(1) << k
		switch rapid.IntRange(-1, 1).Draw(t, label+"_off") {
		case -1:
			v--
		case 1:
			if v < max {
				v++
			}
		}
		return v
	case 2:
		return uint64(rapid.IntRange(0, 260).Draw(t, label+"_small")) % (max/2 + 1)
	case 3:
		return rapid.Uint64Range(0, max).Draw(t, label+"_any")
	default:
		return mix64(rapid.Uint64().Draw(t, label+"_mix")) >> (64 - bits)
	}
}

var f64Edges = []float64{0, math.Copysign(0, -1), 1, -1, math.SmallestNonzeroFloat64, -math.SmallestNonzeroFloat64,
	0x1p-1022, 0x1p-1022 - math.SmallestNonzeroFloat64, math.MaxFloat64, -math.MaxFloat64, math.Inf(1), math.Inf(-1), math.NaN(),
	0.1, 1e21, 1e20, 1e-7, 123456789.125, math.Pi, math.MaxFloat32, 0x1p53, 0x1p53 + 2, 5e-324, 2.2250738585072011e-308}
var f32Edges = []float32{0, float32(math.Copysign(0, -1)), 1, -1, math.SmallestNonzeroFloat32, -math.SmallestNonzeroFloat32,
	0x1p-126, 0x1p-126 - math.SmallestNonzeroFloat32, math.MaxFloat32, -math.MaxFloat32, float32(math.Inf(1)), float32(math.Inf(-1)), float32(math.NaN()),
	0.1, 1e21, 1e20, 1e-7, 16777216, 16777218, math.Pi, 1e-45}

func genF64Bits(t *rapid.T, label string) uint64 {
	switch rapid.IntRange(0, 5).Draw(t, label+"_how") {
	case 0, 1:
		return math.Float64bits(rapid.SampledFrom(f64Edges).Draw(t, label+"_edge"))
	case 2:
		return math.Float64bits(rapid.Float64().Draw(t, label+"_num"))
	case 3:
		// denormals: exponent field zero
		return rapid.Uint64Range(0, 1<<52-1).Draw(t, label+"_den") | uint64(rapid.IntRange(0, 1).Draw(t, label+"_sign"))<<63
	default:
		return mix64(rapid.Uint64().Draw(t, label+"_bits"))
	}
}

func genF32Bits(t *rapid.T, label string) uint64 {
	switch rapid.IntRange(0, 5).Draw(t, label+"_how") {
	case 0, 1:
		return uint64(math.Float32bits(rapid.SampledFrom(f32Edges).Draw(t, label+"_edge")))
	case 2:
		return uint64(math.Float32bits(rapid.Float32().Draw(t, label+"_num")))
	case 3:
		return uint64(rapid.Uint32Range(0, 1<<23-1).Draw(t, label+"_den")) | uint64(rapid.IntRange(0, 1).Draw(t, label+"_sign"))<<31
	default:
		return mix64(uint64(rapid.Uint32().Draw(t, label+"_bits"))) >> 32
	}
}

func genVal(t *rapid.T, ti *typeInfo, label string) Val {
	switch ti.class {
	case "int", "duration":
		return Val{I: genSignedBits(t, ti.bits, label)}
	case "uint":
		return Val{U: genUnsignedBits(t, ti.bits, label)}
	case "float":
		if ti.bits == 32 {
			return Val{U: genF32Bits(t, label)}
		}
		return Val{U: genF64Bits(t, label)}
	case "complex":
		if ti.bits == 64 {
			return Val{U: genF32Bits(t, label+"_re"), V: genF32Bits(t, label+"_im")}
		}
		return Val{U: genF64Bits(t, label+"_re"), V: genF64Bits(t, label+"_im")}
	case "bool":
		return Val{U: uint64(rapid.IntRange(0, 1).Draw(t, label))}
	case "string":
		return Val{S: QS(genString(t, label))}
	}
	panic("unknown class")
}

// ------------------------------------------------- integral slice dispatch
//
// The integral-slice parsers and flag helpers are generic; one table entry
// per element type binds the instantiations the flag source uses.

type intSliceOps struct {
	// canon prints the slice with the flag helper (nilSlice: a nil slice
	// instead of an empty one when there are no values).
	canon func(vals []Val, nilSlice bool) string
	// parse calls parse.SignedIntegralSlice / UnsignedIntegralSlice.
	parse func(s string) (reflect.Value, error)
	// set calls Set on a fresh helper (as the flag package does) and returns
	// what Get reports.
	set func(s string) (reflect.Value, error)
}

func signedOps[I flaghelper.SignedInt]() intSliceOps {
	return intSliceOps{
		canon: func(vals []Val, nilSlice bool) string {
			var s []I
			if !nilSlice {
				s = []I{}
			}
			for _, v := range vals {
				s = append(s, I(v.I))
			}
			return flaghelper.NewSignedIntegralSlice(&s).String()
		},
		parse: func(s string) (reflect.Value, error) {
			out, err := parse.SignedIntegralSlice[I](s)
			return reflect.ValueOf(out), err
		},
		set: func(s string) (reflect.Value, error) {
			var dst []I
			f := flaghelper.NewSignedIntegralSlice(&dst)
			if err := f.Set(s); err != nil {
				return reflect.Value{}, err
			}
			return reflect.ValueOf(f.Get()), nil
		},
	}
}

func unsignedOps[I flaghelper.UnsignedInt]() intSliceOps {
	return intSliceOps{
		canon: func(vals []Val, nilSlice bool) string {
			var s []I
			if !nilSlice {
				s = []I{}
			}
			for _, v := range vals {
				s = append(s, I(v.U))
			}
			return flaghelper.NewUnsignedIntegralSlice(&s).String()
		},
		parse: func(s string) (reflect.Value, error) {
			out, err := parse.UnsignedIntegralSlice[I](s)
			return reflect.ValueOf(out), err
		},
		set: func(s string) (reflect.Value, error) {
			var dst []I
			f := flaghelper.NewUnsignedIntegralSlice(&dst)
			if err := f.Set(s); err != nil {
				return reflect.Value{}, err
			}
			return reflect.ValueOf(f.Get()), nil
		},
	}
}

var intSliceTable = map[string]intSliceOps{
	"int": signedOps[int](), "int8": signedOps[int8](), "int16": signedOps[int16](), "int32": signedOps[int32](), "int64": signedOps[int64](),
	"uint": unsignedOps[uint](), "uint8": unsignedOps[uint8](), "uint16": unsignedOps[uint16](), "uint32": unsignedOps[uint32](),
	"uint64": unsignedOps[uint64](), "uintptr": unsignedOps[uintptr](),
}

// diffSlice compares a parsed slice (reflect.Value of []T) with the wanted
// values; empty and nil are the same.
func (ti *typeInfo) diffSlice(got reflect.Value, want []Val) string {
	if !got.IsValid() || got.Kind() != reflect.Slice {
		return fmt.Sprintf("not a slice: %v", got)
	}
	if got.Type().Elem() != ti.rt {
		return fmt.Sprintf("slice type %s, want []%s", got.Type(), ti.rt)
	}
	if got.Len() != len(want) {
		return fmt.Sprintf("%d elements %v, want %d", got.Len(), got.Interface(), len(want))
	}
	for i, w := range want {
		if d := ti.diff(got.Index(i), w); d != "" {
			return fmt.Sprintf("element %d: %s", i, d)
		}
	}
	return ""
}

// scalarOf unwraps what parse.String returns for a scalar (a *T).
func (ti *typeInfo) scalarOf(rv reflect.Value) (reflect.Value, string) {
	if !rv.IsValid() {
		return rv, "invalid reflect.Value with nil error"
	}
	if rv.Kind() != reflect.Ptr || rv.IsNil() {
		return rv, fmt.Sprintf("result is %s, want non-nil *%s", rv.Type(), ti.rt)
	}
	return rv.Elem(), ""
}

func clipStr(s string, n int) string {
	if len(s) > n {
		return s[:n] + "..."
	}
	return s
}
