package pparse

// C15 — text parsing inverts formatting and never wraps out-of-range numbers.
//
// Four checks:
//   TestC15Scalars      parse(canonical(v)) == v for every scalar type
//   TestC15Collections  the same for string slices / sets / maps and for
//                       integral and other typed slices, canonical text taken
//                       from the flag helpers' String()
//   TestC15IntLiterals  integer spellings (base prefixes, '_', blanks) built
//                       from a known value parse to that value
//   TestC15Ranges       literals at and beyond the limits of every numeric
//                       type: error outside, exact value inside

import (
	"fmt"
	"math"
	"math/big"
	"reflect"
	"regexp"
	"strconv"
	"strings"
	"testing"

	"github.com/vimeo/dials/parse"
	"github.com/vimeo/dials/sources/flag/flaghelper"
	"github.com/vimeo/dials/transform"
	"pgregory.net/rapid"

	"verifharness/internal/vrt"
)

const propID = "C15"

// ===================================================================== scalars

type C15ScalarCase struct {
	T    string `json:"t"`
	Val  Val    `json:"val"`
	Form string `json:"form,omitempty"`
}

// Wide types first: rapid's SampledFrom favours the head of the list, and
// the wide types have the larger value spaces.
var scalarTypeNames = []string{"float64", "int64", "complex128", "uint64", "duration", "string", "float32", "complex64",
	"int", "uint", "int32", "uint32", "int16", "uint16", "int8", "uint8", "bool"}

func genC15Scalar(t *rapid.T) C15ScalarCase {
	name := rapid.SampledFrom(scalarTypeNames).Draw(t, "type")
	ti := typeByName[name]
	c := C15ScalarCase{T: name, Val: genVal(t, ti, "v")}
	switch {
	case name == "float32":
		c.Form = rapid.SampledFrom([]string{"", "flag64"}).Draw(t, "form")
	case ti.class == "complex":
		c.Form = rapid.SampledFrom([]string{"", "helper"}).Draw(t, "form")
	}
	return c
}

func runC15Scalar(c C15ScalarCase) vrt.Verdict {
	ti := typeByName[c.T]
	if ti == nil || ti.sliceOnly || !ti.valid(c.Val) {
		return vrt.Discardf("bad type or value")
	}
	switch {
	case c.Form == "":
	case c.Form == "flag64" && c.T == "float32":
	case c.Form == "helper" && ti.class == "complex":
	default:
		return vrt.Discardf("bad form")
	}
	text := ti.text(c.Val, c.Form)

	rv, err := parse.String(text, ti.rt)
	if err != nil {
		return vrt.Violationf("parse.String(%q, %s) failed: %v (value %s)", text, ti.rt, err, show(ti.goValue(c.Val)))
	}
	got, msg := ti.scalarOf(rv)
	if msg != "" {
		return vrt.Violationf("parse.String(%q, %s): %s", text, ti.rt, msg)
	}
	if d := ti.diff(got, c.Val); d != "" {
		return vrt.Violationf("parse.String(%q, %s) = %s", text, ti.rt, d)
	}

	// the typed complex parsers and the flag helpers built on them
	switch c.T {
	case "complex64":
		z, err := parse.Complex64(text)
		if err != nil {
			return vrt.Violationf("parse.Complex64(%q) failed: %v", text, err)
		}
		if d := ti.diff(reflect.ValueOf(z), c.Val); d != "" {
			return vrt.Violationf("parse.Complex64(%q) = %s", text, d)
		}
		var dst complex64
		if err := flaghelper.NewComplex64Var(&dst).Set(text); err != nil {
			return vrt.Violationf("Complex64Var.Set(%q) failed: %v", text, err)
		}
		if d := ti.diff(reflect.ValueOf(dst), c.Val); d != "" {
			return vrt.Violationf("Complex64Var.Set(%q) stored %s", text, d)
		}
	case "complex128":
		z, err := parse.Complex128(text)
		if err != nil {
			return vrt.Violationf("parse.Complex128(%q) failed: %v", text, err)
		}
		if d := ti.diff(reflect.ValueOf(z), c.Val); d != "" {
			return vrt.Violationf("parse.Complex128(%q) = %s", text, d)
		}
		var dst complex128
		if err := flaghelper.NewComplex128Var(&dst).Set(text); err != nil {
			return vrt.Violationf("Complex128Var.Set(%q) failed: %v", text, err)
		}
		if d := ti.diff(reflect.ValueOf(dst), c.Val); d != "" {
			return vrt.Violationf("Complex128Var.Set(%q) stored %s", text, d)
		}
	}

	cls := ti.valClass(c.Val)
	labels := []string{"type=" + c.T, "class=" + cls}
	if c.Form != "" {
		labels = append(labels, "form="+c.Form)
	}
	exp := (ti.class == "float" || ti.class == "complex") && strings.ContainsAny(text, "e")
	if exp {
		labels = append(labels, "exponent")
	}
	return vrt.OK(specialClass(cls) || exp, labels...)
}

func TestC15Scalars(t *testing.T) {
	vrt.Check(t, vrt.Prop[C15ScalarCase]{
		ID: propID, Name: "scalars", NoJournal: true,
		Rule: "a scalar type (int/uint of every width, float32/64, complex64/128, bool, time.Duration, string) and a value of it: edges (min, max, +-1 around them, +-2^k+-1, " +
			"smallest/largest denormal, +-max float, +-0, +-Inf, NaN), uniformly random bit patterns (so denormals, NaN payloads and huge exponents occur) and rapid's own number/string generators; " +
			"the canonical text is strconv's shortest decimal form (Duration.String for durations; for float32 also the float64 spelling the flag package prints; for complex also the flaghelper String()); " +
			"oracle: parse.String(text, T) (and parse.Complex64/128 and the Complex*Var.Set helpers) returns exactly the value, NaN==NaN, zeros compared by sign; " +
			"non-trivial = the value is a min/max/denormal/max-float/Inf/NaN/-0, a string with a character outside [A-Za-z0-9_], or its text uses an exponent; distinct = distinct (type,value,form)",
		Assumptions: []string{
			"uintptr is not a scalar type parse.String knows; it is exercised only as an integral-slice element",
			"NaN payloads and the sign of NaN are not representable in text; any NaN is accepted for a NaN",
			"named (non-builtin) scalar types are left to C16: parse.String returns a value of the underlying kind",
		},
		Gen: genC15Scalar, Run: runC15Scalar,
	})
}

// ================================================================= collections

type C15Pair struct {
	K  QS   `json:"k"`
	Vs []QS `json:"vs"`
}

type C15CollCase struct {
	// strslice | strset | mapss | mapsss | intslice | typedslice | namedstr
	Kind string `json:"kind"`
	// element type of intslice / typedslice; for namedstr the user-defined
	// shape: []Label, Names, Labels (slices, from Strs), map[Label]Label,
	// LabelMap (maps, from Pairs with one value each)
	Elem string `json:"elem,omitempty"`
	// use a nil collection rather than an empty one when there is nothing in it
	Nil   bool      `json:"nil,omitempty"`
	Strs  []QS      `json:"strs,omitempty"`
	Pairs []C15Pair `json:"pairs,omitempty"`
	Vals  []Val     `json:"vals,omitempty"`
}

var (
	collKinds       = []string{"typedslice", "typedslice", "namedstr", "namedstr", "intslice", "intslice", "mapsss", "mapsss", "mapss", "mapss", "strset", "strslice", "strslice"}
	intTypeNames    = typeNames(func(ti *typeInfo) bool { return ti.isInteger() })
	typedElemNames  = typeNames(func(ti *typeInfo) bool { return !ti.sliceOnly && ti.class != "string" })
	nonEmptyHostile = func() []string {
		var out []string
		for _, s := range hostileStrings {
			if s != "" {
				out = append(out, s)
			}
		}
		return out
	}()
)

// User-defined string-kind types, as a config struct would declare them.
// They reach parse.String through the string-casting mangler (env source);
// no flag helper is registered for them, so their canonical text is the one
// the helpers print for the same data as []string / map[string]string.
type (
	c15Label    string
	c15Names    []string
	c15Labels   []c15Label
	c15LabelMap map[string]string
)

var (
	namedShapes = map[string]reflect.Type{
		"[]Label":          reflect.TypeOf([]c15Label{}),
		"Names":            reflect.TypeOf(c15Names{}),
		"Labels":           reflect.TypeOf(c15Labels{}),
		"map[Label]Label":  reflect.TypeOf(map[c15Label]c15Label{}),
		"LabelMap":         reflect.TypeOf(c15LabelMap{}),
		"map[string]Label": reflect.TypeOf(map[string]c15Label{}),
	}
	namedShapeNames = []string{"[]Label", "Names", "Labels", "[]Label", "Names", "Labels", "map[Label]Label", "LabelMap", "map[string]Label"}
)

// castVia runs the string-casting mangler the way the env source's
// transformer does for a field of type ft (a slice/map type or a
// user-declared pointer to one) and returns the slice/map.
func castVia(text string, ft reflect.Type) (reflect.Value, error) {
	sf := reflect.StructField{Name: "F", Type: ft}
	v, err := (&transform.StringCastingMangler{}).Unmangle(sf, []transform.FieldValueTuple{{Field: sf, Value: reflect.ValueOf(&text)}})
	if err != nil {
		return v, err
	}
	if ft.Kind() == reflect.Ptr {
		if !v.IsValid() || v.Kind() != reflect.Ptr || v.IsNil() {
			return reflect.Value{}, fmt.Errorf("harness: Unmangle returned %v for %s", v, ft)
		}
		return v.Elem(), nil
	}
	return v, nil
}

func genSize(t *rapid.T, label string) int {
	if rapid.IntRange(0, 9).Draw(t, label+"_big") == 0 {
		return rapid.IntRange(7, 24).Draw(t, label)
	}
	return rapid.IntRange(0, 6).Draw(t, label)
}

func genDistinctStrings(t *rapid.T, n int, label string, allowEmpty bool) []QS {
	seen := map[string]bool{}
	var out []QS
	for i := 0; i < n; i++ {
		s := genString(t, label)
		if s == "" && !allowEmpty {
			s = rapid.SampledFrom(nonEmptyHostile).Draw(t, label+"_nonempty")
		}
		if !seen[s] {
			seen[s] = true
			out = append(out, QS(s))
		}
	}
	return out
}

func genC15Coll(t *rapid.T) C15CollCase {
	c := C15CollCase{Kind: rapid.SampledFrom(collKinds).Draw(t, "kind")}
	n := genSize(t, "n")
	c.Nil = rapid.Bool().Draw(t, "nil")
	switch c.Kind {
	case "strslice":
		for i := 0; i < n; i++ {
			c.Strs = append(c.Strs, QS(genString(t, "s")))
		}
	case "strset":
		c.Strs = genDistinctStrings(t, n, "s", true)
	case "namedstr":
		c.Elem = rapid.SampledFrom(namedShapeNames).Draw(t, "shape")
		if namedShapes[c.Elem].Kind() == reflect.Slice {
			for i := 0; i < n; i++ {
				c.Strs = append(c.Strs, QS(genString(t, "s")))
			}
		} else {
			for _, k := range genDistinctStrings(t, n, "k", true) {
				c.Pairs = append(c.Pairs, C15Pair{K: k, Vs: []QS{QS(genString(t, "v"))}})
			}
		}
	case "mapss", "mapsss":
		// The empty key is drawn separately (own label): see map-empty-key.
		keys := genDistinctStrings(t, n, "k", false)
		if rapid.IntRange(0, 15).Draw(t, "empty_key") == 0 {
			keys = append(keys, "")
		}
		for _, k := range keys {
			nv := 1
			if c.Kind == "mapsss" {
				nv = rapid.IntRange(1, 3).Draw(t, "nv")
				if rapid.IntRange(0, 9).Draw(t, "nv_big") == 0 {
					nv = rapid.IntRange(4, 8).Draw(t, "nv_n")
				}
			}
			p := C15Pair{K: k}
			for j := 0; j < nv; j++ {
				p.Vs = append(p.Vs, QS(genString(t, "v")))
			}
			c.Pairs = append(c.Pairs, p)
		}
	case "intslice":
		c.Elem = rapid.SampledFrom(intTypeNames).Draw(t, "elem")
		for i := 0; i < n; i++ {
			c.Vals = append(c.Vals, genVal(t, typeByName[c.Elem], "e"))
		}
	case "typedslice":
		c.Elem = rapid.SampledFrom(typedElemNames).Draw(t, "elem")
		for i := 0; i < n; i++ {
			c.Vals = append(c.Vals, genVal(t, typeByName[c.Elem], "e"))
		}
	}
	return c
}

var (
	typStrSlice = reflect.TypeOf([]string{})
	typStrSet   = reflect.TypeOf(map[string]struct{}{})
	typMapSS    = reflect.TypeOf(map[string]string{})
	typMapSSS   = reflect.TypeOf(map[string][]string{})
)

func toStrings(qs []QS) []string {
	out := make([]string, len(qs))
	for i, q := range qs {
		out[i] = string(q)
	}
	return out
}

// sameOrEmpty: deep equality, except that any two empty collections match.
func sameOrEmpty(got reflect.Value, want interface{}) string {
	w := reflect.ValueOf(want)
	if !got.IsValid() {
		return "invalid reflect.Value with nil error"
	}
	if got.Type() != w.Type() {
		return fmt.Sprintf("type %s, want %s", got.Type(), w.Type())
	}
	if w.Len() == 0 && got.Len() == 0 {
		return ""
	}
	if !reflect.DeepEqual(got.Interface(), want) {
		return fmt.Sprintf("%s, want %s", clipStr(fmt.Sprintf("%q", got.Interface()), 600), clipStr(fmt.Sprintf("%q", want), 600))
	}
	return ""
}

func runC15Coll(c C15CollCase) vrt.Verdict {
	lset := map[string]bool{}
	var size int
	special := false
	note := func(s string) {
		stringLabels(lset, s)
		if needsQuoting(s) {
			special = true
		}
	}
	// Each route is (name, call); every route must give back the value.
	type route struct {
		name string
		call func(text string) (reflect.Value, error)
	}
	var (
		text   string
		want   interface{}
		routes []route
		ti     *typeInfo
	)
	hasEmptyKey := false

	switch c.Kind {
	case "strslice":
		ss := toStrings(c.Strs)
		size = len(ss)
		for _, s := range ss {
			note(s)
		}
		if len(ss) == 0 && !c.Nil {
			ss = []string{}
		}
		text = flaghelper.NewStringSliceFlag(&ss).String()
		want = ss
		routes = []route{
			{"parse.StringSlice", func(s string) (reflect.Value, error) { v, err := parse.StringSlice(s); return reflect.ValueOf(v), err }},
			{"parse.String([]string)", func(s string) (reflect.Value, error) { return parse.String(s, typStrSlice) }},
			{"StringSliceFlag.Set/Get", func(s string) (reflect.Value, error) {
				var dst []string
				f := flaghelper.NewStringSliceFlag(&dst)
				if err := f.Set(s); err != nil {
					return reflect.Value{}, err
				}
				return reflect.ValueOf(f.Get()), nil
			}},
		}
	case "strset":
		var set map[string]struct{}
		if len(c.Strs) > 0 || !c.Nil {
			set = map[string]struct{}{}
		}
		for _, q := range c.Strs {
			if _, dup := set[string(q)]; dup {
				return vrt.Discardf("duplicate set member")
			}
			set[string(q)] = struct{}{}
			note(string(q))
		}
		size = len(c.Strs)
		text = flaghelper.NewStringSetFlag(&set).String()
		want = set
		if set == nil {
			want = map[string]struct{}{}
		}
		routes = []route{
			{"parse.StringSet", func(s string) (reflect.Value, error) { v, err := parse.StringSet(s); return reflect.ValueOf(v), err }},
			{"parse.String(map[string]struct{})", func(s string) (reflect.Value, error) { return parse.String(s, typStrSet) }},
			{"StringSetFlag.Set/Get", func(s string) (reflect.Value, error) {
				var dst map[string]struct{}
				f := flaghelper.NewStringSetFlag(&dst)
				if err := f.Set(s); err != nil {
					return reflect.Value{}, err
				}
				return reflect.ValueOf(f.Get()), nil
			}},
		}
	case "mapss":
		var m map[string]string
		if len(c.Pairs) > 0 || !c.Nil {
			m = map[string]string{}
		}
		for _, p := range c.Pairs {
			if _, dup := m[string(p.K)]; dup {
				return vrt.Discardf("duplicate map key")
			}
			if len(p.Vs) != 1 {
				return vrt.Discardf("map[string]string entry needs exactly one value")
			}
			m[string(p.K)] = string(p.Vs[0])
			note(string(p.K))
			note(string(p.Vs[0]))
			if p.K == "" {
				hasEmptyKey = true
			}
		}
		size = len(c.Pairs)
		text = flaghelper.NewMapStringStringFlag(&m).String()
		want = m
		if m == nil {
			want = map[string]string{}
		}
		routes = []route{
			{"parse.Map(map[string]string)", func(s string) (reflect.Value, error) { return parse.Map(s, typMapSS) }},
			{"parse.String(map[string]string)", func(s string) (reflect.Value, error) { return parse.String(s, typMapSS) }},
			{"MapStringStringFlag.Set/Get", func(s string) (reflect.Value, error) {
				var dst map[string]string
				f := flaghelper.NewMapStringStringFlag(&dst)
				if err := f.Set(s); err != nil {
					return reflect.Value{}, err
				}
				return reflect.ValueOf(f.Get()), nil
			}},
		}
	case "mapsss":
		var m map[string][]string
		if len(c.Pairs) > 0 || !c.Nil {
			m = map[string][]string{}
		}
		for _, p := range c.Pairs {
			if _, dup := m[string(p.K)]; dup {
				return vrt.Discardf("duplicate map key")
			}
			if len(p.Vs) == 0 {
				return vrt.Discardf("map[string][]string entry with an empty slice has no text form")
			}
			m[string(p.K)] = toStrings(p.Vs)
			note(string(p.K))
			for _, v := range p.Vs {
				note(string(v))
			}
			if p.K == "" {
				hasEmptyKey = true
			}
			if len(p.Vs) > 1 {
				lset["multi-value-key"] = true
			}
		}
		size = len(c.Pairs)
		text = flaghelper.NewMapStringStringSliceFlag(&m).String()
		want = m
		if m == nil {
			want = map[string][]string{}
		}
		routes = []route{
			{"parse.StringStringSliceMap", func(s string) (reflect.Value, error) {
				v, err := parse.StringStringSliceMap(s)
				return reflect.ValueOf(v), err
			}},
			{"parse.String(map[string][]string)", func(s string) (reflect.Value, error) { return parse.String(s, typMapSSS) }},
			{"MapStringStringSliceFlag.Set/Get", func(s string) (reflect.Value, error) {
				var dst map[string][]string
				f := flaghelper.NewMapStringStringSliceFlag(&dst)
				if err := f.Set(s); err != nil {
					return reflect.Value{}, err
				}
				return reflect.ValueOf(f.Get()), nil
			}},
		}
	case "namedstr":
		T := namedShapes[c.Elem]
		if T == nil {
			return vrt.Discardf("unknown named shape")
		}
		lset["shape="+c.Elem] = true
		var wantV reflect.Value
		if T.Kind() == reflect.Slice {
			if len(c.Pairs) > 0 {
				return vrt.Discardf("slice shape takes strs")
			}
			ss := toStrings(c.Strs)
			size = len(ss)
			wantV = reflect.MakeSlice(T, len(ss), len(ss))
			for i, s := range ss {
				note(s)
				wantV.Index(i).SetString(s)
			}
			if len(ss) == 0 && !c.Nil {
				ss = []string{}
			}
			text = flaghelper.NewStringSliceFlag(&ss).String()
		} else {
			if len(c.Strs) > 0 {
				return vrt.Discardf("map shape takes pairs")
			}
			var m map[string]string
			if len(c.Pairs) > 0 || !c.Nil {
				m = map[string]string{}
			}
			wantV = reflect.MakeMap(T)
			for _, p := range c.Pairs {
				if _, dup := m[string(p.K)]; dup {
					return vrt.Discardf("duplicate map key")
				}
				if len(p.Vs) != 1 {
					return vrt.Discardf("map entry needs exactly one value")
				}
				m[string(p.K)] = string(p.Vs[0])
				note(string(p.K))
				note(string(p.Vs[0]))
				if p.K == "" {
					hasEmptyKey = true
				}
				k, v := reflect.New(T.Key()).Elem(), reflect.New(T.Elem()).Elem()
				k.SetString(string(p.K))
				v.SetString(string(p.Vs[0]))
				wantV.SetMapIndex(k, v)
			}
			size = len(c.Pairs)
			text = flaghelper.NewMapStringStringFlag(&m).String()
		}
		want = wantV.Interface()
		routes = []route{
			{"parse.String(" + T.String() + ")", func(s string) (reflect.Value, error) { return parse.String(s, T) }},
			{"StringCastingMangler.Unmangle(" + T.String() + ")", func(s string) (reflect.Value, error) { return castVia(s, T) }},
			{"StringCastingMangler.Unmangle(*" + T.String() + ")", func(s string) (reflect.Value, error) { return castVia(s, reflect.PointerTo(T)) }},
		}
	case "intslice", "typedslice":
		ti = typeByName[c.Elem]
		if ti == nil {
			return vrt.Discardf("unknown element type")
		}
		if c.Kind == "intslice" && !ti.isInteger() {
			return vrt.Discardf("intslice needs an integer element type")
		}
		if c.Kind == "typedslice" && (ti.sliceOnly || ti.class == "string") {
			return vrt.Discardf("typedslice element type not supported by parse.String")
		}
		for _, v := range c.Vals {
			if !ti.valid(v) {
				return vrt.Discardf("element out of range of its type")
			}
			if specialClass(ti.valClass(v)) {
				special = true
				lset["elem:"+ti.valClass(v)] = true
			}
		}
		size = len(c.Vals)
		lset["elem="+c.Elem] = true
		sliceT := reflect.SliceOf(ti.rt)
		if c.Kind == "intslice" {
			ops := intSliceTable[c.Elem]
			text = ops.canon(c.Vals, c.Nil)
			if !ti.sliceOnly {
				routes = append(routes, route{"parse.String([]" + c.Elem + ")", func(s string) (reflect.Value, error) { return parse.String(s, sliceT) }})
			}
			routes = append(routes,
				route{"parse.IntegralSlice[" + c.Elem + "]", ops.parse},
				route{"IntegralSliceFlag[" + c.Elem + "].Set/Get", ops.set})
		} else {
			parts := make([]string, len(c.Vals))
			for i, v := range c.Vals {
				parts[i] = ti.text(v, "")
			}
			text = strings.Join(parts, ",")
			routes = []route{{"parse.String([]" + c.Elem + ")", func(s string) (reflect.Value, error) { return parse.String(s, sliceT) }}}
		}
	default:
		return vrt.Discardf("unknown kind")
	}

	for _, r := range routes {
		got, err := r.call(text)
		if err != nil {
			msg := fmt.Sprintf("%s: %s(%s) failed: %v", c.Kind, r.name, clipStr(strconv.Quote(text), 600), err)
			switch {
			case hasEmptyKey && strings.Contains(err.Error(), "unexpected colon"):
				return vrt.KeyedViolationf("map-empty-key", "%s", msg)
			case c.Kind == "intslice" && size == 0 && !strings.HasPrefix(r.name, "parse.String"):
				return vrt.KeyedViolationf("intslice-empty-text", "%s", msg)
			}
			return vrt.Violationf("%s", msg)
		}
		var d string
		if ti != nil {
			d = ti.diffSlice(got, c.Vals)
		} else {
			d = sameOrEmpty(got, want)
		}
		if d != "" {
			return vrt.Violationf("%s: %s(%s) = %s", c.Kind, r.name, clipStr(strconv.Quote(text), 600), d)
		}
	}

	first := []string{"kind=" + c.Kind}
	switch {
	case size == 0 && c.Nil:
		first = append(first, "size=0(nil)")
	case size == 0:
		first = append(first, "size=0(empty)")
	case size == 1:
		first = append(first, "size=1")
	case size <= 6:
		first = append(first, "size=2-6")
	default:
		first = append(first, "size=7+")
	}
	if hasEmptyKey {
		first = append(first, "empty-key")
	}
	return vrt.OK(size >= 2 && special, sortedLabels(lset, first...)...)
}

func TestC15Collections(t *testing.T) {
	vrt.Check(t, vrt.Prop[C15CollCase]{
		ID: propID, Name: "collections", NoJournal: true,
		Rule: "a []string, string set, map[string]string, map[string][]string, integral slice of any of the 11 element types, a typed slice of any scalar type, or a user-defined string-kind collection " +
			"([]Label with type Label string, type Names []string, type Labels []Label, map[Label]Label, type LabelMap map[string]string, map[string]Label), of 0..24 elements (nil or empty when 0); " +
			"strings come from rapid's full string generator, raw bytes (invalid UTF-8), a list of hostile constants (empty, comma, colon, quotes, backslash, NUL, blanks, non-ASCII, broken UTF-8), concatenations of them, " +
			"and strings that begin / end with or consist only of blanks (every rune strings.TrimSpace removes: space, tab, LF, CR, VT, FF, NEL, NBSP, em space, ideographic space), which only the quoting protects; " +
			"the canonical text is the String() of the flag helper the flag source registers for the type (strconv text joined by commas for typed slices; for the user-defined shapes the helper text of the same data as []string / map[string]string); " +
			"oracle: every entry point (parse.StringSlice/StringSet/Map/StringStringSliceMap/Signed-/UnsignedIntegralSlice, parse.String with the Go type, Set+Get on a fresh flag helper, and for the user-defined shapes " +
			"StringCastingMangler.Unmangle with the type and with a user-declared pointer to it, as the env source casts) returns the value with exactly the requested type, empty==nil; " +
			"non-trivial = at least 2 elements and some string needs quoting (empty or a byte outside [A-Za-z0-9_]) / some number is a min, max, denormal, Inf, NaN or -0; distinct = distinct collections",
		Assumptions: []string{
			"map[string][]string entries with an empty slice are excluded by construction: MapStringStringSliceFlag.String prints one key:value pair per slice element, so such an entry prints nothing and has no text form",
			"the empty map key is drawn by a separate 1-in-16 choice (label empty-key) so that its known rejection (map-empty-key) does not mask other keys",
			"set members and map keys are distinct by construction (the parsers reject duplicates by design)",
			"[]uintptr is parsed only by the integral-slice helper; parse.String does not support the kind",
			"user-defined string-kind collections have no flag helper (the flag source skips them); they are cast by parse.String from the env source, and their canonical text is taken to be the quoted form the helpers print for []string / map[string]string",
			"NaN elements compare equal to any NaN",
		},
		Gen: genC15Coll, Run: runC15Coll,
	})
}

// ============================================================ integer literals

type C15LitCase struct {
	T string `json:"t"`
	// scalar | intslice | typedslice | mapkey | mapval
	Route string `json:"route"`
	Neg   bool   `json:"neg,omitempty"`
	Mag   uint64 `json:"mag"`
	// "", 0x 0X 0o 0O 0b 0B, or "0" (legacy octal)
	Prefix string `json:"prefix,omitempty"`
	Upper  bool   `json:"upper,omitempty"`
	// zeros between prefix and digits (prefixed spellings only)
	Pad int `json:"pad,omitempty"`
	// '_' between prefix and first digit (prefixed spellings only)
	SepPrefix bool `json:"sep_prefix,omitempty"`
	// '_' after the digit with this index (not after the last digit)
	Seps []int `json:"seps,omitempty"`
	// explicit '+' (signed types only)
	Plus bool `json:"plus,omitempty"`
	// blanks around the literal (collection routes only)
	Lead  string `json:"lead,omitempty"`
	Trail string `json:"trail,omitempty"`
	// plain decimal neighbours (collection routes only)
	Before []Val `json:"before,omitempty"`
	After  []Val `json:"after,omitempty"`
}

var litPrefixes = []string{"", "", "0x", "0X", "0o", "0O", "0b", "0B", "0"}

func prefixBase(p string) int {
	switch p {
	case "":
		return 10
	case "0x", "0X":
		return 16
	case "0o", "0O", "0":
		return 8
	case "0b", "0B":
		return 2
	}
	return 0
}

// blanks the scanner-based splitters skip, and the larger set
// strings.TrimSpace removes in the integral-slice parsers.
const (
	scannerBlanks = " \t\n\r"
	trimBlanks    = " \t\n\r\v\f\u0085\u00a0\u2003\u3000"
)

func onlyRunesOf(s, set string) bool {
	for _, r := range s {
		if !strings.ContainsRune(set, r) {
			return false
		}
	}
	return true
}

func routesFor(ti *typeInfo, withMaps bool) []string {
	if ti.sliceOnly {
		return []string{"intslice"}
	}
	out := []string{"scalar", "typedslice"}
	if ti.isInteger() {
		out = append(out, "intslice")
	}
	if withMaps {
		out = append(out, "mapval")
		if ti.isInteger() {
			out = append(out, "mapkey")
		}
	}
	return out
}

// genNeighbours draws up to two plain values on each side; for the mapkey
// route they are distinct from each other and from avoid.
func genNeighbours(t *rapid.T, ti *typeInfo, route string, avoid func(Val) bool) (before, after []Val) {
	if route == "scalar" {
		return nil, nil
	}
	seen := []Val{}
	draw := func(label string) []Val {
		var out []Val
		n := rapid.IntRange(0, 2).Draw(t, label+"_n")
		for i := 0; i < n; i++ {
			v := genVal(t, ti, label)
			if route == "mapkey" {
				dup := avoid != nil && avoid(v)
				for _, s := range seen {
					if s == v {
						dup = true
					}
				}
				if dup {
					continue
				}
				seen = append(seen, v)
			}
			out = append(out, v)
		}
		return out
	}
	return draw("before"), draw("after")
}

func genC15Lit(t *rapid.T) C15LitCase {
	name := rapid.SampledFrom(intTypeNames).Draw(t, "type")
	ti := typeByName[name]
	c := C15LitCase{T: name}
	c.Route = rapid.SampledFrom(routesFor(ti, true)).Draw(t, "route")
	if ti.class == "int" {
		v := genSignedBits(t, ti.bits, "v")
		if v < 0 {
			c.Neg = true
			c.Mag = uint64(-(v + 1)) + 1
		} else {
			c.Mag = uint64(v)
			c.Neg = v == 0 && rapid.IntRange(0, 7).Draw(t, "negzero") == 0
			c.Plus = !c.Neg && rapid.IntRange(0, 5).Draw(t, "plus") == 0
		}
	} else {
		c.Mag = genUnsignedBits(t, ti.bits, "v")
	}
	c.Prefix = rapid.SampledFrom(litPrefixes).Draw(t, "prefix")
	base := prefixBase(c.Prefix)
	c.Upper = base == 16 && rapid.Bool().Draw(t, "upper")
	ndig := len(strconv.FormatUint(c.Mag, base))
	if c.Prefix != "" {
		if rapid.IntRange(0, 3).Draw(t, "padded") == 0 {
			c.Pad = rapid.IntRange(1, 4).Draw(t, "pad")
		}
		c.SepPrefix = rapid.IntRange(0, 3).Draw(t, "sep_prefix") == 0
	}
	ndig += c.Pad
	if ndig > 1 && rapid.Bool().Draw(t, "has_seps") {
		switch rapid.IntRange(0, 2).Draw(t, "sep_style") {
		case 0: // every third digit from the right, the usual style
			for i := ndig - 4; i >= 0; i -= 3 {
				c.Seps = append([]int{i}, c.Seps...)
			}
		case 1: // after every digit
			for i := 0; i < ndig-1; i++ {
				c.Seps = append(c.Seps, i)
			}
		default:
			for i := 0; i < ndig-1; i++ {
				if rapid.IntRange(0, 2).Draw(t, "sep_here") == 0 {
					c.Seps = append(c.Seps, i)
				}
			}
		}
	}
	if c.Route != "scalar" {
		set := scannerBlanks
		if c.Route == "intslice" {
			set = trimBlanks
		}
		c.Lead = genBlanks(t, set, "lead")
		c.Trail = genBlanks(t, set, "trail")
		// On the scanner routes a U+0020 directly after the literal is a
		// case of its own (see ident-trailing-space): drawn 1 in 12.
		// Only the integral-slice parser documents that it trims blanks; the
		// scanner-based routes take a space right after an unquoted element
		// as part of that element ("a b,c" is the string "a b"), so it is
		// never generated there.
		if c.Route != "intslice" && strings.HasPrefix(c.Trail, " ") {
			c.Trail = rapid.SampledFrom([]string{"\t", "\n", "\r"}).Draw(t, "trail_first") + c.Trail
		}
	}
	self := c.value()
	c.Before, c.After = genNeighbours(t, ti, c.Route, func(v Val) bool { return v == self })
	return c
}

func (c C15LitCase) value() Val {
	if typeByName[c.T].class == "int" {
		if c.Neg {
			return Val{I: -int64(c.Mag-1) - 1}
		}
		return Val{I: int64(c.Mag)}
	}
	return Val{U: c.Mag}
}

// literal spells the value as the case describes; "" if the description is
// not a well-formed Go integer literal for the type.
func (c C15LitCase) literal(ti *typeInfo) string {
	base := prefixBase(c.Prefix)
	if base == 0 || c.Pad < 0 || c.Pad > 64 {
		return ""
	}
	if c.Prefix == "" && (c.Pad != 0 || c.SepPrefix) {
		return ""
	}
	if ti.class == "uint" && (c.Neg || c.Plus) {
		return ""
	}
	if c.Neg && c.Plus {
		return ""
	}
	if ti.class == "int" {
		if c.Neg && c.Mag > uint64(ti.maxInt())+1 || !c.Neg && c.Mag > uint64(ti.maxInt()) {
			return ""
		}
	} else if c.Mag > ti.maxUint() {
		return ""
	}
	digits := strings.Repeat("0", c.Pad) + strconv.FormatUint(c.Mag, base)
	if c.Upper {
		if base != 16 {
			return ""
		}
		digits = strings.ToUpper(digits)
	}
	var b strings.Builder
	if c.Neg {
		b.WriteByte('-')
	}
	if c.Plus {
		b.WriteByte('+')
	}
	b.WriteString(c.Prefix)
	if c.SepPrefix {
		b.WriteByte('_')
	}
	next := 0
	for i := 0; i < len(digits); i++ {
		b.WriteByte(digits[i])
		if next < len(c.Seps) && c.Seps[next] == i {
			if i == len(digits)-1 {
				return ""
			}
			b.WriteByte('_')
			next++
		}
	}
	if next != len(c.Seps) { // unsorted, repeated or out of range
		return ""
	}
	return b.String()
}

// elemEnv places one element text among plain neighbours and runs the route.
// It returns the parsed value found at the element's position (ok) or the
// error; mismatch describes damage to the neighbours.
type elemEnv struct {
	ti            *typeInfo
	route         string
	before, after []Val
}

func (e elemEnv) wellFormed(self *Val) string {
	if !e.ti.isInteger() && (e.route == "intslice" || e.route == "mapkey") {
		return "route needs an integer type"
	}
	if e.ti.sliceOnly && e.route != "intslice" {
		return "uintptr only has the intslice route"
	}
	if e.route == "scalar" && len(e.before)+len(e.after) > 0 {
		return "scalar route has no neighbours"
	}
	all := append(append([]Val{}, e.before...), e.after...)
	for _, v := range all {
		if !e.ti.valid(v) {
			return "neighbour out of range"
		}
	}
	if e.route == "mapkey" {
		if self != nil {
			all = append(all, *self)
		}
		for i := range all {
			for j := 0; j < i; j++ {
				if all[i] == all[j] {
					return "duplicate map key"
				}
			}
		}
	}
	return ""
}

// run parses the composed text. got is the value at the element's position.
func (e elemEnv) run(elem string) (text string, got reflect.Value, damage string, err error) {
	ti := e.ti
	n := len(e.before) + 1 + len(e.after)
	idx := len(e.before)
	plain := func(i int) Val {
		if i < idx {
			return e.before[i]
		}
		return e.after[i-idx-1]
	}
	switch e.route {
	case "scalar":
		text = elem
		rv, perr := parse.String(text, ti.rt)
		if perr != nil {
			return text, reflect.Value{}, "", perr
		}
		g, msg := ti.scalarOf(rv)
		return text, g, msg, nil
	case "intslice", "typedslice":
		parts := make([]string, n)
		for i := range parts {
			if i == idx {
				parts[i] = elem
			} else {
				parts[i] = ti.text(plain(i), "")
			}
		}
		text = strings.Join(parts, ",")
		var sl reflect.Value
		if e.route == "intslice" {
			sl, err = intSliceTable[ti.name].parse(text)
		} else {
			sl, err = parse.String(text, reflect.SliceOf(ti.rt))
		}
		if err != nil {
			return text, reflect.Value{}, "", err
		}
		if !sl.IsValid() || sl.Kind() != reflect.Slice || sl.Type().Elem() != ti.rt {
			return text, reflect.Value{}, fmt.Sprintf("result is not a []%s", ti.rt), nil
		}
		if sl.Len() != n {
			return text, reflect.Value{}, fmt.Sprintf("%d elements, want %d", sl.Len(), n), nil
		}
		for i := 0; i < n; i++ {
			if i != idx {
				if d := ti.diff(sl.Index(i), plain(i)); d != "" {
					return text, sl.Index(idx), fmt.Sprintf("neighbour %d: %s", i, d), nil
				}
			}
		}
		return text, sl.Index(idx), "", nil
	case "mapval":
		// map[string]T, keys k0,k1,...
		parts := make([]string, n)
		for i := range parts {
			v := elem
			if i != idx {
				v = ti.text(plain(i), "")
			}
			parts[i] = fmt.Sprintf("\"k%d\":%s", i, v)
		}
		text = strings.Join(parts, ",")
		m, perr := parse.String(text, reflect.MapOf(typStrSlice.Elem(), ti.rt))
		if perr != nil {
			return text, reflect.Value{}, "", perr
		}
		if !m.IsValid() || m.Kind() != reflect.Map || m.Len() != n {
			return text, reflect.Value{}, fmt.Sprintf("result %v is not a map of %d entries", m, n), nil
		}
		for i := 0; i < n; i++ {
			ev := m.MapIndex(reflect.ValueOf(fmt.Sprintf("k%d", i)))
			if !ev.IsValid() {
				return text, reflect.Value{}, fmt.Sprintf("key k%d missing", i), nil
			}
			if i != idx {
				if d := ti.diff(ev, plain(i)); d != "" {
					return text, reflect.Value{}, fmt.Sprintf("value of k%d: %s", i, d), nil
				}
			}
		}
		return text, m.MapIndex(reflect.ValueOf(fmt.Sprintf("k%d", idx))), "", nil
	case "mapkey":
		// map[T]string, values v0,v1,...
		parts := make([]string, n)
		for i := range parts {
			k := elem
			if i != idx {
				k = ti.text(plain(i), "")
			}
			parts[i] = fmt.Sprintf("%s:\"v%d\"", k, i)
		}
		text = strings.Join(parts, ",")
		m, perr := parse.String(text, reflect.MapOf(ti.rt, typStrSlice.Elem()))
		if perr != nil {
			return text, reflect.Value{}, "", perr
		}
		if !m.IsValid() || m.Kind() != reflect.Map || m.Len() != n {
			return text, reflect.Value{}, fmt.Sprintf("result %v is not a map of %d entries", m, n), nil
		}
		// find the key that carries our value tag
		var found reflect.Value
		it := m.MapRange()
		for it.Next() {
			tag := it.Value().String()
			i, aerr := strconv.Atoi(strings.TrimPrefix(tag, "v"))
			if aerr != nil || i < 0 || i >= n {
				return text, reflect.Value{}, fmt.Sprintf("unexpected map value %q", tag), nil
			}
			if i == idx {
				found = it.Key()
			} else if d := ti.diff(it.Key(), plain(i)); d != "" {
				return text, reflect.Value{}, fmt.Sprintf("key of v%d: %s", i, d), nil
			}
		}
		if !found.IsValid() {
			return text, reflect.Value{}, fmt.Sprintf("entry v%d missing", idx), nil
		}
		return text, found, "", nil
	}
	return "", reflect.Value{}, "unknown route", nil
}

func runC15Lit(c C15LitCase) vrt.Verdict {
	ti := typeByName[c.T]
	if ti == nil || !ti.isInteger() {
		return vrt.Discardf("not an integer type")
	}
	lit := c.literal(ti)
	if lit == "" {
		return vrt.Discardf("not a well-formed literal description")
	}
	blanks := ""
	switch c.Route {
	case "scalar":
	case "intslice":
		blanks = trimBlanks
	case "typedslice", "mapkey", "mapval":
		blanks = scannerBlanks
	default:
		return vrt.Discardf("unknown route")
	}
	if !onlyRunesOf(c.Lead, blanks) || !onlyRunesOf(c.Trail, blanks) {
		return vrt.Discardf("blanks not accepted on this route")
	}
	self := c.value()
	env := elemEnv{ti: ti, route: c.Route, before: c.Before, after: c.After}
	if msg := env.wellFormed(&self); msg != "" {
		return vrt.Discardf("%s", msg)
	}
	text, got, damage, err := env.run(c.Lead + lit + c.Trail)
	if err != nil {
		msg := fmt.Sprintf("%s/%s: literal %q for %s rejected in %s: %v", c.T, c.Route, lit, show(ti.goValue(self)), clipStr(strconv.Quote(text), 300), err)
		if blanks == scannerBlanks && strings.HasPrefix(c.Trail, " ") {
			return vrt.KeyedViolationf("ident-trailing-space", "%s", msg)
		}
		return vrt.Violationf("%s", msg)
	}
	if damage != "" {
		return vrt.Violationf("%s/%s: parsing %s: %s", c.T, c.Route, clipStr(strconv.Quote(text), 300), damage)
	}
	if d := ti.diff(got, self); d != "" {
		return vrt.Violationf("%s/%s: literal %q in %s parsed as %s", c.T, c.Route, lit, clipStr(strconv.Quote(text), 300), d)
	}
	labels := []string{"type=" + c.T, "route=" + c.Route, fmt.Sprintf("base=%d", prefixBase(c.Prefix)), "class=" + ti.valClass(self)}
	if c.Prefix == "0" {
		labels = append(labels, "legacy-octal")
	}
	if len(c.Seps) > 0 || c.SepPrefix {
		labels = append(labels, "underscore")
	}
	if c.Lead+c.Trail != "" {
		labels = append(labels, "blanks")
	}
	if blanks == scannerBlanks && strings.HasPrefix(c.Trail, " ") {
		labels = append(labels, "trailing-space-first")
	}
	if c.Neg {
		labels = append(labels, "negative")
	}
	if c.Plus {
		labels = append(labels, "plus")
	}
	nt := c.Prefix != "" || len(c.Seps) > 0 || c.Lead+c.Trail != "" || c.Plus
	return vrt.OK(nt, labels...)
}

func TestC15IntLiterals(t *testing.T) {
	vrt.Check(t, vrt.Prop[C15LitCase]{
		ID: propID, Name: "intliterals", NoJournal: true,
		Rule: "an integer type (11 of them), a value of it (edges, +-2^k+-1, random) and a spelling built from the value: decimal or 0x/0X/0o/0O/0b/0B/legacy-0 prefix, upper/lower hex digits, " +
			"0..4 padding zeros, '_' after the prefix and between digits (thousands style, every digit, random), explicit '+' or '-0' for signed types; the literal is parsed as a scalar (parse.String), " +
			"as an element of an integral slice (parse.Signed/UnsignedIntegralSlice, blanks from strings.TrimSpace's set around it), of a []T / map[string]T value / map[T]string key via parse.String " +
			"(blanks from the scanner's set: space, tab, CR, LF), with 0..2 plain decimal neighbours on each side; oracle: the parsed element equals the value the literal was built from and the neighbours are intact; " +
			"non-trivial = the spelling is not the plain decimal one (prefix, '_', blanks or '+'); distinct = distinct cases",
		Assumptions: []string{
			"surrounding blanks are asserted for collection elements only (the statement says 'integer elements'); a scalar passed to parse.String is not trimmed by the library",
			"unsigned literals carry no sign (strconv.ParseUint rejects '+' by design)",
			"uintptr only has the integral-slice route",
		},
		Gen: genC15Lit, Run: runC15Lit,
	})
}

// ====================================================================== ranges

type C15RangeCase struct {
	T     string `json:"t"`
	Route string `json:"route"`
	// the numeric literal (real part for complex types); duration literals
	// are a sequence of <decimal><unit>
	Lit string `json:"lit"`
	// imaginary part with mandatory sign, without the trailing i (complex only)
	Lit2 string `json:"lit2,omitempty"`
	// generator's description of the literal(s), used as labels only
	What   string `json:"what,omitempty"`
	What2  string `json:"what2,omitempty"`
	Before []Val  `json:"before,omitempty"`
	After  []Val  `json:"after,omitempty"`
}

var (
	rangeTypeNames = typeNames(func(ti *typeInfo) bool { return ti.class != "bool" && ti.class != "string" })
	intLitRE       = regexp.MustCompile(`^[+-]?(0[xX][0-9a-fA-F]+|0[oO]?[0-7]+|0[bB][01]+|0|[1-9][0-9]*)$`)
	floatLitRE     = regexp.MustCompile(`^[+-]?([0-9]+(\.[0-9]+)?([eE][+-]?[0-9]{1,4})?|0[xX][0-9a-fA-F]+(\.[0-9a-fA-F]+)?[pP][+-]?[0-9]{1,4})$`)
	durLitRE       = regexp.MustCompile(`^[+-]?([0-9]+(\.[0-9]+)?(ns|us|ms|s|m|h))+$`)
	durPartRE      = regexp.MustCompile(`([0-9]+)(?:\.([0-9]+))?(ns|us|ms|s|m|h)`)
)

func two(k uint) *big.Int { return new(big.Int).Lsh(big.NewInt(1), k) }

func fmtBig(n *big.Int, base int) string {
	if base == 10 {
		return n.String()
	}
	prefix := map[int]string{16: "0x", 8: "0o", 2: "0b"}[base]
	if n.Sign() < 0 {
		return "-" + prefix + new(big.Int).Neg(n).Text(base)
	}
	return prefix + n.Text(base)
}

// genIntRangeLit: integers at and around the limits of the type, and
// integers that a truncating conversion would map into the range.
func genIntRangeLit(t *rapid.T, ti *typeInfo) (string, string) {
	min, max := ti.minBig(), ti.maxBig()
	span := two(uint(ti.bits))
	var n *big.Int
	what := ""
	switch rapid.IntRange(0, 9).Draw(t, "lit_kind") {
	case 0, 1, 2:
		d := int64(rapid.IntRange(-2, 2).Draw(t, "off"))
		if rapid.Bool().Draw(t, "at_min") {
			n, what = new(big.Int).Add(min, big.NewInt(d)), "near-min"
		} else {
			n, what = new(big.Int).Add(max, big.NewInt(d)), "near-max"
		}
	case 3, 4:
		// v + k*2^w: what a truncating conversion maps back to v
		var v *big.Int
		if ti.class == "int" {
			v = big.NewInt(genSignedBits(t, ti.bits, "alias_of"))
		} else {
			v = new(big.Int).SetUint64(genUnsignedBits(t, ti.bits, "alias_of"))
		}
		k := int64(rapid.SampledFrom([]int{-3, -2, -1, 1, 2, 3, 255, 256}).Draw(t, "alias_k"))
		n, what = new(big.Int).Add(v, new(big.Int).Mul(span, big.NewInt(k))), "wrap-alias"
	case 5:
		// around the limits of the 64-bit parse underneath
		edge := rapid.SampledFrom([]*big.Int{two(63), new(big.Int).Neg(two(63)), two(64), new(big.Int).Neg(two(64)), two(32), two(31), two(16), two(15), two(8), two(7)}).Draw(t, "edge64")
		n, what = new(big.Int).Add(edge, big.NewInt(int64(rapid.IntRange(-2, 2).Draw(t, "off")))), "near-2^k"
	case 6:
		// far outside everything
		n = new(big.Int).Add(two(uint(rapid.IntRange(64, 130).Draw(t, "huge_pow"))), big.NewInt(int64(rapid.IntRange(0, 300).Draw(t, "huge_off"))))
		if rapid.Bool().Draw(t, "huge_neg") {
			n.Neg(n)
		}
		what = "huge"
	case 7:
		// outside the type, inside int64 (only for the narrow types)
		n, what = big.NewInt(rapid.Int64().Draw(t, "any64")), "any-int64"
	default:
		if ti.class == "int" {
			n = big.NewInt(genSignedBits(t, ti.bits, "inside"))
		} else {
			n = new(big.Int).SetUint64(genUnsignedBits(t, ti.bits, "inside"))
		}
		what = "inside"
	}
	base := rapid.SampledFrom([]int{10, 10, 10, 16, 8, 2}).Draw(t, "base")
	return fmtBig(n, base), what
}

func genFloatRangeLit(t *rapid.T, bits int, label string) (string, string) {
	// threshold = max + half ulp: the smallest magnitude that rounds to Inf
	var maxI, thr *big.Int
	if bits == 32 {
		maxI = new(big.Int).Sub(two(128), two(104))
		thr = new(big.Int).Sub(two(128), two(103))
	} else {
		maxI = new(big.Int).Sub(two(1024), two(971))
		thr = new(big.Int).Sub(two(1024), two(970))
	}
	sign := ""
	if rapid.Bool().Draw(t, label+"_neg") {
		sign = "-"
	}
	switch rapid.IntRange(0, 7).Draw(t, label+"_kind") {
	case 0:
		return sign + maxI.String(), "max-exact"
	case 1:
		// just below the rounding threshold: still max
		d := rapid.SampledFrom([]int64{1, 2, 1000, 1 << 40}).Draw(t, label+"_d")
		return sign + new(big.Int).Sub(thr, big.NewInt(d)).String(), "below-threshold"
	case 2:
		d := rapid.SampledFrom([]int64{0, 1, 2, 1000, 1 << 40}).Draw(t, label+"_d")
		return sign + new(big.Int).Add(thr, big.NewInt(d)).String(), "at-or-above-threshold"
	case 3:
		if bits == 32 {
			return sign + rapid.SampledFrom([]string{"3.4028235e38", "3.4028235e+38", "3.4028234e38", "3.40282346638528859811704183484516925440e+38", "0x1.fffffep127", "0x1.fffffep+127", "3.4e38", "1e38"}).Draw(t, label+"_in"), "inside-edge"
		}
		return sign + rapid.SampledFrom([]string{"1.7976931348623157e308", "1.7976931348623157e+308", "1.797693134862315e308", "0x1.fffffffffffffp1023", "0x1.fffffffffffffp+1023", "1.7e308", "1e308"}).Draw(t, label+"_in"), "inside-edge"
	case 4:
		if bits == 32 {
			return sign + rapid.SampledFrom([]string{"3.4028236e38", "3.4028235678e38", "3.5e38", "4e38", "1e39", "1e40", "1e100", "1e308", "1.7976931348623157e308", "1e309", "1e400", "0x1p128", "0x1.ffffffp127", "0x1p1024", "340282366920938463463374607431768211456"}).Draw(t, label+"_out"), "outside"
		}
		return sign + rapid.SampledFrom([]string{"1.7976931348623159e308", "1.797693134862315808e308", "1.8e308", "2e308", "1e309", "1e400", "1e1000", "1e9999", "0x1p1024", "0x1.fffffffffffff8p1023", "0x1p2000"}).Draw(t, label+"_out"), "outside"
	case 5:
		// d.ddd e N with N at the edge of the range
		hi := 38
		if bits == 64 {
			hi = 308
		}
		e := hi + rapid.IntRange(-1, 1).Draw(t, label+"_e")
		m := rapid.IntRange(1000, 9999).Draw(t, label+"_m")
		return fmt.Sprintf("%s%d.%03de%d", sign, m/1000, m%1000, e), "edge-exponent"
	case 6:
		// tiny and denormal magnitudes: inside, rounded to nearest
		lo := -45
		if bits == 64 {
			lo = -324
		}
		e := lo + rapid.IntRange(-2, 8).Draw(t, label+"_e")
		m := rapid.IntRange(1000, 9999).Draw(t, label+"_m")
		return fmt.Sprintf("%s%d.%03de%d", sign, m/1000, m%1000, e), "tiny"
	default:
		m := rapid.IntRange(0, 99999).Draw(t, label+"_m")
		e := rapid.IntRange(-10, 30).Draw(t, label+"_e")
		return fmt.Sprintf("%s%d.%02de%d", sign, m/100, m%100, e), "ordinary"
	}
}

var durUnits = []struct {
	name string
	ns   int64
}{{"ns", 1}, {"us", 1e3}, {"ms", 1e6}, {"s", 1e9}, {"m", 60e9}, {"h", 3600e9}}

func genDurRangeLit(t *rapid.T) (string, string) {
	lim := two(63) // max+1
	neg := rapid.Bool().Draw(t, "dur_neg")
	off := int64(rapid.IntRange(-3, 3).Draw(t, "dur_off"))
	var n *big.Int // magnitude in ns
	what := "near-limit"
	switch rapid.IntRange(0, 5).Draw(t, "dur_kind") {
	case 0:
		n, what = new(big.Int).Add(lim, new(big.Int).Mul(two(64), big.NewInt(int64(rapid.IntRange(1, 3).Draw(t, "dur_k"))))), "wrap-alias"
		n.Add(n, big.NewInt(off))
	case 1:
		n, what = new(big.Int).SetUint64(uint64(rapid.Int64Range(0, math.MaxInt64).Draw(t, "dur_any"))), "inside"
	default:
		n = new(big.Int).Add(lim, big.NewInt(off))
	}
	sign := ""
	if neg {
		sign = "-"
	}
	switch rapid.IntRange(0, 3).Draw(t, "dur_form") {
	case 0:
		return sign + n.String() + "ns", what
	case 1:
		// h m s.fraction, like Duration.String
		q, r := new(big.Int).QuoRem(n, big.NewInt(1e9), new(big.Int))
		h, rem := new(big.Int).QuoRem(q, big.NewInt(3600), new(big.Int))
		m, s := new(big.Int).QuoRem(rem, big.NewInt(60), new(big.Int))
		return fmt.Sprintf("%s%sh%sm%s.%09ds", sign, h, m, s, r.Int64()), what
	case 2:
		// seconds with a 9-digit fraction
		q, r := new(big.Int).QuoRem(n, big.NewInt(1e9), new(big.Int))
		return fmt.Sprintf("%s%s.%09ds", sign, q, r.Int64()), what
	default:
		// whole units: the first multiple of the unit at or beyond the limit (+-1 unit)
		u := rapid.SampledFrom(durUnits).Draw(t, "dur_unit")
		q := new(big.Int).Quo(lim, big.NewInt(u.ns))
		q.Add(q, big.NewInt(int64(rapid.IntRange(-1, 1).Draw(t, "dur_uoff"))))
		return sign + q.String() + u.name, "unit-multiple"
	}
}

func genC15Range(t *rapid.T) C15RangeCase {
	name := rapid.SampledFrom(rangeTypeNames).Draw(t, "type")
	ti := typeByName[name]
	c := C15RangeCase{T: name}
	c.Route = rapid.SampledFrom(routesFor(ti, true)).Draw(t, "route")
	switch ti.class {
	case "int", "uint":
		c.Lit, c.What = genIntRangeLit(t, ti)
	case "float":
		c.Lit, c.What = genFloatRangeLit(t, ti.bits, "f")
	case "complex":
		c.Lit, c.What = genFloatRangeLit(t, ti.bits/2, "re")
		c.Lit2, c.What2 = genFloatRangeLit(t, ti.bits/2, "im")
		if c.Lit2[0] != '-' {
			c.Lit2 = "+" + c.Lit2
		}
	case "duration":
		c.Lit, c.What = genDurRangeLit(t)
	}
	// For the mapkey route the neighbours must differ from the literal's
	// value when it is in range.
	var avoid func(Val) bool
	if want, in, ok := rangeOracle(ti, c.Lit, c.Lit2); ok && in {
		avoid = func(v Val) bool { return v == want }
	}
	c.Before, c.After = genNeighbours(t, ti, c.Route, avoid)
	return c
}

// floatOracle evaluates a literal with math/big (not strconv): the nearest
// float of the width, and whether the magnitude rounds past the largest
// finite value.
func floatOracle(lit string, bits int) (valueBits uint64, inRange, ok bool) {
	if !floatLitRE.MatchString(lit) {
		return 0, false, false
	}
	x, _, err := new(big.Float).SetPrec(4500).Parse(lit, 0)
	if err != nil {
		return 0, false, false
	}
	if bits == 32 {
		f, _ := x.Float32()
		if math.IsInf(float64(f), 0) {
			return 0, false, true
		}
		return uint64(math.Float32bits(f)), true, true
	}
	f, _ := x.Float64()
	if math.IsInf(f, 0) {
		return 0, false, true
	}
	return math.Float64bits(f), true, true
}

// durOracle sums <decimal><unit> components exactly.
func durOracle(lit string) (ns *big.Int, ok bool) {
	if !durLitRE.MatchString(lit) {
		return nil, false
	}
	neg := false
	body := lit
	if body[0] == '+' || body[0] == '-' {
		neg = body[0] == '-'
		body = body[1:]
	}
	total := new(big.Rat)
	for _, m := range durPartRE.FindAllStringSubmatch(body, -1) {
		num, _ := new(big.Int).SetString(m[1], 10)
		r := new(big.Rat).SetInt(num)
		if m[2] != "" {
			fr, _ := new(big.Int).SetString(m[2], 10)
			den := new(big.Int).Exp(big.NewInt(10), big.NewInt(int64(len(m[2]))), nil)
			r.Add(r, new(big.Rat).SetFrac(fr, den))
		}
		var unit int64
		for _, u := range durUnits {
			if u.name == m[3] {
				unit = u.ns
			}
		}
		r.Mul(r, new(big.Rat).SetInt64(unit))
		total.Add(total, r)
	}
	if !total.IsInt() {
		return nil, false // sub-nanosecond parts are truncated by the library; not generated
	}
	n := new(big.Int).Set(total.Num())
	if neg {
		n.Neg(n)
	}
	return n, true
}

// rangeOracle: the value the literal denotes for the type, or inRange=false
// when it lies outside; ok=false when the literal is not one this check
// understands (malformed replay).
func rangeOracle(ti *typeInfo, lit, lit2 string) (want Val, inRange, ok bool) {
	switch ti.class {
	case "int", "uint":
		if !intLitRE.MatchString(lit) {
			return Val{}, false, false
		}
		n, good := new(big.Int).SetString(lit, 0)
		if !good {
			return Val{}, false, false
		}
		if ti.class == "uint" && (lit[0] == '+' || lit[0] == '-' && n.Sign() == 0) {
			return Val{}, false, false // "+5", "-0": sign syntax, not range
		}
		if n.Cmp(ti.minBig()) < 0 || n.Cmp(ti.maxBig()) > 0 {
			return Val{}, false, true
		}
		if ti.class == "int" {
			return Val{I: n.Int64()}, true, true
		}
		return Val{U: n.Uint64()}, true, true
	case "float":
		b, in, good := floatOracle(lit, ti.bits)
		return Val{U: b}, in, good
	case "complex":
		if lit2 == "" || (lit2[0] != '+' && lit2[0] != '-') {
			return Val{}, false, false
		}
		re, in1, ok1 := floatOracle(lit, ti.bits/2)
		im, in2, ok2 := floatOracle(lit2, ti.bits/2)
		if !ok1 || !ok2 {
			return Val{}, false, false
		}
		return Val{U: re, V: im}, in1 && in2, true
	case "duration":
		n, good := durOracle(lit)
		if !good {
			return Val{}, false, false
		}
		if !n.IsInt64() {
			return Val{}, false, true
		}
		return Val{I: n.Int64()}, true, true
	}
	return Val{}, false, false
}

func runC15Range(c C15RangeCase) vrt.Verdict {
	ti := typeByName[c.T]
	if ti == nil || ti.class == "bool" || ti.class == "string" {
		return vrt.Discardf("not a numeric type")
	}
	if (ti.class == "complex") != (c.Lit2 != "") {
		return vrt.Discardf("imaginary part only for complex types")
	}
	want, inRange, ok := rangeOracle(ti, c.Lit, c.Lit2)
	if !ok {
		return vrt.Discardf("literal not understood by the oracle")
	}
	switch c.Route {
	case "scalar", "intslice", "typedslice", "mapkey", "mapval":
	default:
		return vrt.Discardf("unknown route")
	}
	env := elemEnv{ti: ti, route: c.Route, before: c.Before, after: c.After}
	var self *Val
	if inRange {
		self = &want
	}
	if msg := env.wellFormed(self); msg != "" {
		return vrt.Discardf("%s", msg)
	}
	elem := c.Lit
	if ti.class == "complex" {
		elem = "(" + c.Lit + c.Lit2 + "i)"
	}
	text, got, damage, err := env.run(elem)
	qtext := clipStr(strconv.Quote(text), 700)
	labels := []string{"type=" + c.T, "route=" + c.Route, "lit=" + c.What}
	if c.What2 != "" {
		labels = append(labels, "lit-imag="+c.What2)
	}
	if !inRange {
		if err == nil {
			gotS := "?"
			if got.IsValid() {
				gotS = show(got)
			}
			return vrt.Violationf("%s/%s: %s is outside the range of %s but %s parsed without error, giving %s %s", c.T, c.Route, clipStr(elem, 400), ti.rt, qtext, gotS, damage)
		}
		return vrt.OK(true, append(labels, "outside")...)
	}
	if err != nil {
		return vrt.Violationf("%s/%s: %s is inside the range of %s (= %s) but %s was rejected: %v", c.T, c.Route, clipStr(elem, 400), ti.rt, show(ti.goValue(want)), qtext, err)
	}
	if damage != "" {
		return vrt.Violationf("%s/%s: parsing %s: %s", c.T, c.Route, qtext, damage)
	}
	if d := ti.diff(got, want); d != "" {
		return vrt.Violationf("%s/%s: %s in %s parsed as %s", c.T, c.Route, clipStr(elem, 400), qtext, d)
	}
	cls := ti.valClass(want)
	labels = append(labels, "inside", "class="+cls)
	return vrt.OK(cls == "min" || cls == "max" || cls == "maxfloat" || cls == "denormal", labels...)
}

func TestC15Ranges(t *testing.T) {
	vrt.Check(t, vrt.Prop[C15RangeCase]{
		ID: propID, Name: "ranges", NoJournal: true,
		Rule: "a numeric type (11 integer types, float32/64, complex64/128, time.Duration) and a literal near a limit: integers at min/max +-0..2, v+k*2^w (what truncation maps back into the range), " +
			"around +-2^7..2^64, huge, any int64, in base 10/16/8/2; floats at the largest finite value, just below / at / above the round-to-infinity threshold (max + half ulp) as exact integer strings, " +
			"edge exponents, hex floats, denormal-range and ordinary decimals; durations in ns, h-m-s, fractional seconds and whole units at +-2^63 ns +-3 and 2^63+k*2^64; " +
			"parsed as a scalar, an integral-slice element, a []T element, a map[string]T value or a map[T]string key (parse.String), with 0..2 plain neighbours; " +
			"oracle by math/big, not strconv: outside the type's range => an error (never a value); inside => exactly the denoted value (floats: nearest, ties to even) and neighbours intact; " +
			"non-trivial = an out-of-range literal, or an in-range one that is the min, max, largest finite float or a denormal; distinct = distinct cases",
		Assumptions: []string{
			"underflow to zero or to a denormal is rounding, not a range error (strconv and math/big agree)",
			"negative literals for unsigned types must be rejected; '+5' and '-0' for unsigned types are sign-syntax questions and are not generated",
			"duration literals with sub-nanosecond fractions are not generated (the library truncates them)",
			"a complex literal is outside the range when either part is",
		},
		Gen: genC15Range, Run: runC15Range,
	})
}
