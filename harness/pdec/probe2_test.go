package pdec

import (
	"context"
	"testing"
	"time"

	"github.com/vimeo/dials"
	"github.com/vimeo/dials/decoders/cue"
	"github.com/vimeo/dials/decoders/json"
	"github.com/vimeo/dials/decoders/toml"
	"github.com/vimeo/dials/decoders/yaml"
	"github.com/vimeo/dials/sources/static"
	"verifharness/internal/shape"
)

type p2 struct {
	When []time.Time            `dials:"when"`
	Ls   []shape.Stamp          `dials:"ls"`
	Ms   map[string]shape.Stamp `dials:"ms"`
	Mt   map[string]time.Time   `dials:"mt"`
	One  time.Time              `dials:"one"`
}

func TestProbe2(t *testing.T) {
	for name, src := range map[string]dials.Source{
		"json-when": &static.StringSource{Data: `{"when": ["2001-02-03T04:05:06Z"]}`, Decoder: &json.Decoder{}},
		"json-ls":   &static.StringSource{Data: `{"ls": ["1.2-x"]}`, Decoder: &json.Decoder{}},
		"json-ms":   &static.StringSource{Data: `{"ms": {"a":"1.2-x"}, "mt": {"a": "2001-02-03T04:05:06Z"}, "one": "2001-02-03T04:05:06Z"}`, Decoder: &json.Decoder{}},
		"yaml-when": &static.StringSource{Data: "when: [2001-02-03T04:05:06Z]\n", Decoder: &yaml.Decoder{}},
		"yaml-ms":   &static.StringSource{Data: "ms: {a: '1.2-x'}\nmt: {a: 2001-02-03T04:05:06Z}\n", Decoder: &yaml.Decoder{}},
		"toml-when": &static.StringSource{Data: "when = [2001-02-03T04:05:06Z]\n", Decoder: &toml.Decoder{}},
		"toml-ms":   &static.StringSource{Data: "ms = {a = '1.2-x'}\nmt = {a = 2001-02-03T04:05:06Z}\n", Decoder: &toml.Decoder{}},
		"cue-when":  &static.StringSource{Data: "when: [\"2001-02-03T04:05:06Z\"]\n", Decoder: &cue.Decoder{}},
		"cue-ms":    &static.StringSource{Data: "ms: {a: \"1.2-x\"}\nmt: {a: \"2001-02-03T04:05:06Z\"}\n", Decoder: &cue.Decoder{}},
	} {
		d, err := dials.Config(context.Background(), &p2{}, src)
		if err != nil {
			t.Logf("%s: ERR %v", name, err)
			continue
		}
		t.Logf("%s: %+v", name, *d.View())
	}
}
