package pdec

import (
	"fmt"
	"net"
	"reflect"
	"strings"
	"testing"
	"time"

	"github.com/vimeo/dials"
	"github.com/vimeo/dials/decoders/cue"
	"github.com/vimeo/dials/decoders/json"
	"github.com/vimeo/dials/decoders/toml"
	"github.com/vimeo/dials/decoders/yaml"
	"github.com/vimeo/dials/ptrify"
	"github.com/vimeo/dials/sourcewrap"
	"github.com/vimeo/dials/transform"

	"verifharness/internal/shape"
)

type probeCfg struct {
	Port int                       `dials:"port"`
	F    float64                   `dials:"f"`
	F32  float32                   `dials:"f32"`
	B    bool                      `dials:"b"`
	S    string                    `dials:"s"`
	D    time.Duration             `dials:"d"`
	T    time.Time                 `dials:"t"`
	IP   net.IP                    `dials:"ip"`
	C    shape.Color               `dials:"c"`
	St   shape.Stamp               `dials:"st"`
	L    []string                  `dials:"l"`
	LI   [][]int                   `dials:"li"`
	LD   []time.Duration           `dials:"ld"`
	LC   []shape.Color             `dials:"lc"`
	LS   []shape.Stamp             `dials:"ls"`
	LIP  []net.IP                  `dials:"lip"`
	LT   []time.Time               `dials:"lt"`
	M    map[string]int            `dials:"m"`
	MD   map[string]time.Duration  `dials:"md"`
	MC   map[string]shape.Color    `dials:"mc"`
	MM   map[string]map[string]int `dials:"mm"`
	Set  map[string]struct{}       `dials:"set"`
	N    struct {
		X int `dials:"x"`
		P *struct {
			Y string `dials:"y"`
		} `dials:"p"`
	} `dials:"n"`
	E *struct {
		Z int `dials:"z"`
	} `dials:"e"`
}

func probeDecoders(wrap bool) map[string]dials.Decoder {
	ds := map[string]dials.Decoder{"json": &json.Decoder{}, "yaml": &yaml.Decoder{}, "toml": &toml.Decoder{}, "cue": &cue.Decoder{}}
	if wrap {
		for k, d := range ds {
			ds[k] = sourcewrap.NewTransformingDecoder(d, &transform.SetSliceMangler{})
		}
	}
	return ds
}

func dump(v reflect.Value) string {
	if !v.IsValid() {
		return "<invalid>"
	}
	var b strings.Builder
	for i := 0; i < v.NumField(); i++ {
		f := v.Field(i)
		if (f.Kind() == reflect.Pointer || f.Kind() == reflect.Map || f.Kind() == reflect.Slice) && f.IsNil() {
			continue
		}
		if f.Kind() == reflect.Pointer {
			if f.Elem().Kind() == reflect.Struct && f.Elem().Type() != reflect.TypeOf(time.Time{}) && f.Elem().Type() != reflect.TypeOf(shape.Stamp{}) {
				fmt.Fprintf(&b, "%s:{%s} ", v.Type().Field(i).Name, dump(f.Elem()))
				continue
			}
			fmt.Fprintf(&b, "%s:%#v ", v.Type().Field(i).Name, f.Elem().Interface())
			continue
		}
		fmt.Fprintf(&b, "%s:%#v ", v.Type().Field(i).Name, f.Interface())
	}
	return b.String()
}

func TestProbe(t *testing.T) {
	T := reflect.TypeOf(probeCfg{})
	pt := ptrify.Pointerify(T, reflect.Value{})
	docs := map[string]map[string]string{
		"full": {
			"json": `{"port": 5, "f": 5, "f32": 8.589935e+09, "b": true, "s": "x", "d": "1m30s", "t": "2001-02-03T04:05:06Z", "ip": "1.2.3.4", "c": "#aabbcc", "st": "1.2-n", "l": ["a"], "li": [[1,2],[]], "ld": ["1s", 5], "lc": ["#a"], "lip": ["1.2.3.4"], "m": {"k": 1}, "md": {"k": "1s"}, "mc": {"k": "#a"}, "mm": {"a": {"b": 1}}, "set": ["a", "b", "a"], "n": {"x": 1, "p": {"y": "q"}}, "e": {}}`,
			"yaml": "port: 5\nf: 5\nf32: 8.589935e+09\nb: true\ns: x\nd: 1m30s\nt: 2001-02-03T04:05:06Z\nip: \"1.2.3.4\"\nc: \"#aabbcc\"\nst: '1.2-n'\nl:\n- a\nli: [[1, 2], []]\nld: [1s, \"5ns\"]\nlc: [\"#a\"]\nlip: [\"1.2.3.4\"]\nm:\n  k: 1\nmd: {k: 1s}\nmc: {k: \"#a\"}\nmm:\n  a:\n    b: 1\nset: [a, b, a]\nn:\n  x: 1\n  p:\n    y: q\ne: {}\n",
			"toml": "port = 5\nf = 5.0\nf32 = 8.589935e+09\nb = true\ns = \"x\"\nd = \"1m30s\"\nt = 2001-02-03T04:05:06Z\nip = \"1.2.3.4\"\nc = \"#aabbcc\"\nst = \"1.2-n\"\nl = [\"a\"]\nli = [[1, 2], []]\nld = [\"1s\", \"5ns\"]\nlc = [\"#a\"]\nlip = [\"1.2.3.4\"]\nset = [\"a\", \"b\", \"a\"]\nmd = {k = \"1s\"}\nmc = {k = \"#a\"}\n[m]\nk = 1\n[mm.a]\nb = 1\n[n]\nx = 1\n[n.p]\ny = \"q\"\n[e]\n",
			"cue":  "port: 5\nf: 5\nf32: 8.589935e+09\nb: true\ns: \"x\"\nd: \"1m30s\"\nt: \"2001-02-03T04:05:06Z\"\nip: \"1.2.3.4\"\nc: \"#aabbcc\"\nst: \"1.2-n\"\nl: [\"a\"]\nli: [[1, 2], []]\nld: [\"1s\", 5]\nlc: [\"#a\"]\nlip: [\"1.2.3.4\"]\nm: {k: 1}\nmd: k: \"1s\"\nmc: {k: \"#a\"}\nmm: a: b: 1\nset: [\"a\", \"b\", \"a\"]\nn: {\n\tx: 1\n\tp: y: \"q\"\n}\ne: {}\n",
		},
		"empties": {
			"json": `{"l": [], "m": {}, "set": [], "n": {}, "e": {}}`,
			"yaml": "l: []\nm: {}\nset: []\nn: {}\ne: {}\n",
			"toml": "l = []\nset = []\nm = {}\n[n]\n[e]\n",
			"cue":  "l: []\nm: {}\nset: []\nn: {}\ne: {}\n",
		},
		"empties2": {
			"toml": "l = []\nset = []\nn = {}\ne = {}\n[m]\n",
			"yaml": "l: []\nm: {}\nset: []\nn:\ne:\n",
			"cue":  "{l: []\nm: {}\nset: []\nn: {}\ne: {}}\n",
		},
		"floats": {
			"json": `{"f": -1.5, "f32": 1e+06}`,
			"yaml": "f: -1.5\nf32: 1e+06\n",
			"toml": "f = -1.5\nf32 = 1e+06\n",
			"cue":  "f: -1.5\nf32: 1e+06\n",
		},
		"floats2": {
			"toml": "f = 1e6\nf32 = 5\n",
			"cue":  "f: 5.0\nf32: 1e6\n",
			"yaml": "f: 1e6\nf32: 5\n",
		},
		"tomldotted": {
			"toml": "n.x = 1\nn.p.y = \"q\"\ne = { z = 3 }\nm.k = 4\n",
		},
	}
	for _, name := range []string{"full", "empties", "empties2", "floats", "floats2", "tomldotted"} {
		for _, f := range []string{"json", "yaml", "toml", "cue"} {
			txt, ok := docs[name][f]
			if !ok {
				continue
			}
			v, err := probeDecoders(true)[f].Decode(strings.NewReader(txt), dials.NewType(pt))
			t.Logf("%s/%s: err=%v\n   %s", name, f, err, dump(v))
		}
	}
	// sets without wrapper
	for f, txt := range map[string]string{
		"json": `{"set": {"a": {}, "b": {}}}`,
		"yaml": "set:\n  a: {}\n  b: {}\n",
		"toml": "[set]\na = {}\n[set.b]\n",
		"cue":  "set: {a: {}, b: {}}\n",
	} {
		v, err := probeDecoders(false)[f].Decode(strings.NewReader(txt), dials.NewType(pt))
		t.Logf("nowrap-set/%s: err=%v\n   %s", f, err, dump(v))
	}
}

func TestProbeCorrupt(t *testing.T) {
	T := reflect.TypeOf(probeCfg{})
	pt := ptrify.Pointerify(T, reflect.Value{})
	type kv struct {
		name string
		docs map[string]string
	}
	cases := []kv{
		{"num-word", map[string]string{"json": `{"s":"x","port": zzqx}`, "yaml": "s: x\nport: zzqx\n", "toml": "s = \"x\"\nport = zzqx\n", "cue": "s: \"x\"\nport: zzqx\n"}},
		{"float-word", map[string]string{"json": `{"s":"x","f": zzqx}`, "yaml": "s: x\nf: zzqx\n", "toml": "s = \"x\"\nf = zzqx\n", "cue": "s: \"x\"\nf: zzqx\n"}},
		{"num-string", map[string]string{"json": `{"s":"x","port": "zzqx"}`, "yaml": "s: x\nport: \"zzqx\"\n", "toml": "s = \"x\"\nport = \"zzqx\"\n", "cue": "s: \"x\"\nport: \"zzqx\"\n"}},
		{"float-string", map[string]string{"json": `{"s":"x","f": "zzqx"}`, "yaml": "s: x\nf: \"zzqx\"\n", "toml": "s = \"x\"\nf = \"zzqx\"\n", "cue": "s: \"x\"\nf: \"zzqx\"\n"}},
		{"bool-string", map[string]string{"json": `{"s":"x","b": "zzqx"}`, "yaml": "s: x\nb: \"zzqx\"\n", "toml": "s = \"x\"\nb = \"zzqx\"\n", "cue": "s: \"x\"\nb: \"zzqx\"\n"}},
		{"unterminated-string", map[string]string{"json": `{"s":"x,"port": 5}`, "yaml": "s: \"x\nport: 5\n", "toml": "s = \"x\nport = 5\n", "cue": "s: \"x\nport: 5\n"}},
		{"unterminated-list", map[string]string{"json": `{"l":["a","port": 5}`, "yaml": "l: [a\nport: 5\n", "toml": "l = [\"a\"\nport = 5\n", "cue": "l: [\"a\"\nport: 5\n"}},
		{"unterminated-struct", map[string]string{"json": `{"n":{"x": 1,"port": 5}`, "yaml": "n: {x: 1\nport: 5\n", "toml": "n = { x = 1\nport = 5\n", "cue": "n: {x: 1\nport: 5\n"}},
		{"list-for-struct", map[string]string{"json": `{"s":"x","n": [1, 2]}`, "yaml": "s: x\nn: [1, 2]\n", "toml": "s = \"x\"\nn = [1, 2]\n", "cue": "s: \"x\"\nn: [1, 2]\n"}},
		{"list-for-pstruct", map[string]string{"json": `{"s":"x","e": [1, 2]}`, "yaml": "s: x\ne: [1, 2]\n", "toml": "s = \"x\"\ne = [1, 2]\n", "cue": "s: \"x\"\ne: [1, 2]\n"}},
		{"list-for-map", map[string]string{"json": `{"s":"x","m": [1, 2]}`, "yaml": "s: x\nm: [1, 2]\n", "toml": "s = \"x\"\nm = [1, 2]\n", "cue": "s: \"x\"\nm: [1, 2]\n"}},
		{"emptylist-for-struct", map[string]string{"json": `{"s":"x","n": []}`, "yaml": "s: x\nn: []\n", "toml": "s = \"x\"\nn = []\n", "cue": "s: \"x\"\nn: []\n"}},
		{"emptylist-for-map", map[string]string{"json": `{"s":"x","m": []}`, "yaml": "s: x\nm: []\n", "toml": "s = \"x\"\nm = []\n", "cue": "s: \"x\"\nm: []\n"}},
		{"scalar-for-list", map[string]string{"json": `{"s":"x","l": 5}`, "yaml": "s: x\nl: 5\n", "toml": "s = \"x\"\nl = 5\n", "cue": "s: \"x\"\nl: 5\n"}},
		{"scalar-for-set", map[string]string{"json": `{"s":"x","set": 5}`, "yaml": "s: x\nset: 5\n", "toml": "s = \"x\"\nset = 5\n", "cue": "s: \"x\"\nset: 5\n"}},
		{"scalar-for-struct", map[string]string{"json": `{"s":"x","n": 5}`, "yaml": "s: x\nn: 5\n", "toml": "s = \"x\"\nn = 5\n", "cue": "s: \"x\"\nn: 5\n"}},
		{"scalar-for-map", map[string]string{"json": `{"s":"x","m": 5}`, "yaml": "s: x\nm: 5\n", "toml": "s = \"x\"\nm = 5\n", "cue": "s: \"x\"\nm: 5\n"}},
		{"map-for-scalar", map[string]string{"json": `{"s":"x","port": {"a": 1}}`, "yaml": "s: x\nport: {a: 1}\n", "toml": "s = \"x\"\nport = {a = 1}\n", "cue": "s: \"x\"\nport: {a: 1}\n"}},
		{"map-for-list", map[string]string{"json": `{"s":"x","l": {"a": 1}}`, "yaml": "s: x\nl: {a: 1}\n", "toml": "s = \"x\"\nl = {a = 1}\n", "cue": "s: \"x\"\nl: {a: 1}\n"}},
		{"bad-duration", map[string]string{"json": `{"s":"x","d": "zzqx"}`, "yaml": "s: x\nd: zzqx\n", "toml": "s = \"x\"\nd = \"zzqx\"\n", "cue": "s: \"x\"\nd: \"zzqx\"\n"}},
		{"bad-color", map[string]string{"json": `{"s":"x","c": "zzqx"}`, "yaml": "s: x\nc: zzqx\n", "toml": "s = \"x\"\nc = \"zzqx\"\n", "cue": "s: \"x\"\nc: \"zzqx\"\n"}},
		{"float-for-int", map[string]string{"json": `{"s":"x","port": 1.5}`, "yaml": "s: x\nport: 1.5\n", "toml": "s = \"x\"\nport = 1.5\n", "cue": "s: \"x\"\nport: 1.5\n"}},
		{"nested-num-word", map[string]string{"json": `{"s":"x","n":{"x": zzqx}}`, "yaml": "s: x\nn:\n  x: zzqx\n", "toml": "s = \"x\"\n[n]\nx = zzqx\n", "cue": "s: \"x\"\nn: x: zzqx\n"}},
		{"nested-num-string", map[string]string{"json": `{"s":"x","n":{"x": "zzqx"}}`, "yaml": "s: x\nn:\n  x: \"zzqx\"\n", "toml": "s = \"x\"\n[n]\nx = \"zzqx\"\n", "cue": "s: \"x\"\nn: x: \"zzqx\"\n"}},
	}
	for _, c := range cases {
		for _, f := range []string{"json", "yaml", "toml", "cue"} {
			v, err := probeDecoders(true)[f].Decode(strings.NewReader(c.docs[f]), dials.NewType(pt))
			flag := ""
			if err == nil {
				flag = "  <<<<<< NO ERROR"
			}
			es := fmt.Sprint(err)
			if len(es) > 150 {
				es = es[:150]
			}
			t.Logf("%s/%s:%s err=%s\n   %s", c.name, f, flag, es, dump(v))
		}
	}
}
