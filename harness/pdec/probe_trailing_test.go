package pdec

import (
	"fmt"
	"sort"
	"testing"

	"github.com/vimeo/dials/ptrify"
	"pgregory.net/rapid"

	"verifharness/internal/shape"
)

func TestProbeTrailing(t *testing.T) {
	tokens := []string{"}", "]", ")", `"zzqx"`, "zzqx", "<<<<<<< HEAD", "{", "[", ",", ":", "=", "{\"zzqx\"", "5", "'zzqx", "\"zzqx", "zzqx:", "zzqx =", "@", "`", "!", "&", "*", "|", ">", "%", "- zzqx", "? zzqx", "}}", "--", "\\"}
	seps := []string{"", " ", "\n", "\n\n", "\t"}
	acc := map[string]int{}
	tot := map[string]int{}
	ex := map[string]string{}
	rapid.Check(t, func(rt *rapid.T) {
		c := genC13Corrupt(rt)
		T, _ := c.Shape.Build()
		b := shape.NewBuilder(T, shape.ValueOpts{Plain: true})
		pt := ptrify.Pointerify(T, b.Defaults(c.Data).Elem())
		for _, f := range formats {
			for _, tok := range tokens {
				for _, sp := range seps {
					k := f + " " + fmt.Sprintf("%q", tok)
					tot[k]++
					txt := c.Valid[f] + sp + tok + "\n"
					if _, err := decodeText(f, c.Wrap, txt, pt); err == nil {
						acc[k]++
						if _, ok := ex[k]; !ok || len(txt) < len(ex[k]) {
							ex[k] = txt
						}
					}
				}
			}
		}
	})
	var ks []string
	for k := range tot {
		ks = append(ks, k)
	}
	sort.Strings(ks)
	for _, k := range ks {
		if acc[k] > 0 {
			t.Logf("ACCEPTED %-28s %d/%d  e.g. %q", k, acc[k], tot[k], ex[k])
		}
	}
}
