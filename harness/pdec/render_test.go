package pdec

// Hand-written emitters of JSON, YAML, TOML and Cue text for a document tree.
// Nothing here calls the code under test: scalars are spelled with strconv /
// encoding/json string quoting, structure is written by hand.

import (
	"bytes"
	"encoding/json"
	"fmt"
	"math"
	"net"
	"reflect"
	"regexp"
	"sort"
	"strconv"
	"strings"
	"time"

	"verifharness/internal/shape"
)

// pick makes one style decision among n alternatives.
type pick func(label string, n int) int

// f32 marks a float that must be spelled so that it reads back as this
// float32.
type f32 float32

// dnode is one node of a document tree.
type dnode struct {
	key      string
	kind     byte   // 's' scalar, 'l' list, 'm' mapping, 'r' raw token (corruption)
	val      any    // scalar: int64 uint64 f32 float64 bool string time.Duration time.Time
	raw      string // kind 'r'
	kids     []*dnode
	isStruct bool         // mapping that is a Go struct
	path     string       // dotted Go field path ("" inside collections and for the root)
	typ      reflect.Type // Go type of the struct field this node stands for
}

var (
	durT   = reflect.TypeOf(time.Duration(0))
	timeT  = reflect.TypeOf(time.Time{})
	ipT    = reflect.TypeOf(net.IP{})
	colorT = reflect.TypeOf(shape.Color(""))
	stampT = reflect.TypeOf(shape.Stamp{})
	emptyT = reflect.TypeOf(struct{}{})
)

// formats in the order they are checked.
var formats = []string{"json", "yaml", "toml", "cue"}

// tagNameOf is the struct tag each decoder reads (the Cue decoder reads json
// tags; a `cue` tag means nothing to it).
func tagNameOf(format string) string {
	switch format {
	case "cue":
		return "json"
	case "yamlflat":
		return "yaml"
	}
	return format
}

// agreeFormats adds the YAML decoder with FlattenAnonymous (as ez configures
// it with FlattenAnonymousFields) to the four formats.
var agreeFormats = []string{"json", "yaml", "toml", "cue", "yamlflat"}

// embeddedKey says where the leaves of an embedded struct field live in a
// document (read off the libraries and confirmed on the unmodified tree).
// Untagged: encoding/json and Cue promote them into the parent, and so does
// the YAML decoder with FlattenAnonymous; yaml.v2 alone nests them under the
// lower-cased type name, go-toml under the type name.  With a dials tag (or a
// format tag) on the embedding field every library treats it as an ordinary
// named field and nests under that name; only the YAML decoder with
// FlattenAnonymous still promotes (it hoists anonymous fields whatever their
// tags).
func embeddedKey(sf reflect.StructField, format string) (key string, promoted bool) {
	if format == "yamlflat" {
		return "", true
	}
	if k := keyFor(sf, format); k != "" {
		return k, false
	}
	switch format {
	case "yaml":
		return strings.ToLower(sf.Name), false
	case "toml":
		return sf.Name, false
	}
	return "", true
}

// tagName is the name part of a struct tag value ("addr,omitempty" -> "addr").
func tagName(v string) string {
	if i := strings.IndexByte(v, ','); i >= 0 {
		return v[:i]
	}
	return v
}

// keyFor is the document key of a field in one format: the name in the
// format's own tag if present (options such as omitempty or flow do not
// matter), else the dials tag.
func keyFor(sf reflect.StructField, format string) string {
	if v := tagName(sf.Tag.Get(tagNameOf(format))); v != "" {
		return v
	}
	return sf.Tag.Get("dials")
}

func isSet(t reflect.Type) bool { return t.Kind() == reflect.Map && t.Elem() == emptyT }

// present reports whether struct path p occurs in the document for layer l.
func present(l shape.Layer, p string) bool {
	if l.Present[p] {
		return true
	}
	pre := p + "."
	for k, s := range l.Set {
		if s != 0 && strings.HasPrefix(k, pre) {
			return true
		}
	}
	for k, v := range l.Present {
		if v && strings.HasPrefix(k, pre) {
			return true
		}
	}
	return false
}

// buildDoc builds the document tree of one format for the keys present in l.
//
// decoy maps paths of leaves that are NOT in l to value seeds: where the field
// has a name of its own in this format, the document also carries the field's
// dials name as a key (with that value).  No field answers to that key in this
// format, so the leaf stays unset.
func buildDoc(T reflect.Type, l shape.Layer, ex docExtras, format string, setsAsLists bool, pk pick) *dnode {
	root := &dnode{kind: 'm', isStruct: true}
	buildStruct(root, T, nil, l, ex, format, setsAsLists, pk)
	return root
}

func buildStruct(n *dnode, t reflect.Type, prefix []string, l shape.Layer, ex docExtras, format string, setsAsLists bool, pk pick) {
	for i := 0; i < t.NumField(); i++ {
		sf := t.Field(i)
		names := append(append([]string{}, prefix...), sf.Name)
		path := strings.Join(names, ".")
		switch shape.Classify(sf) {
		case shape.ClassLeaf:
			v, ok := leafValue(sf.Type, l.Set[path], ex.Sets[path])
			if !ok {
				if ds := ex.Decoy[path]; ds != 0 && keyFor(sf, format) != sf.Tag.Get("dials") {
					k := valueNode(shape.MakeValue(sf.Type, ds, shape.ValueOpts{Plain: true}), format, setsAsLists, pk)
					k.key = sf.Tag.Get("dials") // path stays empty: not a value of the config
					n.kids = append(n.kids, k)
				}
				continue
			}
			k := valueNode(v, format, setsAsLists, pk)
			k.key, k.path, k.typ = keyFor(sf, format), path, sf.Type
			n.kids = append(n.kids, k)
		case shape.ClassStruct, shape.ClassPStruct:
			if !present(l, path) {
				continue
			}
			st := sf.Type
			if st.Kind() == reflect.Pointer {
				st = st.Elem()
			}
			key := keyFor(sf, format)
			if sf.Anonymous {
				ek, promoted := embeddedKey(sf, format)
				if promoted {
					sub := &dnode{kind: 'm', isStruct: true}
					buildStruct(sub, st, names, l, ex, format, setsAsLists, pk)
					n.kids = append(n.kids, sub.kids...)
					continue
				}
				key = ek
			}
			k := &dnode{kind: 'm', isStruct: true, key: key, path: path, typ: sf.Type}
			buildStruct(k, st, names, l, ex, format, setsAsLists, pk)
			n.kids = append(n.kids, k)
		}
	}
	if len(n.kids) > 1 && pk("key_order", 3) == 0 {
		for i, j := 0, len(n.kids)-1; i < j; i, j = i+1, j-1 {
			n.kids[i], n.kids[j] = n.kids[j], n.kids[i]
		}
	}
}

func valueNode(v reflect.Value, format string, setsAsLists bool, pk pick) *dnode {
	if txt, ok := textOf(v); ok {
		return &dnode{kind: 's', val: txt}
	}
	return structureNode(v, format, setsAsLists, pk)
}

// structureNode spells a value by its structure (never as text).
func structureNode(v reflect.Value, format string, setsAsLists bool, pk pick) *dnode {
	if v.Kind() == reflect.Pointer {
		return structureNode(v.Elem(), format, setsAsLists, pk)
	}
	switch v.Type() {
	case durT:
		return &dnode{kind: 's', val: time.Duration(v.Int())}
	case timeT:
		return &dnode{kind: 's', val: v.Interface().(time.Time)}
	case ipT:
		return &dnode{kind: 's', val: v.Interface().(net.IP).String()}
	case stampT:
		s := v.Interface().(shape.Stamp)
		return &dnode{kind: 's', val: fmt.Sprintf("%d.%d-%s", s.Major, s.Minor, s.Note)}
	}
	switch v.Kind() {
	case reflect.Bool:
		return &dnode{kind: 's', val: v.Bool()}
	case reflect.Int, reflect.Int8, reflect.Int16, reflect.Int32, reflect.Int64:
		return &dnode{kind: 's', val: v.Int()}
	case reflect.Uint, reflect.Uint8, reflect.Uint16, reflect.Uint32, reflect.Uint64:
		return &dnode{kind: 's', val: v.Uint()}
	case reflect.Float32:
		return &dnode{kind: 's', val: f32(v.Float())}
	case reflect.Float64:
		return &dnode{kind: 's', val: v.Float()}
	case reflect.String:
		return &dnode{kind: 's', val: v.String()}
	case reflect.Struct:
		// an element struct of a list: keys come from its tags like those of
		// the config struct; a zero-valued field may be left out (a struct
		// inside a list is not pointerified: absent means zero)
		n := &dnode{kind: 'm', isStruct: true}
		for i := 0; i < v.NumField(); i++ {
			sf, fv := v.Type().Field(i), v.Field(i)
			if fv.IsZero() && pk("elem_zero_omitted", 2) == 1 {
				continue
			}
			kid := valueNode(fv, format, setsAsLists, pk)
			if kid.key = keyFor(sf, format); kid.key == "" {
				kid.key = sf.Name
			}
			n.kids = append(n.kids, kid)
		}
		return n
	case reflect.Slice, reflect.Array:
		n := &dnode{kind: 'l'}
		for i := 0; i < v.Len(); i++ {
			n.kids = append(n.kids, valueNode(v.Index(i), format, setsAsLists, pk))
		}
		return n
	case reflect.Map:
		keys := make([]string, 0, v.Len())
		if v.Type().Key().Kind() == reflect.Int {
			// a set of integers, as a list (only ever under the wrapper)
			var is []int64
			for _, k := range v.MapKeys() {
				is = append(is, k.Int())
			}
			sort.Slice(is, func(a, b int) bool { return is[a] < is[b] })
			if len(is) > 1 && pk("set_order", 2) == 1 {
				sort.Slice(is, func(a, b int) bool { return is[a] > is[b] })
			}
			n := &dnode{kind: 'l'}
			for _, i := range is {
				n.kids = append(n.kids, &dnode{kind: 's', val: i})
			}
			if len(is) > 0 && pk("set_dup", 3) == 0 {
				n.kids = append(n.kids, &dnode{kind: 's', val: is[0]})
			}
			return n
		}
		for _, k := range v.MapKeys() {
			keys = append(keys, k.String())
		}
		sort.Strings(keys)
		if isSet(v.Type()) && setsAsLists {
			n := &dnode{kind: 'l'}
			if len(keys) > 1 && pk("set_order", 2) == 1 {
				sort.Sort(sort.Reverse(sort.StringSlice(keys)))
			}
			for _, k := range keys {
				n.kids = append(n.kids, &dnode{kind: 's', val: k})
			}
			if len(keys) > 0 && pk("set_dup", 3) == 0 {
				// a repeated element: the set has it once
				n.kids = append(n.kids, &dnode{kind: 's', val: keys[0]})
			}
			return n
		}
		n := &dnode{kind: 'm'}
		for _, k := range keys {
			var kid *dnode
			if isSet(v.Type()) {
				kid = &dnode{kind: 'm'} // struct{}{} is an empty mapping
			} else {
				kid = valueNode(v.MapIndex(reflect.ValueOf(k).Convert(v.Type().Key())), format, setsAsLists, pk)
			}
			kid.key = k
			n.kids = append(n.kids, kid)
		}
		return n
	}
	panic(fmt.Sprintf("valueNode: unsupported type %s", v.Type()))
}

// docExtras is what a document holds besides the layer's seeded values.
type docExtras struct {
	Decoy map[string]uint64
	Sets  map[string]SetEdit
}

// SetEdit changes the members of a set-typed leaf (only used with the
// set-to-slice wrapper, where sets are written as lists).
type SetEdit struct {
	// Zero adds the zero value of the key type ("" for map[string]struct{})
	// to the seeded members; Only makes the set the singleton {zero}.
	Zero bool `json:"zero,omitempty"`
	Only bool `json:"only,omitempty"`
	// Ints are the members of a map[int]struct{} leaf; such a leaf is present
	// in the document iff Ints is non-nil (it never has a seed: the value
	// builder of the harness makes string keys only).
	Ints []int64 `json:"ints,omitempty"`
	// IntsPresent distinguishes the empty list from an absent key.
	IntsPresent bool `json:"ints_present,omitempty"`
}

var intSetT = reflect.TypeOf(map[int]struct{}(nil))

// leafValue is the value a document gives a leaf, if any.
func leafValue(t reflect.Type, seed uint64, e SetEdit) (reflect.Value, bool) {
	if t == intSetT {
		if !e.IntsPresent {
			return reflect.Value{}, false
		}
		m := map[int]struct{}{}
		for _, i := range e.Ints {
			m[int(i)] = struct{}{}
		}
		return reflect.ValueOf(m), true
	}
	if seed == 0 {
		return reflect.Value{}, false
	}
	v := shape.MakeValue(t, seed, shape.ValueOpts{Plain: true})
	if isSet(t) && t.Key().Kind() == reflect.String && (e.Zero || e.Only) {
		m := reflect.MakeMap(t)
		if !e.Only {
			for _, k := range v.MapKeys() {
				m.SetMapIndex(k, v.MapIndex(k))
			}
		}
		m.SetMapIndex(reflect.Zero(t.Key()), reflect.ValueOf(struct{}{}))
		return m, true
	}
	return v, true
}

// find returns the node standing for Go field path p.
func (n *dnode) find(p string) *dnode {
	if n.path == p && p != "" {
		return n
	}
	for _, k := range n.kids {
		if k.path == "" {
			continue
		}
		if k.path == p {
			return k
		}
		if strings.HasPrefix(p, k.path+".") {
			return k.find(p)
		}
	}
	return nil
}

// ---------------------------------------------------------------- scalars

// jqEsc quotes s like jq and then, for about half of the tokens, spells some
// of its characters with escape sequences that JSON and Cue string syntax share:
// \uXXXX (non-ASCII only, every third character, or all characters) and \/ for
// a slash.  The decoded string is the same.
func jqEsc(s string, pk pick) string {
	mode := pk("string_escapes", 6) // 0-2 none, 3 non-ASCII, 4 some, 5 all
	if mode < 3 {
		return jq(s)
	}
	var b strings.Builder
	b.WriteByte('"')
	i := 0
	for _, r := range s {
		esc := false
		switch mode {
		case 3:
			esc = r > 0x7e
		case 4:
			esc = r > 0x7e || i%3 == 1
		case 5:
			esc = true
		}
		switch {
		case r > 0xffff || r < 0x20 || r == '"' || r == '\\':
			// outside this helper's business: let the standard quoting do it
			q := jq(string(r))
			b.WriteString(q[1 : len(q)-1])
		case esc && r == '/' && i%2 == 0:
			b.WriteString(`\/`)
		case esc:
			fmt.Fprintf(&b, `\u%04x`, r)
		default:
			b.WriteRune(r)
		}
		i++
	}
	b.WriteByte('"')
	return b.String()
}

// durText spells a duration as text: time.Duration.String(), or split into
// microseconds and nanoseconds with one of the three spellings of the
// microsecond unit that time.ParseDuration accepts ("250µs" with U+00B5,
// "250μs" with U+03BC, "250us").
func durText(d time.Duration, pk pick) string {
	style := pk("duration_text", 5) // 0-1 String(), 2 U+00B5, 3 U+03BC, 4 us
	if style < 2 || d == math.MinInt64 {
		return d.String()
	}
	unit := []string{"\u00b5s", "\u03bcs", "us"}[style-2]
	sign, u := "", uint64(d)
	if d < 0 {
		sign, u = "-", uint64(-d)
	}
	out := sign + strconv.FormatUint(u/1000, 10) + unit
	if r := u % 1000; r != 0 {
		out += strconv.FormatUint(r, 10) + "ns"
	}
	return out
}

func jq(s string) string {
	var b bytes.Buffer
	e := json.NewEncoder(&b)
	e.SetEscapeHTML(false)
	if err := e.Encode(s); err != nil {
		panic(err)
	}
	return strings.TrimSuffix(b.String(), "\n")
}

// floatTok spells a finite float in shortest round-trip form ('g' or 'f'
// layout).  needDot forces a fraction or exponent (TOML reads "5" as an
// integer and refuses it for a float field).
func floatTok(v any, pk pick, needDot bool) string {
	fm := byte('g')
	if pk("float_layout", 2) == 1 {
		fm = 'f'
	}
	var s string
	switch x := v.(type) {
	case f32:
		s = strconv.FormatFloat(float64(x), fm, -1, 32)
		// decoders that parse to float64 first and narrow afterwards must
		// still arrive at x
		if p, err := strconv.ParseFloat(s, 64); err != nil || float32(p) != float32(x) {
			s = strconv.FormatFloat(float64(x), fm, -1, 64)
		}
	case float64:
		s = strconv.FormatFloat(x, fm, -1, 64)
	}
	if needDot && !strings.ContainsAny(s, ".eE") {
		s += ".0"
	}
	return s
}

var (
	plainWordRE = regexp.MustCompile(`^[A-Za-z][A-Za-z0-9_]*$`)
	plainDurRE  = regexp.MustCompile(`^-?[0-9][0-9a-zµμ.]*$`)
	bareKeyRE   = regexp.MustCompile(`^[A-Za-z0-9_-]+$`)
)

var yamlWords = map[string]bool{"y": true, "n": true, "yes": true, "no": true, "on": true, "off": true, "true": true, "false": true, "null": true, "nan": true, "inf": true}

func yamlPlainOK(s string) bool { return plainWordRE.MatchString(s) && !yamlWords[strings.ToLower(s)] }

// ---------------------------------------------------------------- JSON

func emitJSON(root *dnode, pk pick) string {
	var b strings.Builder
	pretty := pk("json_pretty", 2) == 1
	writeJSON(&b, root, pretty, 0, pk)
	b.WriteString("\n")
	return b.String()
}

func jsonScalar(v any, pk pick) string {
	switch x := v.(type) {
	case int64:
		return strconv.FormatInt(x, 10)
	case uint64:
		return strconv.FormatUint(x, 10)
	case f32, float64:
		return floatTok(x, pk, false)
	case bool:
		return strconv.FormatBool(x)
	case string:
		return jqEsc(x, pk)
	case time.Duration:
		if pk("json_dur_int", 2) == 1 {
			return strconv.FormatInt(int64(x), 10)
		}
		return jqEsc(durText(x, pk), pk)
	case time.Time:
		// not escaped: time.Time.UnmarshalJSON of the standard library takes
		// the bytes between the quotes as they are (go.dev/issue/47353)
		return jq(x.Format(time.RFC3339))
	}
	panic(fmt.Sprintf("jsonScalar %T", v))
}

func writeJSON(b *strings.Builder, n *dnode, pretty bool, depth int, pk pick) {
	switch n.kind {
	case 'r':
		b.WriteString(n.raw)
	case 's':
		b.WriteString(jsonScalar(n.val, pk))
	case 'l':
		b.WriteString("[")
		for i, k := range n.kids {
			if i > 0 {
				b.WriteString(", ")
			}
			writeJSON(b, k, false, depth+1, pk)
		}
		b.WriteString("]")
	case 'm':
		b.WriteString("{")
		for i, k := range n.kids {
			if i > 0 {
				b.WriteString(",")
			}
			if pretty {
				b.WriteString("\n" + strings.Repeat("  ", depth+1))
			} else if i > 0 {
				b.WriteString(" ")
			}
			b.WriteString(jqEsc(k.key, pk) + ": ")
			writeJSON(b, k, pretty, depth+1, pk)
		}
		if pretty && len(n.kids) > 0 {
			b.WriteString("\n" + strings.Repeat("  ", depth))
		}
		b.WriteString("}")
	}
}

// ---------------------------------------------------------------- YAML

type yamlStyle struct {
	pk     pick
	indent int
	strq   int // 0 double quotes, 1 single quotes, 2 plain where safe
}

func emitYAML(root *dnode, pk pick) string {
	if len(root.kids) == 0 {
		return []string{"{}\n", "", "# nothing set\n"}[pk("yaml_empty_doc", 3)]
	}
	st := &yamlStyle{pk: pk, indent: 2 + 2*pk("yaml_indent", 2), strq: pk("yaml_strq", 3)}
	if pk("yaml_flow_doc", 10) == 0 {
		return st.flow(root) + "\n"
	}
	var b strings.Builder
	st.block(&b, root, 0)
	return b.String()
}

func (st *yamlStyle) str(s string) string {
	switch st.strq {
	case 1:
		if !strings.ContainsAny(s, "\n\r\t\\") {
			return "'" + strings.ReplaceAll(s, "'", "''") + "'"
		}
	case 2:
		if yamlPlainOK(s) {
			return s
		}
	}
	return jq(s)
}

func (st *yamlStyle) key(s string) string {
	if yamlPlainOK(s) || (bareKeyRE.MatchString(s) && s[0] != '-' && !yamlWords[strings.ToLower(s)] && !(s[0] >= '0' && s[0] <= '9')) {
		if st.pk("yaml_key_quoted", 6) != 0 {
			return s
		}
	}
	return jq(s)
}

func (st *yamlStyle) scalar(v any) string {
	switch x := v.(type) {
	case int64:
		return strconv.FormatInt(x, 10)
	case uint64:
		return strconv.FormatUint(x, 10)
	case f32, float64:
		return floatTok(x, st.pk, false)
	case bool:
		return strconv.FormatBool(x)
	case string:
		return st.str(x)
	case time.Duration:
		s := durText(x, st.pk)
		if st.strq == 2 && plainDurRE.MatchString(s) {
			return s
		}
		if st.strq == 1 {
			return "'" + s + "'"
		}
		return jq(s)
	case time.Time:
		s := x.Format(time.RFC3339)
		switch st.strq {
		case 2:
			return s // a YAML timestamp
		case 1:
			return "'" + s + "'"
		}
		return jq(s)
	}
	panic(fmt.Sprintf("yaml scalar %T", v))
}

func (st *yamlStyle) flow(n *dnode) string {
	switch n.kind {
	case 'r':
		return n.raw
	case 's':
		return st.scalar(n.val)
	case 'l':
		parts := make([]string, len(n.kids))
		for i, k := range n.kids {
			parts[i] = st.flow(k)
		}
		return "[" + strings.Join(parts, ", ") + "]"
	}
	parts := make([]string, len(n.kids))
	for i, k := range n.kids {
		parts[i] = st.key(k.key) + ": " + st.flow(k)
	}
	return "{" + strings.Join(parts, ", ") + "}"
}

func (st *yamlStyle) block(b *strings.Builder, n *dnode, ind int) {
	pad := strings.Repeat(" ", ind)
	for _, k := range n.kids {
		b.WriteString(pad + st.key(k.key) + ":")
		switch {
		case k.kind == 'r' || k.kind == 's' || len(k.kids) == 0:
			b.WriteString(" " + st.flow(k) + "\n")
		case k.kind == 'l':
			if st.pk("yaml_list_flow", 2) == 0 {
				b.WriteString(" " + st.flow(k) + "\n")
				continue
			}
			ipad := pad
			if st.pk("yaml_seq_indented", 2) == 1 {
				ipad = pad + strings.Repeat(" ", st.indent)
			}
			b.WriteString("\n")
			for _, it := range k.kids {
				if it.kind == 'm' && len(it.kids) > 0 && st.pk("yaml_item_block", 2) == 1 {
					// - key: v
					//   key2: v
					var ib strings.Builder
					st.block(&ib, it, len(ipad)+2)
					b.WriteString(ipad + "- " + ib.String()[len(ipad)+2:])
					continue
				}
				b.WriteString(ipad + "- " + st.flow(it) + "\n")
			}
		default:
			if st.pk("yaml_map_flow", 5) == 0 {
				b.WriteString(" " + st.flow(k) + "\n")
				continue
			}
			b.WriteString("\n")
			st.block(b, k, ind+st.indent)
		}
	}
}

// ---------------------------------------------------------------- TOML

type tomlStyle struct{ pk pick }

func emitTOML(root *dnode, pk pick) string {
	st := &tomlStyle{pk: pk}
	var b strings.Builder
	if pk("toml_comment", 4) == 0 {
		b.WriteString("# generated\n")
	}
	st.table(&b, root, nil)
	return b.String()
}

func (st *tomlStyle) key(s string) string {
	if bareKeyRE.MatchString(s) && st.pk("toml_key_quoted", 6) != 0 {
		return s
	}
	return jq(s)
}

func (st *tomlStyle) str(s string) string {
	if st.pk("toml_literal_str", 3) == 0 && !strings.ContainsAny(s, "'\n\r\t") {
		return "'" + s + "'"
	}
	return jq(s)
}

func (st *tomlStyle) scalar(v any) string {
	switch x := v.(type) {
	case int64:
		return strconv.FormatInt(x, 10)
	case uint64:
		return strconv.FormatUint(x, 10)
	case f32, float64:
		return floatTok(x, st.pk, true)
	case bool:
		return strconv.FormatBool(x)
	case string:
		return st.str(x)
	case time.Duration:
		return st.str(durText(x, st.pk))
	case time.Time:
		return x.Format(time.RFC3339) // a TOML offset date-time
	}
	panic(fmt.Sprintf("toml scalar %T", v))
}

func (st *tomlStyle) inline(n *dnode) string {
	switch n.kind {
	case 'r':
		return n.raw
	case 's':
		return st.scalar(n.val)
	case 'l':
		parts := make([]string, len(n.kids))
		for i, k := range n.kids {
			parts[i] = st.inline(k)
		}
		return "[" + strings.Join(parts, ", ") + "]"
	}
	if len(n.kids) == 0 {
		return "{}"
	}
	parts := make([]string, len(n.kids))
	for i, k := range n.kids {
		parts[i] = st.key(k.key) + " = " + st.inline(k)
	}
	return "{ " + strings.Join(parts, ", ") + " }"
}

func (st *tomlStyle) dotted(b *strings.Builder, prefix string, n *dnode) {
	for _, k := range n.kids {
		p := prefix + "." + st.key(k.key)
		if k.kind == 'm' && len(k.kids) > 0 && st.pk("toml_dotted_deeper", 2) == 0 {
			st.dotted(b, p, k)
			continue
		}
		b.WriteString(p + " = " + st.inline(k) + "\n")
	}
}

func (st *tomlStyle) table(b *strings.Builder, n *dnode, path []string) {
	var tables, arrays []*dnode
	for _, k := range n.kids {
		if k.kind == 'l' && isTableList(k) && st.pk("toml_array_of_tables", 2) == 1 {
			arrays = append(arrays, k)
			continue
		}
		if k.kind != 'm' {
			b.WriteString(st.key(k.key) + " = " + st.inline(k) + "\n")
			continue
		}
		switch st.pk("toml_map_style", 5) {
		case 0:
			b.WriteString(st.key(k.key) + " = " + st.inline(k) + "\n")
		case 1:
			if len(k.kids) == 0 {
				b.WriteString(st.key(k.key) + " = {}\n")
			} else {
				st.dotted(b, st.key(k.key), k)
			}
		default:
			tables = append(tables, k)
		}
	}
	for _, tb := range tables {
		p := append(append([]string{}, path...), st.key(tb.key))
		b.WriteString("\n[" + strings.Join(p, ".") + "]\n")
		st.table(b, tb, p)
	}
	for _, ar := range arrays {
		p := append(append([]string{}, path...), st.key(ar.key))
		for _, el := range ar.kids {
			b.WriteString("\n[[" + strings.Join(p, ".") + "]]\n")
			st.table(b, el, p)
		}
	}
}

// isTableList reports whether a list can be written as a TOML array of
// tables: at least one element and every element a mapping.
func isTableList(n *dnode) bool {
	if len(n.kids) == 0 {
		return false
	}
	for _, k := range n.kids {
		if k.kind != 'm' {
			return false
		}
	}
	return true
}

// ---------------------------------------------------------------- Cue

type cueStyle struct{ pk pick }

var cueIdentRE = regexp.MustCompile(`^[A-Za-z][A-Za-z0-9_]*$`)

func emitCue(root *dnode, pk pick) string {
	st := &cueStyle{pk: pk}
	var b strings.Builder
	if len(root.kids) > 0 && pk("cue_braced_doc", 5) == 0 {
		b.WriteString("{\n")
		st.fields(&b, root, 1)
		b.WriteString("}\n")
		return b.String()
	}
	st.fields(&b, root, 0)
	return b.String()
}

func (st *cueStyle) label(s string) string {
	if cueIdentRE.MatchString(s) && st.pk("cue_label_quoted", 4) != 0 {
		return s
	}
	return jq(s)
}

func (st *cueStyle) scalar(v any) string {
	switch x := v.(type) {
	case int64:
		return strconv.FormatInt(x, 10)
	case uint64:
		return strconv.FormatUint(x, 10)
	case f32, float64:
		return floatTok(x, st.pk, false)
	case bool:
		return strconv.FormatBool(x)
	case string:
		return jqEsc(x, st.pk)
	case time.Duration:
		if st.pk("cue_dur_int", 2) == 1 {
			return strconv.FormatInt(int64(x), 10)
		}
		return jqEsc(durText(x, st.pk), st.pk)
	case time.Time:
		return jqEsc(x.Format(time.RFC3339), st.pk)
	}
	panic(fmt.Sprintf("cue scalar %T", v))
}

func (st *cueStyle) inline(n *dnode) string {
	switch n.kind {
	case 'r':
		return n.raw
	case 's':
		return st.scalar(n.val)
	case 'l':
		parts := make([]string, len(n.kids))
		for i, k := range n.kids {
			parts[i] = st.inline(k)
		}
		return "[" + strings.Join(parts, ", ") + "]"
	}
	parts := make([]string, len(n.kids))
	for i, k := range n.kids {
		parts[i] = st.label(k.key) + ": " + st.inline(k)
	}
	return "{" + strings.Join(parts, ", ") + "}"
}

func (st *cueStyle) fields(b *strings.Builder, n *dnode, depth int) {
	pad := strings.Repeat("\t", depth)
	for _, k := range n.kids {
		b.WriteString(pad)
		st.field(b, k, depth)
		b.WriteString("\n")
	}
}

func (st *cueStyle) field(b *strings.Builder, k *dnode, depth int) {
	b.WriteString(st.label(k.key) + ": ")
	if k.kind != 'm' || len(k.kids) == 0 {
		b.WriteString(st.inline(k))
		return
	}
	switch st.pk("cue_struct_style", 4) {
	case 0:
		b.WriteString(st.inline(k))
	case 1:
		if len(k.kids) == 1 {
			// shorthand for a single nested field: a: b: c: 1
			st.field(b, k.kids[0], depth)
			return
		}
		fallthrough
	default:
		b.WriteString("{\n")
		st.fields(b, k, depth+1)
		b.WriteString(strings.Repeat("\t", depth) + "}")
	}
}

// render emits the tree in the given format.
func render(format string, root *dnode, pk pick) string {
	switch format {
	case "json":
		return emitJSON(root, pk)
	case "yaml", "yamlflat":
		return emitYAML(root, pk)
	case "toml":
		return emitTOML(root, pk)
	case "cue":
		return emitCue(root, pk)
	}
	panic("unknown format " + format)
}

// inlineOf spells one node on one line in the given format (used to build an
// unterminated bracket).
func inlineOf(format string, n *dnode, pk pick) string {
	switch format {
	case "json":
		var b strings.Builder
		writeJSON(&b, n, false, 0, pk)
		return b.String()
	case "yaml":
		return (&yamlStyle{pk: pk, indent: 2}).flow(n)
	case "toml":
		return (&tomlStyle{pk: pk}).inline(n)
	case "cue":
		return (&cueStyle{pk: pk}).inline(n)
	}
	panic("unknown format " + format)
}
