package pdec

import (
	"context"
	"fmt"
	"math"
	"net"
	"reflect"
	"strconv"
	"strings"
	"testing"
	"time"

	"github.com/vimeo/dials"
	"github.com/vimeo/dials/common"
	"github.com/vimeo/dials/decoders/cue"
	"github.com/vimeo/dials/decoders/json"
	"github.com/vimeo/dials/decoders/toml"
	"github.com/vimeo/dials/decoders/yaml"
	"github.com/vimeo/dials/ptrify"
	"github.com/vimeo/dials/sources/static"
	"github.com/vimeo/dials/sourcewrap"
	"github.com/vimeo/dials/transform"
	"pgregory.net/rapid"

	"verifharness/internal/shape"
	"verifharness/internal/vrt"
)

// ---------------------------------------------------------------- profile

// Leaf types every one of the four formats can spell (weights by repetition).
var c13Leaves = []string{
	"bool", "int", "int8", "int16", "int32", "int64", "uint", "uint8", "uint16", "uint32", "uint64",
	"float32", "float64", "string", "string",
	"time.Duration", "time.Duration", "time.Duration", "time.Time", "net.IP", "Stamp", "Color",
	"[]string", "[]int", "[]float64", "[]bool", "[]time.Duration", "[][]int", "[]uint16", "[]Color", "[]net.IP",
	"map[string]int", "map[string]string", "map[string][]string", "map[string]time.Duration", "map[string]float64",
	"map[string]bool", "map[string]map[string]int", "map[string]Color", "map[string]Stamp", "map[string]time.Time",
	"map[string]struct{}", "map[string]struct{}", "map[string]struct{}",
	"Level", "Count", "Ratio", "Flag", "Name", "Timeout", "Names", "Nums", "Limits", "Labels",
}

// Element structs of list-valued fields.  Every tag differs from the Go field
// name by more than case, so a decoder that does not see the tag inside a list
// element finds no field for the key.
type Backend struct {
	HostName    string `dials:"host_name"`
	MaxConns    int    `dials:"max-conns"`
	IsPreferred bool   `dials:"is_preferred"`
}

// Route has a duration and a format-specific tag inside the element.
type Route struct {
	PathPrefix string        `dials:"path-prefix" yaml:"path_prefix_yaml,omitempty"`
	RetryAfter time.Duration `dials:"retry_after"`
}

// Upstream has a nested struct inside the element.
type Upstream struct {
	ServiceName string        `dials:"service_name"`
	DialTimeout time.Duration `dials:"dial-timeout"`
	Health      struct {
		CheckPath string `dials:"check_path"`
		MaxFails  uint8  `dials:"max-fails"`
	} `dials:"health_check"`
	WeightPct float64 `dials:"weight_pct" json:"weightPercent,omitempty"`
}

// Endpoint is pointed to from inside list elements.
type Endpoint struct {
	EndHost string `dials:"end_host"`
	EndPort int32  `dials:"end-port"`
}

// Cluster is an element with a user-declared pointer to a struct and a value
// struct that holds another one: every element must get sub-structs of its
// own.
type Cluster struct {
	ClusterName string    `dials:"cluster_name"`
	Primary     *Endpoint `dials:"primary-endpoint"`
	Holder      struct {
		Standby *Endpoint `dials:"stand_by"`
		Rank    uint8     `dials:"rank-no"`
	} `dials:"holder_box"`
}

// Probe is a one-leaf element.
type Probe struct {
	ProbeColor shape.Color `dials:"probe-color"`
}

// Peer is an element of PeerList.
type Peer struct {
	Host string
	Port int
}

// PeerList is a named slice of structs that unmarshals itself from text
// ("a:80,b:81") at the outer level only: Peer has no methods.
type PeerList []Peer

// UnmarshalText implements encoding.TextUnmarshaler.
func (p *PeerList) UnmarshalText(b []byte) error {
	out := PeerList{}
	if len(b) > 0 {
		for _, e := range strings.Split(string(b), ",") {
			i := strings.LastIndexByte(e, ':')
			if i < 0 {
				return fmt.Errorf("peer %q: missing ':'", e)
			}
			port, err := strconv.Atoi(e[i+1:])
			if err != nil {
				return fmt.Errorf("peer %q: %v", e, err)
			}
			out = append(out, Peer{Host: e[:i], Port: port})
		}
	}
	*p = out
	return nil
}

// WordList is a named slice of strings that unmarshals itself from "a,b,c".
type WordList []string

// UnmarshalText implements encoding.TextUnmarshaler.
func (w *WordList) UnmarshalText(b []byte) error {
	out := WordList{}
	if len(b) > 0 {
		out = strings.Split(string(b), ",")
	}
	*w = out
	return nil
}

// KVMap is a named map that unmarshals itself from "k=v;k2=v2".
type KVMap map[string]string

// UnmarshalText implements encoding.TextUnmarshaler.
func (m *KVMap) UnmarshalText(b []byte) error {
	out := KVMap{}
	if len(b) > 0 {
		for _, e := range strings.Split(string(b), ";") {
			kv := strings.SplitN(e, "=", 2)
			if len(kv) != 2 {
				return fmt.Errorf("pair %q: missing '='", e)
			}
			out[kv[0]] = kv[1]
		}
	}
	*m = out
	return nil
}

var (
	peerListT = reflect.TypeOf(PeerList(nil))
	wordListT = reflect.TypeOf(WordList(nil))
	kvMapT    = reflect.TypeOf(KVMap(nil))
)

// isTextColl reports whether t is one of the text-unmarshalable collection
// types or a pointer to one.
func isTextColl(t reflect.Type) bool {
	if t.Kind() == reflect.Pointer {
		t = t.Elem()
	}
	return t == peerListT || t == wordListT || t == kvMapT
}

// textOf is the textual spelling of a text-unmarshalable collection (written
// here, not by the types: they have no marshaller).
func textOf(v reflect.Value) (string, bool) {
	if !isTextColl(v.Type()) {
		return "", false
	}
	if v.Kind() == reflect.Pointer {
		v = v.Elem()
	}
	var parts []string
	switch x := v.Interface().(type) {
	case PeerList:
		for _, p := range x {
			parts = append(parts, p.Host+":"+strconv.Itoa(p.Port))
		}
		return strings.Join(parts, ","), true
	case WordList:
		return strings.Join(x, ","), true
	case KVMap:
		for _, k := range shape.SortedKeys(x) {
			parts = append(parts, k+"="+x[k])
		}
		return strings.Join(parts, ";"), true
	}
	return "", false
}

// Embedded structs (by value and by pointer).  The embedded field itself has
// no tag; the names of the leaves use words that generated names never use, so
// promoted keys cannot collide with sibling keys.
type EmbLimits struct {
	MaxBurst    int           `dials:"max_burst"`
	CoolDown    time.Duration `dials:"cool-down"`
	QuotaLabels []string      `dials:"quota_labels"`
	AuditNote   string        `dials:"audit-note"`
}

// EmbTrace has two leaves.
type EmbTrace struct {
	SampleRatio  float64 `dials:"sample_ratio"`
	ExporterKind string  `dials:"exporter-kind" json:"exporterKindJSON,omitempty"`
}

// EmbShard has five leaves, the last one a plain scalar.
type EmbShard struct {
	ShardPeers   map[string]struct{} `dials:"shard-peers"`
	ShardColor   shape.Color         `dials:"shard_color"`
	ShardSince   time.Time           `dials:"shard-since"`
	ShardWeights map[string]int      `dials:"shard_weights"`
	ShardIndex   uint16              `dials:"shard-index"`
}

// Named containers of time.Duration (and pointers to them): the JSON and Cue
// decoders must still substitute the duration inside a named type.
type Backoffs []time.Duration

// Deadlines is a named map of durations.
type Deadlines map[string]time.Duration

// Windows is a named array of durations.
type Windows [2]time.Duration

var c13DurationContainers = []string{"Backoffs", "Backoffs", "*Backoffs", "Deadlines", "*Deadlines", "Windows"}

var c13EmbedTypes = []string{"EmbLimits", "EmbTrace", "EmbShard"}

// Text-unmarshalable named collections and pointers to them.
var c13TextColls = []string{"PeerList", "PeerList", "*PeerList", "WordList", "*WordList", "KVMap", "*KVMap"}

func init() {
	shape.RegisterBase("Backoffs", reflect.TypeOf(Backoffs(nil)))
	shape.RegisterBase("Deadlines", reflect.TypeOf(Deadlines(nil)))
	shape.RegisterBase("Windows", reflect.TypeOf(Windows{}))
	shape.RegisterBase("map[int]struct{}", intSetT)
	shape.RegisterBase("Peer", reflect.TypeOf(Peer{}))
	shape.RegisterBase("PeerList", peerListT)
	shape.RegisterBase("WordList", wordListT)
	shape.RegisterBase("KVMap", kvMapT)
	shape.RegisterBase("EmbLimits", reflect.TypeOf(EmbLimits{}))
	shape.RegisterBase("EmbTrace", reflect.TypeOf(EmbTrace{}))
	shape.RegisterBase("EmbShard", reflect.TypeOf(EmbShard{}))
	shape.RegisterBase("Backend", reflect.TypeOf(Backend{}))
	shape.RegisterBase("Route", reflect.TypeOf(Route{}))
	shape.RegisterBase("Upstream", reflect.TypeOf(Upstream{}))
	shape.RegisterBase("Probe", reflect.TypeOf(Probe{}))
	shape.RegisterBase("Cluster", reflect.TypeOf(Cluster{}))
}

// Lists of dials-tagged structs.  Arrays ([2]Backend) are not here: they are
// outside the property's quantifier, and on the current tree a pointerified
// array field (*[2]Backend) is not recursed into by the transformer, so the
// tags never reach its elements.
var c13StructLists = []string{"[]Backend", "[]Backend", "[]Route", "[]Route", "[]Upstream", "[]Upstream", "[]Probe", "[]Cluster", "[]Cluster", "[]Cluster"}

// Slices whose element is a struct that unmarshals itself from text and that
// all four formats can spell; see the finding keyed slice-of-text-struct.
// ([]Stamp is not here: go-toml v1 cannot fill a slice of text-unmarshalable
// structs from an array of strings, whatever dials does.)
var c13TextStructSlices = []string{"[]time.Time", "[]time.Time"}

// c13IntSets: sets with integer members (agree check only; their values come
// from SetEdit, never from a seed).
var c13IntSets = []string{"map[int]struct{}", "map[int]struct{}"}

func c13Profile(withTextStructSlices, withIntSets bool) shape.Profile {
	leaves := append(append(append([]string{}, c13Leaves...), c13StructLists...), c13TextColls...)
	leaves = append(leaves, c13DurationContainers...)
	if withTextStructSlices {
		leaves = append(leaves, c13TextStructSlices...)
	}
	if withIntSets {
		leaves = append(leaves, c13IntSets...)
	}
	return shape.Profile{
		LeafTypes:  leaves,
		Nested:     []string{"struct", "pstruct", "struct", "pstruct", "embed", "pembed"},
		EmbedTypes: c13EmbedTypes,
		MaxDepth:   3, MaxFields: 5, MinFields: 1,
	}
}

// ---------------------------------------------------------------- tags

var c13AltWords = []string{"alt", "legacy", "new", "v2", "file"}

func encodeKey(words []string, style int) string {
	title := func(w string) string { return strings.ToUpper(w[:1]) + w[1:] }
	switch style {
	case 0:
		return strings.Join(words, "-")
	case 1:
		return strings.Join(words, "_")
	case 2:
		s := words[0]
		for _, w := range words[1:] {
			s += title(w)
		}
		return s
	case 3:
		s := ""
		for _, w := range words {
			s += title(w)
		}
		return s
	case 4:
		return strings.ToUpper(strings.Join(words, "_"))
	}
	return strings.Join(words, "")
}

func uniqueKey(name string, used map[string]bool) string {
	base := name
	for i := 2; used[strings.ToLower(name)]; i++ {
		name = base + strconv.Itoa(i)
	}
	used[strings.ToLower(name)] = true
	return name
}

// assignTags gives every field a dials tag and, for about a quarter of the
// fields, one or two format-specific tags with a different name, about a third
// of them with options (`json:"x,omitempty"`, `yaml:"x,flow"`).  All names
// of sibling fields (over all formats) differ even when case is ignored.
func assignTags(t *rapid.T, fs []shape.Field) {
	used := map[string]bool{}
	for i := range fs {
		f := &fs[i]
		embedded := f.Kind == "embed" || f.Kind == "pembed"
		if embedded && rapid.Bool().Draw(t, "embedded_untagged") {
			f.Tag = "" // an untagged embedded struct is spelled by its leaves
			continue
		}
		words := f.Words
		if embedded {
			// a tagged embedded struct is a named section: EmbLimits -> emb-limits, ...
			words = []string{"emb", strings.ToLower(strings.TrimPrefix(f.Type, "Emb"))}
		}
		if len(words) == 0 {
			words = []string{strings.ToLower(f.Name)}
		}
		name := uniqueKey(encodeKey(words, rapid.IntRange(0, 5).Draw(t, "key_style")), used)
		tags := []string{`dials:` + strconv.Quote(name)}
		if rapid.IntRange(0, 3).Draw(t, "has_format_tag") == 0 {
			n := rapid.IntRange(1, 2).Draw(t, "n_format_tags")
			seen := map[string]bool{}
			for j := 0; j < n; j++ {
				tn := rapid.SampledFrom([]string{"json", "yaml", "toml", "cue"}).Draw(t, "format_tag")
				if seen[tn] {
					continue
				}
				seen[tn] = true
				aw := append(append([]string{}, words...), rapid.SampledFrom(c13AltWords).Draw(t, "alt_word"))
				alt := uniqueKey(encodeKey(aw, rapid.IntRange(0, 5).Draw(t, "alt_style")), used)
				// options the library accepts when decoding (they only matter
				// to encoders): omitempty for json/yaml/toml, flow for yaml on
				// collections and structs
				opts := []string{"", "", ",omitempty"}
				if tn == "yaml" && !embedded && (f.Kind != "leaf" || strings.HasPrefix(f.Type, "[]") || strings.HasPrefix(f.Type, "map[")) {
					opts = append(opts, ",flow", ",omitempty,flow")
				}
				if tn == "cue" {
					opts = []string{""}
				}
				tg := tn + `:` + strconv.Quote(alt+rapid.SampledFrom(opts).Draw(t, "tag_options"))
				if rapid.Bool().Draw(t, "format_tag_first") {
					tags = append([]string{tg}, tags...)
				} else {
					tags = append(tags, tg)
				}
			}
		}
		f.Tag = strings.Join(tags, " ")
		if f.Kind == "struct" || f.Kind == "pstruct" {
			assignTags(t, f.Fields)
		}
	}
}

// ---------------------------------------------------------------- decoders

func decoderFor(format, wrap string) dials.Decoder {
	var d dials.Decoder
	switch format {
	case "json":
		d = &json.Decoder{}
	case "yaml":
		d = &yaml.Decoder{}
	case "yamlflat":
		d = &yaml.Decoder{FlattenAnonymous: true}
	case "toml":
		d = &toml.Decoder{}
	case "cue":
		d = &cue.Decoder{}
	default:
		panic("unknown format " + format)
	}
	switch wrap {
	case "setslice":
		return sourcewrap.NewTransformingDecoder(d, &transform.SetSliceMangler{})
	case "ez":
		// the manglers ez puts around a file decoder with default parameters
		return sourcewrap.NewTransformingDecoder(d, transform.NewAliasMangler(common.DialsTagName), &transform.SetSliceMangler{})
	}
	return d
}

func decodeText(format, wrap, text string, pt reflect.Type) (reflect.Value, error) {
	return decodeWith(decoderFor(format, wrap), text, pt)
}

func decodeWith(dec dials.Decoder, text string, pt reflect.Type) (reflect.Value, error) {
	src := &static.StringSource{Data: text, Decoder: dec}
	return src.Value(context.Background(), dials.NewType(pt))
}

// normIPs rewrites 4-byte net.IP values as their 16-byte form: text decoding
// always yields the 16-byte form, the value builder yields either.
func normIPs(v reflect.Value) {
	switch v.Kind() {
	case reflect.Pointer:
		if !v.IsNil() {
			normIPs(v.Elem())
		}
	case reflect.Struct:
		if v.Type() == timeT || v.Type() == stampT {
			return
		}
		for i := 0; i < v.NumField(); i++ {
			normIPs(v.Field(i))
		}
	case reflect.Slice:
		if v.IsNil() {
			return
		}
		if v.Type() == ipT {
			if ip := v.Interface().(net.IP); len(ip) == net.IPv4len {
				v.Set(reflect.ValueOf(ip.To16()))
			}
			return
		}
		if v.Type().Elem() == ipT {
			for i := 0; i < v.Len(); i++ {
				normIPs(v.Index(i))
			}
		}
	}
}

func addressableCopy(v reflect.Value) reflect.Value {
	cp := reflect.New(v.Type()).Elem()
	cp.Set(v)
	return cp
}

// ---------------------------------------------------------------- case

// C13Case is a config type, defaults, the set of keys present (one layer) and
// the four documents spelling that data.
type C13Case struct {
	Shape shape.Shape `json:"shape"`
	Data  shape.Data  `json:"data"` // exactly one layer: the keys present in the documents
	// Wrap: none (bare decoders; sets are mappings of empty mappings),
	// setslice (SetSliceMangler around the decoder; sets are lists),
	// ez (alias + set-slice manglers as ez installs them; sets are lists).
	Wrap   string            `json:"wrap"`
	Texts  map[string]string `json:"texts"`
	Styles []string          `json:"styles,omitempty"` // how the texts were spelled (labels only)
	// Decoy: leaves absent from the document whose dials name is nevertheless
	// a key of the documents of those formats where the field has a name of
	// its own (informational; the texts are what is decoded).
	Decoy map[string]uint64 `json:"decoy,omitempty"`
	// SetEdits: zero-valued members of sets and the members of integer sets.
	SetEdits map[string]SetEdit `json:"set_edits,omitempty"`
	// More: further documents for the same type, decoded one after the other
	// after the first; each is judged on its own.
	More []C13Doc `json:"more,omitempty"`
	// Reuse: one Decoder value per format for the whole history (else a
	// fresh one per document).
	Reuse bool `json:"reuse_decoder,omitempty"`
}

// C13Doc is a later document of a history.
type C13Doc struct {
	Layer    shape.Layer        `json:"layer"`
	Decoy    map[string]uint64  `json:"decoy,omitempty"`
	SetEdits map[string]SetEdit `json:"set_edits,omitempty"`
	Texts    map[string]string  `json:"texts"`
}

var noteworthy = map[string]bool{"json_dur_int": true, "cue_dur_int": true, "set_dup": true, "yaml_flow_doc": true, "yaml_strq": true,
	"toml_map_style": true, "toml_array_of_tables": true, "string_escapes": true, "duration_text": true, "yaml_item_block": true, "elem_zero_omitted": true, "cue_struct_style": true, "yaml_empty_doc": true, "float_layout": true}

func rapidPick(t *rapid.T, notes map[string]bool) pick {
	return func(label string, n int) int {
		v := rapid.IntRange(0, n-1).Draw(t, label)
		if notes != nil && noteworthy[label] {
			notes[label+"="+strconv.Itoa(v)] = true
		}
		return v
	}
}

func genShapeData(t *rapid.T, withTextStructSlices, withIntSets bool) (shape.Shape, reflect.Type, []shape.Node, shape.Data) {
	s := shape.Gen(t, c13Profile(withTextStructSlices, withIntSets))
	assignTags(t, s.Fields)
	T, err := s.Build()
	if err != nil {
		t.Fatalf("generated shape does not build: %v", err)
	}
	nodes := shape.Walk(T)
	d := genData(t, nodes)
	return s, T, nodes, d
}

// genData draws mostly non-zero defaults and the one layer of keys present in
// the documents: about one document in twenty is empty, one in ten sets every
// leaf, the others set each leaf with a probability drawn per case.
func genData(t *rapid.T, nodes []shape.Node) shape.Data {
	d := shape.Data{Defaults: map[string]uint64{}, DefNil: map[string]bool{}}
	underNil := func(n shape.Node) bool {
		for p := range d.DefNil {
			if strings.HasPrefix(n.Path, p+".") {
				return true
			}
		}
		return false
	}
	for _, n := range nodes {
		if underNil(n) {
			continue
		}
		switch n.Class {
		case shape.ClassLeaf:
			if n.Type != intSetT && rapid.IntRange(0, 4).Draw(t, "def_zero") != 0 {
				d.Defaults[n.Path] = rapid.Uint64Range(1, 1<<40).Draw(t, "def_seed")
			}
		case shape.ClassPStruct:
			if rapid.IntRange(0, 2).Draw(t, "def_nil") == 0 {
				d.DefNil[n.Path] = true
			}
		}
	}
	d.Layers = []shape.Layer{genLayer(t, nodes)}
	return d
}

// genLayer draws the keys present in one document.
func genLayer(t *rapid.T, nodes []shape.Node) shape.Layer {
	l := shape.Layer{Set: map[string]uint64{}, Present: map[string]bool{}}
	pct := []int{0, 100, 100, 30, 30, 30, 50, 50, 50, 50, 50, 70, 70, 70, 70, 70, 85, 85, 85, 85}[rapid.IntRange(0, 19).Draw(t, "density")]
	for _, n := range nodes {
		switch n.Class {
		case shape.ClassLeaf:
			if n.Type != intSetT && rapid.IntRange(0, 99).Draw(t, "set") < pct {
				l.Set[n.Path] = rapid.Uint64Range(1, 1<<40).Draw(t, "seed")
			}
		case shape.ClassStruct, shape.ClassPStruct:
			// an embedded struct with no leaf present has no spelling in the
			// formats that promote its leaves
			if !n.SF.Anonymous && rapid.IntRange(0, 99).Draw(t, "present") < 12 {
				l.Present[n.Path] = true
			}
		}
	}
	avoidMinInt64(nodes, l)
	return l
}

// genDecoy picks, among the leaves absent from l whose field has a json, yaml
// or toml name of its own, about half and gives each a value seed.
func genDecoy(t *rapid.T, nodes []shape.Node, l shape.Layer) map[string]uint64 {
	dc := map[string]uint64{}
	for _, n := range nodes {
		if n.Class != shape.ClassLeaf || l.Set[n.Path] != 0 || n.Type == intSetT {
			continue
		}
		own := false
		for _, f := range formats {
			if keyFor(n.SF, f) != n.SF.Tag.Get("dials") {
				own = true
			}
		}
		if own && rapid.Bool().Draw(t, "decoy") {
			dc[n.Path] = rapid.Uint64Range(1, 1<<40).Draw(t, "decoy_seed")
		}
	}
	avoidMinInt64(nodes, shape.Layer{Set: dc})
	return dc
}

// genSetEdits gives sets members equal to the zero value of their key type
// (only under the set-to-slice wrapper, where a set is a list): the empty
// string added to, or alone in, a present set of strings; and the members of
// the sets of integers (0 alone, 0 among others, none, or no zero at all).
func genSetEdits(t *rapid.T, nodes []shape.Node, l shape.Layer, wrap string) map[string]SetEdit {
	if wrap == "none" {
		return nil
	}
	ed := map[string]SetEdit{}
	for _, n := range nodes {
		if n.Class != shape.ClassLeaf || !isSet(n.Type) {
			continue
		}
		if n.Type == intSetT {
			if rapid.IntRange(0, 4).Draw(t, "intset_present") < 3 {
				ms := [][]int64{{0}, {0}, {0, 3}, {3, 0}, {-7, 0, 12}, {5}, {5, 9}, {}}[rapid.IntRange(0, 7).Draw(t, "intset_members")]
				ed[n.Path] = SetEdit{Ints: ms, IntsPresent: true}
				// the enclosing structs are in the document
				for p := n.Parent; p != ""; {
					l.Present[p] = true
					if i := strings.LastIndexByte(p, '.'); i >= 0 {
						p = p[:i]
					} else {
						p = ""
					}
				}
			}
			continue
		}
		if l.Set[n.Path] == 0 {
			continue
		}
		switch rapid.IntRange(0, 5).Draw(t, "set_zero_member") {
		case 0, 1:
			ed[n.Path] = SetEdit{Zero: true}
		case 2:
			ed[n.Path] = SetEdit{Only: true}
		}
	}
	return ed
}

// applySetEdits writes the edited sets into a value built from the seeds.
func applySetEdits(root reflect.Value, nodes []shape.Node, l shape.Layer, edits map[string]SetEdit) error {
	for _, n := range nodes {
		e, ok := edits[n.Path]
		if !ok || n.Class != shape.ClassLeaf {
			continue
		}
		v, present := leafValue(n.Type, l.Set[n.Path], e)
		if !present {
			continue
		}
		f := shape.FieldByPath(root, n.Path)
		if !f.IsValid() || !f.CanSet() {
			return fmt.Errorf("harness: cannot reach %s to apply a set edit", n.Path)
		}
		f.Set(v)
	}
	return nil
}

// avoidMinInt64 moves a leaf on to the next seed whose value holds no
// math.MinInt64: Cue v0.6.0 cannot decode that into a 64-bit integer ("value
// was rounded up").  It also skips empty lists of structs (no TOML spelling).
func avoidMinInt64(nodes []shape.Node, l shape.Layer) {
	for _, n := range nodes {
		if sd := l.Set[n.Path]; n.Class == shape.ClassLeaf && sd != 0 {
			for {
				v := shape.MakeValue(n.Type, sd, shape.ValueOpts{Plain: true})
				// go-toml v1 cannot turn the empty array "[]" into a slice of
				// structs ("Can't convert []([]interface {}) to a slice"), so
				// an empty list of structs has no TOML spelling
				if !hasMinInt64(v) && !(isStructList(n.Type) && v.Len() == 0) {
					break
				}
				sd++
			}
			l.Set[n.Path] = sd
		}
	}
}

func hasMinInt64(v reflect.Value) bool {
	switch v.Kind() {
	case reflect.Int, reflect.Int64:
		return v.Int() == math.MinInt64
	case reflect.Struct:
		if v.Type() == timeT || v.Type() == stampT {
			return false
		}
		for i := 0; i < v.NumField(); i++ {
			if hasMinInt64(v.Field(i)) {
				return true
			}
		}
	case reflect.Pointer:
		return !v.IsNil() && hasMinInt64(v.Elem())
	case reflect.Slice, reflect.Array:
		for i := 0; i < v.Len(); i++ {
			if hasMinInt64(v.Index(i)) {
				return true
			}
		}
	case reflect.Map:
		it := v.MapRange()
		for it.Next() {
			if hasMinInt64(it.Value()) {
				return true
			}
		}
	}
	return false
}

func genC13Agree(t *rapid.T) C13Case {
	c := C13Case{}
	c.Wrap = rapid.SampledFrom([]string{"none", "setslice", "setslice", "ez"}).Draw(t, "wrap")
	s, T, nodes, d := genShapeData(t, rapid.IntRange(0, 3).Draw(t, "with_text_struct_slices") == 0, c.Wrap != "none")
	c.Shape, c.Data = s, d
	c.Reuse = rapid.Bool().Draw(t, "reuse_decoder")
	notes := map[string]bool{}
	pk := rapidPick(t, notes)
	texts := func(l shape.Layer, decoy map[string]uint64, sets map[string]SetEdit) map[string]string {
		m := map[string]string{}
		for _, f := range agreeFormats {
			m[f] = render(f, buildDoc(T, l, docExtras{Decoy: decoy, Sets: sets}, f, c.Wrap != "none", pk), pk)
		}
		return m
	}
	c.Decoy = genDecoy(t, nodes, d.Layers[0])
	c.SetEdits = genSetEdits(t, nodes, d.Layers[0], c.Wrap)
	c.Texts = texts(d.Layers[0], c.Decoy, c.SetEdits)
	// a history: one to three documents for the same type
	for i := rapid.SampledFrom([]int{0, 1, 1, 2}).Draw(t, "more_documents"); i > 0; i-- {
		l := genLayer(t, nodes)
		dc := genDecoy(t, nodes, l)
		se := genSetEdits(t, nodes, l, c.Wrap)
		c.More = append(c.More, C13Doc{Layer: l, Decoy: dc, SetEdits: se, Texts: texts(l, dc, se)})
	}
	c.Styles = shape.SortedKeys(notes)
	return c
}

// leafFacts classifies the leaves of the type against the layer.
type leafFacts struct {
	embPresent                      map[string][]string // embedded struct path -> names of its present leaves
	labels                          map[string]bool
	absent, presentLeaves, deepLeaf int
	special, textStructSlicePresent bool
	maxDepth                        int
}

func hasType(t reflect.Type, pred func(reflect.Type) bool) bool {
	if pred(t) {
		return true
	}
	if isTextColl(t) {
		return false
	}
	switch t.Kind() {
	case reflect.Slice:
		return t != ipT && hasType(t.Elem(), pred)
	case reflect.Map, reflect.Array:
		return hasType(t.Elem(), pred)
	case reflect.Struct:
		if t == timeT || t == stampT {
			return false
		}
		for i := 0; i < t.NumField(); i++ {
			if hasType(t.Field(i).Type, pred) {
				return true
			}
		}
	}
	return false
}

func isStructList(t reflect.Type) bool {
	if isTextColl(t) || (t.Kind() != reflect.Slice && t.Kind() != reflect.Array) {
		return false
	}
	e := t.Elem()
	return e.Kind() == reflect.Struct && e != timeT && e != stampT
}

func facts(T reflect.Type, nodes []shape.Node, d shape.Data) leafFacts {
	l := d.Layers[0]
	f := leafFacts{labels: map[string]bool{}, embPresent: map[string][]string{}}
	opts := shape.ValueOpts{Plain: true}
	for _, n := range nodes {
		if n.Depth > f.maxDepth {
			f.maxDepth = n.Depth
		}
		for _, tn := range []string{"json", "yaml", "toml", "cue"} {
			if n.SF.Tag.Get(tn) != "" && (n.Class != shape.ClassLeaf || l.Set[n.Path] != 0) {
				f.labels["format-tag:"+tn] = true
			}
		}
		switch n.Class {
		case shape.ClassStruct, shape.ClassPStruct:
			if present(l, n.Path) {
				empty := true
				for k, s := range l.Set {
					if s != 0 && strings.HasPrefix(k, n.Path+".") {
						empty = false
					}
				}
				for k, v := range l.Present {
					if v && strings.HasPrefix(k, n.Path+".") {
						empty = false
					}
				}
				if empty {
					f.labels["empty-struct-present"] = true
				}
				if n.Class == shape.ClassPStruct && d.DefNil[n.Path] {
					f.labels["pstruct-present-over-nil-default"] = true
				}
			}
		case shape.ClassLeaf:
			seed := l.Set[n.Path]
			if seed == 0 {
				f.absent++
				continue
			}
			f.presentLeaves++
			if n.Depth >= 2 {
				f.deepLeaf++
			}
			t := n.Type
			if bt := strings.TrimPrefix(t.String(), "*"); bt == "pdec.Backoffs" || bt == "pdec.Deadlines" || bt == "pdec.Windows" {
				f.labels["leaf:named-duration-container"] = true
			}
			if isTextColl(t) {
				f.labels["leaf:text-collection"] = true
				f.special = true
				if t.Kind() == reflect.Pointer {
					f.labels["leaf:pointer-to-text-collection"] = true
				}
			}
			if n.Parent != "" && strings.HasPrefix(n.Path, n.Parent+".") {
				for _, pn := range nodes {
					if pn.Path == n.Parent && pn.SF.Anonymous {
						f.labels["leaf:in-embedded-struct"] = true
						f.embPresent[n.Parent] = append(f.embPresent[n.Parent], n.SF.Name)
					}
				}
			}
			if t.Kind() == reflect.Slice && t.Elem() == reflect.TypeOf(Cluster{}) {
				f.labels["leaf:struct-list-with-pointer-member"] = true
				if shape.MakeValue(t, seed, opts).Len() >= 2 {
					f.labels["leaf:struct-list-with-pointer-member:>=2-elements"] = true
				}
			}
			if isStructList(t) {
				f.labels["leaf:struct-list"] = true
				if t.Kind() == reflect.Array {
					f.labels["leaf:struct-array"] = true
				}
			}
			switch {
			case hasType(t, func(x reflect.Type) bool { return x == durT }):
				f.labels["leaf:duration"] = true
				f.special = true
			case hasType(t, isSet):
				f.labels["leaf:set"] = true
				f.special = true
			case hasType(t, func(x reflect.Type) bool { return x == ipT || x == colorT || x == stampT || x == timeT }):
				f.labels["leaf:text"] = true
				f.special = true
			case t.Kind() == reflect.Map:
				f.labels["leaf:map"] = true
			case t.Kind() == reflect.Slice:
				f.labels["leaf:slice"] = true
			case t.Kind() == reflect.Float32 || t.Kind() == reflect.Float64:
				f.labels["leaf:float"] = true
			default:
				f.labels["leaf:scalar"] = true
			}
			if t.Kind() == reflect.Slice && (t.Elem() == stampT || t.Elem() == timeT) {
				f.textStructSlicePresent = true
			}
			if t.Kind() == reflect.Slice || t.Kind() == reflect.Map {
				if v := shape.MakeValue(t, seed, opts); v.Len() == 0 {
					switch {
					case isTextColl(t):
						f.labels["empty-text-collection"] = true
					case isStructList(t):
						f.labels["empty-struct-list"] = true
					case isSet(t):
						f.labels["empty-set"] = true
					case t.Kind() == reflect.Map:
						f.labels["empty-map"] = true
					default:
						f.labels["empty-slice"] = true
					}
				}
			}
		}
	}
	for _, pn := range nodes {
		if !pn.SF.Anonymous || (pn.Class != shape.ClassStruct && pn.Class != shape.ClassPStruct) {
			continue
		}
		f.labels["embedded-struct"] = true
		if pn.SF.Tag.Get("dials") != "" {
			f.labels["embedded-struct-tagged"] = true
		}
		st := pn.Type
		if st.Kind() == reflect.Pointer {
			st = st.Elem()
			f.labels["embedded-by-pointer"] = true
		}
		got := f.embPresent[pn.Path]
		has := func(name string) bool {
			for _, g := range got {
				if g == name {
					return true
				}
			}
			return false
		}
		last, first := st.Field(st.NumField()-1).Name, st.Field(0).Name
		switch {
		case len(got) == 0:
			f.labels["embedded:no-leaf-present"] = true
		case len(got) == st.NumField():
			f.labels["embedded:every-leaf-present"] = true
		case !has(last):
			f.labels["embedded:last-leaf-absent-others-present"] = true
			if len(got) == 1 && has(first) {
				f.labels["embedded:only-first-leaf-present"] = true
			}
		default:
			f.labels["embedded:last-leaf-present-others-absent"] = true
		}
	}
	if f.presentLeaves == 0 {
		f.labels["no-leaf-present"] = true
	}
	if f.absent == 0 {
		f.labels["every-leaf-present"] = true
	}
	return f
}

func checkCase(s shape.Shape, d shape.Data) (reflect.Type, []shape.Node, string) {
	T, err := s.Build()
	if err != nil {
		return nil, nil, "shape does not build"
	}
	if len(d.Layers) != 1 {
		return nil, nil, "case needs exactly one layer"
	}
	return T, shape.Walk(T), ""
}

func runC13Agree(c C13Case) vrt.Verdict {
	T, nodes, bad := checkCase(c.Shape, c.Data)
	if bad != "" {
		return vrt.Discardf("%s", bad)
	}
	docs := append([]C13Doc{{Layer: c.Data.Layers[0], Decoy: c.Decoy, SetEdits: c.SetEdits, Texts: c.Texts}}, c.More...)
	// the four formats, plus the YAML decoder with FlattenAnonymous when the
	// case carries texts for it (cases saved before it existed do not)
	formats := agreeFormats
	for _, doc := range docs {
		for _, f := range agreeFormats[:4] {
			if _, ok := doc.Texts[f]; !ok {
				return vrt.Discardf("missing text")
			}
		}
		if _, ok := doc.Texts["yamlflat"]; !ok {
			formats = agreeFormats[:4]
		}
	}
	b := shape.NewBuilder(T, shape.ValueOpts{Plain: true})
	reused := map[string]dials.Decoder{}
	decoder := func(f string) dials.Decoder {
		if !c.Reuse {
			return decoderFor(f, c.Wrap)
		}
		if reused[f] == nil {
			reused[f] = decoderFor(f, c.Wrap)
		}
		return reused[f]
	}
	type result struct {
		doc    int
		format string
		pt     reflect.Type
		got    reflect.Value
	}
	var results []result
	labelSet := map[string]bool{}
	nt, deep, decoys, omitsEarlier := false, false, 0, false
	everSet := map[string]bool{}
	for di, doc := range docs {
		d := shape.Data{Defaults: c.Data.Defaults, DefNil: c.Data.DefNil, Layers: []shape.Layer{doc.Layer}}
		fx := facts(T, nodes, d)
		for k := range fx.labels {
			labelSet[k] = true
		}
		nt = nt || (fx.deepLeaf > 0 && fx.absent > 0 && fx.special)
		deep = deep || fx.deepLeaf > 0
		decoys += len(doc.Decoy)
		for _, n := range nodes {
			if n.Class == shape.ClassLeaf && everSet[n.Path] && doc.Layer.Set[n.Path] == 0 {
				omitsEarlier = true
			}
		}
		for k, sd := range doc.Layer.Set {
			if sd != 0 {
				everSet[k] = true
			}
		}
		where := fmt.Sprintf("document %d of %d, wrap=%s", di+1, len(docs), c.Wrap)
		want := b.Expected(d)
		if err := applySetEdits(want.Elem(), nodes, doc.Layer, doc.SetEdits); err != nil {
			return vrt.Discardf("%v", err)
		}
		normIPs(want)
		for _, e := range doc.SetEdits {
			switch {
			case e.IntsPresent:
				labelSet["set:integer-members"] = true
				for _, i := range e.Ints {
					if i == 0 {
						labelSet["set:zero-member"] = true
						if len(e.Ints) == 1 {
							labelSet["set:singleton-zero"] = true
						}
					}
				}
			case e.Only:
				labelSet["set:zero-member"], labelSet["set:singleton-zero"] = true, true
			case e.Zero:
				labelSet["set:zero-member"] = true
			}
		}
		stacked := map[string]reflect.Value{}
		for _, f := range formats {
			defaults := b.Defaults(d)
			pt := ptrify.Pointerify(T, defaults.Elem())
			wantLayer, err := b.Layer(pt, doc.Layer)
			if err != nil {
				return vrt.Violationf("pointerified type cannot hold the data: %v", err)
			}
			if err := applySetEdits(wantLayer, nodes, doc.Layer, doc.SetEdits); err != nil {
				return vrt.Discardf("%v", err)
			}
			normIPs(wantLayer)
			got, err := decodeWith(decoder(f), doc.Texts[f], pt)
			if err != nil {
				if fx.textStructSlicePresent {
					return vrt.KeyedViolationf("slice-of-text-struct", "%s decoder (%s) rejects a valid document that sets a slice of text-unmarshalable structs: %v\n%s", f, where, err, doc.Texts[f])
				}
				return vrt.KeyedViolationf("valid-rejected", "%s decoder (%s) rejects a valid document: %v\n%s", f, where, err, doc.Texts[f])
			}
			if !got.IsValid() || got.Type() != pt {
				return vrt.KeyedViolationf("wrong-type", "%s decoder returned %v, want a value of the type it was given", f, got)
			}
			got = addressableCopy(got)
			normIPs(got)
			if df := shape.Diff(wantLayer, got); df != "" {
				return vrt.KeyedViolationf("decode-mismatch", "%s decoder (%s): decoded value differs from the data of this document at %s (want vs got)\n%s", f, where, df, doc.Texts[f])
			}
			results = append(results, result{di, f, pt, got})
			out, err := dials.VerifCompose(defaults.Interface(), []reflect.Value{got})
			if err != nil {
				return vrt.KeyedViolationf("stack-error", "%s (%s): stacking the decoded value over the defaults failed: %v", f, where, err)
			}
			ov := reflect.ValueOf(out)
			if ov.Type() != reflect.PointerTo(T) {
				return vrt.Violationf("%s: stacked value has type %s", f, ov.Type())
			}
			normIPs(ov)
			stacked[f] = ov
		}
		for i, f := range formats {
			for _, g := range formats[i+1:] {
				if df := shape.Diff(stacked[f].Elem(), stacked[g].Elem()); df != "" {
					return vrt.KeyedViolationf("decoders-disagree", "%s and %s configs differ at %s (%s)\n--- %s\n%s--- %s\n%s", f, g, df, where, f, doc.Texts[f], g, doc.Texts[g])
				}
			}
		}
		for _, f := range formats {
			if df := shape.Diff(want.Elem(), stacked[f].Elem()); df != "" {
				return vrt.KeyedViolationf("model-mismatch", "%s config (%s) differs from the reference model at %s (want vs got)\n%s", f, where, df, doc.Texts[f])
			}
		}
	}
	// a value handed out earlier is not changed by later decodes or by stacking
	for _, r := range results {
		wantLayer, err := b.Layer(r.pt, docs[r.doc].Layer)
		if err != nil {
			return vrt.Violationf("pointerified type cannot hold the data: %v", err)
		}
		if err := applySetEdits(wantLayer, nodes, docs[r.doc].Layer, docs[r.doc].SetEdits); err != nil {
			return vrt.Discardf("%v", err)
		}
		normIPs(wantLayer)
		if df := shape.Diff(wantLayer, r.got); df != "" {
			return vrt.KeyedViolationf("earlier-result-mutated", "%s decoder (wrap=%s): the value decoded from document %d of %d was changed afterwards at %s (data vs value now)", r.format, c.Wrap, r.doc+1, len(docs), df)
		}
	}
	labels := []string{"wrap:" + c.Wrap, fmt.Sprintf("documents=%d", len(docs))}
	labels = append(labels, shape.SortedKeys(labelSet)...)
	labels = append(labels, c.Styles...)
	if deep {
		labels = append(labels, "present-leaf-at-depth>=2")
	}
	if decoys > 0 {
		labels = append(labels, "decoy-dials-key")
	}
	if omitsEarlier {
		labels = append(labels, "later-document-omits-earlier-key")
	}
	if c.Reuse {
		labels = append(labels, "decoder-reused")
	}
	for _, n := range nodes {
		for _, tn := range []string{"json", "yaml", "toml"} {
			if strings.Contains(n.SF.Tag.Get(tn), ",") {
				labels = append(labels, "format-tag-with-options:"+tn)
			}
		}
	}
	return vrt.OK(nt, dedup(labels)...)
}

func dedup(in []string) []string {
	seen := map[string]bool{}
	var out []string
	for _, s := range in {
		if !seen[s] {
			seen[s] = true
			out = append(out, s)
		}
	}
	return out
}

var c13Assumptions = []string{
	"every field carries a dials tag; key names are [A-Za-z][A-Za-z0-9_-]* and sibling names (over all formats) differ even when case is ignored, because encoding/json and go-toml match keys case-insensitively",
	"format-specific tags name the field (never \"-\", never options only) and about a third carry options that matter only to encoders (omitempty for json/yaml/toml, flow for yaml on collections and structs); the Cue decoder reads json tags and a cue tag means nothing",
	"a decoy key (the dials name of an absent leaf, written in the documents of those formats where the field has a name of its own) must leave the leaf unset: with a named format tag none of the four libraries falls back to another name, unknown keys are ignored by all of them, and sibling names are unique",
	"the documents of a history are for one type; types come from reflect.StructOf, which returns the identical type for identical shapes, so state kept per type inside a decoder package may also carry over from earlier cases of the run: no case assumes a type it is the first to use",
	"integers stay within the int64 range (TOML cannot spell larger ones) and 64-bit signed values are never math.MinInt64 (Cue v0.6.0 refuses it: \"value was rounded up\"); floats are finite and written in shortest round-trip form, with a fraction or exponent in TOML (go-toml refuses an integer literal for a float field)",
	"strings, map keys and set elements are plain ASCII words: quoting rules of the third-party parsers are not the subject; escape sequences are used only where JSON and Cue string syntax agree (\\uXXXX, \\/) and decode to the same text",
	"a time.Time token is never written with escapes in JSON: time.Time.UnmarshalJSON of the Go standard library parses the bytes between the quotes without unescaping them (go.dev/issue/47353), which no dials code is involved in; in Cue it is (Cue evaluates the literal first)",
	"durations are written as time.Duration.String() text, or integer nanoseconds in JSON and Cue only; times are RFC 3339 UTC with second precision (a native date-time in TOML, an unquoted timestamp or a string in YAML)",
	"a named duration scalar (type Wait time.Duration) is only ever an integer: none of the four decoders accepts duration text for it on the unmodified tree, which makes it the same as the named integer Timeout already in the vocabulary",
	"no []byte, arrays other than the named array of durations, interfaces, or user pointer leaves other than pointers to the text-unmarshalable collections; null is not used (TOML has none)",
	"embedded struct fields are never present-but-empty (the promoting formats cannot spell that); their leaves use names no generated sibling can have",
	"lists of dials-tagged structs ([]S; S has 1-4 tagged leaves, some with a duration, a nested struct or a format-specific tag) always have at least one element: go-toml v1 cannot decode the empty array [] into a slice of structs; inside an element a zero-valued field may be left out of the document (elements are not pointerified, absent = zero); arrays of structs, slices of pointers to structs and maps of structs are left out (the transformer does not carry tags into them)",
	"net.IP values are compared after conversion to the 16-byte form",
	"sets are written as lists under the set-to-slice wrapper (possibly with a repeated element) and as mappings of empty mappings without it; zero-valued members (\"\", 0) and sets of integers occur only under the wrapper, where every format spells them as list elements (an empty or integer mapping key has no common spelling)",
	"config types are built with reflect.StructOf, so decoders are driven through static.StringSource + dials.NewType(Pointerify(T, defaults)) and stacked with the verif-tagged VerifCompose",
}

func TestC13Agree(t *testing.T) {
	vrt.Check(t, vrt.Prop[C13Case]{
		ID: "C13", Name: "agree",
		Rule: "config types (depth<=3, <=5 fields per struct; nested and pointer structs; scalars, named scalars, durations, times, net.IP, Stamp, Color, slices, string-keyed maps, sets of strings and (under the set-to-slice wrapper) of integers, where under the wrapper a set may hold the zero value of its key type - the empty string or 0 - among other members, alone, or not at all, collections of those, non-empty lists of dials-tagged structs whose tags differ from the field names (one element type has a user-declared pointer to a struct and a value struct holding another, so each element must get sub-structs of its own), named collections that unmarshal themselves from text (a slice of structs, a slice of strings, a map, and pointers to them; always spelled as text) named slices, maps and arrays of durations and pointers to them, and embedded structs by value and by pointer (2-5 tagged leaves, at the root and inside nested structs; untagged: leaves promoted into the parent in JSON, Cue and YAML with FlattenAnonymous, nested under the lower-cased type name in plain YAML and under the type name in TOML; with a dials tag and sometimes a differently named format tag on the embedding field: nested under that name everywhere except YAML with FlattenAnonymous, which still promotes)) with a dials tag on every other field and a differently named json/yaml/toml/cue tag on about a quarter of them, a third of those with options (omitempty, flow); " +
			"a history of one to three documents for the same type (independent key subsets and values, so later ones omit keys earlier ones had), decoded one after the other by every decoder (JSON, YAML, TOML, Cue and YAML with FlattenAnonymous), with one Decoder value per format for the whole history or a fresh one per document; some absent leaves appear under their dials name in the formats where the field has its own name (decoy key, must stay unset); " +
			"non-zero defaults; any subset of leaf keys present, struct keys sometimes present with nothing below; the data is rendered by hand-written emitters to JSON, YAML, TOML and Cue (random layout: block/flow, tables/inline/dotted, quoting, key order, durations as text or integer nanoseconds; duration text either as time.Duration prints it or split into microseconds and nanoseconds with the unit written \u00b5s, \u03bcs or us; in JSON keys and string tokens and in Cue string values about half of the tokens spell some or all characters as \\uXXXX escapes) and the texts are stored in the case; " +
			"oracle, per document on its own: each decoder's value equals the pointerified value built from that document's data (absent key = nil, whatever earlier documents held), the four values stacked over the defaults agree pairwise and equal the reference stacking model; at the end no value handed out earlier has changed; " +
			"non-trivial = in some document a leaf at nesting depth >= 2 is present, at least one leaf key is absent and a duration, set or text-unmarshalable leaf is present; distinct = distinct case JSON",
		Assumptions: c13Assumptions,
		Gen:         genC13Agree, Run: runC13Agree,
	})
}

// ---------------------------------------------------------------- corruption

// C13CorruptCase is a valid document per format and the same document with
// one token replaced.
type C13CorruptCase struct {
	Shape shape.Shape `json:"shape"`
	Data  shape.Data  `json:"data"`
	Wrap  string      `json:"wrap"`
	Kind  string      `json:"kind"` // which corruption
	Path  string      `json:"path"` // Go field path of the corrupted value ("" for trailing-garbage)
	// Stray holds, for trailing-garbage, the token appended to each format's
	// valid document (labels and messages only; Bad is what is decoded).
	Stray map[string]string `json:"stray,omitempty"`
	Valid map[string]string `json:"valid"`
	Bad   map[string]string `json:"bad"`
}

var corruptKinds = []string{"bare-word", "string-for-number", "unterminated-string", "unterminated-bracket", "list-for-struct", "list-for-map", "scalar-for-list", "scalar-for-struct", structureForText, structureForText, unitDropped, unitDropped}

// unitDropped writes a time.Duration leaf as a quoted number without a unit
// ("1500ms" -> "1500"): time.ParseDuration refuses that ("missing unit") for
// every non-zero number, and all four decoders hand the text to it.
const unitDropped = "duration-unit-dropped"

// structureForText spells a text-unmarshalable collection (PeerList, WordList,
// KVMap or a pointer to one) by its structure (a list of objects, a list of
// strings, a mapping) instead of its text.  encoding/json and Cue must refuse
// that for a type that unmarshals itself from text; yaml.v2 and go-toml fill
// the underlying slice or map whatever methods the type has, so the YAML and
// TOML documents are left alone (no corrupted text for them).
const structureForText = "structure-for-text"

var structureForTextFormats = map[string]bool{"json": true, "cue": true}

// trailingKind appends one stray token after the complete valid document.
const trailingKind = "trailing-garbage"

// Tokens that each format's grammar must refuse after a complete document
// (every pair was confirmed to be rejected on the unchanged tree; see the
// assumptions of C13/corrupt for the pairs that were dropped).
var trailingTokens = map[string][]string{
	"json": {"}", "]", `"zzqx"`, "zzqx", "<<<<<<< HEAD", "{", `{"zzqx"`, ",", ":", "5", "["},
	"yaml": {"}", "]", `"zzqx"`, "zzqx", "<<<<<<< HEAD", "{", `{"zzqx"`, ",", "=", "5", "["},
	"toml": {"}", "]", `"zzqx"`, "zzqx", "<<<<<<< HEAD", "{", `{"zzqx"`, ",", "=", "5", "[", "zzqx ="},
	"cue":  {"}", "]", `"zzqx"`, "zzqx", "<<<<<<< HEAD", "{", `{"zzqx"`, ":", "=", "5", "["},
}

// Whitespace between the document and the stray token.  In YAML the token
// stays in column 0: indented under a root-level plain scalar it would be a
// legal continuation line of that scalar ("host: abc\n }" is "abc }").
var trailingSeps = map[string][]string{
	"json": {"", "\n", " ", "\n\n", "\t"},
	"yaml": {"", "\n", "\n\n"},
	"toml": {"", "\n", " ", "\n\n", "\t"},
	"cue":  {"", "\n", " ", "\n\n", "\t"},
}

func eligible(kind string, n *dnode) bool {
	isNum := false
	isBool := false
	isStr := false
	if n.kind == 's' {
		switch n.val.(type) {
		case int64, uint64, f32, float64:
			isNum = true
		case bool:
			isBool = true
		case string, interface{ String() string }: // string, time.Duration (time.Time is excluded below)
			isStr = true
		}
		if n.typ == timeT {
			isStr = false
		}
	}
	switch kind {
	case unitDropped:
		_, isDur := n.val.(time.Duration)
		return n.kind == 's' && isDur && n.typ == durT
	case structureForText:
		return n.kind == 's' && n.typ != nil && isTextColl(n.typ)
	case "bare-word":
		return isNum || isBool || (n.kind == 's' && n.typ == timeT)
	case "string-for-number":
		return isNum || isBool
	case "unterminated-string":
		return isStr
	case "unterminated-bracket":
		return n.kind == 'l' || n.kind == 'm'
	case "list-for-struct":
		return n.kind == 'm' && n.isStruct
	case "list-for-map":
		return n.kind == 'm' && !n.isStruct
	case "scalar-for-list":
		return n.kind == 'l'
	case "scalar-for-struct":
		return n.kind == 'm' && n.isStruct
	}
	return false
}

func fieldNodes(n *dnode, out *[]*dnode) {
	for _, k := range n.kids {
		if k.path == "" {
			continue
		}
		*out = append(*out, k)
		if k.isStruct {
			fieldNodes(k, out)
		}
	}
}

func zeroPick(string, int) int { return 0 }

func corruptToken(kind, format string, n *dnode) string {
	switch kind {
	case unitDropped:
		d := n.val.(time.Duration)
		ms := int64(d / time.Millisecond)
		if ms == 0 {
			ms = 1500 // "0" alone is a valid duration
			if d < 0 {
				ms = -1500
			}
		}
		return `"` + strconv.FormatInt(ms, 10) + `"`
	case "bare-word":
		return "zzqx"
	case "string-for-number":
		return `"zzqx"`
	case "unterminated-string":
		s, ok := n.val.(string)
		if !ok {
			s = n.val.(fmt.Stringer).String()
		}
		q := jq(s)
		return q[:len(q)-1]
	case "unterminated-bracket":
		s := inlineOf(format, n, zeroPick)
		return strings.TrimRight(s[:len(s)-1], " ")
	case "list-for-struct", "list-for-map":
		return "[1, 2]"
	}
	return "5"
}

type recPick struct {
	rec    []int
	pos    int
	replay bool
	draw   pick
	forced map[string]int
}

func (r *recPick) pick(label string, n int) int {
	if v, ok := r.forced[label]; ok {
		return v
	}
	if r.replay {
		if r.pos < len(r.rec) {
			v := r.rec[r.pos] % n
			r.pos++
			return v
		}
		return 0
	}
	v := r.draw(label, n)
	r.rec = append(r.rec, v)
	return v
}

func genC13Corrupt(t *rapid.T) C13CorruptCase {
	s, T, nodes, d := genShapeData(t, false, false)
	l := d.Layers[0]
	some := len(l.Present) > 0
	for _, sd := range l.Set {
		if sd != 0 {
			some = true
		}
	}
	if !some {
		for _, n := range nodes {
			if n.Class == shape.ClassLeaf {
				l.Set[n.Path] = rapid.Uint64Range(1, 1<<40).Draw(t, "forced_seed")
				break
			}
		}
		avoidMinInt64(nodes, l)
	}
	c := C13CorruptCase{Shape: s, Data: d, Valid: map[string]string{}, Bad: map[string]string{}}
	c.Wrap = rapid.SampledFrom([]string{"none", "setslice", "ez"}).Draw(t, "wrap")
	base := rapidPick(t, nil)
	trees := map[string]*dnode{}
	for _, f := range formats {
		trees[f] = buildDoc(T, l, docExtras{}, f, c.Wrap != "none", base)
	}
	var fns []*dnode
	fieldNodes(trees["json"], &fns)
	type cand struct {
		kind string
		ns   []*dnode
	}
	var cands []cand
	for _, k := range corruptKinds {
		var ns []*dnode
		for _, n := range fns {
			if eligible(k, n) {
				ns = append(ns, n)
			}
		}
		if len(ns) > 0 {
			cands = append(cands, cand{k, ns})
		}
	}
	if len(cands) == 0 {
		t.Fatalf("no corruptible token in a non-empty document")
	}
	// one case in eight (rapid favours the ends of a range, so the hit is
	// an inner value)
	if rapid.IntRange(0, 7).Draw(t, "trailing_garbage") == 3 {
		c.Kind = trailingKind
	} else {
		cd := cands[rapid.IntRange(0, len(cands)-1).Draw(t, "corrupt_kind")]
		c.Kind = cd.kind
		c.Path = cd.ns[rapid.IntRange(0, len(cd.ns)-1).Draw(t, "corrupt_node")].path
	}
	if err := corruptTexts(&c, trees, base); err != nil {
		t.Fatalf("%v", err)
	}
	return c
}

// corruptTexts renders the valid documents and, after replacing the node at
// c.Path by the corrupt token of c.Kind, the corrupted ones (same layout).
func corruptTexts(c *C13CorruptCase, trees map[string]*dnode, base pick) error {
	// A double quote that is never closed must stay the only double quote of a
	// YAML or TOML document: a later one would close the string (YAML strings
	// span lines) or hide in a comment.  Everything else is then written with
	// single quotes and bare keys.
	forced := map[string]int{}
	if c.Kind == "unterminated-string" {
		forced = map[string]int{"yaml_strq": 1, "yaml_key_quoted": 1, "toml_literal_str": 0, "toml_key_quoted": 1}
	}
	if c.Kind == trailingKind {
		// yaml.v2 reads the first document only and a flow mapping at the root
		// ends it: whatever follows is never looked at.  The YAML document is
		// therefore written in block style, where a stray token is still part
		// of the root mapping.
		forced = map[string]int{"yaml_flow_doc": 1}
		c.Stray = map[string]string{}
	}
	for _, f := range formats {
		rp := &recPick{draw: base, forced: forced}
		c.Valid[f] = render(f, trees[f], rp.pick)
		if c.Kind == trailingKind {
			toks := trailingTokens[f]
			c.Stray[f] = toks[base("trailing_token", len(toks))]
			seps := trailingSeps[f]
			c.Bad[f] = trailingText(c.Valid[f], seps[base("trailing_sep", len(seps))], c.Stray[f], base("trailing_newline", 2) == 0)
			continue
		}
		n := trees[f].find(c.Path)
		if n == nil {
			return fmt.Errorf("harness: path %s not found in the %s tree", c.Path, f)
		}
		if !eligible(c.Kind, n) {
			return fmt.Errorf("harness: corruption %s does not apply to %s", c.Kind, c.Path)
		}
		if c.Kind == structureForText && !structureForTextFormats[f] {
			continue
		}
		tok := corruptToken(c.Kind, f, n)
		if c.Kind == structureForText {
			v := shape.MakeValue(n.typ, c.Data.Layers[0].Set[c.Path], shape.ValueOpts{Plain: true})
			tok = inlineOf(f, structureNode(v, f, c.Wrap != "none", zeroPick), zeroPick)
		}
		n.kind, n.raw, n.kids = 'r', tok, nil
		rp.replay = true
		c.Bad[f] = render(f, trees[f], rp.pick)
		if c.Kind == "unterminated-string" && (f == "yaml" || f == "toml") && strings.Count(c.Bad[f], `"`) != 1 {
			return fmt.Errorf("harness: the unterminated quote is not the only double quote of the %s document:\n%s", f, c.Bad[f])
		}
	}
	return nil
}

func trailingText(valid, sep, tok string, finalNewline bool) string {
	s := valid + sep + tok
	if finalNewline {
		s += "\n"
	}
	return s
}

func runC13Corrupt(c C13CorruptCase) vrt.Verdict {
	T, nodes, bad := checkCase(c.Shape, c.Data)
	if bad != "" {
		return vrt.Discardf("%s", bad)
	}
	d := c.Data
	fx := facts(T, nodes, d)
	b := shape.NewBuilder(T, shape.ValueOpts{Plain: true})
	pt := ptrify.Pointerify(T, b.Defaults(d).Elem())
	for _, f := range formats {
		valid, ok1 := c.Valid[f]
		badText, ok2 := c.Bad[f]
		if ok1 && !ok2 && c.Kind == structureForText && !structureForTextFormats[f] {
			// the structural spelling is legal for this format's library
			if _, err := decodeText(f, c.Wrap, valid, pt); err != nil {
				return vrt.KeyedViolationf("valid-rejected", "%s decoder (wrap=%s) rejects the valid document: %v\n%s", f, c.Wrap, err, valid)
			}
			continue
		}
		if !ok1 || !ok2 {
			return vrt.Discardf("missing text")
		}
		if valid == badText {
			return vrt.Discardf("corrupted text equals the valid text")
		}
		if _, err := decodeText(f, c.Wrap, valid, pt); err != nil {
			return vrt.KeyedViolationf("valid-rejected", "%s decoder (wrap=%s) rejects the valid document: %v\n%s", f, c.Wrap, err, valid)
		}
		got, err := decodeText(f, c.Wrap, badText, pt)
		if err == nil {
			return vrt.KeyedViolationf("corrupt-accepted", "%s decoder (wrap=%s) accepts a document corrupted by %s at %q: value %v\n--- valid\n%s--- corrupted\n%s", f, c.Wrap, c.Kind, c.Path, got, valid, badText)
		}
		if got.IsValid() && !got.IsZero() {
			return vrt.KeyedViolationf("partial-value", "%s decoder (wrap=%s) returns error %q together with a partially filled value %v for\n%s", f, c.Wrap, err, got, badText)
		}
	}
	if c.Kind == trailingKind {
		labels := []string{"wrap:" + c.Wrap, "kind:" + c.Kind}
		for _, f := range formats {
			if tok, ok := c.Stray[f]; ok {
				labels = append(labels, "stray:"+f+":"+tok)
			}
		}
		return vrt.OK(fx.presentLeaves >= 3, labels...)
	}
	depth := strings.Count(c.Path, ".")
	labels := []string{"wrap:" + c.Wrap, "kind:" + c.Kind, "depth:" + strconv.Itoa(depth)}
	others := fx.presentLeaves
	return vrt.OK(depth >= 1 && others >= 3, labels...)
}

func TestC13Corrupt(t *testing.T) {
	vrt.Check(t, vrt.Prop[C13CorruptCase]{
		ID: "C13", Name: "corrupt",
		Rule: "a valid document per format as in C13/agree (at least one key present), then one value token chosen by type is replaced in all four documents: a bare word where a number, bool or time is expected, a quoted string where a number or bool is expected, a string without its closing quote, a list/mapping without its closing bracket, a list where a struct or a map is expected, a number where a list or a struct is expected, the structural spelling (list of objects, list of strings, mapping) of a named collection that unmarshals itself from text (JSON and Cue documents only), a duration written as a quoted non-zero number whose unit was dropped; " +
			"in about 12% of the cases nothing is replaced and instead (trailing-garbage) one stray token from a per-format list (closing/opening bracket, quoted or bare word, conflict marker, the start of a second object, comma, colon, equals sign, number) follows the complete valid document after optional whitespace; " +
			"oracle: the valid document decodes without error; the corrupted one returns an error and an invalid or all-nil value from every decoder; " +
			"non-trivial = at least three leaves are present in the document and the corrupted value is inside a nested struct (trailing-garbage: at least three leaves present); distinct = distinct case JSON",
		Assumptions: append(append([]string{}, c13Assumptions...),
			"only corruptions that the grammar or the target type of every format must refuse are used; a float where an integer is expected is not among them (yaml.v2 truncates it by design)",
			"structure-for-text corrupts the JSON and Cue documents only: yaml.v2 and go-toml decode a sequence or table into the underlying slice or map of a named collection even when the type unmarshals itself from text (confirmed on the unmodified tree), so that spelling is legal there",
			"the replacement word zzqx is not a key of any generated document (Cue would read it as a reference to that field)",
			"trailing-garbage uses only (format, token, separator) combinations that the unchanged decoders were confirmed to reject (2983 documents per combination); dropped: Cue ',' (a trailing comma after the top-level fields is legal Cue); YAML 'zzqx:' and '? zzqx' (one more key with a null value, unknown keys are ignored) and '- zzqx' (one more element when the document ends in a root-level block sequence); YAML separators that indent the token (a continuation line of a root-level plain scalar)",
			"for trailing-garbage the YAML document is written in block style: yaml.v2 Unmarshal reads the first document only, a flow mapping at the root ends that document and whatever follows ('{a: 1}\\n}') is never parsed, so every token is accepted there; that is the third-party parser's reading of a stream, not something the dials decoder decides",
		),
		Gen: genC13Corrupt, Run: runC13Corrupt,
	})
}
