module verifharness

go 1.26.8

require (
	github.com/vimeo/dials v0.0.0
	pgregory.net/rapid v1.3.0
)

require golang.org/x/text v0.19.0 // indirect

replace github.com/vimeo/dials => /repo
