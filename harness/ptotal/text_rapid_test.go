package ptotal

import (
	"encoding/json"
	"fmt"
	"testing"

	"pgregory.net/rapid"

	"verifharness/internal/vrt"
)

// TextCase is the input of one text-side execution.  Data is raw bytes
// (base64 in JSON) so that invalid UTF-8 survives the journal.
type TextCase struct {
	Sel  int    `json:"sel"`
	Data []byte `json:"data"`
}

// mutate applies one byte-level edit to b, drawing everything from rapid.
func mutate(t *rapid.T, b []byte, alphabet []string) []byte {
	frag := func() []byte {
		if rapid.Bool().Draw(t, "frag_hostile") {
			h := rapid.SampledFrom(hostile).Draw(t, "frag_h")
			if len(h) > 40 {
				h = h[:40]
			}
			return []byte(h)
		}
		return []byte(rapid.SampledFrom(alphabet).Draw(t, "frag_a"))
	}
	pos := func() int { return rapid.IntRange(0, len(b)).Draw(t, "pos") }
	switch rapid.IntRange(0, 6).Draw(t, "mut") {
	case 0: // insert a fragment
		p := pos()
		return append(append(append([]byte{}, b[:p]...), frag()...), b[p:]...)
	case 1: // delete a span
		if len(b) == 0 {
			return b
		}
		p := rapid.IntRange(0, len(b)-1).Draw(t, "del_at")
		n := rapid.IntRange(1, min(8, len(b)-p)).Draw(t, "del_n")
		return append(append([]byte{}, b[:p]...), b[p+n:]...)
	case 2: // overwrite one byte
		if len(b) == 0 {
			return b
		}
		p := rapid.IntRange(0, len(b)-1).Draw(t, "ow_at")
		c := append([]byte{}, b...)
		c[p] = rapid.Byte().Draw(t, "ow_b")
		return c
	case 3: // duplicate a span
		if len(b) == 0 {
			return b
		}
		p := rapid.IntRange(0, len(b)-1).Draw(t, "dup_at")
		n := rapid.IntRange(1, min(16, len(b)-p)).Draw(t, "dup_n")
		k := rapid.IntRange(1, 4).Draw(t, "dup_k")
		out := append([]byte{}, b[:p+n]...)
		for i := 0; i < k; i++ {
			out = append(out, b[p:p+n]...)
		}
		return append(out, b[p+n:]...)
	case 4: // truncate
		return append([]byte{}, b[:pos()]...)
	case 5: // replace a span by a fragment
		if len(b) == 0 {
			return frag()
		}
		p := rapid.IntRange(0, len(b)-1).Draw(t, "rep_at")
		n := rapid.IntRange(1, min(6, len(b)-p)).Draw(t, "rep_n")
		return append(append(append([]byte{}, b[:p]...), frag()...), b[p+n:]...)
	default: // swap two halves
		p := pos()
		return append(append([]byte{}, b[p:]...), b[:p]...)
	}
}

func genText(tg *textTarget) func(t *rapid.T) TextCase {
	return func(t *rapid.T) TextCase {
		c := TextCase{Sel: rapid.IntRange(0, tg.nsel-1).Draw(t, "sel")}
		if len(tg.hotSels) > 0 && rapid.IntRange(0, 5).Draw(t, "hot") == 0 {
			c.Sel = rapid.SampledFrom(tg.hotSels).Draw(t, "hotsel")
		}
		k := rapid.IntRange(0, 9).Draw(t, "class")
		if tg.structured != nil && rapid.IntRange(0, 9).Draw(t, "structured") < 4 {
			b := tg.structured(t, c.Sel)
			if k >= 5 { // half of the structured inputs are then mutated
				n := rapid.IntRange(1, 2).Draw(t, "nmut")
				for i := 0; i < n; i++ {
					b = mutate(t, b, tg.alphabet)
				}
			}
			c.Data = b
			return c
		}
		switch {
		case k == 0:
			c.Data = rapid.SliceOfN(rapid.Byte(), 0, 64).Draw(t, "bytes")
		case k == 1:
			c.Data = []byte(rapid.StringN(0, 48, -1).Draw(t, "string"))
		case k == 2:
			c.Data = []byte(rapid.SampledFrom(hostile).Draw(t, "hostile"))
		case k == 3:
			s := rapid.SampledFrom(tg.seeds).Draw(t, "seed")
			c.Data = []byte(s.data)
			if rapid.Bool().Draw(t, "seed_sel") {
				c.Sel = s.sel % tg.nsel
			}
		case k <= 6:
			s := rapid.SampledFrom(tg.seeds).Draw(t, "seed")
			b := []byte(s.data)
			if rapid.Bool().Draw(t, "seed_sel") {
				c.Sel = s.sel % tg.nsel
			}
			n := rapid.IntRange(1, 4).Draw(t, "nmut")
			for i := 0; i < n; i++ {
				b = mutate(t, b, tg.alphabet)
			}
			c.Data = b
		default:
			n := rapid.IntRange(1, 14).Draw(t, "ntok")
			var b []byte
			for i := 0; i < n; i++ {
				b = append(b, rapid.SampledFrom(tg.alphabet).Draw(t, "tok")...)
			}
			c.Data = b
		}
		return c
	}
}

func runText(tg *textTarget) func(c TextCase) vrt.Verdict {
	return func(c TextCase) vrt.Verdict {
		if c.Sel < 0 {
			return vrt.Discardf("negative selector")
		}
		if hungIn("C16.text-" + tg.name) {
			// a hung goroutine is still alive: do not pile up more of them while rapid shrinks
			return vrt.OK(false, "skipped-after-hang")
		}
		if js, err := json.Marshal(c); err == nil {
			currentCase.Store(js)
			currentCheck.Store("C16.text-" + tg.name)
		}
		r := tg.run(c.Sel%tg.nsel, c.Data)
		if r.viol != nil {
			return vrt.KeyedViolationf(r.viol.key, "selector %d (%s): %s", c.Sel%tg.nsel, tg.selNames(c.Sel%tg.nsel), r.viol.msg)
		}
		return vrt.OK(r.nt, r.labels...)
	}
}

func textProp(tg *textTarget, what, ntRule string, assumptions ...string) vrt.Prop[TextCase] {
	return vrt.Prop[TextCase]{
		ID: "C16", Name: "text-" + tg.name,
		Rule: "(selector, bytes) pairs: selector uniform over " + fmt.Sprint(tg.nsel) + " " + what + "; bytes drawn from a mix of arbitrary bytes, arbitrary unicode strings, hostile constants " +
			"(empty, quotes, backslashes, NUL, invalid UTF-8, huge numbers, deep nesting), literals of the repository's own tests, 1-4 byte-level mutations of such literals, concatenations of grammar tokens, and (decoders, flags) structured inputs that parse: " +
			"documents of 1-5 (key path of the config type, value from a pool of fitting and ill-fitting values) pairs / argument vectors of 1-5 -name=value items, half of them mutated; " +
			"oracle: the call returns within " + hangLimit.String() + " (only a genuine hang fails; after the first hang of a check the violation is reported at once and its later cases are skipped), does not panic, and on success its result has the requested type; " +
			"non-trivial = " + ntRule + "; distinct = distinct (selector, bytes)",
		Assumptions: append([]string{"the same target function is the body of the native fuzz target Fuzz" + "C16*; the rapid version exists so the quick tier is reproducible from a seed"}, assumptions...),
		Gen:         genText(tg), Run: runText(tg),
	}
}

func TestC16TextParseString(t *testing.T) {
	vrt.Check(t, textProp(tgtParseString, "reflect types (every kind parse.String documents, named types, nested collections, and the kinds it does NOT support - uintptr, named uintptr, chan, func, struct, interface, pointer, array, unsafe.Pointer - alone and as slice element, map value and map key; a sixth of the cases picks one of those, and 40% of all inputs are text that is WELL-FORMED for the selected type: numbers for numeric kinds, uintptr included, comma lists, k:v lists, a plain number where no spelling exists)",
		"the call succeeded or failed on an element / key / overflow check (past the top-level syntax check)",
		"success means: a value of the requested type for slices and maps, a non-nil pointer to it otherwise (the shape StringCastingMangler relies on); an invalid reflect.Value with a nil error is a violation"))
}

func TestC16TextSplitters(t *testing.T) {
	vrt.Check(t, textProp(tgtSplitters, "splitter functions (StringSlice, StringSet, StringStringSliceMap, Map at three map types, the 11 integral-slice instantiations)",
		"at least one element was produced, or the error came from an element / key check"))
}

func TestC16TextCaseDecoders(t *testing.T) {
	vrt.Check(t, textProp(tgtCase, "case decoders; a successfully decoded identifier is also fed to all six encoders, as the tag manglers do; 30% of the inputs are identifiers made of 10..40 golint initialisms (one repeated, or mixed) with a 0-2 letter non-initialism tail, bare or in camel / snake / kebab context",
		"the identifier was accepted by the decoder"))
}

func TestC16TextParsingDuration(t *testing.T) {
	vrt.Check(t, textProp(tgtDuration, "entry modes (UnmarshalJSON directly, json.Unmarshal, as struct / slice / map member)",
		"accepted, or rejected by the duration / integer parser rather than by the JSON tokenizer"))
}

func TestC16TextDecodeJSON(t *testing.T) {
	vrt.Check(t, textProp(tgtJSON, "fixed config types (cfgDB, cfgFlat, cfgNested, cfgNamed)", "the document parsed and set at least one field, or parsed and was rejected for not fitting the type"))
}

func TestC16TextDecodeYAML(t *testing.T) {
	vrt.Check(t, textProp(tgtYAML, "(fixed config type, FlattenAnonymous) pairs", "the document parsed and set at least one field, or parsed and was rejected for not fitting the type"))
}

func TestC16TextDecodeTOML(t *testing.T) {
	vrt.Check(t, textProp(tgtTOML, "fixed config types", "the document parsed and set at least one field, or parsed and was rejected for not fitting the type"))
}

func TestC16TextDecodeCue(t *testing.T) {
	vrt.Check(t, textProp(tgtCue, "fixed config types", "the document compiled and set at least one field, or compiled and was rejected for not fitting the type"))
}

func TestC16TextEnvValue(t *testing.T) {
	vrt.Check(t, textProp(tgtEnv, "choices: which environment variable of cfgEnv carries the bytes (one per flattened leaf, plus 'all of them'), or - picked in a sixth of the cases - a one-leaf config type whose field NAME / dials TAG is made from the bytes (letters, digits, '_', '-'; often a long run of initialisms), so that the source's own name derivation runs the case decoders over it",
		"the value reached the string-casting stage (any outcome other than the OS rejecting the value)",
		"a value containing NUL is rejected by os.Setenv and never reaches dials", "environment variables are restored after every case"))
}

func TestC16TextFlagArgs(t *testing.T) {
	vrt.Check(t, textProp(tgtFlag, "modes: cfgFlag with the bytes split on newlines into at most 24 arguments, or a one-leaf config type whose field NAME / dials TAG is made from the bytes (often a long run of initialisms) with its flag given",
		"a flag was set, or a flag value was rejected by its parser / overflow check",
		"a generated dials tag consists of letters, digits, '_' and '-' and starts with a letter: a tag without letters flattens to an empty name (env panics deliberately), one with '=' or a leading '-' is refused by the flag package with a panic - programming errors, not inputs"))
}

func TestC16TextPflagArgs(t *testing.T) {
	vrt.Check(t, textProp(tgtPflag, "modes: cfgFlag with the bytes split on newlines into at most 24 arguments, or a one-leaf config type whose field NAME / dials TAG is made from the bytes (often a long run of initialisms) with its flag given",
		"a flag was set, or a flag value was rejected by its parser"))
}
