package ptotal

import (
	"bytes"
	"context"
	"encoding/json"
	"fmt"
	"io"
	"os"
	"reflect"
	"regexp"
	"strconv"
	"strings"
	"time"
	"unsafe"

	"github.com/vimeo/dials"
	cuedec "github.com/vimeo/dials/decoders/cue"
	jsondec "github.com/vimeo/dials/decoders/json"
	"github.com/vimeo/dials/decoders/json/jsontypes"
	tomldec "github.com/vimeo/dials/decoders/toml"
	yamldec "github.com/vimeo/dials/decoders/yaml"
	"github.com/vimeo/dials/parse"
	"github.com/vimeo/dials/ptrify"
	"github.com/vimeo/dials/sources/env"
	"github.com/vimeo/dials/sources/flag"
	"github.com/vimeo/dials/sources/pflag"
	"github.com/vimeo/dials/tagformat/caseconversion"
	"pgregory.net/rapid"

	"verifharness/internal/shape"
)

// textResult is what one execution of a text target reports.
type textResult struct {
	labels []string
	nt     bool // input got past the first validation branch
	viol   *violation
}

// textTarget is one text-side entry point, shared by the native fuzz target
// and the rapid test.
type textTarget struct {
	name     string
	nsel     int // number of meaningful selector values
	selNames func(sel int) string
	run      func(sel int, data []byte) textResult
	seeds    []textSeed // literals from the repository's tests and valid examples
	alphabet []string   // tokens the rapid generator assembles inputs from
	// structured, if set, draws an input that passes the target's outer
	// syntax check (a parsing document, a well-formed argument vector).
	structured func(t *rapid.T, sel int) []byte
	// hotSels are selectors the rapid generator picks more often than their
	// uniform share (the input-named field / tag modes of the source targets).
	hotSels []int
}

type textSeed struct {
	sel  int
	data string
}

// ---------------------------------------------------------------- parse.String

type psType struct {
	name     string
	t        reflect.Type
	knownKey string // non-empty: this type triggers the named genuine defect
}

func rt[T any]() reflect.Type { return reflect.TypeOf((*T)(nil)).Elem() }

// psTypes is append-only: fuzz corpora store indices into it.
var psTypes = []psType{
	{"string", rt[string](), ""},
	{"bool", rt[bool](), ""},
	{"int", rt[int](), ""},
	{"int8", rt[int8](), ""},
	{"int16", rt[int16](), ""},
	{"int32", rt[int32](), ""},
	{"int64", rt[int64](), ""},
	{"uint", rt[uint](), ""},
	{"uint8", rt[uint8](), ""},
	{"uint16", rt[uint16](), ""},
	{"uint32", rt[uint32](), ""},
	{"uint64", rt[uint64](), ""},
	{"float32", rt[float32](), ""},
	{"float64", rt[float64](), ""},
	{"complex64", rt[complex64](), ""},
	{"complex128", rt[complex128](), ""},
	{"time.Duration", rt[time.Duration](), ""},
	{"[]string", rt[[]string](), ""},
	{"[]int", rt[[]int](), ""},
	{"[]int8", rt[[]int8](), ""},
	{"[]uint16", rt[[]uint16](), ""},
	{"[]uint8", rt[[]uint8](), ""},
	{"[]float64", rt[[]float64](), ""},
	{"[]float32", rt[[]float32](), ""},
	{"[]bool", rt[[]bool](), ""},
	{"[]time.Duration", rt[[]time.Duration](), ""},
	{"[]complex128", rt[[]complex128](), ""},
	{"map[string]string", rt[map[string]string](), ""},
	{"map[string]int", rt[map[string]int](), ""},
	{"map[int]string", rt[map[int]string](), ""},
	{"map[string]bool", rt[map[string]bool](), ""},
	{"map[float64]uint8", rt[map[float64]uint8](), ""},
	{"map[bool]int64", rt[map[bool]int64](), ""},
	{"map[string]time.Duration", rt[map[string]time.Duration](), ""},
	{"map[time.Duration]string", rt[map[time.Duration]string](), ""},
	{"map[string]complex64", rt[map[string]complex64](), ""},
	{"map[string][]string", rt[map[string][]string](), ""},
	{"map[string]struct{}", rt[map[string]struct{}](), ""},
	// kinds the function documents as unsupported: must come back as errors
	{"uintptr", rt[uintptr](), ""},
	{"struct", rt[struct{ A int }](), ""},
	{"time.Time", rt[time.Time](), ""},
	{"[2]int", rt[[2]int](), ""},
	{"*int", rt[*int](), ""},
	{"interface{}", rt[interface{}](), ""},
	{"chan int", rt[chan int](), ""},
	{"func()", rt[func()](), ""},
	{"[]*int", rt[[]*int](), ""},
	{"[]struct", rt[[]struct{ A int }](), ""},
	{"map[string][]int", rt[map[string][]int](), ""},
	{"map[string]*int", rt[map[string]*int](), ""},
	{"map[string]map[string]int", rt[map[string]map[string]int](), ""},
	{"map[[2]int]string", rt[map[[2]int]string](), ""},
	// named types and nested collections (genuine defects on the pinned tree)
	{"Names", rt[shape.Names](), ""},
	{"Nums", rt[shape.Nums](), ""},
	{"Limits", rt[shape.Limits](), ""},
	{"Labels", rt[shape.Labels](), ""},
	{"TagSet", rt[TagSet](), ""},
	{"NameLists", rt[NameLists](), ""},
	{"Level", rt[shape.Level](), keyNamedScalar},
	{"Name", rt[shape.Name](), keyNamedScalar},
	{"Timeout", rt[shape.Timeout](), keyNamedScalar},
	{"Phase", rt[Phase](), keyNamedScalar},
	{"Flag", rt[shape.Flag](), keyNamedScalar},
	{"[]Count", rt[[]shape.Count](), keyNamedElem},
	{"[]Name", rt[[]shape.Name](), keyNamedElem},
	{"map[string]Level", rt[map[string]shape.Level](), keyNamedElem},
	{"map[Name]string", rt[map[shape.Name]string](), keyNamedElem},
	{"ByName", rt[ByName](), keyNamedElem},
	{"[][]string", rt[[][]string](), keyNestedCollection},
	{"[][]int", rt[[][]int](), keyNestedCollection},
	{"[]map[string]int", rt[[]map[string]int](), keyNestedCollection},
	{"[]map[string][]string", rt[[]map[string][]string](), keyNestedCollection},
	// uintptr-kind types in every position (the string path does not support
	// the kind: each must come back as an error, also for well-formed numbers)
	{"Handle", rt[Handle](), ""},
	{"*uintptr", rt[*uintptr](), ""},
	{"[]uintptr", rt[[]uintptr](), ""},
	{"[]Handle", rt[[]Handle](), ""},
	{"map[string]uintptr", rt[map[string]uintptr](), ""},
	{"map[string]Handle", rt[map[string]Handle](), ""},
	{"map[uintptr]string", rt[map[uintptr]string](), ""},
	{"map[Handle]int", rt[map[Handle]int](), ""},
	{"[]chan int", rt[[]chan int](), ""},
	{"map[string]func()", rt[map[string]func()](), ""},
	{"map[string]interface{}", rt[map[string]interface{}](), ""},
	{"[]interface{}", rt[[]interface{}](), ""},
	{"map[string]struct{A int}", rt[map[string]struct{ A int }](), ""},
	{"unsafe.Pointer", rt[unsafe.Pointer](), ""},
}

// psUnsupported lists the selectors of the types whose kind (or element / key
// kind) parse.String does not support; the rapid generator visits them more
// often and with well-formed text.
var psUnsupported = func() []int {
	var out []int
	var bad func(t reflect.Type, depth int) bool
	bad = func(t reflect.Type, depth int) bool {
		switch t.Kind() {
		case reflect.Uintptr, reflect.Chan, reflect.Func, reflect.Interface, reflect.Struct, reflect.Array, reflect.Pointer, reflect.UnsafePointer:
			return !(t.Kind() == reflect.Struct && t.NumField() == 0 && depth > 0) // a set's struct{} element is supported
		case reflect.Slice:
			return bad(t.Elem(), depth+1)
		case reflect.Map:
			return bad(t.Key(), depth+1) || bad(t.Elem(), depth+1)
		}
		return false
	}
	for i, p := range psTypes {
		if bad(p.t, 0) {
			out = append(out, i)
		}
	}
	return out
}()

// wellFormedText draws text that is well-formed for a value of type t as far
// as any spelling exists: numbers for numeric kinds (uintptr included), k:v
// lists for maps, comma lists for slices, a plain number for everything that
// has no spelling at all (chan, func, struct, interface, pointer, array).
func wellFormedText(t *rapid.T, ty reflect.Type, depth int) string {
	num := func() string {
		return rapid.SampledFrom([]string{"1", "0", "42", "255", "256", "65535", "4294967296", "18446744073709551615", "0x10", "0b101", "0o17", "1_000", "7"}).Draw(t, "wf_num")
	}
	switch ty.Kind() {
	case reflect.Bool:
		return rapid.SampledFrom([]string{"true", "false", "1", "0"}).Draw(t, "wf_bool")
	case reflect.String:
		return rapid.SampledFrom([]string{"a", "k", "word", "x1"}).Draw(t, "wf_str")
	case reflect.Float32, reflect.Float64:
		return rapid.SampledFrom([]string{"1.5", "2", "1e3", "-0.25"}).Draw(t, "wf_float")
	case reflect.Complex64, reflect.Complex128:
		return rapid.SampledFrom([]string{"(1+2i)", "3", "1i"}).Draw(t, "wf_cplx")
	case reflect.Int, reflect.Int8, reflect.Int16, reflect.Int32, reflect.Int64:
		if ty == rt[time.Duration]() {
			return rapid.SampledFrom([]string{"1s", "2m", "3h4m"}).Draw(t, "wf_dur")
		}
		return rapid.SampledFrom([]string{"1", "-1", "42", "127", "0x10"}).Draw(t, "wf_int")
	case reflect.Slice:
		if depth > 1 {
			return num()
		}
		n := rapid.IntRange(1, 3).Draw(t, "wf_n")
		parts := make([]string, n)
		for i := range parts {
			parts[i] = wellFormedText(t, ty.Elem(), depth+1)
		}
		return strings.Join(parts, ",")
	case reflect.Map:
		if depth > 1 {
			return num()
		}
		n := rapid.IntRange(1, 3).Draw(t, "wf_n")
		parts := make([]string, n)
		for i := range parts {
			k := wellFormedText(t, ty.Key(), depth+1)
			if ty.Key().Kind() == reflect.String {
				k = fmt.Sprintf("%s%d", k, i)
			} else if i > 0 {
				k = fmt.Sprint(i + 1)
			}
			parts[i] = k + ":" + wellFormedText(t, ty.Elem(), depth+1)
		}
		return strings.Join(parts, ",")
	}
	return num()
}

func psStructured(t *rapid.T, sel int) []byte {
	p, _ := psPick(sel)
	return []byte(wellFormedText(t, p.t, 0))
}

// psPick maps a selector to a type; a type behind a known defect is replaced
// by a stable stand-in so that corpus indices keep their meaning.
func psPick(sel int) (psType, bool) {
	p := psTypes[sel%len(psTypes)]
	if p.knownKey != "" && knownDefect(p.knownKey) {
		return psTypes[(sel%len(psTypes))%17], true // a predeclared scalar
	}
	return p, false
}

func runParseString(sel int, data []byte) textResult {
	p, replaced := psPick(sel)
	var v reflect.Value
	var err error
	what := fmt.Sprintf("parse.String(%q, %s)", clipBytes(data), p.name)
	pi, hung := guard(what, func() { v, err = parse.String(string(data), p.t) })
	if hung {
		return textResult{viol: hangViolation(what)}
	}
	if pi != nil {
		return textResult{viol: panicViolation(what, pi)}
	}
	labels := []string{"type:" + p.name}
	if replaced {
		labels = append(labels, "known-type-replaced")
	}
	if err != nil {
		deep := strings.Contains(err.Error(), "item") || strings.Contains(err.Error(), "key") || strings.Contains(err.Error(), "overflow")
		return textResult{labels: append(labels, "err"), nt: deep}
	}
	// The documented result shape (StringCastingMangler relies on it): the
	// requested type itself for slices and maps, a pointer to it otherwise.
	want := reflect.PointerTo(p.t)
	switch p.t.Kind() {
	case reflect.Slice, reflect.Map:
		want = p.t
	}
	if !v.IsValid() {
		return textResult{viol: &violation{key: "invalid-value", msg: what + " returned the zero reflect.Value with a nil error"}}
	}
	if v.Type() != want {
		key := "wrong-type"
		if v.Type().Kind() == reflect.Pointer && want.Kind() == reflect.Pointer && v.Type().Elem().Kind() == want.Elem().Kind() {
			key = keyNamedScalar // *uint8 for Level: the root cause of the reflect.Set panic
		}
		return textResult{viol: &violation{key: key, msg: fmt.Sprintf("%s returned a %s with a nil error, want %s", what, v.Type(), want)}}
	}
	if want.Kind() == reflect.Pointer && v.IsNil() {
		return textResult{viol: &violation{key: "nil-value", msg: what + " returned a nil pointer with a nil error"}}
	}
	return textResult{labels: append(labels, "ok"), nt: true}
}

// ---------------------------------------------------------------- splitters

var splitterNames = []string{
	"StringSlice", "StringSet", "StringStringSliceMap", "Map[string]string", "Map[string]int", "Map[int]float64",
	"Signed[int]", "Signed[int8]", "Signed[int16]", "Signed[int32]", "Signed[int64]",
	"Unsigned[uint]", "Unsigned[uint8]", "Unsigned[uint16]", "Unsigned[uint32]", "Unsigned[uint64]", "Unsigned[uintptr]",
}

func runSplitters(sel int, data []byte) textResult {
	sel = sel % len(splitterNames)
	s := string(data)
	var err error
	var n int
	var typeOK = true
	pi, hung := guard(fmt.Sprintf("parse.%s(%q)", splitterNames[sel], clipBytes(data)), func() {
		switch sel {
		case 0:
			var r []string
			r, err = parse.StringSlice(s)
			n = len(r)
			typeOK = err != nil || r != nil
		case 1:
			var r map[string]struct{}
			r, err = parse.StringSet(s)
			n = len(r)
			typeOK = err != nil || r != nil
		case 2:
			var r map[string][]string
			r, err = parse.StringStringSliceMap(s)
			n = len(r)
			typeOK = err != nil || r != nil
		case 3, 4, 5:
			mt := []reflect.Type{rt[map[string]string](), rt[map[string]int](), rt[map[int]float64]()}[sel-3]
			var r reflect.Value
			r, err = parse.Map(s, mt)
			if err == nil {
				typeOK = r.IsValid() && r.Type() == mt && !r.IsNil()
				if typeOK {
					n = r.Len()
				}
			}
		case 6:
			n, err = lenErr(parse.SignedIntegralSlice[int](s))
		case 7:
			n, err = lenErr(parse.SignedIntegralSlice[int8](s))
		case 8:
			n, err = lenErr(parse.SignedIntegralSlice[int16](s))
		case 9:
			n, err = lenErr(parse.SignedIntegralSlice[int32](s))
		case 10:
			n, err = lenErr(parse.SignedIntegralSlice[int64](s))
		case 11:
			n, err = lenErr(parse.UnsignedIntegralSlice[uint](s))
		case 12:
			n, err = lenErr(parse.UnsignedIntegralSlice[uint8](s))
		case 13:
			n, err = lenErr(parse.UnsignedIntegralSlice[uint16](s))
		case 14:
			n, err = lenErr(parse.UnsignedIntegralSlice[uint32](s))
		case 15:
			n, err = lenErr(parse.UnsignedIntegralSlice[uint64](s))
		case 16:
			n, err = lenErr(parse.UnsignedIntegralSlice[uintptr](s))
		}
	})
	what := fmt.Sprintf("parse.%s(%q)", splitterNames[sel], clipBytes(data))
	if hung {
		return textResult{viol: hangViolation(what)}
	}
	if pi != nil {
		return textResult{viol: panicViolation(what, pi)}
	}
	labels := []string{"fn:" + splitterNames[sel]}
	if err != nil {
		return textResult{labels: append(labels, "err"), nt: strings.Contains(err.Error(), "index") || strings.Contains(err.Error(), "key") || strings.Contains(err.Error(), "unexpected")}
	}
	if !typeOK {
		return textResult{viol: &violation{key: "nil-value", msg: what + " returned a nil / wrongly typed collection with a nil error"}}
	}
	if n >= 2 {
		labels = append(labels, "elems>=2")
	}
	return textResult{labels: append(labels, "ok"), nt: n >= 1}
}

func lenErr[T any](s []T, err error) (int, error) { return len(s), err }

// ---------------------------------------------------------------- case decoders

type caseDecoder struct {
	name string
	dec  caseconversion.DecodeCasingFunc
}

var caseDecoders = []caseDecoder{
	{"DecodeUpperCamelCase", caseconversion.DecodeUpperCamelCase},
	{"DecodeLowerCamelCase", caseconversion.DecodeLowerCamelCase},
	{"DecodeGoCamelCase", caseconversion.DecodeGoCamelCase},
	{"DecodeGoTags", caseconversion.DecodeGoTags},
	{"DecodeLowerSnakeCase", caseconversion.DecodeLowerSnakeCase},
	{"DecodeKebabCase", caseconversion.DecodeKebabCase},
	{"DecodeUpperSnakeCase", caseconversion.DecodeUpperSnakeCase},
	{"DecodeCasePreservingSnakeCase", caseconversion.DecodeCasePreservingSnakeCase},
}

var caseEncoders = []struct {
	name string
	enc  caseconversion.EncodeCasingFunc
}{
	{"EncodeUpperCamelCase", caseconversion.EncodeUpperCamelCase},
	{"EncodeLowerCamelCase", caseconversion.EncodeLowerCamelCase},
	{"EncodeKebabCase", caseconversion.EncodeKebabCase},
	{"EncodeLowerSnakeCase", caseconversion.EncodeLowerSnakeCase},
	{"EncodeUpperSnakeCase", caseconversion.EncodeUpperSnakeCase},
	{"EncodeCasePreservingSnakeCase", caseconversion.EncodeCasePreservingSnakeCase},
}

func runCaseDecoders(sel int, data []byte) textResult {
	d := caseDecoders[sel%len(caseDecoders)]
	var words caseconversion.DecodedIdentifier
	var err error
	stage := d.name
	pi, hung := guard(fmt.Sprintf("%s(%q)", d.name, clipBytes(data)), func() {
		words, err = d.dec(string(data))
		if err != nil {
			return
		}
		// the shipped manglers feed every decoded identifier to an encoder
		for _, e := range caseEncoders {
			stage = d.name + " then " + e.name
			_ = e.enc(words)
		}
	})
	what := fmt.Sprintf("%s(%q)", stage, clipBytes(data))
	if hung {
		return textResult{viol: hangViolation(what)}
	}
	if pi != nil {
		return textResult{viol: panicViolation(what, pi)}
	}
	labels := []string{"fn:" + d.name}
	if err != nil {
		return textResult{labels: append(labels, "err")}
	}
	if len(words) >= 2 {
		labels = append(labels, "words>=2")
	}
	return textResult{labels: append(labels, "ok"), nt: true}
}

// ---------------------------------------------------------------- ParsingDuration

func runParsingDuration(sel int, data []byte) textResult {
	var errDirect, errJSON, errField error
	mode := sel % 3
	pi, hung := guard(fmt.Sprintf("ParsingDuration unmarshal mode %d (%q)", mode, clipBytes(data)), func() {
		switch mode {
		case 0:
			var p jsontypes.ParsingDuration
			errDirect = p.UnmarshalJSON(data)
		case 1:
			var p jsontypes.ParsingDuration
			errJSON = json.Unmarshal(data, &p)
		case 2:
			var s struct {
				D  jsontypes.ParsingDuration
				P  *jsontypes.ParsingDuration
				L  []jsontypes.ParsingDuration
				M  map[string]jsontypes.ParsingDuration
				MP map[string]*jsontypes.ParsingDuration
			}
			errField = json.Unmarshal(data, &s)
		}
	})
	what := fmt.Sprintf("ParsingDuration unmarshal mode %d (%q)", mode, clipBytes(data))
	if hung {
		return textResult{viol: hangViolation(what)}
	}
	if pi != nil {
		return textResult{viol: panicViolation(what, pi)}
	}
	labels := []string{fmt.Sprintf("mode:%d", mode)}
	if errDirect != nil || errJSON != nil || errField != nil {
		e := errDirect
		if e == nil {
			e = errJSON
		}
		if e == nil {
			e = errField
		}
		return textResult{labels: append(labels, "err"), nt: strings.Contains(e.Error(), "duration") || strings.Contains(e.Error(), "nanoseconds")}
	}
	return textResult{labels: append(labels, "ok"), nt: true}
}

// ---------------------------------------------------------------- file decoders

// cueRunaway matches a CUE multiplication by a number of nine or more digits:
// the evaluator then builds a string / list of that size.  Only consulted once
// the memory blow-up is listed as a known finding, so that the search can go on
// without the watchdog ending the process.
var cueRunaway = regexp.MustCompile(`(\]?)\s*\*\s*([0-9_]{9,})|([0-9_]{9,})\s*\*\s*(\[?)`)

// cueDangerous reports whether a CUE document would make the evaluator build a
// multi-gigabyte value: any list multiplied by a number of nine or more
// digits, or anything multiplied by a 9..17 digit number.  A string multiplied
// by a number of 18 or more digits overflows at once (the evaluator panics
// immediately, which the decoder must turn into an error), so it is kept.
func cueDangerous(data []byte) bool {
	s := string(data)
	// builtins that materialise a value whose size the document chooses
	// (list.Range(0, 5000000, 1), list.Repeat, strings.Repeat ...): the same
	// run-away evaluation as a multiplication by a large count
	if strings.Contains(s, "Range") || strings.Contains(s, "Repeat") {
		digits := 0
		for i := 0; i < len(s); i++ {
			if s[i] >= '0' && s[i] <= '9' || s[i] == '_' {
				if s[i] != '_' {
					digits++
				}
				if digits >= 5 {
					return true
				}
			} else if s[i] != '.' && s[i] != 'e' && s[i] != 'E' && s[i] != '+' {
				digits = 0
			}
		}
	}
	isNumRune := func(r byte) bool { return r >= '0' && r <= '9' || r == '_' }
	isTokRune := func(r byte) bool {
		return isNumRune(r) || r >= 'a' && r <= 'z' || r >= 'A' && r <= 'Z' || r == '.' || r == '"' || r == '\'' || r == ']' || r == ')' || r == '[' || r == '(' || r == '#' || r == '`'
	}
	plainNum := func(tok string) (float64, bool, bool) { // value, small (<1e5), huge (>=18 digits)
		if tok == "" {
			return 0, false, false
		}
		digits := 0
		for i := 0; i < len(tok); i++ {
			if !isNumRune(tok[i]) {
				return 0, false, false
			}
			if tok[i] != '_' {
				digits++
			}
		}
		if digits >= 18 {
			return 0, false, true
		}
		f, err := strconv.ParseFloat(strings.ReplaceAll(tok, "_", ""), 64)
		if err != nil {
			return 0, false, false
		}
		return f, f < 1e5, false
	}
	product := 1.0
	for i := 0; i < len(s); i++ {
		if s[i] != '*' {
			continue
		}
		// neighbouring tokens, blanks skipped
		l := i
		for l > 0 && (s[l-1] == ' ' || s[l-1] == '\t') {
			l--
		}
		ls := l
		for ls > 0 && isTokRune(s[ls-1]) {
			ls--
		}
		left := s[ls:l]
		r := i + 1
		for r < len(s) && (s[r] == ' ' || s[r] == '\t') {
			r++
		}
		re := r
		for re < len(s) && isTokRune(s[re]) {
			re++
		}
		right := s[r:re]
		lv, lsmall, lhuge := plainNum(left)
		rv, rsmall, rhuge := plainNum(right)
		listNear := strings.HasSuffix(left, "]") || strings.HasPrefix(right, "[")
		midNum := func(tok string, small, huge bool) bool {
			if tok == "" || small || huge {
				return false
			}
			for i := 0; i < len(tok); i++ {
				if !isNumRune(tok[i]) {
					return false
				}
			}
			return true
		}
		switch {
		case midNum(left, lsmall, lhuge) || midNum(right, rsmall, rhuge):
			// a factor between 1e5 and 1e18 (also at the end of a chain
			// such as 'ab'*18*4674407615): gigabytes
			return true
		case (lhuge || rhuge) && !listNear:
			// a string / bytes value times a count of 18+ digits overflows at
			// once: the evaluator panics immediately (kept: the decoder must
			// turn that into an error)
		case lsmall && rsmall:
			product *= lv * rv
		case lsmall:
			product *= lv
		case rsmall:
			product *= rv
		default:
			// anything else next to a '*' (identifiers such as time.Second,
			// floats, SI suffixes, parentheses, mid-size numbers): the result
			// may be gigabytes; skipped while the blow-up is a known finding
			return true
		}
	}
	return product >= 1e5
}

func runDecoder(name string, dec dials.Decoder) func(sel int, data []byte) textResult {
	return func(sel int, data []byte) textResult {
		ft := decoderTypes[sel%len(decoderTypes)]
		if ft.ptrErr != nil {
			return textResult{viol: &violation{key: "pointerify-panic", msg: ft.ptrErr.Error()}}
		}
		if name == "Cue" && knownDefect(keyMemory) && cueDangerous(data) {
			return textResult{labels: []string{"cfg:" + ft.name, "known-runaway-input-skipped"}}
		}
		var v reflect.Value
		var err error
		what := fmt.Sprintf("%s decoder on %s with input %q", name, ft.name, clipBytes(data))
		pi, hung := guard(what, func() { v, err = dec.Decode(bytes.NewReader(data), dialsType(ft.pt)) })
		if hung {
			return textResult{viol: hangViolation(what)}
		}
		if pi != nil {
			return textResult{viol: panicViolation(what, pi)}
		}
		labels := []string{"cfg:" + ft.name}
		if err != nil {
			// past the syntax check: the document parsed but did not fit the type
			msg := err.Error()
			fit := strings.Contains(msg, "cannot unmarshal") || strings.Contains(msg, "unmarshal errors") || strings.Contains(msg, "failed to decode cue value") ||
				strings.Contains(msg, "duration") || strings.Contains(msg, "cannot convert") || strings.Contains(msg, "incompatible types") ||
				strings.Contains(msg, "Can't convert") || strings.Contains(msg, "would overflow")
			if fit {
				labels = append(labels, "err-type-mismatch")
			}
			if strings.Contains(msg, "panic while evaluating cue config") {
				// the Cue decoder recovers panics over its whole Decode (also dials' own reverse translation) and reports them as errors
				labels = append(labels, "cue-recovered-panic")
			}
			return textResult{labels: append(labels, "err"), nt: fit}
		}
		if viol := checkSourceType(what, v, ft.pt); viol != nil {
			return textResult{viol: viol}
		}
		set := countSet(v)
		if set > 0 {
			labels = append(labels, "fields-set")
		}
		return textResult{labels: append(labels, "ok"), nt: set > 0}
	}
}

// countSet counts the non-nil members of a pointerified struct value
// (recursively); only used for labels.
func countSet(v reflect.Value) int {
	for v.Kind() == reflect.Pointer {
		if v.IsNil() {
			return 0
		}
		v = v.Elem()
	}
	if v.Kind() != reflect.Struct {
		return 1
	}
	n := 0
	for i := 0; i < v.NumField(); i++ {
		f := v.Field(i)
		switch f.Kind() {
		case reflect.Pointer:
			if f.IsNil() {
				continue
			}
			if f.Type().Elem().Kind() == reflect.Struct && !shape.IsTextStruct(f.Type().Elem()) {
				n += countSet(f)
			} else {
				n++
			}
		case reflect.Slice, reflect.Map, reflect.Interface:
			if !f.IsNil() {
				n++
			}
		default:
			n++
		}
	}
	return n
}

// ---------------------------------------------------------------- env source

var envLeaves = func() []flatLeaf {
	ls, err := flatLeaves(envType.pt, "env")
	if err != nil || len(ls) == 0 {
		panic(fmt.Sprintf("cannot derive env names of cfgEnv: %v", err))
	}
	return ls
}()

// identFromBytes turns arbitrary bytes into an exported Go field name: only
// letters, digits and '_' are kept, an 'F' is put in front unless the first
// byte is an upper-case ASCII letter.
func identFromBytes(data []byte) string {
	var b strings.Builder
	for _, c := range data {
		if c == '_' || (c >= '0' && c <= '9') || (c >= 'a' && c <= 'z') || (c >= 'A' && c <= 'Z') {
			b.WriteByte(c)
		}
		if b.Len() >= 300 {
			break
		}
	}
	id := b.String()
	if id == "" || id[0] < 'A' || id[0] > 'Z' {
		id = "F" + id
	}
	return id
}

// tagFromBytes makes the bytes a plausible dials tag: letters, digits, '_'
// and '-' only, starting with a letter (a tag without any letter or digit
// flattens to an EMPTY name, and one with '=' or a leading '-' is rejected by
// the flag package with a deliberate panic: such tags are programming errors
// outside the property's "distinct flattened leaf names" precondition).
func tagFromBytes(data []byte) string {
	var b strings.Builder
	for _, c := range data {
		if c == '_' || c == '-' || (c >= '0' && c <= '9') || (c >= 'a' && c <= 'z') || (c >= 'A' && c <= 'Z') {
			b.WriteByte(c)
		}
		if b.Len() >= 300 {
			break
		}
	}
	tg := b.String()
	if tg == "" || !((tg[0] >= 'a' && tg[0] <= 'z') || (tg[0] >= 'A' && tg[0] <= 'Z')) {
		tg = "t" + tg
	}
	return tg
}

// dynType builds a one-leaf config type whose field NAME (mode 0) or dials TAG
// (mode 1) is taken from the input: the flattening sources run the case
// decoders (DecodeGoCamelCase / DecodeGoTags) over it.
func dynType(mode int, data []byte) (t, pt reflect.Type, desc string) {
	sf := reflect.StructField{Name: "Fa", Type: reflect.TypeOf("")}
	if mode == 0 {
		sf.Name = identFromBytes(data)
		desc = "struct{ " + sf.Name + " string }"
	} else {
		tg := tagFromBytes(data)
		sf.Tag = reflect.StructTag(`dials:"` + tg + `"`)
		desc = "struct{ Fa string `dials:\"" + tg + "\"` }"
	}
	t = reflect.StructOf([]reflect.StructField{sf, {Name: "Other", Type: reflect.TypeOf(0)}})
	return t, ptrify.Pointerify(t, reflect.New(t).Elem()), desc
}

// runEnvDyn: the env source on an input-named type; the variable name is
// derived with the source's own name chain inside the guarded call.
func runEnvDyn(mode int, data []byte) textResult {
	_, pt, desc := dynType(mode, data)
	var v reflect.Value
	var err error
	var name string
	what := fmt.Sprintf("env source on %s", clipBytes([]byte(desc)))
	pi, hung := guard(what, func() {
		if ls, lerr := flatLeaves(pt, "env"); lerr == nil && len(ls) > 0 {
			name = ls[0].Name
		}
		if name != "" && !strings.ContainsAny(name, "=\x00") {
			if old, ok := os.LookupEnv(name); ok {
				defer os.Setenv(name, old)
			} else {
				defer os.Unsetenv(name)
			}
			os.Setenv(name, "v")
		}
		v, err = (&env.Source{}).Value(context.Background(), dialsType(pt))
	})
	label := []string{"field:dynamic-name", "field:dynamic-tag"}[mode]
	if hung {
		return textResult{viol: hangViolation(what)}
	}
	if pi != nil {
		return textResult{viol: panicViolation(what, pi)}
	}
	if err != nil {
		return textResult{labels: []string{label, "err"}}
	}
	if viol := checkSourceType(what, v, pt); viol != nil {
		return textResult{viol: viol}
	}
	return textResult{labels: []string{label, "ok"}, nt: countSet(v) > 0}
}

func runEnvValue(sel int, data []byte) textResult {
	n := len(envLeaves)
	sel = sel % (n + 3)
	if sel > n {
		return runEnvDyn(sel-n-1, data)
	}
	val := string(data)
	var names []string
	if sel == n {
		for _, l := range envLeaves {
			names = append(names, l.Name)
		}
	} else {
		names = []string{envLeaves[sel].Name}
	}
	// process-global state: restored before returning
	type saved struct {
		v  string
		ok bool
	}
	old := map[string]saved{}
	rejected := false
	for _, nm := range names {
		v, ok := os.LookupEnv(nm)
		old[nm] = saved{v, ok}
		if err := os.Setenv(nm, val); err != nil {
			rejected = true
		}
	}
	defer func() {
		for nm, s := range old {
			if s.ok {
				os.Setenv(nm, s.v)
			} else {
				os.Unsetenv(nm)
			}
		}
	}()
	label := "field:all"
	if sel < n {
		label = "field:" + envLeaves[sel].Path
	}
	if rejected {
		return textResult{labels: []string{label, "setenv-rejected"}}
	}
	var v reflect.Value
	var err error
	what := fmt.Sprintf("env source on cfgEnv with %s=%q", strings.Join(names, ","), clipBytes(data))
	pi, hung := guard(what, func() { v, err = (&env.Source{}).Value(context.Background(), dialsType(envType.pt)) })
	if hung {
		return textResult{viol: hangViolation(what)}
	}
	if pi != nil {
		return textResult{viol: panicViolation(what, pi)}
	}
	if err != nil {
		return textResult{labels: []string{label, "err"}, nt: true}
	}
	if viol := checkSourceType(what, v, envType.pt); viol != nil {
		return textResult{viol: viol}
	}
	return textResult{labels: []string{label, "ok"}, nt: countSet(v) > 0}
}

// ---------------------------------------------------------------- flag sources

func splitArgs(data []byte) []string {
	if len(data) == 0 {
		return nil
	}
	args := strings.Split(string(data), "\n")
	if len(args) > 24 {
		args = args[:24]
	}
	return args
}

// runFlagDyn: the flag / pflag source on an input-named type, with the flag
// (name derived by the source's own chain) given on the command line.
func runFlagDyn(source string, mode int, data []byte) textResult {
	t, pt, desc := dynType(mode, data)
	var v reflect.Value
	var err error
	what := fmt.Sprintf("%s source on %s", source, clipBytes([]byte(desc)))
	pi, hung := guard(what, func() {
		name := ""
		if ls, lerr := flatLeaves(pt, source); lerr == nil && len(ls) > 0 {
			name = ls[0].Name
		}
		var args []string
		if name != "" && !strings.ContainsAny(name, "= \x00") && !strings.HasPrefix(name, "-") {
			args = []string{"--" + name + "=v"}
		}
		if source == "flag" {
			var s *flag.Set
			s, err = flag.NewSetWithArgs(flag.DefaultFlagNameConfig(), reflect.New(t).Interface(), args)
			if err != nil {
				return
			}
			s.Flags.SetOutput(io.Discard)
			v, err = s.Value(context.Background(), dialsType(pt))
			return
		}
		var s *pflag.Set
		s, err = pflag.NewSetWithArgs(pflag.DefaultFlagNameConfig(), reflect.New(t).Interface(), args)
		if err != nil {
			return
		}
		s.Flags.SetOutput(io.Discard)
		v, err = s.Value(context.Background(), dialsType(pt))
	})
	label := []string{"field:dynamic-name", "field:dynamic-tag"}[mode]
	if hung {
		return textResult{viol: hangViolation(what)}
	}
	if pi != nil {
		return textResult{viol: panicViolation(what, pi)}
	}
	if err != nil {
		return textResult{labels: []string{label, "err"}}
	}
	if viol := checkSourceType(what, v, pt); viol != nil {
		return textResult{viol: viol}
	}
	return textResult{labels: []string{label, "ok"}, nt: countSet(v) > 0}
}

func runFlagArgs(sel int, data []byte) textResult {
	if m := sel % 3; m > 0 {
		return runFlagDyn("flag", m-1, data)
	}
	args := splitArgs(data)
	var v reflect.Value
	var err error
	stage := "NewSetWithArgs"
	pi, hung := guard(fmt.Sprintf("flag source on cfgFlag with args %q", clipArgs(args)), func() {
		var s *flag.Set
		s, err = flag.NewSetWithArgs(flag.DefaultFlagNameConfig(), reflect.New(flagType.t).Interface(), args)
		if err != nil {
			return
		}
		s.Flags.SetOutput(io.Discard)
		stage = "Value"
		v, err = s.Value(context.Background(), dialsType(flagType.pt))
	})
	what := fmt.Sprintf("flag source (%s) on cfgFlag with args %q", stage, clipArgs(args))
	if hung {
		return textResult{viol: hangViolation(what)}
	}
	if pi != nil {
		return textResult{viol: panicViolation(what, pi)}
	}
	labels := []string{fmt.Sprintf("args:%d", min(len(args), 4))}
	if err != nil {
		return textResult{labels: append(labels, "err"), nt: strings.Contains(err.Error(), "invalid value") || strings.Contains(err.Error(), "overflow")}
	}
	if viol := checkSourceType(what, v, flagType.pt); viol != nil {
		return textResult{viol: viol}
	}
	set := countSet(v)
	if set > 0 {
		labels = append(labels, "fields-set")
	}
	return textResult{labels: append(labels, "ok"), nt: set > 0}
}

func runPflagArgs(sel int, data []byte) textResult {
	if m := sel % 3; m > 0 {
		return runFlagDyn("pflag", m-1, data)
	}
	args := splitArgs(data)
	var v reflect.Value
	var err error
	stage := "NewSetWithArgs"
	pi, hung := guard(fmt.Sprintf("pflag source on cfgFlag with args %q", clipArgs(args)), func() {
		var s *pflag.Set
		s, err = pflag.NewSetWithArgs(pflag.DefaultFlagNameConfig(), reflect.New(flagType.t).Interface(), args)
		if err != nil {
			return
		}
		s.Flags.SetOutput(io.Discard)
		stage = "Value"
		v, err = s.Value(context.Background(), dialsType(flagType.pt))
	})
	what := fmt.Sprintf("pflag source (%s) on cfgFlag with args %q", stage, clipArgs(args))
	if hung {
		return textResult{viol: hangViolation(what)}
	}
	if pi != nil {
		return textResult{viol: panicViolation(what, pi)}
	}
	labels := []string{fmt.Sprintf("args:%d", min(len(args), 4))}
	if err != nil {
		return textResult{labels: append(labels, "err"), nt: strings.Contains(err.Error(), "invalid argument")}
	}
	if viol := checkSourceType(what, v, flagType.pt); viol != nil {
		return textResult{viol: viol}
	}
	set := countSet(v)
	if set > 0 {
		labels = append(labels, "fields-set")
	}
	return textResult{labels: append(labels, "ok"), nt: set > 0}
}

func clipBytes(b []byte) string {
	if len(b) > 300 {
		return string(b[:300]) + "...(" + fmt.Sprint(len(b)) + " bytes)"
	}
	return string(b)
}

func clipArgs(a []string) []string {
	out := make([]string, 0, len(a))
	for _, s := range a {
		out = append(out, clipBytes([]byte(s)))
	}
	return out
}

// ---------------------------------------------------------------- registry

var (
	jsonTarget = runDecoder("JSON", &jsondec.Decoder{})
	yamlTarget = runDecoder("YAML", &yamldec.Decoder{})
	tomlTarget = runDecoder("TOML", &tomldec.Decoder{})
	cueTarget  = runDecoder("Cue", &cuedec.Decoder{})
)

func yamlBoth(sel int, data []byte) textResult {
	// selector bit 2 switches the anonymous-field flattening of the YAML decoder
	if (sel/len(decoderTypes))%2 == 1 {
		return runDecoder("YAML(FlattenAnonymous)", &yamldec.Decoder{FlattenAnonymous: true})(sel, data)
	}
	return yamlTarget(sel, data)
}
