package ptotal

import (
	"strings"
)

// hostile constants shared by every target
var hostile = []string{
	"", " ", "\x00", "a\x00b", "\"", "\"\"", "\"unterminated", "'", "''", "'x'", "'xy'", "`", "``", "`raw", "\\", "\\\\", "\\\"", "\"\\", "\"\\x\"", "\"\\u12\"", "\"\\777\"",
	"\xff", "\xff\xfe\xfd", "a\xffb", "\xc3\x28", "\xe2\x82", "\xf0\x9f\x98", "\xed\xa0\x80", "\xef\xbf\xbd", "\xc0\x80",
	",", ",,", ",,,,,,,,", ":", "::", ":,", ",:", "a:", ":a", "a:b:c", "a,", ",a", "a:b,", "a:b,c", "a::b", "=", "-", "--", "---", "-=", "--=",
	"99999999999999999999999999999999999999", "-99999999999999999999999999999999999999", "1e999999", "-1e999999", "1e-999999", "0x", "0b", "0o", "0x_", "1__0", "+", "+-1", "1_", "_1",
	"9223372036854775807", "9223372036854775808", "-9223372036854775808", "-9223372036854775809", "18446744073709551615", "18446744073709551616", "0x7fffffffffffffff", "0xffffffffffffffffff",
	"NaN", "nan", "Inf", "+Inf", "-inf", "infinity", "1i", "i", "(1+2i)", "(1+2i", "1+2i)", "1+", "+i", "1e309+1e309i", "(NaN+Infi)",
	"1h", "1h1", "-1h", "1.5.5h", "9999999999h", "1ns1ns", "h", "1µs", "1us", "1d", ".s", "1.h", "9223372036854775807ns", "9223372036854775808ns",
	"true", "TRUE", "True", "t", "T", "1", "0", "tRuE", "yes",
	"\n", "\r\n", "\t", "\v", "\f", "a\nb", " a ", "\u00a0", "\u2028", "\ufeff", "\ufeffa", "e\u0301", "\U0001F600", "İ", "ǅ", "ß", "ſ", "K", "\u0130\u0307",
	strings.Repeat("a", 5000), strings.Repeat(",", 3000), strings.Repeat("a:b,", 1000), strings.Repeat("\"", 2001), strings.Repeat("\\", 2001), strings.Repeat("A", 4000), strings.Repeat("aB", 2000), strings.Repeat("ID", 1500), strings.Repeat("_", 3000),
	strings.Repeat("[", 3000), strings.Repeat("{", 3000), strings.Repeat("[", 600) + strings.Repeat("]", 600), strings.Repeat("{\"a\":", 400) + "1" + strings.Repeat("}", 400), strings.Repeat("- ", 1500), strings.Repeat("a:\n ", 300), strings.Repeat("[a.", 300),
	"&a [*a]", "a: &a [*a, *a]", "*a", "<<: *x", "!!binary x", "!!float x", "? ", "%YAML 9.9", "--- ---", "...",
}

var (
	seedsParseString = func() []textSeed {
		var s []textSeed
		lits := []string{
			"", "a", "a,b", "a,33", "a,33.0", `"a","b"`, `"a","b,"`, `",a","b,"`, "http://vimeo.com/fim.jpg,https://vimeo.com/foo.jpg", "$22.33,33.44£,777¥",
			`"Origin": "foobar"`, `"Origin": "foobar\"fimbar"`, "`Origin`: `foobar`", `"Origin": "foobar", "Origin": "foobat"`, `"Origin": "foobar", "Referer": "fimbat"`, `Origin: foobar, Referer: fimbat`,
			`src: /etc/foo/limits.conf, src2: /etc/foo/limits3.conf`, `us:$22.33,uk:33.44£,ja:777¥`, ":", ",",
			"42.125", "42.125i", "42.125+32.5i", "42.125+i", "-42.125+-32.5i", "1234", "1234    ", "   1234", "1234,3456", "1234, 3456", "-1234,-3456", "1_234,3_456,789", "0x1234e,0x3456e,0x789e", "0777,03456,07004", "0o777", "0b1111,0b111001", "1234,3456,fizzlebit", "fizzlebit!!!!", "1234,3456$%^&",
			"true", "false", "1", "0", "128", "-129", "256", "65536", "3.4e39", "1e400", "10s", "1h2m3s", "1:true,2:false", "1.5:3,2.5:4", "true:1,false:2", "a:1s,b:2m", "1s:a", "a:(1+2i)", "a:1,a:2", "a:b,c",
		}
		for i, p := range psTypes {
			if p.knownKey != "" {
				// a type behind a genuine defect: three seeds are enough to re-find it
				for _, l := range []string{"1", "a:1", "a,b"} {
					s = append(s, textSeed{i, l})
				}
				continue
			}
			for _, l := range lits {
				s = append(s, textSeed{i, l})
			}
		}
		return s
	}()

	seedsSplitters = func() []textSeed {
		var s []textSeed
		lits := []string{
			"", "a", "a,b", "a,33", `"a","b"`, `"a","b,"`, `",a","b,"`, "a,a", `"a",a`, "http://vimeo.com/fim.jpg,https://vimeo.com/foo.jpg", "$22.33,33.44£,777¥", "a b", "a\tb", "a\n,b", `'a'`, `'ab'`, "a,'b'", "1.5e3,0x1p-2", "`a,b`,c",
			`"Origin": "foobar"`, `"Origin": "foobar\"fimbar"`, "`Origin`: `foobar`", `"Origin": "foobar", "Origin": "foobat"`, `"Origin": "foobar", "Origin": "foobat", "Referer": "fimbat"`, `Origin: foobar, Referer: fimbat`, `us:$22.33,uk:33.44£,ja:777¥`, ":", ",", `"":"v"`, `a:"",b:`, `a:b:c`, `a:,`, `1:2.5,3:4`, `a:1,b:2`,
			"1234", "1234    ", "   1234", "1234,3456", "1234, 3456", "1234,3456,789", "-1234,-3456", "1_234,3_456,789", "0x1234e,0x3456e,0x789e", "0777,03456,07004", "0o777,0o3456,0o7004", "0b1111,0b111001,0b1000111", "1234,3456,fizzlebit", "fizzlebit!!!!", "1234,3456$%^&", "$%^&3456", "123_434_599_999_000_999_000", "123", "123,34", "-123,-34", "0x12,0x7f,0x78", "\t1234", "1,,2", ",1", "1,",
		}
		for i := range splitterNames {
			for _, l := range lits {
				s = append(s, textSeed{i, l})
			}
		}
		return s
	}()

	seedsCase = func() []textSeed {
		var s []textSeed
		lits := []string{
			"UpperCamelCase", "lowerCamelCase", "UpperCamelCaseU", "Case", "UCCase", "UC_Case", "Upper12CamelCase", "lowerCamelCaseU", "lowerCamel0CaseU", "NotLowerCamelCase", "1errorCase",
			"kebab-case-string", "1kebab-case-string", "kebab1-case-string", "kebab1-case-string-", "kebab-case-string-u", "UPPER_SNAKE_CASE", "1UPPER_SNAKE_CASE", "UPPER_SNAKE_CASE1", "UPPER_SNAKE_CASE_U", "UPPER_SNAKE_CASE_U_",
			"lower_snake_case", "lower_snake_case_u", "lower__snake_case", "_lower_snake_case", "lower_snake_case_", "caSe_pREserving_sNake_Case", "ca&e_pREserving_sNake_Case",
			"jsonAPI", "JSONAPI", "TestJSONAPI", "TestSOMEJSONAPI", "UpperCamelCaseAPI", "UpperCamelCaseAPIDocs", "UpperCamelCaseXMLAPIDocs", "HTTPSPort", "UserUID", "Port2ID", "RAMUTF8", "Abc0SLADef", "JSONOk", "A", "a", "_", "__", "-", "a_", "_a", "a-b_c", "ÀÉ", "éA", "aÉ", "ǅa", "aǅ", "IDs", "URLs", "ID", "iD", "X509", "x509Cert", "UTF8", "utf8String", "A1B2", "日本語", "a日本B",
		}
		for i := range caseDecoders {
			for _, l := range lits {
				s = append(s, textSeed{i, l})
			}
		}
		for i := range caseDecoders {
			for j, l := range initialismRunSeeds {
				// every run meets the two Go-identifier decoders, a third of them the others
				if i == 2 || i == 3 || j%3 == i%3 {
					s = append(s, textSeed{i, l})
				}
			}
		}
		return s
	}()

	seedsDuration = func() []textSeed {
		var s []textSeed
		lits := []string{
			`"13s"`, `"10s"`, `13000000000`, `0`, `-1`, `"1h2m3.5s"`, `""`, `"x"`, `1.5`, `1e3`, `1e30`, `9223372036854775807`, `9223372036854775808`, `null`, `true`, `{}`, `[]`, `[1]`, `{"a":1}`, `"\u0031s"`, `"1s" "2s"`, `1 2`, ` "1s"`, `"1s`, `1s`,
			`{"D":"1s","P":"2s","L":["3s",4],"M":{"a":"5s"},"MP":{"b":null,"c":6}}`, `{"D":null}`, `{"D":{}}`, `{"L":[[]]}`, `{"M":{"a":{"b":1}}}`, `{"d":"1s","D":2}`,
		}
		for m := 0; m < 3; m++ {
			for _, l := range lits {
				s = append(s, textSeed{m, l})
			}
		}
		return s
	}()

	docsJSON = []string{
		`{
        "val1": "something",
        "val2": 42
    }`,
		`{
        "database_name": "something",
		"database_address": "127.0.0.1",
		"database_user": {
			"username": "test",
			"password": "password",
			"ip_address": "123.10.11.121"
		}
    }`,
		`{
	    "database_name": "something",
		"database_address": "127.0.0.1",
		"database_user": {
			"username": "test",
			"password": "password",
			"other_stuff": {
				"something": "asdf",
				"ip_address": "123.10.11.121",
				"some_timeout": "13s"
			}
		}
	}`,
		`{"database_user":{"other_stuff":{"some_timeout":13000000000,"ip_address":"::1"}}}`,
		`{"database_user":{"other_stuff":{"some_timeout":1.5}}}`,
		`{"database_user":{"other_stuff":{"some_timeout":{}}}}`,
		`{"database_user":null}`, `{"database_user":[]}`, `{"database_user":{"other_stuff":7}}`,
		`{"Name":"n","Port":1,"Small":-128,"Mid":1,"Wide":1,"Huge":-9223372036854775808,"UPort":1,"USmall":255,"UMid":1,"UWide":1,"UHuge":18446744073709551615,"Ratio":1.5,"Half":0.5,"Enabled":true,"Timeout":"1m","Tags":["a","b"],"Ports":[1,2],"Weights":[0.5],"Switches":[true,false],"Waits":["1s",2],"Limits":{"a":1},"Labels":{"a":"b"},"Set":{"a":{}},"Lists":{"a":["b","c"]},"DurMap":{"a":"1s","b":2},"When":"2020-01-02T03:04:05Z","IP":"10.0.0.1","Blob":"aGVsbG8="}`,
		`{"Small":128}`, `{"USmall":-1}`, `{"Port":1.5}`, `{"Port":"1"}`, `{"Tags":"a"}`, `{"Tags":[1]}`, `{"Tags":null,"Limits":null,"Timeout":null}`, `{"Waits":[[]]}`, `{"DurMap":{"a":{}}}`, `{"When":"yesterday"}`, `{"IP":"999.1.1.1"}`, `{"Blob":"***"}`, `{"Set":{"a":1}}`, `{"name":"lower","NAME":"upper","Name":"exact"}`, `{"Timeout":"1s","timeout":2}`,
		`{"Server":{"Host":"h","Port":65535,"TLS":{"Cert":"c","Verify":true,"Wait":"1s"}},"Backends":[{"Name":"a","Weight":1,"Wait":"2s"},{}],"ByName":{"x":{"A":1,"B":["y"]}},"Ptr":3,"PP":"s","PSlice":["a"],"Arr":[1,2,3],"Matrix":[[1],[2,3]],"Deep":{"L1":{"L2":{"L3":{"Leaf":"z"}}}}}`,
		`{"Server":{"TLS":null},"Ptr":null,"PP":null,"PSlice":null}`, `{"Arr":[1,2,3,4]}`, `{"Arr":[1]}`, `{"Arr":{}}`, `{"Backends":[null]}`, `{"Backends":{"a":1}}`, `{"ByName":{"x":null}}`, `{"Matrix":[null,[null]]}`, `{"Server":{"Port":65536}}`, `{"hidden":1,"Skipped":"s","Ch":1,"Fn":1}`,
		`{"Level":3,"Count":-4,"Ratio":0.5,"Flag":true,"Name":"n","Timeout":5,"Names":["a"],"Nums":[1],"Limits":{"a":1},"Labels":{"a":"b"},"Color":"#fff","Stamp":"1.2-x","PStamp":"3.4-y","ByLevel":{"a":1},"Counts":[1,2],"EaNum":1,"EaText":"t","EbList":["l"],"EbPtr":4,"EbFlag":true,"json_name":"j","tagged_name":"d"}`,
		`{"Level":256}`, `{"Color":"fff"}`, `{"Stamp":"x"}`, `{"Stamp":{"Major":1}}`, `{"PStamp":null}`, `{"EmbA":{"EaNum":1}}`, `{"EmbB":{"EbFlag":true}}`, `{"Color":1}`, `{"Timeout":"1s"}`,
		`{"Timeouts": ["3s", null, 1000]}`, `{"ByTimeout": {"a": "1s", "b": null, "c": 5}}`, `{"Pair": [null, "2s"]}`, `{"Pair": ["1s", null]}`, `{"PtrWaits": ["1s", 2]}`, `{"PtrWaits": null, "PtrPtr": null, "Timeouts": null, "ByTimeout": null}`, `{"PtrPtr": "5s"}`,
		`{"Deep": {"a": [null, "1s", 3], "b": null}}`, `{"Ints": [1, null, 3]}`, `{"Strs": {"a": null, "b": "x"}}`, `{"Levels": [null, 3]}`, `{"NamedWaits": {"a": null, "b": 7}}`, `{"Stamps": [null, "1.2-x"]}`, `{"Colors": {"a": null, "b": "#fff"}}`,
		`{"Recs": [{"Wait": null, "Waits": [null, "1s", 2], "Note": "n"}, {}]}`, `{"RecByName": {"a": null, "b": {"Wait": "1s", "Waits": [null]}}}`, `{"PlainWait": "1s", "PtrWait": null, "Waits": ["1s", 2]}`, `{"Waits": ["1s", null]}`, `{"PlainWait": null}`,
		`{"Timeouts": [null]}`, `{"Timeouts": [null, null]}`, `{"Timeouts": [[null]]}`, `{"Timeouts": [{}]}`, `{"ByTimeout": {"": null}}`, `{"Timeouts": ["x", null]}`, `{"Timeouts": [1.5, null]}`,
		`{"Backends": [null, {"Wait": null}], "ByName": {"x": null}, "Matrix": [null, [null]], "Server": {"TLS": {"Wait": null}}}`, `{"Tags": [null, "a"], "Limits": {"a": null}, "Waits": [null], "DurMap": {"a": null}}`,
		``, ` `, `null`, `[]`, `1`, `"s"`, `{`, `}`, `{"a"`, `{"a":}`, `{"a":1,}`, `{"a":1}{"b":2}`, `{"a":1} x`, `{"\ud800":1}`, `{"a":"\ud800"}`, `{"a":1e999}`, `{"Port":1e2}`, "\ufeff{}", "{\"Name\":\"\x00\"}", "{\"Name\":\"\xff\"}",
	}

	docsYAML = []string{
		`---
        val1: something
        val2: 42
`,
		`{
	    "database_name": "something",
		"database_address": "127.0.0.1",
		"database_user": {
			"username": "test",
			"password": "password",
			"other_stuff": {
				"something": "asdf",
				"ip_address": "123.10.11.121",
				"timeout": "10s",
			}
		}
	}`,
		`---
        val1 something
        val 2: 42
`,
		"database_name: something\ndatabase_user:\n  username: test\n  other_stuff:\n    something: asdf\n    ip_address: 10.1.1.1\n    some_timeout: 13s\n",
		"database_user:\n  other_stuff:\n    some_timeout: 13\n", "database_user: ~\n", "database_user: [1]\n", "database_user:\n  other_stuff: x\n",
		"name: n\nport: 1\nsmall: -128\nhuge: -9223372036854775808\nuhuge: 18446744073709551615\nratio: 1.5\nenabled: yes\ntimeout: 1m\ntags: [a, b]\nports:\n- 1\n- 2\nweights: [.5, .inf, .nan]\nswitches: [on, off]\nwaits: [1s, 2]\nlimits: {a: 1}\nlabels:\n  a: b\nset:\n  a: {}\nlists:\n  a: [b, c]\ndurmap: {a: 1s}\nwhen: 2020-01-02T03:04:05Z\nip: 10.0.0.1\nblob: !!binary aGVsbG8=\n",
		"small: 128\n", "usmall: -1\n", "port: 1.5\n", "port: '1'\n", "tags: a\n", "tags: [[a]]\n", "timeout: ~\n", "timeout: 1.5\n", "timeout: [1]\n", "when: yesterday\n", "ip: 999.1.1.1\n", "port: 0x10\nmid: 0o7\nwide: 0b1\nhuge: 1_000\n", "ratio: 1e999\n", "name: !!int 3\n", "port: !!str 3\n", "name: &a x\nport: *a\n", "name: *unknown\n", "? [a, b]\n: c\n", "1: 2\n", "~: 2\n", "name: [a\n", "name: {a\n", "name: 'a\n", "name: \"a\\x\"\n", "\tname: x\n", "name: x\nname: y\n", "<<: {name: x}\n", "<<: [{name: x}, {port: 1}]\n", "<<: 1\n",
		"server:\n  host: h\n  port: 65535\n  tls:\n    cert: c\n    verify: true\n    wait: 1s\nbackends:\n- name: a\n  weight: 1\n  wait: 2s\n- {}\nbyname:\n  x:\n    a: 1\n    b: [y]\nptr: 3\npp: s\npslice: [a]\narr: [1, 2, 3]\nmatrix: [[1], [2, 3]]\ndeep: {l1: {l2: {l3: {leaf: z}}}}\n",
		"arr: [1, 2, 3, 4]\n", "arr: [1]\n", "arr: {}\n", "backends: [~]\n", "backends: {a: 1}\n", "byname: {x: ~}\n", "matrix: [~, [~]]\n", "server: {port: 65536}\n", "server: {tls: ~}\nptr: ~\n", "ch: 1\nfn: 2\nhidden: 3\nskipped: s\n",
		"level: 3\ncount: -4\nratio: .5\nflag: true\nname: n\ntimeout: 5\nnames: [a]\nnums: [1]\nlimits: {a: 1}\nlabels: {a: b}\ncolor: '#fff'\nstamp: 1.2-x\npstamp: 3.4-y\nbylevel: {a: 1}\ncounts: [1, 2]\nemba: {eanum: 1, eatext: t}\nembb: {eblist: [l], ebptr: 4, ebflag: true}\nyaml_name: y\n",
		"eanum: 1\neatext: t\neblist: [l]\nebptr: 4\nebflag: true\n", "level: 256\n", "color: fff\n", "stamp: x\n", "stamp: {major: 1}\n", "pstamp: ~\n", "emba: ~\nembb: ~\n", "emba: 1\n", "color: [1]\n",
		"timeouts: [3s, null, 1000]\n", "timeouts:\n- 3s\n- ~\n- 1000\n", "bytimeout: {a: 1s, b: ~, c: 5}\n", "bytimeout:\n  a: 1s\n  b:\n  c: null\n", "pair: [~, 2s]\n", "ptrwaits: [1s, 2]\n", "ptrwaits: ~\nptrptr: ~\ntimeouts: ~\n", "ptrptr: 5s\n",
		"deep: {a: [~, 1s, 3], b: ~}\n", "ints: [1, ~, 3]\n", "strs: {a: ~, b: x}\n", "levels: [~, 3]\n", "namedwaits: {a: ~, b: 7}\n", "stamps: [~, 1.2-x]\n", "colors: {a: ~, b: '#fff'}\n",
		"recs:\n- wait: ~\n  waits: [~, 1s, 2]\n  note: n\n- {}\n- ~\n", "recbyname: {a: ~, b: {wait: 1s, waits: [~]}}\n", "plainwait: 1s\nptrwait: ~\nwaits: [1s, 2]\n", "waits: [1s, ~]\n", "plainwait: ~\n", "timeouts: [~]\n", "timeouts: [[~]]\n", "timeouts: [Null, NULL, null, ~, ]\n",
		"backends: [~, {wait: ~}]\nbyname: {x: ~}\nmatrix: [~, [~]]\n", "tags: [~, a]\nlimits: {a: ~}\nwaits: [~]\ndurmap: {a: ~}\n",
		"", " ", "~", "[]", "1", "s", "{", "}", "---", "--- {}\n--- {}\n", "...", "%YAML 1.1\n--- {}\n", "%TAG ! tag:x,2000:\n--- !x {}\n", "a: b: c\n", "- a\n- b\n", "\ufeffname: x\n", "name: \x00\n", "name: \xff\n", "name: \"\\ud800\"\n", "a: &a [*a]\n",
		"a: &a [x,x,x,x,x,x,x,x,x]\nb: &b [*a,*a,*a,*a,*a,*a,*a,*a,*a]\nc: &c [*b,*b,*b,*b,*b,*b,*b,*b,*b]\nd: &d [*c,*c,*c,*c,*c,*c,*c,*c,*c]\ne: &e [*d,*d,*d,*d,*d,*d,*d,*d,*d]\nf: &f [*e,*e,*e,*e,*e,*e,*e,*e,*e]\ntags: *f\n",
	}

	docsTOML = []string{
		`
	    database_name = "something"
		database_address = "127.0.0.1"
		[database_user]
			username = "test"
			password = "password"
			[database_user.other_stuff]
				something = "asdf"
	`,
		`
        val1 = something"
`,
		"val1 = \"something\"\nval2 = 42\n",
		"[database_user.other_stuff]\nip_address = \"10.1.1.1\"\nsome_timeout = \"13s\"\n", "[database_user.other_stuff]\nsome_timeout = 13\n", "[database_user.other_stuff]\nsome_timeout = 1.5\n", "database_user = 1\n", "[[database_user]]\nusername = \"x\"\n", "database_user = {username = \"x\", other_stuff = {something = \"y\"}}\n",
		"Name = \"n\"\nPort = 1\nSmall = -128\nHuge = -9223372036854775808\nUHuge = 9223372036854775807\nRatio = 1.5\nHalf = 0.5\nEnabled = true\nTimeout = \"1m\"\nTags = [\"a\", \"b\"]\nPorts = [1, 2]\nWeights = [0.5, inf, nan]\nSwitches = [true, false]\nWaits = [\"1s\"]\nWhen = 2020-01-02T03:04:05Z\nIP = \"10.0.0.1\"\n[Limits]\na = 1\n[Labels]\na = \"b\"\n[Set]\n[Set.a]\n[Lists]\na = [\"b\", \"c\"]\n[DurMap]\na = \"1s\"\n",
		"Small = 128\n", "USmall = -1\n", "Port = 1.5\n", "Port = \"1\"\n", "Tags = \"a\"\n", "Tags = [1]\n", "Tags = [[\"a\"]]\n", "Timeout = 1\n", "Timeout = 1.5\n", "Timeout = [1]\n", "When = \"yesterday\"\n", "When = 2020-01-02\n", "When = 03:04:05\n", "IP = \"999.1.1.1\"\n", "Port = 0x10\nMid = 0o7\nWide = 0b1\nHuge = 1_000\n", "Ratio = 1e999\n", "UHuge = 18446744073709551615\n", "Huge = 9223372036854775808\n", "Name = 'lit'\nname = \"\"\"multi\nline\"\"\"\n", "Name = \"a\"\nName = \"b\"\n", "Blob = \"aGVsbG8=\"\n", "Blob = [1, 2]\n",
		"Ptr = 3\nPP = \"s\"\nPSlice = [\"a\"]\nArr = [1, 2, 3]\nMatrix = [[1.0], [2.0, 3.0]]\n[Server]\nHost = \"h\"\nPort = 65535\n[Server.TLS]\nCert = \"c\"\nVerify = true\nWait = \"1s\"\n[[Backends]]\nName = \"a\"\nWeight = 1\nWait = \"2s\"\n[[Backends]]\n[ByName.x]\nA = 1\nB = [\"y\"]\n[Deep.L1.L2.L3]\nLeaf = \"z\"\n",
		"Arr = [1, 2, 3, 4]\n", "Arr = [1]\n", "Arr = \"x\"\n", "Backends = [1]\n", "[Backends]\na = 1\n", "Matrix = [[1], [\"a\"]]\n", "Matrix = [1]\n", "[Server]\nPort = 65536\n", "Ch = 1\nFn = 2\nhidden = 3\nSkipped = \"s\"\n",
		"Level = 3\nCount = -4\nRatio = 0.5\nFlag = true\nName = \"n\"\nTimeout = 5\nNames = [\"a\"]\nNums = [1]\nColor = \"#fff\"\nStamp = \"1.2-x\"\nPStamp = \"3.4-y\"\nCounts = [1, 2]\nEaNum = 1\nEaText = \"t\"\nEbList = [\"l\"]\nEbPtr = 4\nEbFlag = true\ntoml_name = \"t\"\n[Limits]\na = 1\n[Labels]\na = \"b\"\n[ByLevel]\na = 1\n",
		"Timeouts = [\"3s\", \"1m\"]\nPair = [\"1s\", \"2s\"]\nPtrWaits = [\"1s\"]\nPtrPtr = \"5s\"\nInts = [1, 2]\nLevels = [1, 2]\nStamps = [\"1.2-x\"]\nPlainWait = \"1s\"\nPtrWait = \"2s\"\nWaits = [\"1s\"]\n[ByTimeout]\na = \"1s\"\n[Strs]\na = \"x\"\n[Deep]\na = [\"1s\"]\n[[Recs]]\nWait = \"1s\"\nWaits = [\"2s\"]\n[RecByName.a]\nWait = \"1s\"\n", "Timeouts = [1, 2]\n", "Timeouts = []\n", "Pair = [\"1s\"]\n", "[ByTimeout]\n", "[[Recs]]\n[[Recs]]\n",
		"Level = 256\n", "Color = \"fff\"\n", "Stamp = \"x\"\n", "[Stamp]\nMajor = 1\n", "[EmbA]\nEaNum = 1\n", "[EmbB]\nEbFlag = true\n", "Color = 1\n",
		"", " ", "=", "a", "a =", "= 1", "[", "[]", "[a", "[a]]", "[[a]", "[a.]", "[.a]", "a.b = 1\na = 2\n", "[a]\n[a]\n", "[[a]]\n[a]\n", "a = [1, \"x\"]\n", "a = {b = 1,}\n", "a = {b = {c = {d = {e = 1}}}}\n", "a = \"\\ud800\"\n", "a = \"\\x\"\n", "a = '''", "a = 1979-05-27T07:32:00-99:00\n", "a = 0000-00-00\n", "a = +\n", "a = 1__0\n", "a = 0x\n", "\"\" = 1\n", "'' = 1\n", "\ufeffa = 1\n", "a = \"\x00\"\n", "a = \"\xff\"\n", "a = 1 # c\x00\n", "a\x00 = 1\n",
	}

	docsCue = []string{
		`
	    import "time"
	    "database_name": "something",
		"database_address": "127.0.0.1",
		"database_user": {
			"username": "test",
			"password": "password",
			"other_stuff": {
				"something": "asdf",
				"ip_address": "123.10.11.121"
				"some_timeout": "13s"
			}
		}
	`,
		"database_name: \"x\"\ndatabase_user: other_stuff: some_timeout: \"1s\"\n", "database_user: other_stuff: some_timeout: 13\n", "import \"time\"\ndatabase_user: other_stuff: some_timeout: time.Second * 3\n",
		"Port: 1 + 2\n", "Port: int\n", "Port: int | *3\n", "Port: >1\n", "Port: 1 & 2\n", "Port: _|_\n", "Name: \"a\" + \"b\"\n", "Name: \"\\(Port)\"\nPort: 1\n", "Tags: [\"a\", \"b\"]\n", "Tags: [...string]\n", "Tags: [for x in [1,2] {\"\\(x)\"}]\n", "Limits: {for k, v in {a: 1} {\"\\(k)\": v}}\n", "#D: {a: 1}\nLimits: #D\n", "x: y\ny: x\nPort: x\n", "x: x + 1\n", "a: b: c: d: 1\n", "if true {Port: 1}\n", "let x = 1\nPort: x\n", "Port: 1\nPort: 2\n", "Port: 1\nPort: 1\n", "package foo\nPort: 1\n", "import \"strings\"\nName: strings.ToUpper(\"a\")\n", "import \"nosuch\"\n", "import \"list\"\nPorts: list.Range(0, 5, 1)\n", "Ratio: 1.5\nHalf: 1e-1\n", "Ratio: 1e999\n", "Port: 0x10\nMid: 0o7\nWide: 0b1\nHuge: 1_000\n", "UHuge: 18446744073709551616\n", "Blob: 'bytes'\n", "Name: #\"raw\"#\n", "Name: \"\"\"\n  multi\n  \"\"\"\n", "Enabled: true\nTimeout: \"1m\"\nWhen: \"2020-01-02T03:04:05Z\"\nIP: \"10.0.0.1\"\n", "Set: a: {}\nLists: a: [\"b\"]\nDurMap: a: \"1s\"\n", "Name: null\nTags: null\n", "Timeouts: [\"3s\", null, 1000]\n", "ByTimeout: {a: \"1s\", b: null, c: 5}\n", "Pair: [null, \"2s\"]\n", "Deep: a: [null, \"1s\", 3]\n", "Ints: [1, null, 3]\nStrs: {a: null, b: \"x\"}\n", "Levels: [null, 3]\nStamps: [null, \"1.2-x\"]\n", "Recs: [{Wait: null, Waits: [null, \"1s\", 2]}, {}]\n", "RecByName: {a: null, b: {Wait: \"1s\", Waits: [null]}}\n", "Timeouts: [null | \"1s\", *null | string]\n", "Timeouts: [...null]\n", "Timeouts: 3 * [null]\n", "PtrWaits: [\"1s\", 2]\nPtrPtr: \"5s\"\n", "Timeouts: [if true {null}]\n", "Name?: string\n", "Name!: string\n", "[string]: int\n", "{[=~\"^a\"]: 1}\n",
	}

	seedsEnvValues = []string{
		"", "a", "a,b", "1", "-1", "128", "256", "1.5", "1e3", "true", "false", "10s", "1h2m", "(1+2i)", "1+2i", "a:b", "a:1", "1:true", "1.5:3", "a:b,c:d", `"a":"b"`, `"a","b"`, "a:b,a:c", "/some/path.json", "0x10", "0b1", "0o7", "1_000", "2020-01-02T03:04:05Z", "1,2", "1s,2m", "true,false", "(1+2i),3", "1.5,2.5",
	}

	seedsFlagArgs = []string{
		"", "-str=a", "--str=a", "-str\na", "-flag", "-flag=false", "-flag=maybe", "-i=1", "-i8=127", "-i8=128", "-i16=40000", "-i32=-2147483649", "-u8=256", "-u16=65536", "-u32=4294967296", "-up=1", "-f32=1e39", "-f32=3.5", "-f64=NaN", "-c64=(1+2i)", "-c64=1e39", "-c128=i", "-c128=x", "-dur=10s", "-dur=10", "-when=2020-01-02T03:04:05Z", "-when=now", "-ip=10.0.0.1", "-ip=::1", "-ip=x", "-color=#fff", "-color=fff",
		"-strs=a,b", "-strs=a\n-strs=b", "-strs=\"a,b\",c", "-strs=\"", "-ints=1,2", "-ints=1, 2", "-ints=x", "-ints=", "-i8s=127,-128", "-i8s=128", "-u16s=65535", "-u16s=-1", "-ss=a:b,c:d", "-ss=a:b\n-ss=a:c", "-ss=a", "-ss=:", "-lists=a:b,a:c", "-lists=a:b\n-lists=a:d", "-set=a,b", "-set=a,a", "-set=a\n-set=b", "-ptr-int=3", "-nested-inner=x", "-nested-deep-n=1", "-nested-deep-n=200", "-ea-num=1\n-ea-text=t", "-short=x", "-s=x", "-s\nx",
		"-h", "--help", "-help", "--", "--\n-str=a", "-", "---", "-=", "--=x", "-str", "-i", "-i=", "-unknown", "-unknown=1", "positional", "positional\n-str=a", "-str=a\npositional\n-i=1", "-str=\x00", "-str=\xff", "-\xff=1", "-str=a=b", "-i=+1", "-i=0x10", "-i=1_0", "-i=99999999999999999999", "-u=-1", "-flag=1\n-flag=0", "-i=1\n-i=2", "--i8", "-strs", "-ss",
	}
	seedsPflagArgs = []string{
		"", "--str=a", "--str\na", "-str=a", "--flag", "--flag=false", "--flag=maybe", "--i=1", "--i8=127", "--i8=128", "--i16=40000", "--i32=-2147483649", "--u8=256", "--u16=65536", "--u32=4294967296", "--up=1", "--f32=1e39", "--f32=3.5", "--f64=NaN", "--c64=(1+2i)", "--c64=1e39", "--c128=i", "--c128=x", "--dur=10s", "--dur=10", "--when=2020-01-02T03:04:05Z", "--when=now", "--ip=10.0.0.1", "--ip=x", "--color=#fff", "--color=fff",
		"--strs=a,b", "--strs=a\n--strs=b", "--strs=\"a,b\",c", "--strs=\"", "--strs=a\"b", "--ints=1,2", "--ints=x", "--ints=", "--i8s=127,-128", "--i8s=128", "--u16s=65535", "--u16s=-1", "--ss=a:b,c:d", "--ss=a:b\n--ss=a:c", "--ss=a", "--lists=a:b,a:c", "--lists=a:b\n--lists=a:d", "--set=a,b", "--set=a,a", "--set=a\n--set=b", "--ptr-int=3", "--nested-inner=x", "--nested-deep-n=1", "--nested-deep-n=200", "--ea-num=1\n--ea-text=t", "--short=x", "-s=x", "-s\nx", "-sx", "-sss",
		"-h", "--help", "--", "--\n--str=a", "-", "---", "--=", "--=x", "--str", "--i", "--i=", "--unknown", "--unknown=1", "positional", "positional\n--str=a", "--str=a\npositional\n--i=1", "--str=\x00", "--str=\xff", "--\xff=1", "--str=a=b", "--i=+1", "--i=0x10", "--i=99999999999999999999", "--u=-1", "--flag=1\n--flag=0", "--i=1\n--i=2", "-x", "-xyz", "-s", "--no-flag", "--flag=",
	}
)

// cuePanicDocs re-find the escaping evaluator panics of the Cue decoder; they
// leave the seed corpus once the finding is listed as known.  (The related
// runaway input `x: ["a"]*18446744073709551615` is deliberately NOT a seed: it
// never returns and allocates about 1 GiB/s until the watchdog ends the
// process.)
func cuePanicDocs() []string {
	if knownDefect(keyCuePanic) {
		return nil
	}
	return []string{`x: "a"*18446744073709551615`, `x: "ab"*9223372036854775807`, `x: 'ab'*18446744073709551615`}
}

// initialismRunSeeds are all-caps runs of initialisms with a non-initialism
// tail, bare and in camel / snake / kebab context.
var initialismRunSeeds = func() []string {
	var out []string
	for _, unit := range []string{"ID", "UID", "UI", "HTTPS", "API", "UUID", "IDUIDUIHTTPHTTPSAPIURLUUID"} {
		for _, k := range []int{10, 16, 24, 40} {
			n := k
			if len(unit) > 6 {
				n = k / 5
			}
			run := strings.Repeat(unit, n)
			out = append(out, run+"X", run+"Q", run+"Zz", run, "foo"+run+"X", "a_"+run+"X", "a-"+run+"Q")
		}
	}
	return out
}()

func mkSeeds(nsel int, docs []string) []textSeed {
	var s []textSeed
	for i := 0; i < nsel; i++ {
		for _, d := range docs {
			s = append(s, textSeed{i, d})
		}
	}
	return s
}

var (
	alphaCollections = []string{",", ":", "\"", "'", "`", "\\", " ", "\t", "\n", "a", "b", "k", "v", "1", "0", "-", "+", ".", "e", "i", "(", ")", "_", "x", "s", "h", "\x00", "\xff", "é", "日", "\\\"", "\\n", "\\u00e9", "\\x", "\"a\"", "\"a,b\"", "a:b", "1.5", "0x1f", "true", "1s", "//", "/*", "*/", "£", "$", "%", "/"}
	alphaIdent       = []string{"a", "b", "A", "B", "ID", "API", "HTTP", "HTTPS", "UID", "UI", "JSON", "s", "S", "_", "-", "1", "2", "0", "é", "É", "ǅ", "日", "ß", "İ", " ", ".", "\xff", "\x00", "Port", "User", "utf8", "UTF8", "X"}
	alphaJSON        = []string{"{", "}", "[", "]", ":", ",", "\"", "\\", " ", "\n", "null", "true", "false", "1", "-", ".", "e", "9", "\"a\"", "\"Name\"", "\"Port\"", "\"Tags\"", "\"Timeout\"", "\"Limits\"", "\"Server\"", "\"Backends\"", "\"database_user\"", "\"other_stuff\"", "\"some_timeout\"", "\"Level\"", "\"Stamp\"", "\"Color\"", "\"Timeouts\"", "\"ByTimeout\"", "\"Pair\"", "\"Deep\"", "\"Recs\"", "\"Wait\"", "\"Waits\"", "[null,", ",null]", ":null", "[\"3s\",null,1000]", "\"1s\"", "\"#fff\"", "\"1.2-x\"", "\\u", "d800", "\x00", "\xff"}
	alphaYAML        = []string{":", " ", "\n", "-", "  ", "\t", "[", "]", "{", "}", ",", "\"", "'", "#", "&a", "*a", "!!", "!!str", "!!int", "!!binary", "|", ">", "?", "~", "<<", "---", "...", "%", "name", "port", "tags", "timeout", "limits", "server", "backends", "database_user", "other_stuff", "some_timeout", "level", "stamp", "color", "emba", "timeouts", "bytimeout", "pair", "deep", "recs", "wait", "waits", "null", "[~, 1s]", "{a: ~}", "1", "1s", "x", "0x", "1e9", ".inf", "yes", "\x00", "\xff"}
	alphaTOML        = []string{"=", " ", "\n", "[", "]", "[[", "]]", "{", "}", ",", ".", "\"", "'", "\"\"\"", "'''", "#", "\\", "Name", "Port", "Tags", "Timeout", "Limits", "Server", "Backends", "database_user", "other_stuff", "some_timeout", "Level", "Stamp", "Color", "1", "1.5", "true", "\"1s\"", "\"x\"", "2020-01-02", "T03:04:05", "Z", "+", "-", "_", "0x", "inf", "nan", "\x00", "\xff"}
	alphaCue         = []string{":", " ", "\n", "{", "}", "[", "]", ",", "\"", "\\(", ")", "(", "|", "&", "*", "+", "-", "/", "<", ">", "=", "!", "?", "#", "_", "_|_", "...", "for", "in", "if", "let", "import", "package", "int", "string", "null", "true", "Name", "Port", "Tags", "Timeout", "Limits", "database_user", "other_stuff", "some_timeout", "Timeouts", "ByTimeout", "Pair", "Deep", "Recs", "Wait", "Waits", "[null,", ", null]", ": null", "1", "1.5", "\"1s\"", "\"x\"", "x", "'", "\"\"\"", "\x00", "\xff", "18446744073709551615", "9223372036854775807", "4611686018427387904", "-1"}
	alphaEnv         = alphaCollections
	alphaFlag        = []string{"-", "--", "=", "\n", "str", "flag", "i", "i8", "u8", "f32", "c64", "c128", "dur", "when", "ip", "color", "strs", "ints", "i8s", "u16s", "ss", "lists", "set", "ptr-int", "nested-inner", "nested-deep-n", "ea-num", "short", "s", "h", "help", "a", "1", "-1", "256", "1e39", "true", "x", ",", ":", "\"", "10s", "#fff", "(1+2i)", " ", "\x00", "\xff"}
)
