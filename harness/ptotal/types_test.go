package ptotal

import (
	"bytes"
	"context"
	"encoding"
	"encoding/json"
	"errors"
	"fmt"
	"hash/fnv"
	"io"
	"os"
	"reflect"
	"sort"
	"strconv"
	"strings"
	"testing"
	"time"

	tomlparser "github.com/pelletier/go-toml"
	"github.com/vimeo/dials"
	"github.com/vimeo/dials/common"
	cuedec "github.com/vimeo/dials/decoders/cue"
	jsondec "github.com/vimeo/dials/decoders/json"
	"github.com/vimeo/dials/decoders/json/jsontypes"
	tomldec "github.com/vimeo/dials/decoders/toml"
	yamldec "github.com/vimeo/dials/decoders/yaml"
	"github.com/vimeo/dials/sources/env"
	"github.com/vimeo/dials/sources/flag"
	"github.com/vimeo/dials/sources/pflag"
	"github.com/vimeo/dials/sourcewrap"
	"github.com/vimeo/dials/tagformat"
	"github.com/vimeo/dials/tagformat/caseconversion"
	"github.com/vimeo/dials/transform"
	yaml "gopkg.in/yaml.v2"
	"pgregory.net/rapid"

	"verifharness/internal/shape"
	"verifharness/internal/vrt"
)

// TypesCase is one generated config type plus the recipe of the valid input
// fed to it.
type TypesCase struct {
	Source string      `json:"source"`          // env | flag | pflag | json | yaml | toml | cue | manglers
	Chain  string      `json:"chain,omitempty"` // mangler chain around a decoder / the chain under test
	Shape  shape.Shape `json:"shape"`
	// Compiled, if set, names a compiler-made config type (compiledTypes) used
	// instead of the shape: embedded shapes reflect.StructOf cannot build.
	Compiled string `json:"compiled,omitempty"`
	// Extra lists further config types served by the SAME source / decoder /
	// mangler values in the same Run (object reuse); the main type is called at
	// position MainAt among them.  Kind: retag (the main shape with other struct
	// tags only), retype (same names, other leaf types), other (unrelated).
	Extra  []ExtraType `json:"extra,omitempty"`
	MainAt int         `json:"main_at,omitempty"`
	Fill   uint64      `json:"fill"`    // seed of every fed value
	SetPct int         `json:"set_pct"` // share of leaves that receive input
	DefPct int         `json:"def_pct"` // share of leaves with a non-zero default (flag templates)
}

// ExtraType is one more config type of a reuse sequence.
type ExtraType struct {
	Kind  string      `json:"kind"`
	Shape shape.Shape `json:"shape"`
}

// stepCases lists the calls of a case in order: each is a plain single-type
// case; all of them are served by the same object.
func stepCases(c TypesCase) []TypesCase {
	main := c
	main.Extra, main.MainAt = nil, 0
	if len(c.Extra) == 0 {
		return []TypesCase{main}
	}
	at := c.MainAt
	if at < 0 {
		at = 0
	}
	if at > len(c.Extra) {
		at = len(c.Extra)
	}
	var out []TypesCase
	for i, e := range c.Extra {
		if i == at {
			out = append(out, main)
		}
		sc := main
		sc.Compiled = ""
		sc.Shape = e.Shape
		sc.Fill = c.Fill + uint64(i+1)*7919
		out = append(out, sc)
	}
	if at == len(c.Extra) {
		out = append(out, main)
	}
	return out
}

// runSeq runs the calls of a case in order through step (which closes over the
// object under reuse) and folds their outcomes: the first violation wins.
func runSeq(c TypesCase, object string, step func(sc TypesCase) (typesOutcome, *vrt.Verdict)) vrt.Verdict {
	if js, jerr := json.Marshal(c); jerr == nil {
		currentCase.Store(js)
	}
	steps := stepCases(c)
	var total typesOutcome
	seen := map[string]bool{}
	for i, sc := range steps {
		o, dv := step(sc)
		if dv != nil {
			return *dv
		}
		for _, l := range o.labels {
			if !seen[l] {
				seen[l] = true
				total.labels = append(total.labels, l)
			}
		}
		total.fed += o.fed
		total.isErr = total.isErr || o.isErr
		if o.viol != nil {
			if len(steps) > 1 {
				o.viol.msg = fmt.Sprintf("call %d of %d on the same %s: %s", i+1, len(steps), object, o.viol.msg)
			}
			total.viol = o.viol
			break
		}
	}
	if len(steps) > 1 {
		total.labels = append(total.labels, fmt.Sprintf("reuse:calls=%d", len(steps)))
		for _, e := range c.Extra {
			if l := "reuse:" + e.Kind; !seen[l] {
				seen[l] = true
				total.labels = append(total.labels, l)
			}
		}
	}
	return finish(c, total)
}

// ---- deterministic per-path choices -------------------------------------------

func mix(seed uint64, salt, path string) uint64 {
	h := fnv.New64a()
	var b [8]byte
	for i := range b {
		b[i] = byte(seed >> (8 * i))
	}
	h.Write(b[:])
	h.Write([]byte(salt))
	h.Write([]byte{0})
	h.Write([]byte(path))
	x := h.Sum64()
	x ^= x >> 33
	x *= 0xff51afd7ed558ccd
	x ^= x >> 33
	if x == 0 {
		x = 1
	}
	return x
}

type chooser struct {
	seed uint64
	salt string
	pct  int
	nils *int // if set, counts the nil elements put inside fed containers
	// ifaces, if set, gives interface-typed fields a default (three in four):
	// a pointer to IfaceImpl or an IfaceScalars value; it receives the labels
	ifaces *[]string
}

func (c chooser) chosen(path string) bool { return int(mix(c.seed, c.salt+"?", path)%100) < c.pct }
func (c chooser) value(path string) uint64 {
	return mix(c.seed, c.salt+"=", path)
}

var plain = shape.ValueOpts{Plain: true}

func isLeafType(t reflect.Type) bool {
	switch t.Kind() {
	case reflect.Struct:
		return shape.IsTextStruct(t)
	case reflect.Pointer:
		return !(t.Elem().Kind() == reflect.Struct && !shape.IsTextStruct(t.Elem()))
	case reflect.Chan, reflect.Func, reflect.Interface, reflect.UnsafePointer:
		return false
	}
	return true
}

// fillGeneric sets the chosen leaves of a struct value (of ANY struct type:
// the config type, its pointerified form or a mangled form of it) to values
// built from seeds; pointers to nested structs are allocated when chosen.
// It returns the number of leaves set.
func fillGeneric(v reflect.Value, path string, c chooser) int {
	t := v.Type()
	n := 0
	for i := 0; i < t.NumField(); i++ {
		sf := t.Field(i)
		if !sf.IsExported() {
			continue
		}
		p := sf.Name
		if path != "" {
			p = path + "." + sf.Name
		}
		f := v.Field(i)
		switch {
		case sf.Type.Kind() == reflect.Interface && c.ifaces != nil && f.CanSet():
			// the default of an interface-typed field: Pointerify devirtualises
			// a (pointer to a) struct found here and the flag sources register
			// one flag per member
			seed := mix(c.seed, c.salt+"/iface", p)
			switch seed % 4 {
			case 0:
				*c.ifaces = append(*c.ifaces, "iface-default:nil")
			case 1:
				// a struct BY VALUE is not addressable: only members whose
				// registration does not take their address
				f.Set(shape.MakeValue(reflect.TypeOf(IfaceScalars{}), seed|1, plain))
				*c.ifaces = append(*c.ifaces, "iface-default:struct-value")
			default:
				pv := reflect.New(reflect.TypeOf(IfaceImpl{}))
				pv.Elem().Set(shape.MakeValue(reflect.TypeOf(IfaceImpl{}), seed|1, plain))
				f.Set(pv)
				*c.ifaces = append(*c.ifaces, "iface-default:ptr-struct")
			}
			n++
		case sf.Type.Kind() == reflect.Chan || sf.Type.Kind() == reflect.Func || sf.Type.Kind() == reflect.Interface:
			continue
		case isLeafType(sf.Type):
			if c.chosen(p) {
				val := shape.MakeValue(sf.Type, c.value(p), plain)
				f.Set(val)
				k := sprinkleNils(f, &nilRng{s: c.value(p) ^ 0x9e3779b97f4a7c15}, true)
				if c.nils != nil {
					*c.nils += k
				}
				n++
			}
		case sf.Type.Kind() == reflect.Struct:
			n += fillGeneric(f, p, c)
		default: // pointer to a plain struct
			if c.chosen(p + "/present") {
				np := reflect.New(sf.Type.Elem())
				n += fillGeneric(np.Elem(), p, c)
				f.Set(np)
			}
		}
	}
	return n
}

// nilRng is a tiny deterministic generator for sprinkleNils.
type nilRng struct{ s uint64 }

func (r *nilRng) next() uint64 {
	r.s += 0x9e3779b97f4a7c15
	z := r.s
	z = (z ^ (z >> 30)) * 0xbf58476d1ce4e5b9
	z = (z ^ (z >> 27)) * 0x94d049bb133111eb
	return z ^ (z >> 31)
}

// sprinkleNils replaces about a third of the pointer-typed ELEMENTS of slices,
// arrays and maps inside v (recursively, also below struct elements) by nil:
// a null inside a list or map is valid input in every format that can spell
// it.  The leaf itself (top=true) is left alone: whether a leaf is set is the
// chooser's decision.  Pure function of (value, seed).
func sprinkleNils(v reflect.Value, r *nilRng, top bool) (n int) {
	switch v.Kind() {
	case reflect.Pointer:
		if !v.IsNil() {
			n += sprinkleNils(v.Elem(), r, false)
		}
	case reflect.Slice, reflect.Array:
		if v.Kind() == reflect.Slice && v.IsNil() {
			return 0
		}
		for i := 0; i < v.Len(); i++ {
			e := v.Index(i)
			if e.Kind() == reflect.Pointer && e.CanSet() && r.next()%3 == 0 {
				e.Set(reflect.Zero(e.Type()))
				n++
				continue
			}
			n += sprinkleNils(e, r, false)
		}
	case reflect.Map:
		if v.IsNil() {
			return 0
		}
		keys := v.MapKeys()
		sort.Slice(keys, func(i, j int) bool { return fmt.Sprint(keys[i]) < fmt.Sprint(keys[j]) })
		for _, k := range keys {
			e := v.MapIndex(k)
			if e.Kind() == reflect.Pointer {
				if r.next()%3 == 0 {
					v.SetMapIndex(k, reflect.Zero(e.Type()))
					n++
				} else if !e.IsNil() {
					n += sprinkleNils(e.Elem(), r, false)
				}
				continue
			}
			// map elements are not addressable: rebuild struct / container elements
			if e.Kind() == reflect.Struct || e.Kind() == reflect.Slice || e.Kind() == reflect.Array || e.Kind() == reflect.Map {
				c := reflect.New(e.Type()).Elem()
				c.Set(e)
				n += sprinkleNils(c, r, false)
				v.SetMapIndex(k, c)
			}
		}
	case reflect.Struct:
		if shape.IsTextStruct(v.Type()) {
			return 0
		}
		for i := 0; i < v.NumField(); i++ {
			if v.Type().Field(i).IsExported() && v.Field(i).CanSet() {
				n += sprinkleNils(v.Field(i), r, false)
			}
		}
		// an element struct the alias mangler went over holds (field, alias
		// copy) pairs: valid input gives the new name, the old name or neither
		// (a quarter of the pairs keep both, which must be an error)
		for i := 0; i < v.NumField(); i++ {
			name := v.Type().Field(i).Name
			cp := v.FieldByName(name + "_alias9wr876rw3")
			if !cp.IsValid() || !cp.CanSet() || !v.Field(i).CanSet() {
				continue
			}
			switch r.next() % 4 {
			case 0:
				cp.Set(reflect.Zero(cp.Type()))
			case 1:
				v.Field(i).Set(reflect.Zero(v.Field(i).Type()))
			case 2:
				cp.Set(reflect.Zero(cp.Type()))
				v.Field(i).Set(reflect.Zero(v.Field(i).Type()))
			}
		}
	}
	return n
}

// ---- rendering a value as the text a string-typed source expects ---------------

var (
	durationT      = reflect.TypeOf(time.Duration(0))
	textMarshalerT = reflect.TypeOf((*encoding.TextMarshaler)(nil)).Elem()
)

type textStyle struct {
	useTextMarshaler bool // flag sources route TextUnmarshalers through UnmarshalText
	quoteStrings     bool // dials' own splitters accept Go-quoted strings
}

// renderText spells v (a value of the leaf's base type) the way the source
// documents it.  ok=false: the source has no spelling for this type.
func renderText(v reflect.Value, st textStyle, top bool) (string, bool) {
	t := v.Type()
	if st.useTextMarshaler && (t.Implements(textMarshalerT) || reflect.PointerTo(t).Implements(textMarshalerT)) {
		var tm encoding.TextMarshaler
		if t.Implements(textMarshalerT) {
			tm = v.Interface().(encoding.TextMarshaler)
		} else {
			pv := reflect.New(t)
			pv.Elem().Set(v)
			tm = pv.Interface().(encoding.TextMarshaler)
		}
		b, err := tm.MarshalText()
		return string(b), err == nil
	}
	if t == durationT {
		return v.Interface().(time.Duration).String(), true
	}
	str := func(s string) string {
		if st.quoteStrings && !top {
			return strconv.Quote(s)
		}
		return s
	}
	switch t.Kind() {
	case reflect.Bool:
		return strconv.FormatBool(v.Bool()), true
	case reflect.Int, reflect.Int8, reflect.Int16, reflect.Int32, reflect.Int64:
		return strconv.FormatInt(v.Int(), 10), true
	case reflect.Uint, reflect.Uint8, reflect.Uint16, reflect.Uint32, reflect.Uint64, reflect.Uintptr:
		return strconv.FormatUint(v.Uint(), 10), true
	case reflect.Float32:
		return strconv.FormatFloat(v.Float(), 'g', -1, 32), true
	case reflect.Float64:
		return strconv.FormatFloat(v.Float(), 'g', -1, 64), true
	case reflect.Complex64:
		return strconv.FormatComplex(v.Complex(), 'g', -1, 64), true
	case reflect.Complex128:
		return strconv.FormatComplex(v.Complex(), 'g', -1, 128), true
	case reflect.String:
		return str(v.String()), true
	case reflect.Pointer:
		if v.IsNil() {
			return "", false
		}
		return renderText(v.Elem(), st, top)
	case reflect.Slice:
		parts := make([]string, 0, v.Len())
		for i := 0; i < v.Len(); i++ {
			s, ok := renderText(v.Index(i), st, false)
			if !ok {
				return "", false
			}
			if k := v.Index(i).Kind(); k == reflect.Slice || k == reflect.Map {
				s = strconv.Quote(s) // the only spelling an element with commas can have
			}
			parts = append(parts, s)
		}
		return strings.Join(parts, ","), true
	case reflect.Map:
		keys := v.MapKeys()
		ks := make([]string, len(keys))
		byKey := map[string]reflect.Value{}
		for i, k := range keys {
			s, ok := renderText(k, st, false)
			if !ok {
				return "", false
			}
			ks[i] = s
			byKey[s] = v.MapIndex(k)
		}
		sort.Strings(ks)
		var parts []string
		for _, k := range ks {
			e := byKey[k]
			switch {
			case e.Kind() == reflect.Struct && e.NumField() == 0:
				parts = append(parts, k)
			case e.Kind() == reflect.Slice:
				for i := 0; i < e.Len(); i++ {
					s, ok := renderText(e.Index(i), st, false)
					if !ok {
						return "", false
					}
					parts = append(parts, k+":"+s)
				}
			default:
				s, ok := renderText(e, st, false)
				if !ok {
					return "", false
				}
				parts = append(parts, k+":"+s)
			}
		}
		return strings.Join(parts, ","), true
	}
	return "", false
}

func stripPointers(t reflect.Type) reflect.Type {
	for t.Kind() == reflect.Pointer {
		t = t.Elem()
	}
	return t
}

// ---- outcome -> verdict -----------------------------------------------------------

type typesOutcome struct {
	labels []string
	fed    int
	viol   *violation
	isErr  bool
}

func finish(c TypesCase, o typesOutcome) vrt.Verdict {
	st := &shapeStats{classes: map[string]bool{}}
	statsOf(c.Shape.Fields, st)
	labels := append([]string{"source:" + c.Source}, o.labels...)
	if c.Chain != "" {
		labels = append(labels, "chain:"+c.Chain)
	}
	if c.Compiled != "" {
		labels = append(labels, "compiled", "compiled:"+c.Compiled)
	}
	for k := range st.classes {
		labels = append(labels, k)
	}
	sort.Strings(labels)
	if o.viol != nil {
		return vrt.KeyedViolationf(o.viol.key, "%s", o.viol.msg).With(false, labels...)
	}
	if o.isErr {
		labels = append(labels, "returned-error")
	} else {
		labels = append(labels, "returned-value")
	}
	namedNonScalar := st.classes["named-collection"] || st.classes["named-elem"]
	return vrt.OK((namedNonScalar || c.Compiled != "") && o.fed > 0, labels...)
}

// lastIfaceLabels carries the interface-default labels of the most recent
// buildCase to the step that called it (checks run sequentially).
var lastIfaceLabels []string

func buildCase(c TypesCase) (T, pt reflect.Type, tmpl reflect.Value, v *vrt.Verdict) {
	check := "C16.types-" + c.Source
	if c.Source == "json" || c.Source == "yaml" || c.Source == "toml" || c.Source == "cue" {
		check = "C16.types-decoders"
	}
	if hungIn(check) {
		d := vrt.OK(false, "skipped-after-hang")
		return nil, nil, reflect.Value{}, &d
	}
	currentCheck.Store(check)
	if c.Compiled != "" {
		ct, ok := compiledByName(c.Compiled)
		if !ok {
			d := vrt.Discardf("unknown compiled type %q", c.Compiled)
			return nil, nil, reflect.Value{}, &d
		}
		T = ct
	} else {
		var err error
		T, err = c.Shape.Build()
		if err != nil {
			d := vrt.Discardf("shape does not build: %v", err)
			return nil, nil, reflect.Value{}, &d
		}
		if k := flatCollision(c.Shape); k != "" {
			d := vrt.Discardf("flattened leaf names collide (%s): outside the property's precondition", k)
			return nil, nil, reflect.Value{}, &d
		}
	}
	tmpl = reflect.New(T)
	def := chooser{seed: c.Fill, salt: "default", pct: c.DefPct}
	var ifaceLabels []string
	if c.Source == "flag" || c.Source == "pflag" {
		def.ifaces = &ifaceLabels
	}
	fillGeneric(tmpl.Elem(), "", def)
	lastIfaceLabels = ifaceLabels
	pt, perr := pointerifySafe(T, tmpl.Elem())
	if perr != nil {
		// what dials.Config does first with every config type
		d := vrt.KeyedViolationf("pointerify-panic", "%v", perr)
		return nil, nil, reflect.Value{}, &d
	}
	return T, pt, tmpl, nil
}

// ---- env ---------------------------------------------------------------------------

func runTypesEnv(c TypesCase) vrt.Verdict {
	src := &env.Source{} // ONE source value for every call of the case
	return runSeq(c, "env.Source value", func(sc TypesCase) (typesOutcome, *vrt.Verdict) { return envStep(src, sc) })
}

func envStep(src *env.Source, c TypesCase) (o typesOutcome, dv *vrt.Verdict) {
	_, pt, _, dv := buildCase(c)
	if dv != nil {
		return o, dv
	}
	leaves, nerr := flatLeaves(pt, "env")
	if nerr != nil {
		o.labels = append(o.labels, "names-unavailable")
	}
	ch := chooser{seed: c.Fill, salt: "feed", pct: c.SetPct}
	vars := map[string]string{}
	for _, l := range leaves {
		if !ch.chosen(l.Path) {
			continue
		}
		base := stripPointers(l.Type)
		val := shape.MakeValue(base, ch.value(l.Path), plain)
		txt, ok := renderText(val, textStyle{quoteStrings: ch.value(l.Path)%2 == 0}, true)
		if !ok {
			txt = "1" // no spelling for this type: the source must answer with an error
			o.labels = append(o.labels, "fed-unsupported-type")
		}
		vars[l.Name] = txt
	}
	o.fed = len(vars)
	type saved struct {
		v  string
		ok bool
	}
	old := map[string]saved{}
	for k, v := range vars {
		ov, ok := os.LookupEnv(k)
		old[k] = saved{ov, ok}
		os.Setenv(k, v)
	}
	defer func() {
		for k, s := range old {
			if s.ok {
				os.Setenv(k, s.v)
			} else {
				os.Unsetenv(k)
			}
		}
	}()
	var got reflect.Value
	var err error
	what := fmt.Sprintf("env source on %s with %v", pt, vars)
	pi, hung := guard(what, func() { got, err = src.Value(context.Background(), dials.NewType(pt)) })
	o.viol, o.isErr = judge(what, pi, hung, got, err, pt)
	if o.viol == nil && !o.isErr && countSet(got) >= o.fed && o.fed > 0 {
		o.labels = append(o.labels, "all-fed-arrived")
	}
	return o, nil
}

func judge(what string, pi *panicInfo, hung bool, got reflect.Value, err error, want reflect.Type) (*violation, bool) {
	switch {
	case hung:
		return hangViolation(what), false
	case pi != nil:
		return panicViolation(what, pi), false
	case err != nil:
		return nil, true
	}
	return checkSourceType(what, got, want), false
}

// ---- flag / pflag ------------------------------------------------------------------

func runTypesFlag(c TypesCase) vrt.Verdict {
	// a flag / pflag Set is bound to one template by construction: no reuse
	c.Extra, c.MainAt = nil, 0
	return runSeq(c, c.Source+" Set", flagStep)
}

func flagStep(c TypesCase) (o typesOutcome, dv *vrt.Verdict) {
	_, pt, tmpl, dv := buildCase(c)
	if dv != nil {
		return o, dv
	}
	o.labels = append(o.labels, lastIfaceLabels...)
	leaves, nerr := flatLeaves(pt, c.Source)
	if nerr != nil {
		o.labels = append(o.labels, "names-unavailable")
	}
	ch := chooser{seed: c.Fill, salt: "feed", pct: c.SetPct}
	var got reflect.Value
	var err error
	var args []string
	stage := "NewSetWithArgs"
	pi, hung := guard(fmt.Sprintf("%s source on %s", c.Source, pt), func() {
		var registered func(string) bool
		var value func() (reflect.Value, error)
		if c.Source == "flag" {
			s, e := flag.NewSetWithArgs(flag.DefaultFlagNameConfig(), tmpl.Interface(), nil)
			if e != nil {
				err = e
				return
			}
			s.Flags.SetOutput(io.Discard)
			registered = func(n string) bool { return s.Flags.Lookup(n) != nil }
			s.ParseFunc = func() error { return s.Flags.Parse(args) }
			value = func() (reflect.Value, error) { return s.Value(context.Background(), dials.NewType(pt)) }
		} else {
			s, e := pflag.NewSetWithArgs(pflag.DefaultFlagNameConfig(), tmpl.Interface(), nil)
			if e != nil {
				err = e
				return
			}
			s.Flags.SetOutput(io.Discard)
			registered = func(n string) bool { return s.Flags.Lookup(n) != nil }
			s.ParseFunc = func() error { return s.Flags.Parse(args) }
			value = func() (reflect.Value, error) { return s.Value(context.Background(), dials.NewType(pt)) }
		}
		dash := "-"
		if c.Source == "pflag" {
			dash = "--"
		}
		for _, l := range leaves {
			if !ch.chosen(l.Path) || !registered(l.Name) {
				continue
			}
			base := stripPointers(l.Type)
			val := shape.MakeValue(base, ch.value(l.Path), plain)
			txt, ok := renderText(val, textStyle{useTextMarshaler: true, quoteStrings: c.Source == "flag" && ch.value(l.Path)%2 == 0}, true)
			if !ok {
				txt = "1"
			}
			if selfParsing(base) {
				o.labels = append(o.labels, "self-parsing-flag-given")
				if ch.value(l.Path)%5 == 0 {
					txt = "!rejected" // text the type's own Set refuses: the source must answer with an error
					o.labels = append(o.labels, "self-parsing-flag-rejected-text")
				}
			}
			args = append(args, dash+l.Name+"="+txt)
			if gl := "given:" + base.String(); !strings.Contains(base.String(), "struct {") {
				o.labels = append(o.labels, gl)
			}
		}
		stage = "Value"
		got, err = value()
	})
	o.fed = len(args)
	what := fmt.Sprintf("%s source (%s) on %s with args %q", c.Source, stage, pt, args)
	o.viol, o.isErr = judge(what, pi, hung, got, err, pt)
	if o.viol == nil && !o.isErr && countSet(got) >= o.fed && o.fed > 0 {
		o.labels = append(o.labels, "all-fed-arrived")
	}
	return o, nil
}

// ---- decoders ----------------------------------------------------------------------

var errEncoderRejected = errors.New("harness: the paired encoder cannot spell this value")

// feeder is a dials.Decoder held by the harness.  It ignores its reader,
// builds a value of whatever type it is asked to decode (the mangled type when
// it sits under a mangler chain), spells it with the format's own encoder and
// hands that text to the real decoder: valid input by construction.
type feeder struct {
	inner   dials.Decoder
	marshal func(v reflect.Value) ([]byte, error)
	ch      chooser
	pre     []transform.Mangler // manglers the real decoder applies itself before reading
	text    []byte
	fed     int
	nils    int
	encErr  error
}

func (f *feeder) Decode(_ io.Reader, typ *dials.Type) (reflect.Value, error) {
	vt := typ.Type()
	if len(f.pre) > 0 {
		if mt, err := transform.NewTransformer(vt, f.pre...).TranslateType(); err == nil {
			vt = mt
		}
	}
	v := reflect.New(vt).Elem()
	ch := f.ch
	ch.nils = &f.nils
	f.fed = fillGeneric(v, "", ch)
	b, err := func() (b []byte, err error) {
		defer func() {
			if r := recover(); r != nil {
				err = fmt.Errorf("encoder panicked: %v", r)
			}
		}()
		return f.marshal(v)
	}()
	if err != nil {
		f.encErr = err
		return reflect.Value{}, errEncoderRejected
	}
	f.text = b
	return f.inner.Decode(bytes.NewReader(b), typ)
}

func marshalJSON(v reflect.Value) ([]byte, error) { return json.Marshal(v.Addr().Interface()) }
func marshalYAML(v reflect.Value) ([]byte, error) { return yaml.Marshal(v.Addr().Interface()) }
func marshalTOML(v reflect.Value) ([]byte, error) { return tomlparser.Marshal(v.Addr().Interface()) }

var decoderChains = []string{"plain", "ez", "ez-snake", "anon", "textunmarshal", "yaml-flatten"}

func chainManglers(chain string) []transform.Mangler {
	switch chain {
	case "ez":
		return []transform.Mangler{transform.NewAliasMangler(common.DialsTagName), &transform.SetSliceMangler{}}
	case "ez-snake":
		return []transform.Mangler{transform.NewAliasMangler(common.DialsTagName),
			tagformat.NewTagReformattingMangler(common.DialsTagName, caseconversion.DecodeGoCamelCase, caseconversion.EncodeLowerSnakeCase),
			&transform.SetSliceMangler{}}
	case "anon":
		return []transform.Mangler{transform.AnonymousFlattenMangler{}}
	case "textunmarshal":
		return []transform.Mangler{&transform.TextUnmarshalerMangler{}}
	case "flatten":
		return []transform.Mangler{transform.DefaultFlattenMangler()}
	case "alias+flatten":
		return []transform.Mangler{transform.NewAliasMangler(common.DialsTagName), transform.DefaultFlattenMangler()}
	case "anon+ez-snake":
		return []transform.Mangler{transform.AnonymousFlattenMangler{}, transform.NewAliasMangler(common.DialsTagName),
			tagformat.NewTagReformattingMangler(common.DialsTagName, caseconversion.DecodeGoCamelCase, caseconversion.EncodeKebabCase),
			&transform.SetSliceMangler{}}
	case "setslice":
		return []transform.Mangler{&transform.SetSliceMangler{}}
	case "stringcast":
		return []transform.Mangler{&transform.StringCastingMangler{}}
	case "tagcopy":
		return []transform.Mangler{&tagformat.TagCopyingMangler{SrcTag: common.DialsTagName, NewTag: "json"}}
	case "durationsub":
		return []transform.Mangler{durationSubMangler}
	case "json-chain": // exactly what the JSON and Cue decoders run
		return []transform.Mangler{durationSubMangler, &tagformat.TagCopyingMangler{SrcTag: common.DialsTagName, NewTag: "json"}}
	}
	return nil
}

func runTypesDecoder(c TypesCase) vrt.Verdict {
	// ONE feeder, ONE real decoder value and ONE transforming decoder around
	// them serve every call of the case
	f := &feeder{}
	switch c.Source {
	// f.pre mirrors the name-only manglers the real decoder applies itself
	// (dials tag -> format tag), so that the encoder spells the keys the
	// decoder reads: dials-tagged fields and alias copies then really arrive
	case "json":
		f.inner, f.marshal = &jsondec.Decoder{}, marshalJSON
		f.pre = []transform.Mangler{&tagformat.TagCopyingMangler{SrcTag: common.DialsTagName, NewTag: "json"}}
	case "cue":
		f.inner, f.marshal = &cuedec.Decoder{}, marshalJSON
		f.pre = []transform.Mangler{&tagformat.TagCopyingMangler{SrcTag: common.DialsTagName, NewTag: "json"}}
	case "yaml":
		f.inner, f.marshal = &yamldec.Decoder{}, marshalYAML
		f.pre = []transform.Mangler{&tagformat.TagCopyingMangler{SrcTag: common.DialsTagName, NewTag: "yaml"}}
		if c.Chain == "yaml-flatten" {
			f.inner = &yamldec.Decoder{FlattenAnonymous: true}
			f.pre = append(f.pre, transform.AnonymousFlattenMangler{})
		}
	case "toml":
		f.inner, f.marshal = &tomldec.Decoder{}, marshalTOML
		f.pre = []transform.Mangler{&tagformat.TagCopyingMangler{SrcTag: common.DialsTagName, NewTag: "toml"}}
	default:
		return vrt.Discardf("unknown decoder %q", c.Source)
	}
	var dec dials.Decoder = f
	if ms := chainManglers(c.Chain); len(ms) > 0 && c.Chain != "yaml-flatten" {
		dec = sourcewrap.NewTransformingDecoder(f, ms...)
	}
	return runSeq(c, c.Source+" decoder value (chain "+c.Chain+")", func(sc TypesCase) (typesOutcome, *vrt.Verdict) { return decoderStep(f, dec, sc) })
}

func decoderStep(f *feeder, dec dials.Decoder, c TypesCase) (o typesOutcome, dv *vrt.Verdict) {
	_, pt, _, dv := buildCase(c)
	if dv != nil {
		return o, dv
	}
	f.ch = chooser{seed: c.Fill, salt: "feed", pct: c.SetPct}
	f.text, f.fed, f.nils, f.encErr = nil, 0, 0, nil
	var got reflect.Value
	var err error
	pi, hung := guard(fmt.Sprintf("%s decoder (chain %s) on %s", c.Source, c.Chain, pt), func() { got, err = dec.Decode(strings.NewReader(""), dials.NewType(pt)) })
	o.fed = f.fed
	what := fmt.Sprintf("%s decoder (chain %s) on %s with input %q", c.Source, c.Chain, pt, clipBytes(f.text))
	o.viol, o.isErr = judge(what, pi, hung, got, err, pt)
	if f.nils > 0 {
		o.labels = append(o.labels, "nil-elements-fed")
	}
	if f.encErr != nil && o.viol == nil {
		o.labels = append(o.labels, "encoder-rejected")
		o.fed = 0
	}
	if o.viol == nil && !o.isErr && countSet(got) > 0 {
		o.labels = append(o.labels, "fields-arrived")
	}
	return o, nil
}

// ---- mangler chains on their own ----------------------------------------------------

// durationSubMangler is the time.Duration -> jsontypes.ParsingDuration
// substitution the JSON and Cue decoders apply.
var durationSubMangler = func() transform.Mangler {
	m, err := transform.NewSingleTypeSubstitutionMangler[time.Duration, jsontypes.ParsingDuration]()
	if err != nil {
		panic(err)
	}
	return m
}()

var manglerChains = []string{"durationsub", "durationsub", "json-chain", "flatten", "alias+flatten", "anon", "setslice", "textunmarshal", "ez", "ez-snake", "anon+ez-snake", "tagcopy", "stringcast", "stringcast"}

// fillStringCast fills the value StringCastingMangler produced for pt: every
// field is a *string; the top-level leaves get the documented spelling of a
// seeded value of their ORIGINAL type (nested structs stay nil: without the
// flatten mangler the string caster has no spelling for them).
func fillStringCast(mv reflect.Value, pt reflect.Type, c chooser) int {
	n := 0
	for i := 0; i < mv.NumField() && i < pt.NumField(); i++ {
		of := pt.Field(i)
		if mv.Type().Field(i).Name != of.Name || mv.Field(i).Type() != reflect.TypeOf((*string)(nil)) {
			continue
		}
		if !isLeafType(of.Type) || !c.chosen(of.Name) {
			continue
		}
		val := shape.MakeValue(stripPointers(of.Type), c.value(of.Name), plain)
		txt, ok := renderText(val, textStyle{quoteStrings: c.value(of.Name)%2 == 0}, true)
		if !ok {
			txt = "1"
		}
		mv.Field(i).Set(reflect.ValueOf(&txt))
		n++
	}
	return n
}

func runTypesManglers(c TypesCase) vrt.Verdict {
	// the mangler VALUES are shared by the transformers of every call
	ms := chainManglers(c.Chain)
	if ms == nil {
		return vrt.Discardf("unknown chain %q", c.Chain)
	}
	return runSeq(c, "mangler values (chain "+c.Chain+")", func(sc TypesCase) (typesOutcome, *vrt.Verdict) { return manglerStep(ms, sc) })
}

func manglerStep(ms []transform.Mangler, c TypesCase) (o typesOutcome, dv *vrt.Verdict) {
	_, pt, _, dv := buildCase(c)
	if dv != nil {
		return o, dv
	}
	var got reflect.Value
	var err error
	stage := "Translate"
	pi, hung := guard(fmt.Sprintf("mangler chain %s on %s", c.Chain, pt), func() {
		tf := transform.NewTransformer(pt, ms...)
		var mv reflect.Value
		mv, err = tf.Translate()
		if err != nil {
			return
		}
		if c.Chain == "stringcast" {
			o.fed = fillStringCast(mv, pt, chooser{seed: c.Fill, salt: "feed", pct: c.SetPct})
		} else {
			nils := 0
			o.fed = fillGeneric(mv, "", chooser{seed: c.Fill, salt: "feed", pct: c.SetPct, nils: &nils})
			if nils > 0 {
				o.labels = append(o.labels, "nil-elements-fed")
			}
		}
		stage = "ReverseTranslate"
		got, err = tf.ReverseTranslate(mv)
	})
	what := fmt.Sprintf("mangler chain %s (%s) on %s", c.Chain, stage, pt)
	o.viol, o.isErr = judge(what, pi, hung, got, err, pt)
	if o.viol == nil && !o.isErr && countSet(got) > 0 {
		o.labels = append(o.labels, "fields-arrived")
	}
	return o, nil
}

// ---- generators and tests -------------------------------------------------------------

func genTypes(sources []string, chains []string) func(t *rapid.T) TypesCase {
	return func(t *rapid.T) TypesCase {
		c := TypesCase{Source: rapid.SampledFrom(sources).Draw(t, "source")}
		if len(chains) > 0 {
			c.Chain = rapid.SampledFrom(chains).Draw(t, "chain")
			if c.Chain == "yaml-flatten" && c.Source != "yaml" {
				c.Chain = "anon"
			}
		}
		behind := false
		if anyKnownFor(c.Source) {
			behind = rapid.Bool().Draw(t, "behind_known")
		}
		if rapid.IntRange(0, 5).Draw(t, "compiled") == 0 {
			// a compiler-made type with embedded shapes StructOf cannot build
			c.Compiled = rapid.SampledFrom(compiledTypes).Draw(t, "compiled_type").name
			c.Shape = shape.Shape{Fields: []shape.Field{}}
		} else {
			s := shape.Gen(t, typesProfile(c.Source, behind))
			c.Shape = makeFlatDistinct(s)
		}
		if c.Source != "flag" && c.Source != "pflag" && rapid.Bool().Draw(t, "reuse") {
			// object reuse: 1..2 more config types through the same values
			prof := typesProfile(c.Source, behind)
			n := rapid.IntRange(1, 2).Draw(t, "reuse_n")
			for i := 0; i < n; i++ {
				kind := rapid.SampledFrom([]string{"retag", "retag", "retag", "retype", "other", "other"}).Draw(t, "reuse_kind")
				if c.Compiled != "" {
					kind = "other"
				}
				var es shape.Shape
				switch kind {
				case "retag":
					es = retagShape(t, c.Shape)
				case "retype":
					es = retypeShape(t, c.Shape, prof.LeafTypes)
				default:
					es = makeFlatDistinct(shape.Gen(t, prof))
				}
				c.Extra = append(c.Extra, ExtraType{Kind: kind, Shape: es})
			}
			c.MainAt = rapid.IntRange(0, n).Draw(t, "main_at")
		}
		c.Fill = rapid.Uint64Range(1, 1<<48).Draw(t, "fill")
		c.SetPct = rapid.SampledFrom([]int{100, 100, 70, 70, 40, 0}).Draw(t, "set_pct")
		c.DefPct = rapid.SampledFrom([]int{0, 50, 100}).Draw(t, "def_pct")
		return c
	}
}

func cloneShape(s shape.Shape) shape.Shape {
	var out shape.Shape
	b, _ := json.Marshal(s)
	_ = json.Unmarshal(b, &out)
	return out
}

// retagShape returns the shape with the same field names and types but other
// struct tags (dials, dialsenv, format tags, none) on at least one field: Go
// considers the two struct types convertible, dials must not confuse them.
func retagShape(t *rapid.T, s shape.Shape) shape.Shape {
	c := cloneShape(s)
	n := 0
	var first *shape.Field
	changed := false
	var walk func(fs []shape.Field)
	walk = func(fs []shape.Field) {
		for i := range fs {
			f := &fs[i]
			if f.Kind == "skip" || f.Kind == "embed" || f.Kind == "pembed" {
				continue
			}
			n++
			if first == nil {
				first = f
			}
			words := strings.Join(f.Words, "_")
			if words == "" {
				words = strings.ToLower(f.Name)
			}
			old := f.Tag
			k := rapid.IntRange(0, 5).Draw(t, "retag_kind")
			if f.Kind != "leaf" && k == 2 {
				k = 1 // dialsenv only on leaves
			}
			switch k {
			case 0:
				f.Tag = ""
			case 1:
				f.Tag = fmt.Sprintf(`dials:"%s_r%d"`, words, n)
			case 2:
				f.Tag = fmt.Sprintf(`dialsenv:"R%d_%s"`, n, strings.ToUpper(words))
			case 3:
				f.Tag = fmt.Sprintf(`json:"j%d_%s" yaml:"y%d_%s" toml:"t%d_%s"`, n, words, n, words, n, words)
			case 4:
				f.Tag = fmt.Sprintf(`dials:"%s_r%d" dialsdesc:"retagged"`, words, n)
			}
			if f.Tag != old {
				changed = true
			}
			if f.Kind == "struct" || f.Kind == "pstruct" {
				walk(f.Fields)
			}
		}
	}
	walk(c.Fields)
	if !changed && first != nil {
		first.Tag = fmt.Sprintf(`dials:"%s_only_tag_differs"`, strings.ToLower(first.Name))
	}
	return c
}

// retypeShape returns the shape with the same names but other leaf types on
// about half of the leaves (at least one).
func retypeShape(t *rapid.T, s shape.Shape, leafTypes []string) shape.Shape {
	c := cloneShape(s)
	var first *shape.Field
	changed := false
	var walk func(fs []shape.Field)
	walk = func(fs []shape.Field) {
		for i := range fs {
			f := &fs[i]
			switch f.Kind {
			case "leaf":
				if first == nil {
					first = f
				}
				if rapid.Bool().Draw(t, "retype") {
					nt := rapid.SampledFrom(leafTypes).Draw(t, "retype_to")
					if nt != f.Type {
						f.Type, changed = nt, true
					}
				}
			case "struct", "pstruct":
				walk(f.Fields)
			}
		}
	}
	walk(c.Fields)
	if !changed && first != nil {
		if first.Type != "Names" {
			first.Type = "Names"
		} else {
			first.Type = "Level"
		}
	}
	return c
}

const typesRuleCommon = "config struct types from the shape grammar restricted to NAMED leaves: named scalars (Level, Count, Ratio, Flag, Name, Timeout, Color, Phase, Tiny, Big), named slices / maps / sets, " +
	"slices and maps whose element or key type is named, user-declared pointers to those (and to slices / maps, and pointers to pointers), collections of collections, text-unmarshalable leaves, uintptr-kind leaves (uintptr, Handle, pointers, slices, map values and map keys of them: every one is fed a well-formed number, the string-casting path must answer with an error), a few predeclared leaves for contrast; " +
	"nested, pointer-to-struct and embedded structs (EmbNamed, EmbPtr, EmbDeep, EmbA, EmbB, and EmbSlices / EmbSlicesTagged whose members are []Struct, [2]Struct, *Struct, map[string]Struct, []*Struct of a small dials-tagged struct; by value and by pointer; the members are left unset in a good share of cases: set_pct is 100, 70, 40 or 0), skipped fields in any position, occasional dials / dialsalias tags; depth<=2, <=6 fields per struct; root fields are renamed until all flattened leaf names are distinct. " +
	"One case in six uses, instead of a generated shape, one of 7 COMPILED config types with embedded shapes reflect.StructOf cannot build: time.Time embedded between ordinary fields, *Stamp embedded next to a method-less embedded struct, embedded structs with ordinary value / pointer methods (by value and by pointer), nested named structs that embed time.Time / a struct with methods, slices / arrays / maps whose element struct embeds time.Time, a method-less struct or a struct with methods, and all of them at once; non-trivial for these = at least one leaf fed. " +
	"OBJECT REUSE (env, the four decoders, the bare mangler chains; not the flag / pflag Sets, which are bound to one template): in half of the cases the SAME env.Source value / decoder value + transforming decoder / mangler values serve 2..3 calls in a row with different config types - " +
	"the main type (at a drawn position) plus 1..2 extra types that are a RETAG of it (same field names and types, other dials / dialsenv / json / yaml / toml tags or none: Go calls the two struct types convertible), a RETYPE (same names, other leaf types) or an unrelated shape - " +
	"and every call must return a value of exactly the type requested in THAT call, or an error. "

var typesAssumptions = []string{
	"flattened leaf names are distinct (the generator renames; a replayed case that violates this is discarded)",
	"reusing one source / decoder value for several config types is legal use: nothing in the Source / Decoder contract binds a value to a type (the flag and pflag Sets, which take a template at construction, are excluded)",
	"a panic of ptrify.Pointerify on the config type (the first thing dials.Config does) is reported as a violation keyed pointerify-panic",
	"interface-typed fields occur only in the flag / pflag checks (fields of type any and fmt.Stringer whose template default is nil, a pointer to a struct, or a struct value with scalar / named / nested / pointer members only); everywhere else the config type holds none",
	"about a third of the pointer-typed elements inside fed slices, arrays and maps are nil (a null inside a list or map is valid input wherever the format can spell it; an encoder that cannot, e.g. TOML, makes the case trivial)",
	"input is valid: every fed value is built from a seed with finite floats and plain strings and spelled in the source's documented syntax (or with the format's own encoder)",
	"while a root-cause key is listed as known in known_findings.json, half of the cases leave out the constructs that trigger it (label behind-known unnecessary: the shape itself shows it)",
}

func TestC16TypesEnv(t *testing.T) {
	vrt.Check(t, vrt.Prop[TypesCase]{
		ID: "C16", Name: "types-env",
		Rule: typesRuleCommon + "Every chosen leaf (set_pct of them) gets an environment variable (name derived with the source's own name-only mangler chain) holding the documented spelling of a seeded value; " +
			"oracle: env.Source.Value returns, without panic, either an error or a value of the pointerified type (or a pointer to it); " +
			"non-trivial = the type has a named non-scalar leaf (named collection / collection of named elements) and at least one variable was set; distinct = distinct case JSON",
		Assumptions: append([]string{"environment variables are restored after every case"}, typesAssumptions...),
		Gen:         genTypes([]string{"env"}, nil), Run: runTypesEnv,
	})
}

func TestC16TypesFlag(t *testing.T) {
	vrt.Check(t, vrt.Prop[TypesCase]{
		ID: "C16", Name: "types-flag",
		Rule: typesRuleCommon + "The std flag source is built from a template with seeded defaults (def_pct), then every chosen leaf that got a flag registered receives -name=<documented spelling of a seeded value> through the exported ParseFunc; " +
			"the leaf grammar of the flag and pflag checks also holds user types that parse their own flag text, top-level or nested: flag.Value WITHOUT Get (FVLevel uint8, FVName string, FVPoint struct - Set + String on the pointer, which is all flag.Value asks for), flag.Getter (FGLevel: Get returns the value, FGName: the pointer, FGPoint), pflag.Value (PVLevel, PVName, PVPoint: Set + String + Type, hence also flag.Values without Get), user pointers to them, and FVPlain (a struct with Set + String but no text methods, which dials flattens); " +
			"their flags are given (valid text; in a fifth of the cases text their own Set refuses) or omitted (set_pct); " +
			"interface-typed fields (any, fmt.Stringer) get a template default that is nil (a quarter), an IfaceScalars struct value (a quarter) or a pointer to IfaceImpl (half; members of every flag kind: scalars, duration, []string, []int32, complex, text types, time, map, named, nested struct, pointer, flag.Value): Pointerify devirtualises them, one flag per member is registered and given like any other; " +
			"the grammar holds EVERY leaf type the flag sources register: all scalar widths, float32, complex64, uintptr, time.Duration, time.Time, []string, every integral slice ([]int, []int8 .. []int64, []uint, []uint8 .. []uint64, []uintptr), map[string]string, map[string][]string, map[string]struct{}; the label given:<type> counts how often a flag of each type was actually passed; " +
			"oracle: NewSetWithArgs and Value return, without panic, either an error or a value of the pointerified type; " +
			"non-trivial = named non-scalar leaf present and at least one flag passed; distinct = distinct case JSON",
		Assumptions: typesAssumptions,
		Gen:         genTypes([]string{"flag"}, nil), Run: runTypesFlag,
	})
}

func TestC16TypesPflag(t *testing.T) {
	vrt.Check(t, vrt.Prop[TypesCase]{
		ID: "C16", Name: "types-pflag",
		Rule: typesRuleCommon + "As types-flag, for the pflag source (--name=value); " +
			"oracle: NewSetWithArgs and Value return, without panic, either an error or a value of the pointerified type; " +
			"non-trivial = named non-scalar leaf present and at least one flag passed; distinct = distinct case JSON",
		Assumptions: typesAssumptions,
		Gen:         genTypes([]string{"pflag"}, nil), Run: runTypesFlag,
	})
}

func TestC16TypesDecoders(t *testing.T) {
	vrt.Check(t, vrt.Prop[TypesCase]{
		ID: "C16", Name: "types-decoders",
		Rule: typesRuleCommon + "(plus arrays of named elements, slices / arrays / maps of structs - among them AliasElem, an element struct in which a field of every kind (scalars, strings, [2]int, [2]string, [2][2]int, slice, map, pointer, struct, pointer to struct, duration, named, text type) carries a dialsalias tag; the fed elements give the new name, the old name, neither or (a quarter) both -, and containers whose elements are pointers - []*time.Duration, map[string]*time.Duration, [2]*time.Duration, *[]time.Duration, []*int, map[string]*string, []*Level, []*Stamp, []DurRec ... - fed with nil elements in about a third of the slots; slices / arrays of an element struct with an unexported field ([]HidRec); the env / flag / pflag grammars also hold **Struct). Decoder uniform over json, yaml, toml, cue; chain uniform over none, the ez chains (alias + SetSlice, alias + tag reformatting + SetSlice), AnonymousFlatten, TextUnmarshaler, YAML FlattenAnonymous. " +
			"A harness decoder under the chain builds a seeded value of the type it is asked for, spells it with the format's own encoder and hands the text to the real decoder; " +
			"oracle: Decode returns, without panic, either an error or a value of the pointerified type; non-trivial = named non-scalar leaf present and at least one leaf spelled; distinct = distinct case JSON",
		Assumptions: append([]string{"a value the format's encoder refuses (e.g. complex numbers in JSON) counts as a trivial case (label encoder-rejected)"}, typesAssumptions...),
		Gen:         genTypes([]string{"json", "yaml", "toml", "cue"}, decoderChains), Run: runTypesDecoder,
	})
}

func TestC16TypesManglers(t *testing.T) {
	vrt.Check(t, vrt.Prop[TypesCase]{
		ID: "C16", Name: "types-manglers",
		Rule: typesRuleCommon + "(plus arrays of named elements, slices / arrays / maps of structs - among them AliasElem, an element struct in which a field of every kind (scalars, strings, [2]int, [2]string, [2][2]int, slice, map, pointer, struct, pointer to struct, duration, named, text type) carries a dialsalias tag; the fed elements give the new name, the old name, neither or (a quarter) both -, and containers whose elements are pointers - []*time.Duration, map[string]*time.Duration, [2]*time.Duration, *[]time.Duration, []*int, map[string]*string, []*Level, []*Stamp, []DurRec ... - fed with nil elements in about a third of the slots; slices / arrays of an element struct with an unexported field ([]HidRec); the env / flag / pflag grammars also hold **Struct). Chain drawn from the shipped manglers and chains (DefaultFlatten, alias + flatten, AnonymousFlatten, SetSlice, TextUnmarshaler, the two ez chains, AnonymousFlatten + ez, TagCopying, StringCasting on its own, the time.Duration -> ParsingDuration substitution alone and with TagCopying as the JSON / Cue decoders run it); " +
			"the pointerified type is translated, the mangled value filled leaf by leaf with seeded values of the mangled field types (StringCasting: with the documented spelling of a seeded value of the ORIGINAL leaf type), and translated back; " +
			"oracle: Translate and ReverseTranslate return, without panic, either an error or a value of the pointerified type; non-trivial = named non-scalar leaf present and at least one mangled leaf filled; distinct = distinct case JSON",
		Assumptions: typesAssumptions,
		Gen: func(t *rapid.T) TypesCase {
			c := genTypes([]string{"manglers"}, manglerChains)(t)
			return c
		},
		Run: runTypesManglers,
	})
}
