// Package ptotal holds the checks of property C16 (totality): no textual
// input and no supported config struct type makes a source, decoder, mangler
// or parser of dials panic or hang; every call returns a value of the
// requested type or an error.
//
// Text side: one target function per entry point (text_targets_test.go),
// driven both by native Go fuzzing (fuzz_test.go, FuzzC16*) and by rapid
// through vrt (text_rapid_test.go, TestC16Text*).
// Type side: generated config types whose leaves are user-defined named types
// (types_test.go, TestC16Types*).
package ptotal

import (
	"encoding/json"
	"fmt"
	"os"
	"path/filepath"
	"reflect"
	"regexp"
	"runtime/debug"
	"runtime/metrics"
	"strings"
	"sync"
	"sync/atomic"
	"time"

	"verifharness/internal/vrt"
)

// hangLimit is the ONLY use of wall-clock time in this package: a call that
// has not returned after this long is reported as a hang.  Slowness below the
// limit is never a failure.
const hangLimit = 20 * time.Second

// ---- known-defect switches --------------------------------------------------
//
// Root-cause keys of the genuine defects this property finds on the pinned
// tree.  While a key is NOT listed as "known" in known_findings.json
// (VERIF_KNOWN), the generators and seed corpora below include the triggering
// construct, so the checks fail on it (that is how the defect is re-found).
// Once main lists the key as known, knownDefect(key) turns true: seed corpora
// and fuzz type tables drop the construct, and the type generators draw it in
// only half of the cases, so the search continues behind the defect.
const (
	// parse.String returns *underlying for a named scalar type (e.g. *uint8
	// for `type Level uint8`); the flatten unmangler then panics in
	// reflect.Set (env source).
	keyNamedScalar = "named-scalar-set-panic"
	// same root cause, inside parse.String/parse.Map: reflect.Append /
	// SetMapIndex with an element of the underlying kind ([]Count,
	// map[string]Level).
	keyNamedElem = "named-elem-set-panic"
	// StringCastingMangler returns a slice/map VALUE for a user-declared
	// pointer to a slice/map (*[]string); flatten unmangle panics in Set.
	keyPtrCollection = "ptr-to-collection-set-panic"
	// parse.String calls .Elem() on the (non-pointer) result of parsing a
	// slice/map element: [][]string, []map[string]int.
	keyNestedCollection = "nested-collection-elem-panic"
	// std flag source: Value() strips one pointer level, registerFlags strips
	// all: **int reaches willOverflow with a pointer Value.
	keyFlagDoublePtr = "flag-double-pointer-overflow-panic"
	// std flag source: a TextUnmarshaler of slice or map kind (net.IP) is not
	// pointerified, the flag's Get() returns *net.IP, and Value() falls through
	// to fval.Convert(net.IP), which panics.
	keyFlagTextSlice = "flag-text-slice-convert-panic"
	// pflag source: same mismatch as keyFlagDoublePtr (registerFlags strips
	// every pointer level, Value() only one): **Count reaches
	// int32.Convert(*Count).
	keyPflagDoublePtr = "pflag-double-pointer-convert-panic"
	// std flag source: the complex flag helper's Get() returns *complex128;
	// for a named complex type no case matches and Value() calls
	// (*complex128).Convert(Phase).
	keyFlagNamedComplex = "flag-named-complex-convert-panic"
)

// The Cue decoder hands the file to cuelang.org/go's evaluator, which panics
// (strings.Repeat with a negative or overflowing count: `x: "a"*18446744073709551615`)
// and the panic escapes Decode.
const keyCuePanic = "cue-eval-panic"

// The TOML decoder hands the document to pelletier/go-toml v1, which panics
// (reflect.Value.Convert: string -> K) when a table is decoded into a map whose
// key kind is not string (map[int]string, map[uintptr]string, map[Handle]int);
// the panic escapes toml.Decoder.Decode.
const keyTomlMapKey = "toml-nonstring-map-key-panic"

// A slice or array whose element struct type has an unexported field: the
// transformer leaves an empty mapping entry for the unexported field
// (TranslateType `continue`s) and ReverseTranslate then calls Unmangle with no
// values for it -> index out of range in the mangler (elements are not
// pointerified, so the unexported field is still there).
const keyElemUnexported = "elem-unexported-field-panic"

// A user-declared pointer to a pointer to a struct (**Sub): Pointerify treats it
// as a leaf, the flatten mangler strips every pointer level and flattens it as
// a struct; env / flag / pflag then panic on the non-pointerified inner fields.
const keyPtrPtrStruct = "double-pointer-struct-panic"

// A call that allocates more than memLimit is stopped by ending the test
// process (see watchdog); on the pinned tree the Cue evaluator does that for
// `x: ["a"]*18446744073709551615` (it would also never return).
const keyMemory = "memory-blowup"

var allKeys = []string{keyCuePanic, keyTomlMapKey, keyMemory, "hang", keyElemUnexported, keyPtrPtrStruct, keyNamedScalar, keyNamedElem, keyPtrCollection, keyNestedCollection, keyFlagDoublePtr, keyFlagTextSlice, keyPflagDoublePtr, keyFlagNamedComplex}

var (
	knownOnce sync.Once
	knownSet  map[string]bool
)

// knownDefect reports whether key is listed as a known, unrepaired finding of
// C16 (the clearly named switch the brief asks for).
func knownDefect(key string) bool {
	knownOnce.Do(func() {
		knownSet = map[string]bool{}
		for _, k := range allKeys {
			if vrt.IsKnown("C16", k) {
				knownSet[k] = true
			}
		}
	})
	return knownSet[key]
}

// ---- guarded execution ------------------------------------------------------

type panicInfo struct {
	msg   string
	stack string
}

// memLimit bounds the live heap of the test process while a guarded call is
// running.  A goroutine cannot be killed, and the one known runaway input grows
// the heap by about 1 GiB/s, so waiting out hangLimit would take the machine
// down: the watchdog reports the violation and ends the process instead (the
// per-case journal names the input; a fail file is written as well).
const memLimit = 3 << 30

var (
	hangIn       sync.Map     // check name -> true: a call of that check hung; its later cases are skipped (the hung goroutine is still there), so the violation is reported at once and rapid does not pile up more of them while shrinking
	currentWhat  atomic.Value // string: description of the guarded call in flight
	currentCheck atomic.Value // string: "C16.<check name>" for the fail file
	currentCase  atomic.Value // []byte: JSON of the case in flight (vrt checks)
	watchdogOnce sync.Once
)

func startWatchdog() {
	watchdogOnce.Do(func() {
		go func() {
			sample := []metrics.Sample{{Name: "/memory/classes/heap/objects:bytes"}}
			for {
				time.Sleep(100 * time.Millisecond)
				metrics.Read(sample)
				if sample[0].Value.Kind() != metrics.KindUint64 || sample[0].Value.Uint64() < memLimit {
					continue
				}
				what, _ := currentWhat.Load().(string)
				msg := fmt.Sprintf("%s allocated more than %d MiB of live heap (%d MiB when stopped); the test process exits to protect the machine", what, memLimit>>20, sample[0].Value.Uint64()>>20)
				fmt.Fprintf(os.Stderr, "\nVIOLATION C16 [%s]: %s\n", keyMemory, msg)
				if out, check := os.Getenv("VERIF_OUT"), currentCheck.Load(); out != "" && check != nil {
					cs, _ := currentCase.Load().([]byte)
					fb, _ := json.MarshalIndent(vrt.SavedCase{Property: "C16", Check: strings.TrimPrefix(check.(string), "C16."), Msg: msg, Key: keyMemory, Case: cs}, "", " ")
					_ = os.WriteFile(filepath.Join(out, check.(string)+".fail.json"), fb, 0o644)
				}
				os.Exit(3)
			}
		}()
	})
}

// hungIn reports whether a call of the named check ("C16.text-x", "C16.types-x",
// "C16.fuzz-x") has hung in this process.
func hungIn(check string) bool {
	_, ok := hangIn.Load(check)
	return ok
}

// guard runs f on its own goroutine, converts a panic into a value and a
// missing return after hangLimit into hung=true.  what describes the call for
// the watchdog.
func guard(what string, f func()) (p *panicInfo, hung bool) {
	startWatchdog()
	currentWhat.Store(what)
	done := make(chan *panicInfo, 1)
	go func() {
		defer func() {
			if r := recover(); r != nil {
				st := string(debug.Stack())
				if len(st) > 5000 {
					st = st[:5000]
				}
				done <- &panicInfo{msg: fmt.Sprint(r), stack: st}
			}
		}()
		f()
		done <- nil
	}()
	tm := time.NewTimer(hangLimit)
	defer tm.Stop()
	select {
	case p = <-done:
		return p, false
	case <-tm.C:
		if ck, ok := currentCheck.Load().(string); ok {
			hangIn.Store(ck, true)
		}
		return nil, true
	}
}

var (
	reSet      = regexp.MustCompile(`reflect\.Set: value of type (\S+) is not assignable to type (\S+)`)
	reMapIndex = regexp.MustCompile(`reflect\.Value\.(?:Set)?MapIndex: value of type (\S+) is not assignable to type (\S+)`)
	reElem     = regexp.MustCompile(`call of reflect\.Value\.Elem on (slice|map) Value`)
	reOverflow = regexp.MustCompile(`call of reflect\.Value\.Overflow(Int|Uint|Float|Complex) on ptr Value`)
	reConvert  = regexp.MustCompile(`reflect\.Value\.Convert: value of type \*(\S+) cannot be converted to type (\S+)`)
)

// classifyPanic maps a panic message (and stack) to a root-cause key.
func classifyPanic(p *panicInfo) string {
	// the empty mapping entry of a skipped (unexported) element field reaches a
	// mangler's Unmangle with a zero StructField and no values: manglers index
	// vs[0] (index out of range) or use sf.Type (nil dereference)
	if (strings.Contains(p.msg, "index out of range [0] with length 0") || strings.Contains(p.msg, "nil pointer dereference")) &&
		strings.Contains(p.stack, "maybeRecursivelyUnmangle") && strings.Contains(p.stack, ".Unmangle(") {
		return keyElemUnexported
	}
	if strings.Contains(p.msg, "reflect: Elem of invalid type") && strings.Contains(p.stack, "StringCastingMangler") {
		return keyPtrPtrStruct
	}
	if strings.Contains(p.msg, "call of reflect.Value.IsNil on") && (strings.Contains(p.stack, "sources/flag.") || strings.Contains(p.stack, "sources/pflag.")) {
		return keyPtrPtrStruct
	}
	if m := reSet.FindStringSubmatch(p.msg); m != nil {
		src, dst := m[1], m[2]
		switch {
		case strings.HasPrefix(src, "*") && dst == "*"+src && strings.Contains(p.stack, "flatten_mangler"):
			return keyPtrPtrStruct
		case strings.HasPrefix(dst, "*") && !strings.HasPrefix(src, "*"):
			return keyPtrCollection
		case strings.Contains(p.stack, "reflect.Append"):
			return keyNamedElem
		case strings.HasPrefix(dst, "*") && strings.HasPrefix(src, "*"):
			return keyNamedScalar
		}
		return "set-not-assignable-panic"
	}
	if reMapIndex.MatchString(p.msg) {
		return keyNamedElem
	}
	if reElem.MatchString(p.msg) && strings.Contains(p.stack, "parse.String") {
		return keyNestedCollection
	}
	if reOverflow.MatchString(p.msg) && strings.Contains(p.stack, "sources/flag") {
		return keyFlagDoublePtr
	}
	if m := reConvert.FindStringSubmatch(p.msg); m != nil && m[1] == m[2] && strings.Contains(p.stack, "sources/flag.(*Set).Value") {
		return keyFlagTextSlice
	}
	if m := reConvert.FindStringSubmatch(p.msg); m != nil && strings.HasPrefix(m[1], "complex") && strings.Contains(p.stack, "sources/flag.(*Set).Value") {
		return keyFlagNamedComplex
	}
	if strings.Contains(p.msg, "reflect.Value.Convert: value of type") && strings.Contains(p.msg, "cannot be converted to type *") && strings.Contains(p.stack, "sources/pflag.(*Set).Value") {
		return keyPflagDoublePtr
	}
	if strings.Contains(p.msg, "reflect.Value.Convert: value of type string cannot be converted to type") && strings.Contains(p.stack, "pelletier/go-toml") {
		return keyTomlMapKey
	}
	if strings.Contains(p.stack, "cuelang.org/go") {
		return keyCuePanic
	}
	return "panic"
}

// violation is a failed oracle with a root-cause key.
type violation struct {
	key string
	msg string
}

func panicViolation(what string, p *panicInfo) *violation {
	return &violation{key: classifyPanic(p), msg: fmt.Sprintf("%s panicked: %s\n%s", what, p.msg, p.stack)}
}

func hangViolation(what string) *violation {
	return &violation{key: "hang", msg: fmt.Sprintf("%s did not return within %s", what, hangLimit)}
}

// checkSourceType applies the Source / Decoder contract as dials.Config and
// compose consume it: the returned reflect.Value is a value of the requested
// (pointerified) type or a pointer to one.
func checkSourceType(what string, got reflect.Value, want reflect.Type) *violation {
	if !got.IsValid() {
		return &violation{key: "invalid-value", msg: fmt.Sprintf("%s returned the zero reflect.Value with a nil error, want a value of type %s", what, want)}
	}
	gt := got.Type()
	if gt == want || gt == reflect.PointerTo(want) {
		if gt.Kind() == reflect.Pointer && got.IsNil() {
			return &violation{key: "nil-value", msg: fmt.Sprintf("%s returned a nil %s with a nil error", what, gt)}
		}
		return nil
	}
	return &violation{key: "wrong-type", msg: fmt.Sprintf("%s returned a value of type %s with a nil error, want %s or a pointer to it", what, gt, want)}
}
