package ptotal

import (
	"fmt"
	"net"
	"reflect"
	"time"

	"github.com/vimeo/dials"
	"github.com/vimeo/dials/ptrify"

	"verifharness/internal/shape"
)

// ---- named types this package adds to the harness vocabulary ----------------

// Phase is a named complex scalar.
type Phase complex128

// Tiny is a named float32.
type Tiny float32

// Big is a named uint64.
type Big uint64

// TagSet is a named string set.
type TagSet map[string]struct{}

// NameLists is a named map[string][]string.
type NameLists map[string][]string

// ByName is a map with a named key AND a named element.
type ByName map[shape.Name]shape.Level

// EmbNamed is an embeddable struct whose leaves are all named types.
type EmbNamed struct {
	EnLevel shape.Level
	EnName  shape.Name
	EnNames shape.Names
}

// EmbPtr is an embeddable struct with a user-declared pointer to a named
// scalar, a named map and a trailing unexported field.
type EmbPtr struct {
	EpLevel  *shape.Level
	EpLimits shape.Limits
	EpFlag   shape.Flag
	epHidden int
}

// EmbDeep is an embeddable struct that embeds another one.
type EmbDeep struct {
	EdCount shape.Count
	EdInner struct {
		Ratio shape.Ratio
		Wait  shape.Timeout
	}
}

// DurRec is a struct element with duration pointers, for slices and maps of
// structs (the transformer recurses into those).
type DurRec struct {
	Wait  *time.Duration
	Waits []*time.Duration
	Note  string
}

// Small is a small dials-tagged struct used as an element / pointee.
type Small struct {
	Host string         `dials:"host"`
	Port int            `dials:"port"`
	Wait *time.Duration `dials:"wait"`
}

// EmbSlices is an embeddable struct whose members are collections of structs
// and a pointer to a struct: under AnonymousFlatten its fields are hoisted into
// the parent, one source field mapping to several mangled fields.
type EmbSlices struct {
	EsList []Small
	EsPair [2]Small
	EsPtr  *Small
	EsMap  map[string]Small
	EsName shape.Name
}

// EmbSlicesTagged is the dials-tagged variant with slices of struct pointers.
type EmbSlicesTagged struct {
	EtList  []Small           `dials:"et_list"`
	EtPtrs  []*Small          `dials:"et_ptrs"`
	EtByKey map[string]*Small `dials:"et_by_key"`
	EtLevel shape.Level       `dials:"et_level"`
}

// HidRec is an element struct with an unexported field between exported ones.
type HidRec struct {
	A      int
	hidden int
	W      time.Duration
}

// AliasElem is an element struct (elements are not pointerified) in which a
// field of every supported kind - arrays included - carries a dialsalias tag.
type AliasElem struct {
	Num   int            `dials:"num" dialsalias:"num_old"`
	Text  string         `dials:"text" dialsalias:"text_old"`
	On    bool           `dials:"on" dialsalias:"on_old"`
	Rate  float64        `dials:"rate" dialsalias:"rate_old"`
	Pair  [2]int         `dials:"pair" dialsalias:"pair_old"`
	Names [2]string      `dials:"names" dialsalias:"names_old"`
	Grid  [2][2]int      `dials:"grid" dialsalias:"grid_old"`
	List  []string       `dials:"list" dialsalias:"list_old"`
	ByKey map[string]int `dials:"by_key" dialsalias:"by_key_old"`
	Ptr   *int           `dials:"ptr" dialsalias:"ptr_old"`
	Sub   Small          `dials:"sub" dialsalias:"sub_old"`
	PSub  *Small         `dials:"p_sub" dialsalias:"p_sub_old"`
	Wait  time.Duration  `dials:"wait" dialsalias:"wait_old"`
	Level shape.Level    `dials:"level" dialsalias:"level_old"`
	Color shape.Color    `dials:"color" dialsalias:"color_old"`
	Plain int            `dials:"plain"`
}

// EmbAliasElems embeds-able holder of such elements.
type EmbAliasElems struct {
	EaeList []AliasElem  `dials:"eae_list"`
	EaePair [2]AliasElem `dials:"eae_pair" dialsalias:"eae_pair_old"`
}

// IfaceImpl is the struct behind the pointer default of an interface-typed
// field: members of every kind the flag sources register.
type IfaceImpl struct {
	Host string
	Port int
	On   bool
	Rate float64
	Wait time.Duration
	Tags []string
	Nums []int32
	C    complex128
	Col  shape.Color
	When time.Time
	M    map[string]string
	Lvl  shape.Level
	In   struct {
		X int
		Y []string
	}
	P *int
	V FVLevel
}

func (i *IfaceImpl) String() string { return i.Host }

// IfaceScalars is the struct stored BY VALUE in an interface-typed field: a
// value in an interface is not addressable, so it only has members whose flag
// registration does not take their address.
type IfaceScalars struct {
	Host string
	Port int
	On   bool
	Rate float64
	Wait time.Duration
	Lvl  shape.Level
	In   struct{ X int }
	P    *int
}

func (i IfaceScalars) String() string { return i.Host }

// Handle is a named uintptr (a kind the flag sources and the decoders accept
// and the string-casting path does not).
type Handle uintptr

func init() {
	shape.RegisterBase("Handle", reflect.TypeOf(Handle(0)))
	shape.RegisterBase("any", reflect.TypeOf((*interface{})(nil)).Elem())
	shape.RegisterBase("Stringer", reflect.TypeOf((*fmt.Stringer)(nil)).Elem())
	shape.RegisterBase("AliasElem", reflect.TypeOf(AliasElem{}))
	shape.RegisterBase("EmbAliasElems", reflect.TypeOf(EmbAliasElems{}))
	shape.RegisterBase("map[uintptr]string", reflect.TypeOf(map[uintptr]string(nil)))
	shape.RegisterBase("map[Handle]int", reflect.TypeOf(map[Handle]int(nil)))
	shape.RegisterBase("Small", reflect.TypeOf(Small{}))
	shape.RegisterBase("EmbSlices", reflect.TypeOf(EmbSlices{}))
	shape.RegisterBase("EmbSlicesTagged", reflect.TypeOf(EmbSlicesTagged{}))
	shape.RegisterBase("HidRec", reflect.TypeOf(HidRec{}))
	shape.RegisterBase("DurRec", reflect.TypeOf(DurRec{}))
	shape.RegisterBase("Phase", reflect.TypeOf(Phase(0)))
	shape.RegisterBase("Tiny", reflect.TypeOf(Tiny(0)))
	shape.RegisterBase("Big", reflect.TypeOf(Big(0)))
	shape.RegisterBase("TagSet", reflect.TypeOf(TagSet(nil)))
	shape.RegisterBase("NameLists", reflect.TypeOf(NameLists(nil)))
	shape.RegisterBase("ByName", reflect.TypeOf(ByName(nil)))
	shape.RegisterBase("map[Name]string", reflect.TypeOf(map[shape.Name]string(nil)))
	shape.RegisterBase("map[Name]Level", reflect.TypeOf(map[shape.Name]shape.Level(nil)))
	shape.RegisterBase("EmbNamed", reflect.TypeOf(EmbNamed{}))
	shape.RegisterBase("EmbPtr", reflect.TypeOf(EmbPtr{}))
	shape.RegisterBase("EmbDeep", reflect.TypeOf(EmbDeep{}))
}

// ---- fixed config types of the text side ------------------------------------

// cfgDB is the config type the repository's own decoder tests use, so their
// literals are meaningful seeds.
type cfgDB struct {
	DatabaseName    string `dials:"database_name"`
	DatabaseAddress string `dials:"database_address"`
	DatabaseUser    struct {
		Username   string `dials:"username"`
		Password   string `dials:"password"`
		OtherStuff struct {
			Something   string        `dials:"something"`
			IPAddress   net.IP        `dials:"ip_address"`
			SomeTimeout time.Duration `dials:"some_timeout"`
		} `dials:"other_stuff"`
	} `dials:"database_user"`
	Val1 string
	Val2 int
}

// cfgFlat has one field of every predeclared leaf type the decoders and
// parsers document.
type cfgFlat struct {
	Name     string
	Port     int
	Small    int8
	Mid      int16
	Wide     int32
	Huge     int64
	UPort    uint
	USmall   uint8
	UMid     uint16
	UWide    uint32
	UHuge    uint64
	Ratio    float64
	Half     float32
	Enabled  bool
	Timeout  time.Duration
	Tags     []string
	Ports    []int
	Weights  []float64
	Switches []bool
	Waits    []time.Duration
	Limits   map[string]int
	Labels   map[string]string
	Set      map[string]struct{}
	Lists    map[string][]string
	DurMap   map[string]time.Duration
	When     time.Time
	IP       net.IP
	Blob     []byte
}

// cfgNested has nested, pointer, array, slice-of-struct and map-of-struct
// members and user-declared pointers.
type cfgNested struct {
	Server struct {
		Host string
		Port uint16
		TLS  *struct {
			Cert   string
			Verify bool
			Wait   *time.Duration
		}
	}
	Backends []struct {
		Name   string
		Weight int
		Wait   time.Duration
	}
	ByName map[string]struct {
		A int
		B []string
	}
	Ptr    *int
	PP     **string
	PSlice *[]string
	Arr    [3]int
	Matrix [][]float64
	Deep   struct {
		L1 struct {
			L2 struct {
				L3 struct {
					Leaf string
				}
			}
		}
	}
	hidden  int
	Skipped string `dials:"-"`
	Ch      chan int
	Fn      func()
}

// cfgNamed has named leaf types, text-unmarshalable types and embedded
// structs (by value and by pointer).
type cfgNamed struct {
	Level   shape.Level
	Count   shape.Count
	Ratio   shape.Ratio
	Flag    shape.Flag
	Name    shape.Name
	Timeout shape.Timeout
	Names   shape.Names
	Nums    shape.Nums
	Limits  shape.Limits
	Labels  shape.Labels
	Color   shape.Color
	Stamp   shape.Stamp
	PStamp  *shape.Stamp
	ByLevel map[string]shape.Level
	Counts  []shape.Count
	shape.EmbA
	*shape.EmbB
	Tagged string `dials:"tagged_name" json:"json_name" yaml:"yaml_name" toml:"toml_name"`
}

// cfgPtrElems has containers whose ELEMENTS are pointers: a document can then
// spell a null inside a list or map, which reaches the type-substituting and
// converting code with nil elements.
type cfgPtrElems struct {
	Timeouts   []*time.Duration
	ByTimeout  map[string]*time.Duration
	Pair       [2]*time.Duration
	PtrWaits   *[]time.Duration
	PtrPtr     **time.Duration
	Deep       map[string][]*time.Duration
	Ints       []*int
	Strs       map[string]*string
	Levels     []*shape.Level
	NamedWaits map[string]*shape.Timeout
	Stamps     []*shape.Stamp
	Colors     map[string]*shape.Color
	Recs       []DurRec
	RecByName  map[string]*DurRec
	PlainWait  time.Duration
	PtrWait    *time.Duration
	Waits      []time.Duration
}

// cfgEmbSlices embeds (by value and by pointer) structs whose members are
// collections of structs; most documents leave those collections absent.
type cfgEmbSlices struct {
	EmbSlices
	*EmbSlicesTagged
	Other  string
	Direct []Small
}

// ---- compiler-made config types with embedded shapes reflect.StructOf cannot build ----

// Common is an embeddable struct with an ordinary (non-text) VALUE method.
type Common struct {
	Host string
	Port int
}

// Addr is an ordinary method: it makes Common a "type with methods".
func (c Common) Addr() string { return c.Host }

// PtrCommon is an embeddable struct with an ordinary POINTER method.
type PtrCommon struct {
	Name  string
	Level shape.Level
}

// Reset is an ordinary pointer-receiver method.
func (p *PtrCommon) Reset() { *p = PtrCommon{} }

// cfgEmbTime embeds a text-unmarshalable struct between ordinary fields.
type cfgEmbTime struct {
	A int
	time.Time
	B string
}

// cfgEmbMixed embeds a text struct by pointer next to a method-less struct.
type cfgEmbMixed struct {
	X []string
	*shape.Stamp
	shape.EmbA
	Y int
}

// cfgEmbMethods embeds structs with ordinary methods, by value and by pointer.
type cfgEmbMethods struct {
	Common
	*PtrCommon
	Z shape.Name
}

// cfgEmbMethodsSwapped is the other way round.
type cfgEmbMethodsSwapped struct {
	Q int
	*Common
	PtrCommon
	Wait time.Duration
}

// TimedNested is a named struct that itself embeds time.Time (and thereby
// gets its UnmarshalText / UnmarshalJSON promoted).
type TimedNested struct {
	time.Time
	Note string
}

// CommonNested embeds a struct with ordinary methods and a text struct by value.
type CommonNested struct {
	Common
	shape.Stamp
	Extra []int
}

// cfgNestedEmbTime holds such structs as nested members, by value and by pointer.
type cfgNestedEmbTime struct {
	Inner  TimedNested
	PInner *TimedNested
	Deep   CommonNested
	PDeep  *CommonNested
	Other  int
}

// TimedElem / ElemEmb / ElemCommon are element structs with embedded members.
type TimedElem struct {
	time.Time
	Label string
}

type ElemEmb struct {
	shape.EmbA
	Extra int
	Wait  *time.Duration
}

type ElemCommon struct {
	*Common
	Tags []string
}

// cfgElemEmbTime has slices, arrays and maps whose element struct embeds
// time.Time, a method-less struct or a struct with methods.
type cfgElemEmbTime struct {
	Times   []TimedElem
	ByKey   map[string]TimedElem
	Ptrs    []*TimedElem
	Pair    [2]TimedElem
	Embs    []ElemEmb
	EmbMap  map[string]ElemEmb
	Commons []ElemCommon
	N       int
}

// cfgEmbAll embeds one of each at the root.
type cfgEmbAll struct {
	time.Time
	*shape.Stamp
	Common
	*PtrCommon
	shape.EmbB
	Direct []TimedElem
	Last   shape.Level
}

type compiledType struct {
	name string
	t    reflect.Type
}

// compiledTypes is append-only (cases name the types; decoderTypes stores indices).
var compiledTypes = []compiledType{
	{"cfgEmbTime", reflect.TypeOf(cfgEmbTime{})},
	{"cfgEmbMixed", reflect.TypeOf(cfgEmbMixed{})},
	{"cfgEmbMethods", reflect.TypeOf(cfgEmbMethods{})},
	{"cfgEmbMethodsSwapped", reflect.TypeOf(cfgEmbMethodsSwapped{})},
	{"cfgNestedEmbTime", reflect.TypeOf(cfgNestedEmbTime{})},
	{"cfgElemEmbTime", reflect.TypeOf(cfgElemEmbTime{})},
	{"cfgEmbAll", reflect.TypeOf(cfgEmbAll{})},
}

func compiledByName(name string) (reflect.Type, bool) {
	for _, c := range compiledTypes {
		if c.name == name {
			return c.t, true
		}
	}
	return nil, false
}

// pointerifySafe is Pointerify with a panic turned into an error: on trees
// where Pointerify cannot represent a type the checks report that as a
// violation instead of dying at package initialisation.
func pointerifySafe(t reflect.Type, tmpl reflect.Value) (pt reflect.Type, err error) {
	defer func() {
		if r := recover(); r != nil {
			err = fmt.Errorf("ptrify.Pointerify(%s) panicked: %v", t, r)
		}
	}()
	return ptrify.Pointerify(t, tmpl), nil
}

type fixedType struct {
	name   string
	t      reflect.Type
	pt     reflect.Type // pointerified
	ptrErr error        // Pointerify panicked (pt is nil)
}

func mkFixed(name string, zero any) fixedType {
	return mkFixedType(name, reflect.TypeOf(zero))
}

func mkFixedType(name string, t reflect.Type) fixedType {
	pt, err := pointerifySafe(t, reflect.New(t).Elem())
	return fixedType{name: name, t: t, pt: pt, ptrErr: err}
}

var decoderTypes = []fixedType{
	mkFixed("cfgDB", cfgDB{}),
	mkFixed("cfgFlat", cfgFlat{}),
	mkFixed("cfgNested", cfgNested{}),
	mkFixed("cfgNamed", cfgNamed{}),
	mkFixed("cfgPtrElems", cfgPtrElems{}),   // appended: selectors of older corpus cases keep their meaning modulo the old length only for sel < 4
	mkFixed("cfgEmbSlices", cfgEmbSlices{}), // index 5; the list is append-only (corpus cases store indices)
	// indices 6..12: the compiler-made embedded shapes
	mkFixedType(compiledTypes[0].name, compiledTypes[0].t),
	mkFixedType(compiledTypes[1].name, compiledTypes[1].t),
	mkFixedType(compiledTypes[2].name, compiledTypes[2].t),
	mkFixedType(compiledTypes[3].name, compiledTypes[3].t),
	mkFixedType(compiledTypes[4].name, compiledTypes[4].t),
	mkFixedType(compiledTypes[5].name, compiledTypes[5].t),
	mkFixedType(compiledTypes[6].name, compiledTypes[6].t),
}

// cfgEnv is the fixed type of the environment target: every predeclared type
// parse.String documents, nested and embedded members and a user pointer.
type cfgEnv struct {
	Str    string
	Flag   bool
	I      int
	I8     int8
	I16    int16
	I32    int32
	I64    int64
	U      uint
	U8     uint8
	U16    uint16
	U32    uint32
	U64    uint64
	F32    float32
	F64    float64
	C64    complex64
	C128   complex128
	Dur    time.Duration
	Strs   []string
	Ints   []int
	Floats []float64
	Bools  []bool
	Durs   []time.Duration
	Cplx   []complex128
	SS     map[string]string
	SI     map[string]int
	IB     map[int]bool
	FU     map[float64]uint8
	Lists  map[string][]string
	Set    map[string]struct{}
	PtrInt *int
	Nested struct {
		Inner string
		Deep  struct {
			N int8
		}
	}
	shape.EmbA
	JSONFilePath string
	Unsupported  [2]int
	When         time.Time
}

var envType = mkFixed("cfgEnv", cfgEnv{})

// cfgFlag is the fixed type of the flag / pflag targets.
type cfgFlag struct {
	Str    string
	Flag   bool
	I      int
	I8     int8
	I16    int16
	I32    int32
	I64    int64
	U      uint
	U8     uint8
	U16    uint16
	U32    uint32
	U64    uint64
	UP     uintptr
	F32    float32
	F64    float64
	C64    complex64
	C128   complex128
	Dur    time.Duration
	When   time.Time
	IP     net.IP
	Color  shape.Color
	Strs   []string
	Ints   []int
	I8s    []int8
	U16s   []uint16
	SS     map[string]string
	Lists  map[string][]string
	Set    map[string]struct{}
	PtrInt *int
	Nested struct {
		Inner string
		Deep  struct {
			N int8
		}
	}
	shape.EmbA
	Short string `dialspflagshort:"s"`
}

// flagType is cfgFlag; once the net.IP defect of the std flag source is listed
// as known, the IP field is left out so that the search continues behind it.
var flagType = func() fixedType {
	ft := mkFixed("cfgFlag", cfgFlag{})
	if !knownDefect(keyFlagTextSlice) {
		return ft
	}
	var fs []reflect.StructField
	for i := 0; i < ft.t.NumField(); i++ {
		if f := ft.t.Field(i); f.Name != "IP" {
			fs = append(fs, f)
		}
	}
	t := reflect.StructOf(fs)
	return fixedType{name: "cfgFlag-without-IP", t: t, pt: ptrify.Pointerify(t, reflect.New(t).Elem())}
}()

func dialsType(t reflect.Type) *dials.Type { return dials.NewType(t) }
