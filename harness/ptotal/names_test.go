package ptotal

import (
	"fmt"
	"reflect"
	"strings"

	"github.com/vimeo/dials/common"
	"github.com/vimeo/dials/tagformat"
	"github.com/vimeo/dials/tagformat/caseconversion"
	"github.com/vimeo/dials/transform"
)

// flatLeaf is one flattened leaf of a pointerified config type as a flattening
// source sees it.
type flatLeaf struct {
	Path string       // dotted Go field names from the root (embedded fields by type name)
	Name string       // environment variable / flag name
	Type reflect.Type // field type in the pointerified struct
}

// flatLeaves derives the names a flattening source gives to the leaves of pt
// by running the same (name-only) mangler chain the source runs.  It is used
// only to AIM valid input at the fields; the oracle never depends on it.  Any
// panic or error here is returned as an error: the source itself is then still
// called (with no input) so that the same failure is judged there.
func flatLeaves(pt reflect.Type, source string) (out []flatLeaf, err error) {
	defer func() {
		if r := recover(); r != nil {
			err = fmt.Errorf("name derivation panicked: %v", r)
		}
	}()
	var tfmr *transform.Transformer
	var nameTags []string
	switch source {
	case "env":
		tfmr = transform.NewTransformer(pt,
			transform.NewAliasMangler(common.DialsTagName, common.DialsEnvTagName),
			transform.NewFlattenMangler(common.DialsTagName, caseconversion.EncodeUpperCamelCase, caseconversion.EncodeUpperCamelCase),
			tagformat.NewTagReformattingMangler(common.DialsTagName, caseconversion.DecodeGoTags, caseconversion.EncodeUpperSnakeCase),
			&tagformat.TagCopyingMangler{SrcTag: common.DialsTagName, NewTag: common.DialsEnvTagName})
		nameTags = []string{common.DialsEnvTagName}
	case "flag":
		tfmr = transform.NewTransformer(pt,
			transform.NewAliasMangler(common.DialsTagName, common.DialsFlagTagName),
			transform.NewFlattenMangler(common.DialsTagName, caseconversion.EncodeUpperCamelCase, caseconversion.EncodeKebabCase))
		nameTags = []string{common.DialsFlagTagName, common.DialsTagName}
	case "pflag":
		tfmr = transform.NewTransformer(pt,
			transform.NewAliasMangler(common.DialsTagName, common.DialsPFlagTag, common.DialsPFlagShortTag),
			transform.NewFlattenMangler(common.DialsTagName, caseconversion.EncodeUpperCamelCase, caseconversion.EncodeKebabCase))
		nameTags = []string{common.DialsPFlagTag, common.DialsTagName}
	default:
		return nil, fmt.Errorf("unknown source %q", source)
	}
	mt, terr := tfmr.TranslateType()
	if terr != nil {
		return nil, terr
	}
	for i := 0; i < mt.NumField(); i++ {
		sf := mt.Field(i)
		name := ""
		for _, tg := range nameTags {
			if v, ok := sf.Tag.Lookup(tg); ok {
				name = v
				break
			}
		}
		fp := sf.Tag.Get("dialsfieldpath")
		if name == "" || name == "-" || fp == "" {
			continue
		}
		if strings.HasSuffix(sf.Name, "_alias9wr876rw3") {
			// the alias copy of a field: same path, other name
			out = append(out, flatLeaf{Path: strings.ReplaceAll(fp, ",", ".") + "#alias", Name: name, Type: sf.Type})
			continue
		}
		out = append(out, flatLeaf{Path: strings.ReplaceAll(fp, ",", "."), Name: name, Type: sf.Type})
	}
	return out, nil
}
