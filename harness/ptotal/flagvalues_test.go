package ptotal

import (
	"fmt"
	"reflect"
	"strconv"
	"strings"

	"verifharness/internal/shape"
)

// User leaf types that bring their own flag parsing.  registerFlags of the std
// flag source registers any leaf implementing flag.Value (Set + String) as it
// is; flag.Value does NOT require Get.  The pflag source does the same for
// pflag.Value (Set + String + Type).  All methods have pointer receivers, as
// flag values usually do.

func rejectText(s string) error {
	if strings.HasPrefix(s, "!") {
		return fmt.Errorf("value %q is not acceptable", s)
	}
	return nil
}

// ---- flag.Value WITHOUT Get ---------------------------------------------------

// FVLevel is a named scalar: Set + String only.
type FVLevel uint8

func (l *FVLevel) Set(s string) error {
	v, err := strconv.ParseUint(s, 10, 8)
	if err != nil {
		return err
	}
	*l = FVLevel(v)
	return nil
}

func (l *FVLevel) String() string {
	if l == nil {
		return ""
	}
	return strconv.FormatUint(uint64(*l), 10)
}

// FVName is a named string: Set + String only.
type FVName string

func (n *FVName) Set(s string) error {
	if err := rejectText(s); err != nil {
		return err
	}
	*n = FVName(s)
	return nil
}

func (n *FVName) String() string {
	if n == nil {
		return ""
	}
	return string(*n)
}

// FVPoint is a named struct: Set + String only; it is also a text
// (un)marshaler, which is what makes dials keep it as ONE leaf instead of
// flattening its members.
type FVPoint struct{ X, Y int }

func parsePoint(s string) (x, y int, err error) {
	a, b, ok := strings.Cut(s, ":")
	if !ok {
		return 0, 0, fmt.Errorf("point %q: want x:y", s)
	}
	if x, err = strconv.Atoi(a); err != nil {
		return 0, 0, err
	}
	y, err = strconv.Atoi(b)
	return x, y, err
}

func (p *FVPoint) Set(s string) (err error)     { p.X, p.Y, err = parsePoint(s); return err }
func (p *FVPoint) UnmarshalText(b []byte) error { return p.Set(string(b)) }
func (p FVPoint) MarshalText() ([]byte, error)  { return []byte(fmt.Sprintf("%d:%d", p.X, p.Y)), nil }
func (p *FVPoint) String() string {
	if p == nil {
		return ""
	}
	return fmt.Sprintf("%d:%d", p.X, p.Y)
}

// FVPlain is a named struct with Set + String and NO text methods: dials
// flattens it like any nested struct (its Set is never used).
type FVPlain struct{ Lo, Hi int }

func (p *FVPlain) Set(s string) (err error) { p.Lo, p.Hi, err = parsePoint(s); return err }
func (p *FVPlain) String() string {
	if p == nil {
		return ""
	}
	return fmt.Sprintf("%d:%d", p.Lo, p.Hi)
}

// ---- flag.Getter (WITH Get) -----------------------------------------------------

// FGLevel's Get returns the value.
type FGLevel uint8

func (l *FGLevel) Set(s string) error { return (*FVLevel)(l).Set(s) }
func (l *FGLevel) String() string     { return (*FVLevel)(l).String() }
func (l *FGLevel) Get() any           { return *l }

// FGName's Get returns the pointer.
type FGName string

func (n *FGName) Set(s string) error { return (*FVName)(n).Set(s) }
func (n *FGName) String() string     { return (*FVName)(n).String() }
func (n *FGName) Get() any           { return n }

// FGPoint is a struct Getter (and text type, see FVPoint); Get returns the value.
type FGPoint struct{ X, Y int }

func (p *FGPoint) Set(s string) (err error)     { p.X, p.Y, err = parsePoint(s); return err }
func (p *FGPoint) UnmarshalText(b []byte) error { return p.Set(string(b)) }
func (p FGPoint) MarshalText() ([]byte, error)  { return []byte(fmt.Sprintf("%d:%d", p.X, p.Y)), nil }
func (p *FGPoint) Get() any                     { return *p }
func (p *FGPoint) String() string {
	if p == nil {
		return ""
	}
	return fmt.Sprintf("%d:%d", p.X, p.Y)
}

// ---- pflag.Value (Set + String + Type; also a flag.Value without Get) --------------

// PVLevel is a named scalar pflag.Value.
type PVLevel uint8

func (l *PVLevel) Set(s string) error { return (*FVLevel)(l).Set(s) }
func (l *PVLevel) String() string     { return (*FVLevel)(l).String() }
func (l *PVLevel) Type() string       { return "pvlevel" }

// PVName is a named string pflag.Value.
type PVName string

func (n *PVName) Set(s string) error { return (*FVName)(n).Set(s) }
func (n *PVName) String() string     { return (*FVName)(n).String() }
func (n *PVName) Type() string       { return "pvname" }

// PVPoint is a struct pflag.Value (and text type).
type PVPoint struct{ X, Y int }

func (p *PVPoint) Set(s string) (err error)     { p.X, p.Y, err = parsePoint(s); return err }
func (p *PVPoint) UnmarshalText(b []byte) error { return p.Set(string(b)) }
func (p PVPoint) MarshalText() ([]byte, error)  { return []byte(fmt.Sprintf("%d:%d", p.X, p.Y)), nil }
func (p *PVPoint) Type() string                 { return "pvpoint" }
func (p *PVPoint) String() string {
	if p == nil {
		return ""
	}
	return fmt.Sprintf("%d:%d", p.X, p.Y)
}

func init() {
	shape.RegisterBase("FVLevel", reflect.TypeOf(FVLevel(0)))
	shape.RegisterBase("FVName", reflect.TypeOf(FVName("")))
	shape.RegisterBase("FVPoint", reflect.TypeOf(FVPoint{}))
	shape.RegisterBase("FVPlain", reflect.TypeOf(FVPlain{}))
	shape.RegisterBase("FGLevel", reflect.TypeOf(FGLevel(0)))
	shape.RegisterBase("FGName", reflect.TypeOf(FGName("")))
	shape.RegisterBase("FGPoint", reflect.TypeOf(FGPoint{}))
	shape.RegisterBase("PVLevel", reflect.TypeOf(PVLevel(0)))
	shape.RegisterBase("PVName", reflect.TypeOf(PVName("")))
	shape.RegisterBase("PVPoint", reflect.TypeOf(PVPoint{}))
}

// selfParsing reports whether values of t (or *t) parse their own flag text.
func selfParsing(t reflect.Type) bool {
	_, ok := reflect.PointerTo(t).MethodByName("Set")
	return ok
}

// flagValueLeaves are added to the leaf grammar of the flag and pflag checks.
var flagValueLeaves = []leafSpec{
	{expr: "FVLevel", w: 4, class: "flag-value-no-get"},
	{expr: "FVName", w: 3, class: "flag-value-no-get"},
	{expr: "FVPoint", w: 3, class: "flag-value-no-get"},
	{expr: "*FVLevel", w: 1, class: "flag-value-no-get"},
	{expr: "FVPlain", w: 1, class: "flag-value-plain-struct"},
	{expr: "FGLevel", w: 2, class: "flag-getter"},
	{expr: "FGName", w: 2, class: "flag-getter"},
	{expr: "FGPoint", w: 2, class: "flag-getter"},
	{expr: "PVLevel", w: 3, class: "pflag-value"},
	{expr: "PVName", w: 2, class: "pflag-value"},
	{expr: "PVPoint", w: 3, class: "pflag-value"},
	{expr: "*PVLevel", w: 1, class: "pflag-value"},
	// interface-typed fields (their template default decides what they become)
	{expr: "any", w: 14, class: "iface-field"},
	{expr: "Stringer", w: 10, class: "iface-field"},
}
