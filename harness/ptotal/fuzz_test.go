package ptotal

import (
	"fmt"
	"testing"
)

// The text-side targets.  nsel is the number of meaningful selector values
// (the selector is reduced modulo it).
var (
	tgtParseString = &textTarget{name: "parsestring", nsel: len(psTypes), run: runParseString, seeds: seedsParseString, alphabet: alphaCollections,
		structured: psStructured, hotSels: psUnsupported,
		selNames: func(s int) string { return psTypes[s%len(psTypes)].name }}
	tgtSplitters = &textTarget{name: "splitters", nsel: len(splitterNames), run: runSplitters, seeds: seedsSplitters, alphabet: alphaCollections,
		selNames: func(s int) string { return splitterNames[s%len(splitterNames)] }}
	tgtCase = &textTarget{name: "casedecoders", nsel: len(caseDecoders), run: runCaseDecoders, seeds: seedsCase, alphabet: alphaIdent, structured: identGen,
		selNames: func(s int) string { return caseDecoders[s%len(caseDecoders)].name }}
	tgtDuration = &textTarget{name: "parsingduration", nsel: 3, run: runParsingDuration, seeds: seedsDuration, alphabet: alphaJSON,
		selNames: func(s int) string { return fmt.Sprintf("mode%d", s%3) }}
	tgtJSON = &textTarget{name: "decodejson", nsel: len(decoderTypes), run: jsonTarget, seeds: mkSeeds(len(decoderTypes), docsJSON), alphabet: alphaJSON, structured: docGen("json"),
		selNames: func(s int) string { return decoderTypes[s%len(decoderTypes)].name }}
	tgtYAML = &textTarget{name: "decodeyaml", nsel: 2 * len(decoderTypes), run: yamlBoth, seeds: mkSeeds(2*len(decoderTypes), docsYAML), alphabet: alphaYAML, structured: docGen("yaml"),
		selNames: func(s int) string {
			return fmt.Sprintf("%s/flatten=%v", decoderTypes[s%len(decoderTypes)].name, (s/len(decoderTypes))%2 == 1)
		}}
	tgtTOML = &textTarget{name: "decodetoml", nsel: len(decoderTypes), run: tomlTarget, seeds: mkSeeds(len(decoderTypes), docsTOML), alphabet: alphaTOML, structured: docGen("toml"),
		selNames: func(s int) string { return decoderTypes[s%len(decoderTypes)].name }}
	tgtCue = &textTarget{name: "decodecue", nsel: len(decoderTypes), run: cueTarget, seeds: mkSeeds(len(decoderTypes), append(append(append([]string{}, docsCue...), docsJSON...), cuePanicDocs()...)), alphabet: alphaCue, structured: docGen("cue"),
		selNames: func(s int) string { return decoderTypes[s%len(decoderTypes)].name }}
	tgtEnv = &textTarget{name: "envvalue", nsel: len(envLeaves) + 3, run: runEnvValue, alphabet: alphaEnv,
		seeds:      append(mkSeeds(len(envLeaves)+1, seedsEnvValues), dynSeeds(len(envLeaves)+1, len(envLeaves)+2)...),
		hotSels:    []int{len(envLeaves) + 1, len(envLeaves) + 2},
		structured: sourceGen(nil, map[int]bool{len(envLeaves) + 1: true, len(envLeaves) + 2: true}, len(envLeaves)+3),
		selNames: func(s int) string {
			switch s % (len(envLeaves) + 3) {
			case len(envLeaves):
				return "all"
			case len(envLeaves) + 1:
				return "input-named field"
			case len(envLeaves) + 2:
				return "input-named dials tag"
			}
			return envLeaves[s%(len(envLeaves)+3)].Path
		}}
	tgtFlag = &textTarget{name: "flagargs", nsel: 3, run: runFlagArgs, alphabet: alphaFlag,
		seeds: append(mkSeeds(1, seedsFlagArgs), dynSeeds(1, 2)...), hotSels: []int{1, 2},
		structured: sourceGen(argsGen("flag"), map[int]bool{1: true, 2: true}, 3),
		selNames:   func(s int) string { return []string{"cfgFlag", "input-named field", "input-named dials tag"}[s%3] }}
	tgtPflag = &textTarget{name: "pflagargs", nsel: 3, run: runPflagArgs, alphabet: alphaFlag,
		seeds: append(mkSeeds(1, seedsPflagArgs), dynSeeds(1, 2)...), hotSels: []int{1, 2},
		structured: sourceGen(argsGen("pflag"), map[int]bool{1: true, 2: true}, 3),
		selNames:   func(s int) string { return []string{"cfgFlag", "input-named field", "input-named dials tag"}[s%3] }}
)

// dynSeeds are the identifier seeds of the input-named field / tag selectors.
func dynSeeds(nameSel, tagSel int) []textSeed {
	var out []textSeed
	for i, id := range append(append([]string{}, initialismRunSeeds...), "JSONFilePath", "HTTPSPort", "UserUID", "Port2ID", "some_tag", "kebab-tag", "A", "x", "_", "ÀÉ") {
		if i%2 == 0 || i >= len(initialismRunSeeds) {
			out = append(out, textSeed{nameSel, id})
		}
		if i%2 == 1 || i >= len(initialismRunSeeds) {
			out = append(out, textSeed{tagSel, id})
		}
	}
	return out
}

// hostileStride thins the (selector x hostile constant) cross product of the
// targets with many selectors; every constant still meets every selector class
// over a full cycle because the stride is coprime to the list length.
func addSeeds(f *testing.F, tg *textTarget, hostileStride int) {
	// The fuzzing engine replays every seed once per worker start-up
	// ("gathering baseline coverage", ~100/s), so the (selector x literal)
	// cross product is thinned to about a thousand entries; the rapid test
	// samples from the full product.
	seedStride := len(tg.seeds)/900 + 1
	for i, s := range tg.seeds {
		if (i+s.sel)%seedStride != 0 {
			continue
		}
		f.Add(uint8(s.sel), []byte(s.data))
	}
	k := 0
	for sel := 0; sel < tg.nsel; sel++ {
		for i, h := range hostile {
			if (i+sel)%hostileStride != 0 {
				continue
			}
			f.Add(uint8(sel), []byte(h))
			k++
		}
	}
}

func fuzzTarget(f *testing.F, tg *textTarget, hostileStride int, always ...textSeed) {
	addSeeds(f, tg, hostileStride)
	for _, s := range always {
		f.Add(uint8(s.sel), []byte(s.data))
	}
	f.Fuzz(func(t *testing.T, sel uint8, data []byte) {
		if hungIn("C16.fuzz-" + tg.name) {
			t.Skip("a call of this target hung earlier in this process (reported then); not piling up more hung goroutines")
		}
		currentCheck.Store("C16.fuzz-" + tg.name)
		r := tg.run(int(sel)%tg.nsel, data)
		if r.viol != nil {
			if knownDefect(r.viol.key) {
				t.Skipf("KNOWN-FINDING C16/%s: %s", r.viol.key, clipBytes([]byte(r.viol.msg)))
			}
			t.Fatalf("VIOLATION C16/%s [%s] selector %d (%s): %s", tg.name, r.viol.key, int(sel)%tg.nsel, tg.selNames(int(sel)%tg.nsel), r.viol.msg)
		}
	})
}

func FuzzC16ParseString(f *testing.F) {
	// the seeds that re-find the genuine defects are never thinned out
	var always []textSeed
	for i, p := range psTypes {
		if p.knownKey != "" {
			always = append(always, textSeed{i, "1"}, textSeed{i, "a:1"}, textSeed{i, "a,b"})
		}
	}
	fuzzTarget(f, tgtParseString, 24, always...)
}
func FuzzC16Splitters(f *testing.F)       { fuzzTarget(f, tgtSplitters, 6) }
func FuzzC16CaseDecoders(f *testing.F)    { fuzzTarget(f, tgtCase, 3) }
func FuzzC16ParsingDuration(f *testing.F) { fuzzTarget(f, tgtDuration, 1) }
func FuzzC16DecodeJSON(f *testing.F)      { fuzzTarget(f, tgtJSON, 2) }
func FuzzC16DecodeYAML(f *testing.F)      { fuzzTarget(f, tgtYAML, 3) }
func FuzzC16DecodeTOML(f *testing.F)      { fuzzTarget(f, tgtTOML, 2) }
func FuzzC16DecodeCue(f *testing.F)       { fuzzTarget(f, tgtCue, 2) }
func FuzzC16EnvValue(f *testing.F)        { fuzzTarget(f, tgtEnv, 12) }
func FuzzC16FlagArgs(f *testing.F) {
	fuzzTarget(f, tgtFlag, 1, textSeed{0, "-ip=10.0.0.1"})
}
func FuzzC16PflagArgs(f *testing.F) { fuzzTarget(f, tgtPflag, 1) }
