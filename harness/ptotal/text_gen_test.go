package ptotal

import (
	"encoding/json"
	"fmt"
	"math"
	"reflect"
	"sort"
	"strconv"
	"strings"

	"pgregory.net/rapid"

	"verifharness/internal/shape"
)

// ---- structured documents for the decoder targets ---------------------------
//
// Besides byte-level inputs, the decoder targets get documents that PARSE:
// 1..5 (key path, value) pairs, key paths taken from the fixed config type
// (Go name, lower-cased name or dials tag per element), values from a pool of
// well- and ill-fitting values.  These reach the code behind the third-party
// parser: ParsingDuration, ReverseTranslate, the final Convert.

type keyElem struct {
	Name string
	Tag  string
}

func keyPathsOf(t reflect.Type, prefix []keyElem, depth int, out *[][]keyElem) {
	for t.Kind() == reflect.Pointer {
		t = t.Elem()
	}
	// a root config type that embeds time.Time has UnmarshalText promoted to
	// it: it is still a config struct, not a text leaf
	if t.Kind() != reflect.Struct || (depth > 0 && shape.IsTextStruct(t)) || depth > 4 {
		return
	}
	for i := 0; i < t.NumField(); i++ {
		sf := t.Field(i)
		if !sf.IsExported() {
			continue
		}
		e := keyElem{Name: sf.Name, Tag: sf.Tag.Get("dials")}
		p := append(append([]keyElem{}, prefix...), e)
		*out = append(*out, p)
		keyPathsOf(sf.Type, p, depth+1, out)
		if sf.Anonymous {
			// promoted form
			keyPathsOf(sf.Type, prefix, depth+1, out)
		}
	}
}

var decoderKeyPaths = func() [][][]keyElem {
	out := make([][][]keyElem, len(decoderTypes))
	for i, ft := range decoderTypes {
		keyPathsOf(ft.t, nil, 0, &out[i])
	}
	return out
}()

var docValues = []any{
	0, 1, -1, 42, 127, 128, 255, 256, 65535, 65536, -129, int64(1) << 40, int64(math.MaxInt64), uint64(math.MaxUint64), int64(math.MinInt64),
	1.5, -0.5, 1e30, 1e300, true, false,
	"", "x", "something", "1s", "13s", "-1h", "1", "true", "#fff", "fff", "1.2-x", "x-y", "10.0.0.1", "::1", "999.1.1.1", "2020-01-02T03:04:05Z", "aGVsbG8=",
	nil, []any{}, []any{1, 2}, []any{1, 2, 3}, []any{1, 2, 3, 4}, []any{"a", "b"}, []any{"1s", 2}, []any{[]any{1.5}, []any{}}, []any{nil}, []any{true, false},
	[]any{map[string]any{"Name": "a", "Weight": 1, "Wait": "2s"}, map[string]any{}}, []any{map[string]any{"name": "a", "wait": 3}},
	map[string]any{}, map[string]any{"a": 1}, map[string]any{"a": "b"}, map[string]any{"a": []any{"b", "c"}}, map[string]any{"a": map[string]any{}},
	map[string]any{"a": map[string]any{"A": 1, "B": []any{"y"}}}, map[string]any{"a": "1s", "b": 2}, map[string]any{"a": nil}, map[string]any{"": 1}, map[string]any{"a": 256},
	map[string]any{"Major": 1, "Minor": 2, "Note": "n"}, map[string]any{"Cert": "c", "Verify": true, "Wait": "1s"},
	// nulls INSIDE lists and maps, mixed with durations spelled as strings and as integers
	[]any{"3s", nil, 1000}, []any{nil, "1m"}, []any{nil, nil}, []any{1, nil, 3}, []any{"a", nil}, []any{nil, "1.2-x"}, []any{nil, "#fff"}, []any{[]any{"1s", nil}, nil},
	map[string]any{"a": "1s", "b": nil, "c": 5}, map[string]any{"a": nil, "b": nil}, map[string]any{"a": []any{nil, "2s", 7}}, map[string]any{"a": nil, "b": "x"}, map[string]any{"a": 1, "b": nil},
	[]any{map[string]any{"Wait": nil, "Waits": []any{nil, "1s", 2}, "Note": "n"}, nil}, map[string]any{"a": map[string]any{"Wait": "1s", "Waits": []any{nil}}, "b": nil},
	[]any{nil, 1000, "3s"}, []any{1.5, nil}, []any{"x", nil, "3s"},
}

func drawDoc(t *rapid.T, typeIdx int, format string) []byte {
	paths := decoderKeyPaths[typeIdx]
	root := map[string]any{}
	n := rapid.IntRange(1, 5).Draw(t, "doc_pairs")
	for i := 0; i < n; i++ {
		p := rapid.SampledFrom(paths).Draw(t, "doc_path")
		v := rapid.SampledFrom(docValues).Draw(t, "doc_val")
		style := rapid.IntRange(0, 3).Draw(t, "doc_keystyle")
		m := root
		for j, e := range p {
			k := e.Name
			switch {
			case style == 1 || (format == "yaml" && style == 0):
				k = strings.ToLower(e.Name)
			case style >= 2 && e.Tag != "" && e.Tag != "-":
				k = e.Tag
			}
			if j == len(p)-1 {
				m[k] = cloneDocValue(v)
				break
			}
			next, ok := m[k].(map[string]any)
			if !ok {
				next = map[string]any{}
				m[k] = next
			}
			m = next
		}
	}
	if format == "toml" {
		return []byte(renderTOML(root))
	}
	b, err := json.Marshal(root)
	if err != nil {
		return []byte("{}")
	}
	return b
}

// cloneDocValue copies a pool value so that documents never share (or
// mutate) the pool's maps and slices.
func cloneDocValue(v any) any {
	switch x := v.(type) {
	case []any:
		out := make([]any, len(x))
		for i, e := range x {
			out[i] = cloneDocValue(e)
		}
		return out
	case map[string]any:
		out := make(map[string]any, len(x))
		for k, e := range x {
			out[k] = cloneDocValue(e)
		}
		return out
	}
	return v
}

func tomlKey(k string) string {
	if k == "" {
		return `""`
	}
	for _, r := range k {
		if !(r == '_' || r == '-' || (r >= '0' && r <= '9') || (r >= 'a' && r <= 'z') || (r >= 'A' && r <= 'Z')) {
			return strconv.Quote(k)
		}
	}
	return k
}

func tomlValue(v any) (string, bool) {
	switch x := v.(type) {
	case nil:
		return "", false
	case string:
		if len(x) == 20 && x[10] == 'T' {
			return x, true // a datetime literal
		}
		return strconv.Quote(x), true
	case bool, int, int64, uint64:
		return fmt.Sprint(x), true
	case float64:
		return strconv.FormatFloat(x, 'g', -1, 64), true
	case []any:
		parts := []string{}
		for _, e := range x {
			if s, ok := tomlValue(e); ok {
				parts = append(parts, s)
			}
		}
		return "[" + strings.Join(parts, ", ") + "]", true
	case map[string]any:
		ks := make([]string, 0, len(x))
		for k := range x {
			ks = append(ks, k)
		}
		sort.Strings(ks)
		parts := []string{}
		for _, k := range ks {
			if s, ok := tomlValue(x[k]); ok {
				parts = append(parts, tomlKey(k)+" = "+s)
			}
		}
		return "{" + strings.Join(parts, ", ") + "}", true
	}
	return "", false
}

func renderTOML(root map[string]any) string {
	ks := make([]string, 0, len(root))
	for k := range root {
		ks = append(ks, k)
	}
	sort.Strings(ks)
	var b strings.Builder
	for _, k := range ks {
		if s, ok := tomlValue(root[k]); ok {
			b.WriteString(tomlKey(k) + " = " + s + "\n")
		}
	}
	return b.String()
}

func docGen(format string) func(t *rapid.T, sel int) []byte {
	return func(t *rapid.T, sel int) []byte {
		return drawDoc(t, sel%len(decoderTypes), format)
	}
}

// ---- structured argument vectors for the flag targets -----------------------

var flagValuePool = []string{
	"a", "", "1", "-1", "0", "127", "128", "255", "256", "65535", "65536", "40000", "-32769", "2147483648", "4294967296", "9223372036854775808", "18446744073709551616", "0x10", "1_0", "+1",
	"1.5", "1e39", "1e400", "NaN", "Inf", "(1+2i)", "1+2i", "i", "1e39+1e39i", "true", "false", "maybe", "10s", "1h2m", "10", "-5s", "2020-01-02T03:04:05Z", "now", "10.0.0.1", "::1", "x.y", "#fff", "fff",
	"a,b", "\"a,b\",c", "\"", "a\"b", "1,2", "1, 2", "1,x", ",", "127,-128", "a:b", "a:b,c:d", "a:b,a:c", "a", ":", "a:", "\"k\":\"v\"", "a=b", "\x00", "\xff", " ",
}

func flagNames(source string) []string {
	ls, _ := flatLeaves(flagType.pt, source)
	var out []string
	for _, l := range ls {
		out = append(out, l.Name)
	}
	out = append(out, "h", "help", "unknown", "s", "", "-")
	return out
}

func argsGen(source string) func(t *rapid.T, sel int) []byte {
	names := flagNames(source)
	return func(t *rapid.T, sel int) []byte {
		n := rapid.IntRange(1, 5).Draw(t, "nargs")
		var args []string
		for i := 0; i < n; i++ {
			dash := rapid.SampledFrom([]string{"-", "--", "--", "-", ""}).Draw(t, "dash")
			if source == "pflag" && dash == "-" && rapid.Bool().Draw(t, "pflag_long") {
				dash = "--"
			}
			name := rapid.SampledFrom(names).Draw(t, "flagname")
			val := rapid.SampledFrom(flagValuePool).Draw(t, "flagval")
			if rapid.IntRange(0, 5).Draw(t, "val_hostile") == 0 {
				val = rapid.SampledFrom(hostile).Draw(t, "flagval_h")
				if len(val) > 200 {
					val = val[:200]
				}
				val = strings.ReplaceAll(val, "\n", " ")
			}
			switch rapid.IntRange(0, 5).Draw(t, "argform") {
			case 0:
				args = append(args, dash+name)
			case 1:
				args = append(args, dash+name, val)
			default:
				args = append(args, dash+name+"="+val)
			}
		}
		return []byte(strings.Join(args, "\n"))
	}
}

// ---- identifiers made of long runs of initialisms ------------------------------
//
// An all-caps identifier that is a run of 10..40 golint initialisms followed by
// a short non-initialism tail makes the initialism splitter backtrack; the
// splitter must stay (near-)linear on it.

var runInitialisms = []string{"ID", "UID", "UI", "HTTP", "HTTPS", "API", "URL", "UUID", "IP", "DNS", "SSH", "TLS", "TTL", "XSS", "XSRF", "UTF8", "VM", "QPS", "CPU", "EOF"}

func initialismRun(k int, same bool, pick func(i int) string) string {
	var b strings.Builder
	first := pick(0)
	for i := 0; i < k; i++ {
		if same {
			b.WriteString(first)
		} else {
			b.WriteString(pick(i))
		}
	}
	return b.String()
}

func drawIdent(t *rapid.T) []byte {
	if rapid.IntRange(0, 3).Draw(t, "ident_plain") == 0 {
		return []byte(rapid.SampledFrom(seedsCase).Draw(t, "ident_seed").data)
	}
	k := rapid.IntRange(10, 40).Draw(t, "run_k")
	same := rapid.Bool().Draw(t, "run_same")
	run := initialismRun(k, same, func(i int) string { return rapid.SampledFrom(runInitialisms).Draw(t, "run_init") })
	tail := rapid.SampledFrom([]string{"X", "Q", "Zz", "", "X", "Q", "QX", "x", "9"}).Draw(t, "run_tail")
	id := run + tail
	switch rapid.IntRange(0, 7).Draw(t, "run_ctx") {
	case 0:
		id = "foo" + id
	case 1:
		id = "Foo" + id
	case 2:
		id = "a_" + id
	case 3:
		id = "a-" + id
	case 4:
		id = id + "_b"
	case 5:
		id = "Port" + id + "Max"
	}
	if rapid.IntRange(0, 9).Draw(t, "run_lower") == 0 {
		id = strings.ToLower(id)
	}
	return []byte(id)
}

func identGen(t *rapid.T, sel int) []byte { return drawIdent(t) }

// sourceGen draws argument vectors / values for the fixed-type selectors and
// identifiers for the input-named selectors (dyn lists those).
func sourceGen(fixed func(t *rapid.T, sel int) []byte, dyn map[int]bool, nsel int) func(t *rapid.T, sel int) []byte {
	return func(t *rapid.T, sel int) []byte {
		if dyn[sel%nsel] {
			return drawIdent(t)
		}
		if fixed != nil {
			return fixed(t, sel)
		}
		return []byte(rapid.SampledFrom(seedsEnvValues).Draw(t, "envval"))
	}
}
